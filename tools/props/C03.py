"""C03 — measurements follow the Born rule and are reported consistently.

Tie between the Lean model (lean/QV/Model/Measure.lean, driven through lean/DriverC03.lean)
and the real qibo code, with randomness as an input: the real NumpyBackend is subclassed so
that `sample_shots` (the only random primitive used for measurements) returns draws chosen by
the harness, and `np.random.shuffle` is replaced by a recorded permutation of the sorted array.

Suites
  probs     calculate_probabilities / _density_matrix / QuantumState.probabilities /
            CircuitResult.probabilities for every ordered qubit list (n<=4 exhaustive)
  bits      samples_to_binary / samples_to_decimal / calculate_frequencies / sample_frequencies
  views     MeasurementOutcomes.samples / frequencies (binary, registers) and per-gate
            MeasurementResult accessors as a state machine over accessor histories
  collapse  collapse_state / collapse_density_matrix, collapsing M (recorded bit order),
            circuits with mid-circuit collapse, conditioned gates, repeated execution
  add       Circuit.add measurement bookkeeping (register names, duplicate rejection, terminal ->
            collapsing conversion, measurement_tuples) against QV/Model/CircuitAdd.lean and a python SPEC
  repeated  execute_circuit_repeated: reported rows, per-gate samples, frequencies, sampler call
            count and the probabilities given to the sampler at every draw (QV/Model/Repeated.lean)
  probh     probabilities(qs) in permuted orders mixed with samples()/frequencies() on results
            without a final state (noise / collapse / samples=) (QV/Model/MeasureProbs.lean)
  batching  sample_frequencies at exact multiples of SHOT_BATCH_SIZE, patched and TRUE constant
  search    unpatched sampler: support, sums, histogram consistency (direct property search)
  bitflip…  tools/props/C03_bitflip.py: bit-flip readout noise (gates.M p0/p1 forms, apply_bitflips with the
            uniform numbers forced, noisy accessor histories, repeated execution), results holding
            frequencies only, gates with parameters in measurement symbols, on_qubits / real-sampler searches
            (QV/Model/Bitflip.lean, QOp.pgate of QV/Model/Repeated.lean)
  scale     tools/props/C03_scale.py: collapse_state / collapse_density_matrix and collapsing circuits on
            9-12 qubits (measured subsets of every size, unmeasured qubits >= 8, distinct per-qubit states)
  handles   tools/props/C03_handles.py: registers of measurements moved with on_qubits / routers (shared result
            objects), gate-level accessors of collapsing measurements, register names after dump/load
"""
from __future__ import annotations

import itertools

import numpy as np

from vlib.driver import gi_tokens, parse_gi, run_driver
from vlib.proofs import build_and_audit, registry

PROP = "C03"
DRIVER = "DriverC03.lean"

# ---------------------------------------------------------------------------
# harness shared verbatim by the check and by every replay snippet

HARNESS_SRC = r'''
import collections
import numpy as np
from qibo import Circuit, gates
from qibo.backends import NumpyBackend


class OracleBackend(NumpyBackend):
    """the real numpy backend; `sample_shots` (the only random primitive used by the
    measurement code) returns draws supplied by `chooser(probabilities, nshots)`."""

    def __init__(self, chooser):
        super().__init__()
        self.chooser = chooser
        self.calls = []
        self.asked = []

    def sample_shots(self, probabilities, nshots):
        p = np.asarray(probabilities, dtype=float).ravel()
        out = [int(x) for x in self.chooser(p, int(nshots))]
        self.calls.append(out)
        self.asked.append(p.copy())
        return np.array(out, dtype=np.int64)


class Tape:
    """chooser that replays recorded draws."""

    def __init__(self, tape):
        self.tape = [list(t) for t in tape]
        self.i = 0

    def __call__(self, p, n):
        t = self.tape[self.i] if self.i < len(self.tape) else []
        self.i += 1
        t = list(t)[:n]
        t = t + [int(np.argmax(p))] * (n - len(t))
        # a recorded draw that is impossible for the probabilities at hand is replaced by a possible one
        return [x if 0 <= x < len(p) and p[x] > 1e-12 * p.sum() else int(np.argmax(p)) for x in t]


class FixedShuffle:
    """np.random.shuffle := sort, then the permutation given by permfn(length)."""

    def __init__(self, permfn):
        self.permfn = permfn
        self.perms = []

    def __enter__(self):
        self.old = np.random.shuffle
        np.random.shuffle = self.sh
        return self

    def __exit__(self, *a):
        np.random.shuffle = self.old

    def sh(self, a):
        perm = list(self.permfn(len(a)))
        self.perms.append(perm)
        a[:] = np.sort(a)[perm]


def _ints(x):
    a = np.asarray(x)
    if a.size and not np.all(np.equal(np.mod(a, 1), 0)):
        raise ValueError("non-integer samples")
    return [int(v) for v in a.reshape(-1)]


def _dense(counter, k, binary):
    if not isinstance(counter, collections.Counter) and not isinstance(counter, dict):
        raise ValueError("not a counter: %r" % type(counter))
    out = [0] * (2 ** k)
    for key, v in counter.items():
        if binary:
            if not isinstance(key, str) or len(key) != k or set(key) - {"0", "1"}:
                raise ValueError("bad binary key %r" % (key,))
            idx = int(key, 2)
        else:
            if isinstance(key, (str, bytes)) or int(key) != key or not (0 <= int(key) < 2 ** k):
                raise ValueError("bad decimal key %r" % (key,))
            idx = int(key)
        if int(v) != v or v <= 0:
            raise ValueError("bad count %r" % (v,))
        out[idx] += int(v)
    return out


def _s(l):
    return " ".join(str(int(v)) for v in l)


def canon(op, out, regs, names, nshots):
    """canonical string of one accessor answer (same format as DriverC03 VIEWS)."""
    k = sum(len(r) for r in regs)
    try:
        kind = op[0]
        if kind == "samples":
            _, b, r = op
            if r:
                if not isinstance(out, dict) or list(out.keys()) != list(names):
                    return "malformed: register keys %r" % (list(out.keys()) if isinstance(out, dict) else type(out),)
                parts = []
                for nm, reg in zip(names, regs):
                    a = np.asarray(out[nm])
                    want = (nshots, len(reg)) if b else (nshots,)
                    if a.shape != want:
                        return "malformed: shape %r" % (a.shape,)
                    parts.append(_s(_ints(a)))
                return " ; ".join(parts)
            a = np.asarray(out)
            want = (nshots, k) if b else (nshots,)
            if a.shape != want:
                return "malformed: shape %r" % (a.shape,)
            return _s(_ints(a))
        if kind == "freqs":
            _, b, r = op
            if r:
                if not isinstance(out, dict) or isinstance(out, collections.Counter) or list(out.keys()) != list(names):
                    return "malformed: register keys %r" % (list(out.keys())[:4] if isinstance(out, dict) else type(out),)
                return " ; ".join(_s(_dense(out[nm], len(reg), b)) for nm, reg in zip(names, regs))
            return _s(_dense(out, k, b))
        if kind == "rsamples":
            _, i, b = op
            a = np.asarray(out)
            want = (nshots, len(regs[i])) if b else (nshots,)
            if a.shape != want:
                return "malformed: shape %r" % (a.shape,)
            return _s(_ints(a))
        if kind == "rfreqs":
            _, i, b = op
            return _s(_dense(out, len(regs[i]), b))
    except ValueError as e:
        return "malformed: %s" % e
    return "malformed: op"


def call_op(op, result, handles):
    kind = op[0]
    if kind == "samples":
        return result.samples(binary=op[1], registers=op[2])
    if kind == "freqs":
        return result.frequencies(binary=op[1], registers=op[2])
    if kind == "rsamples":
        return handles[op[1]].samples(binary=op[2])
    if kind == "rfreqs":
        return handles[op[1]].frequencies(binary=op[2])
    if kind == "probs":
        return result.probabilities(op[1])
    raise ValueError(op)


def born_np(psi, n, qs):
    """numpy SPEC of the Born marginal in the given qubit order."""
    psi = np.asarray(psi)
    w = (np.abs(psi) ** 2 if psi.ndim == 1 else np.real(np.diag(psi))).reshape(n * (2,))
    out = np.zeros(2 ** len(qs))
    for idx in itertools_product(n):
        k = 0
        for q in qs:
            k = 2 * k + idx[q]
        out[k] += w[idx]
    return out


def itertools_product(n):
    import itertools
    return itertools.product((0, 1), repeat=n)


def run_views(n, regs, names, psi, nshots, ops, chooser, permfn, batch=None, dm=False):
    """fresh circuit measuring `regs` (one M per register, qubits in the given order) on the
    state `psi`; runs the accessor history; returns canonical answers."""
    import qibo

    backend = OracleBackend(chooser)
    c = Circuit(n, density_matrix=dm)
    handles = []
    for reg, nm in zip(regs, names):
        handles.append(c.add(gates.M(*reg) if nm is None else gates.M(*reg, register_name=nm)))
    real_names = [m.register_name for m in c.measurements]
    old = qibo.get_batch_size()
    outs = []
    try:
        if batch:
            qibo.set_batch_size(batch)
        state = np.asarray(psi, dtype=complex)
        if dm:
            state = np.outer(state, state.conj())
        with FixedShuffle(permfn) as fs:
            result = backend.execute_circuit(c, initial_state=state.copy(), nshots=nshots)
            for op in ops:
                out = call_op(op, result, handles)
                if op[0] == "probs":
                    exp = born_np(state, n, op[1])
                    outs.append("ok" if np.allclose(np.asarray(out, dtype=float), exp, atol=1e-9) else "probs %r != %r" % (np.asarray(out).tolist(), exp.tolist()))
                else:
                    outs.append(canon(op, out, regs, real_names, nshots))
    finally:
        qibo.set_batch_size(old)
    return outs, backend.calls, fs.perms, real_names


def _full(n, m, qs):
    """matrix on the ordered qubits qs embedded in n qubits (qubit 0 = most significant)."""
    d, k = 2 ** n, len(qs)
    U = np.zeros((d, d), dtype=complex)
    for x in range(d):
        xb = [(x >> (n - 1 - q)) & 1 for q in range(n)]
        i = int("".join(str(xb[q]) for q in qs), 2) if k else 0
        for a in range(2 ** k):
            yb = list(xb)
            for t, q in enumerate(qs):
                yb[q] = (a >> (k - 1 - t)) & 1
            U[x, int("".join(map(str, yb)), 2)] += m[i][a]
    return U


def spec_circuit(n, dm, items, state):
    """numpy SPEC of one shot.  items: ("G", matrix, qubits) | ("M", targets, bits-or-None) |
    ("C", mi, j, q) = RX(q, pi * bit j of measurement mi)."""
    d = 2 ** n
    recs = []
    st = np.array(state, dtype=complex)
    for it in items:
        if it[0] == "G":
            U = _full(n, it[1], it[2])
        elif it[0] == "C":
            U = _full(n, [[0, -1j], [-1j, 0]], [it[3]]) if recs[it[1]][it[2]] == 1 else np.eye(d)
        else:
            recs.append(it[2])
            if it[2] is None:
                continue
            U = np.diag([1.0 if all(((x >> (n - 1 - q)) & 1) == b for q, b in zip(it[1], it[2])) else 0.0 for x in range(d)])
        st = U @ st @ U.conj().T if dm else U @ st
    return st


def check_plan(n, dm, plan, psi, nshots, chooser):
    """build the circuit of `plan` (("G", matrix, qubits) | ("M", targets, explicit_collapse) |
    ("C", mi, j, q)), execute it on the real code with the given draws, and compare with the
    SPEC: returns None or a description of the violation."""
    c = Circuit(n, density_matrix=dm)
    handles, mts, expl, touched = [], [], [], []
    for it in plan:
        if it[0] == "G":
            c.add(gates.Unitary(np.array(it[1], dtype=complex), *it[2], check_unitary=False))
            touched.append(set(it[2]))
        elif it[0] == "M":
            handles.append(c.add(gates.M(*it[1], collapse=True) if it[2] else gates.M(*it[1])))
            mts.append(list(it[1])); expl.append(it[2]); touched.append(None)
        else:
            c.add(gates.RX(it[3], theta=np.pi * handles[it[1]].symbols[it[2]]))
            touched.append({it[3]})
    midx = [i for i, it in enumerate(plan) if it[0] == "M"]
    status = []
    for k_, i in enumerate(midx):
        later = set()
        for g in touched[i + 1:]:
            if g:
                later |= g
        status.append("collapse" if expl[k_] or (set(mts[k_]) & later) else "final")
    finals = [k_ for k_, s_ in enumerate(status) if s_ == "final"]
    fq = [q for k_ in finals for q in mts[k_]]
    be = OracleBackend(chooser)
    psi = np.asarray(psi, dtype=complex)
    init = np.outer(psi, psi.conj()) / np.vdot(psi, psi).real if dm else psi / np.linalg.norm(psi)
    res = be.execute_circuit(c, initial_state=init.copy(), nshots=nshots)
    for s in range(nshots):
        items, mi = [], 0
        for it in plan:
            if it[0] == "M":
                bits = None
                if status[mi] == "collapse":
                    bits = [int(x) for x in np.asarray(handles[mi].samples()[s]).reshape(-1)]
                    if len(bits) != len(mts[mi]) or set(bits) - {0, 1}:
                        return "recorded bits %r of M%r malformed" % (bits, tuple(mts[mi]))
                items.append(("M", mts[mi], bits)); mi += 1
            else:
                items.append(it)
        model = spec_circuit(n, dm, items, init)
        tot = np.trace(model).real if dm else np.vdot(model, model).real
        if tot <= 1e-9:
            return "shot %d: the recorded mid-circuit outcomes have probability zero" % s
        if dm:
            real = np.asarray(res.state())
            if abs(np.trace(real)) < 1e-12 or not np.allclose(real / np.trace(real), model / tot, atol=1e-8):
                return "final state is not the normalised projection onto the recorded outcomes followed by the later gates"
        if finals:
            rows = np.asarray(res.samples())
            if rows.shape != (nshots, len(fq)):
                return "samples shape %r" % (rows.shape,)
            marg = born_np(model, n, fq)
            if marg[int("".join(str(int(b)) for b in rows[s]), 2)] <= 1e-9 * marg.sum():
                return "shot %d: reported final sample %r on qubits %r has probability zero given the recorded mid-circuit outcomes" % (s, rows[s].tolist(), fq)
    for h_, st_ in zip(handles, status):
        if st_ == "collapse":
            last = [int(x) for x in np.asarray(h_.samples()[-1]).reshape(-1)]
            if [int(sy.outcome()) for sy in h_.symbols] != last:
                return "symbols do not report the recorded bits"
    if finals:
        got = list(res.samples(registers=True).keys())
        if got != ["register%d" % k_ for k_ in finals]:
            return "register names %r" % (got,)
    return None


def table_from_draws(ops, calls, perms):
    """the shot table behind a fresh result, from the draws that were actually made."""
    first = next((o for o in ops if o[0] != "probs"), None)
    if first is not None and first[0] == "freqs":
        allv = sorted(x for c in calls for x in c)
        return [allv[i] for i in perms[0]] if perms else allv
    return list(calls[0]) if calls else []


def spec_views(regs, T, ops):
    """python SPEC of every accessor as a view of the shot table T (canonical strings)."""
    flat = [q for r in regs for q in r]
    k = len(flat)
    rows = [[(s >> (k - 1 - j)) & 1 for j in range(k)] for s in T]

    def regrows(i):
        a = sum(len(r) for r in regs[:i])
        return [row[a:a + len(regs[i])] for row in rows]

    def dec(row):
        v = 0
        for b in row:
            v = 2 * v + b
        return v

    def dense(vals, m):
        out = [0] * (2 ** m)
        for v in vals:
            out[v] += 1
        return out

    res = []
    for op in ops:
        if op[0] == "probs":
            res.append("ok")
        elif op[0] == "samples":
            _, b, r = op
            if r:
                res.append(" ; ".join(_s([x for row in regrows(i) for x in row]) if b else _s([dec(row) for row in regrows(i)]) for i in range(len(regs))))
            else:
                res.append(_s([x for row in rows for x in row]) if b else _s(T))
        elif op[0] == "freqs":
            if op[2]:
                res.append(" ; ".join(_s(dense([dec(row) for row in regrows(i)], len(regs[i]))) for i in range(len(regs))))
            else:
                res.append(_s(dense(T, k)))
        elif op[0] == "rsamples":
            rr = regrows(op[1])
            res.append(_s([x for row in rr for x in row]) if op[2] else _s([dec(row) for row in rr]))
        else:
            res.append(_s(dense([dec(row) for row in regrows(op[1])], len(regs[op[1]]))))
    return res


def check_sampler(n, regs, psi, dm, nshots, seed, first):
    """unpatched seeded sampler: support, sums, histogram and register consistency."""
    nb = NumpyBackend()
    flat = [q for r in regs for q in r]
    psi = np.asarray(psi, dtype=complex)
    c = Circuit(n, density_matrix=dm)
    for r in regs:
        c.add(gates.M(*r))
    nb.set_seed(seed)
    res = nb.execute_circuit(c, initial_state=(np.outer(psi, psi.conj()) if dm else psi.copy()), nshots=nshots)
    if first == "freqs":
        f0 = res.frequencies(binary=False)
    rows = np.asarray(res.samples())
    dec = [int(x) for x in res.samples(binary=False)]
    fr = res.frequencies(binary=False)
    frb = res.frequencies(binary=True)
    marg = born_np(psi, n, flat)
    if rows.shape != (nshots, len(flat)):
        return "samples shape %r" % (rows.shape,)
    if [int("".join(str(int(b)) for b in r), 2) for r in rows] != dec:
        return "decimal samples are not the binary rows read big-endian"
    if any(marg[d] <= 1e-12 for d in dec):
        return "a sampled shot has probability zero"
    if sum(fr.values()) != nshots or dict(fr) != dict(collections.Counter(dec)):
        return "frequencies are not the histogram of the samples / do not sum to nshots"
    if first == "freqs" and dict(f0) != dict(fr):
        return "frequencies changed after samples were requested"
    if {int(k, 2): v for k, v in frb.items()} != dict(fr) or any(len(k) != len(flat) for k in frb):
        return "binary-key frequencies differ from decimal-key frequencies"
    sr = res.samples(registers=True)
    fr_r = res.frequencies(binary=False, registers=True)
    pos = 0
    for i, r in enumerate(regs):
        nm = "register%d" % i
        cols = rows[:, pos:pos + len(r)]
        pos += len(r)
        if not np.array_equal(np.asarray(sr[nm]), cols):
            return "register %s samples are not the register's columns of the global samples" % nm
        h = collections.Counter(int("".join(str(int(b)) for b in row), 2) for row in cols)
        if dict(fr_r[nm]) != dict(h):
            return "register %s frequencies are not the histogram of its samples" % nm
    pr = np.asarray(res.probabilities(flat), dtype=float)
    if not np.allclose(pr, marg, atol=1e-9):
        return "probabilities(measured qubits) differ from the Born marginal"
    return None


# ---- Circuit.add bookkeeping ------------------------------------------------------------

def mk_gate(kind, qs):
    """an ordinary (non-measurement) gate acting exactly on the qubits qs."""
    qs = list(qs)
    if kind == "H":
        return gates.H(*qs)
    if kind == "RX":
        return gates.RX(qs[0], theta=0.3)
    if kind == "noise":
        return gates.PauliNoiseChannel(qs[0], [("X", 0.1)])
    if kind == "CNOT":
        return gates.CNOT(*qs)
    if kind == "CZ":
        return gates.CZ(*qs)
    if kind == "SWAP":
        return gates.SWAP(*qs)
    if kind == "TOFFOLI":
        return gates.TOFFOLI(*qs)
    if kind == "ctrl":  # X on the last qubit controlled by the others (given unsorted)
        return gates.X(qs[-1]).controlled_by(*qs[:-1])
    if kind == "U":
        return gates.Unitary(np.eye(2 ** len(qs)), *qs)
    return gates.X(qs[0])


def mk_meas(it):
    _, ts, name, collapse, basis = it
    kw = {}
    if name is not None:
        kw["register_name"] = name
    if collapse:
        kw["collapse"] = True
    if set(basis) != {"Z"}:
        bmap = {"Z": gates.Z, "X": gates.X, "Y": gates.Y}
        kw["basis"] = [bmap[b] for b in basis]
    return gates.M(*ts, **kw)


def observe_add(n, items):
    """add the items to a fresh circuit; report the bookkeeping at API level."""
    c = Circuit(n)
    err = None
    for k, it in enumerate(items):
        g = mk_gate(it[1], it[2]) if it[0] == "G" else mk_meas(it)
        try:
            c.add(g)
        except KeyError:
            err = k
            break
    queue = []
    for g in c.queue:
        if isinstance(g, gates.M):
            queue.append("M:%s:%s:%d" % (",".join(map(str, g.target_qubits)), g.register_name, int(bool(g.collapse))))
        else:
            queue.append("G:%s" % ",".join(map(str, sorted(g.qubits))))
    pos = []
    for m in c.measurements:
        pos.append(next((i for i, g in enumerate(c.queue) if g is m), -1))
    if err is not None:
        return "ERR %d | %s" % (err, _s(pos))
    tup = " ".join("%s=%s" % (k_, ",".join(map(str, v))) for k_, v in c.measurement_tuples.items())
    return "%s | %s | %d | %s" % (" ".join(queue), _s(pos), int(bool(c.has_collapse)), tup)


def spec_add(items):
    """python SPEC of the bookkeeping, written with 'later gate on one of its qubits'."""
    flat = []
    src = []
    for k, it in enumerate(items):
        if it[0] == "G":
            flat.append(("G", sorted(it[2]))); src.append(k)
        else:
            for q, b in zip(it[1], it[4]):
                if b != "Z":
                    flat.append(("G", [q])); src.append(k)
            flat.append(("M", list(it[1]), it[2], bool(it[3]))); src.append(k)

    def final_in(prefix_len, i):
        it = flat[i]
        return it[0] == "M" and not it[3] and not any(f[0] == "G" and set(f[1]) & set(it[1]) for f in flat[i + 1:prefix_len])

    names = {}
    nm = 0
    for j, it in enumerate(flat):
        if it[0] != "M":
            continue
        if it[2] is None:
            names[j] = "register%d" % nm  # default names are not checked (see default-name clash)
        else:
            if any(final_in(j, i) and names[i] == it[2] for i in names):
                return "ERR %d | %s" % (src[j], _s([i for i in names if final_in(j, i)]))
            names[j] = it[2]
        nm += 1
    L = len(flat)
    fin = [i for i in range(L) if final_in(L, i)]
    queue = []
    for i, it in enumerate(flat):
        if it[0] == "G":
            queue.append("G:%s" % ",".join(map(str, it[1])))
        else:
            queue.append("M:%s:%s:%d" % (",".join(map(str, it[1])), names[i], int(i not in fin)))
    d = {}
    for i in fin:
        d[names[i]] = flat[i][1]
    tup = " ".join("%s=%s" % (k_, ",".join(map(str, v))) for k_, v in d.items())
    hc = any(it[0] == "M" and i not in fin for i, it in enumerate(flat))
    return "%s | %s | %d | %s" % (" ".join(queue), _s(fin), int(hc), tup)


# ---- execute_circuit_repeated ------------------------------------------------------------

def plan_status(plan):
    """which measurements of a plan end up collapsing (SPEC of Circuit.add)."""
    touched = [set(it[2]) if it[0] == "G" else {it[3]} if it[0] == "C" else None for it in plan]
    out = []
    for i, it in enumerate(plan):
        if it[0] == "M":
            later = set()
            for g in touched[i + 1:]:
                if g:
                    later |= g
            out.append(bool(it[2]) or bool(set(it[1]) & later))
    return out


def run_repeated(n, dm, plan, psi, nshots, chooser):
    """execute the plan on the real code; report what the caller can observe, in the format of
    DriverC03 REP: rows | per-M samples | dense frequencies | (draw log) ."""
    c = Circuit(n, density_matrix=dm)
    handles = []
    for it in plan:
        if it[0] == "G":
            c.add(gates.Unitary(np.array(it[1], dtype=complex), *it[2], check_unitary=False))
        elif it[0] == "M":
            handles.append(c.add(gates.M(*it[1], collapse=True) if it[2] else gates.M(*it[1])))
        else:
            c.add(gates.RX(it[3], theta=np.pi * handles[it[1]].symbols[it[2]]))
    status = plan_status(plan)
    mts = [it[1] for it in plan if it[0] == "M"]
    fq = [q for ts, st in zip(mts, status) if not st for q in ts]
    be = OracleBackend(chooser)
    psi = np.asarray(psi, dtype=complex)
    init = np.outer(psi, psi.conj()) / np.vdot(psi, psi).real if dm else psi / np.linalg.norm(psi)
    res = be.execute_circuit(c, initial_state=init.copy(), nshots=nshots)

    def bits(row):
        return "".join(str(int(b)) for b in np.asarray(row).reshape(-1))

    if fq:
        rows = np.asarray(res.samples())
        if rows.shape != (nshots, len(fq)):
            return "malformed: samples shape %r" % (rows.shape,), be
        rows_s = " ".join(bits(r) for r in rows)
        fr = _s(_dense(res.frequencies(binary=False), len(fq), False))
        frb = _s(_dense(res.frequencies(binary=True), len(fq), True))
        if fr != frb:
            return "malformed: binary/decimal frequencies differ", be
    else:
        rows_s, fr = "-", "0"
    caches = []
    for h_, ts, st in zip(handles, mts, status):
        raw = h_.samples()
        a = [bits(r) for r in raw]
        if any(len(x) != len(ts) for x in a):
            return "malformed: gate samples %r" % (a,), be
        caches.append(",".join(a) if a else "e")
    return "%s | %s | %s" % (rows_s, " ".join(caches), fr), be


# ---- probabilities() of results without a final state ----------------------------------------

def canon_counts(p, nshots, m):
    a = np.asarray(p, dtype=float).reshape(-1)
    if a.shape != (2 ** m,):
        return "malformed: shape %r" % (a.shape,)
    cnt = a * nshots
    r = np.rint(cnt)
    if not np.allclose(cnt, r, atol=1e-6):
        return "malformed: %r is not a multiple of 1/%d" % (a.tolist(), nshots)
    return _s(r)


def empirical_counts(rows, flat, qs):
    """SPEC: number of reported rows whose bits on qs (in that order) spell each outcome."""
    out = [0] * (2 ** len(qs))
    for row in rows:
        k = 0
        for q in qs:
            k = 2 * k + int(row[flat.index(q)])
        out[k] += 1
    return out


def build_shotwise(n, regs, kind):
    """a circuit that is simulated shot by shot and ends with the registers `regs`."""
    c = Circuit(n)
    for q in range(n):
        c.add(gates.RY(q, theta=0.4 + 0.7 * q))
    if n > 1:
        c.add(gates.CNOT(0, n - 1))
    flat = [q for r in regs for q in r]
    if kind == "noise":
        c.add(gates.PauliNoiseChannel(flat[0], [("X", 0.3)]))
    else:
        other = [q for q in range(n) if q not in flat]
        cq = other[0] if other else flat[-1]
        c.add(gates.M(cq, collapse=True))
        c.add(gates.H(cq))
    handles = [c.add(gates.M(*r)) for r in regs]
    return c, handles


def run_probs_history(n, regs, kind, nshots, ops, chooser):
    """history of accessor calls incl. probabilities(qs) on a shot-by-shot result (kind noise /
    collapse) or on MeasurementOutcomes(samples=...) (kind 'given')."""
    from qibo.result import MeasurementOutcomes
    flat = [q for r in regs for q in r]
    c, handles = build_shotwise(n, regs, "collapse" if kind == "given" else kind)
    be = OracleBackend(chooser)
    res = be.execute_circuit(c, nshots=nshots)
    if kind == "given":
        res = MeasurementOutcomes(c.measurements, backend=be, samples=np.asarray(res.samples()).copy(), nshots=nshots)
    names = [m.register_name for m in c.measurements]
    outs = []
    for op in ops:
        if op[0] == "probs":
            outs.append(canon_counts(res.probabilities(list(op[1])), nshots, len(op[1])))
        else:
            outs.append(canon(op, call_op(op, res, handles), regs, names, nshots))
    rows = np.asarray(res.samples())
    return outs, [[int(b) for b in r] for r in rows], be.calls


def spec_probs_history(regs, rows, ops):
    flat = [q for r in regs for q in r]
    T = [int("".join(map(str, r)), 2) for r in rows]
    base = spec_views(regs, T, [o for o in ops])
    out = []
    for op, b in zip(ops, base):
        out.append(_s(empirical_counts(rows, flat, op[1])) if op[0] == "probs" else b)
    return out


def check_register_names(n, items):
    """PROPERTY (registers are the same data viewed differently): the terminal measurements of
    an accepted circuit have pairwise different register names, so that no register is lost in
    measurement_tuples / samples(registers=True).  Returns None or a description."""
    c = Circuit(n)
    for it in items:
        try:
            c.add(mk_gate(it[1], it[2]) if it[0] == "G" else mk_meas(it))
        except KeyError:
            return None  # rejected: nothing is lost silently
    names = [m.register_name for m in c.measurements]
    if len(set(names)) != len(names) or len(c.measurement_tuples) != len(c.measurements):
        return "terminal measurements %r carry the register names %r: measurement_tuples has %d entries for %d registers" % (
            [tuple(m.target_qubits) for m in c.measurements], names, len(c.measurement_tuples), len(c.measurements))
    return None


def default_name_clash(items):
    """input class: an explicit register name equal to the default name `register<k>` that a
    LATER measurement added without a name receives."""
    nm, explicit = 0, set()
    for it in items:
        if it[0] != "M":
            continue
        if it[2] is None:
            if "register%d" % nm in explicit:
                return True
        else:
            explicit.add(it[2])
        nm += 1
    return False
'''

H = {}
exec(HARNESS_SRC, H)


def replay_header():
    return HARNESS_SRC + "\n"


# ---------------------------------------------------------------------------
# helpers


def gi_state(rng, n, zeros=0.0, lo=-3, hi=3):
    d = 2**n
    while True:
        v = np.array([0 if rng.random() < zeros else complex(rng.randint(lo, hi), rng.randint(lo, hi)) for _ in range(d)], dtype=complex)
        if np.abs(v).sum() > 0:
            return v


def gi_matrix(rng, d):
    return np.array([[complex(rng.randint(-2, 2), rng.randint(-2, 2)) for _ in range(d)] for _ in range(d)], dtype=complex)


def ordered_lists(n, allow_empty=True):
    out = []
    for k in range(0 if allow_empty else 1, n + 1):
        out += [list(p) for p in itertools.permutations(range(n), k)]
    return out


def support_chooser(rng, log=None):
    def ch(p, nshots):
        tot = p.sum()
        sup = [i for i, x in enumerate(p) if x > 1e-12 * max(tot, 1e-300)]
        if not sup:
            sup = list(range(len(p)))
        return [rng.choice(sup) for _ in range(nshots)]

    return ch


def nl(l):
    return f"{len(l)} " + " ".join(str(int(x)) for x in l) if len(l) else "0"


# ---------------------------------------------------------------------------
# suite: probabilities


def probs_suite(ctx):
    from qibo import Circuit, gates
    from qibo.result import CircuitResult, QuantumState

    rng = ctx.rng
    nb = H["NumpyBackend"]()
    cases = []
    for n in range(1, 5):
        for qs in ordered_lists(n):
            cases.append((n, qs))
    for _ in range(60 if ctx.thorough else 15):
        n = rng.randint(5, 7 if ctx.thorough else 6)
        k = rng.randint(1, n)
        cases.append((n, rng.sample(range(n), k)))
    lines, meta = [], []
    for n, qs in cases:
        psi = gi_state(rng, n, zeros=0.2)
        lines.append(f"PROBS {n} {nl(qs)} {gi_tokens(psi)}")
        meta.append(("sv", n, qs, psi))
        if n <= (4 if ctx.thorough else 3) or (n == 4 and rng.random() < 0.3):
            rho = gi_matrix(rng, 2**n)
            lines.append(f"PROBSDM {n} {nl(qs)} {gi_tokens(rho)}")
            meta.append(("dm", n, qs, rho))
    outs = run_driver(lines, driver=DRIVER)
    bad = 0
    for (kind, n, qs, st), out in zip(meta, outs):
        ctx.case(("probs", kind, n, tuple(qs)))
        ctx.stat(f"probs_{kind}_n{n}")
        srt = "sorted" if qs == sorted(qs) else "unsorted"
        ctx.stat(f"probs_{srt}")
        if kind == "sv":
            model = np.array([int(t) for t in out.split()], dtype=float)
        else:
            model = np.abs(parse_gi(out))
        before = st.copy()
        variants = []
        try:
            if kind == "sv":
                variants.append(("backend.calculate_probabilities", nb.calculate_probabilities(st, qs, n)))
                variants.append(("backend.calculate_probabilities(tuple)", nb.calculate_probabilities(st, tuple(qs), n)))
                variants.append(("QuantumState.probabilities", QuantumState(st, backend=nb).probabilities(qs)))
            else:
                variants.append(("backend.calculate_probabilities_density_matrix", nb.calculate_probabilities_density_matrix(st, qs, n)))
                variants.append(("QuantumState.probabilities", QuantumState(st, backend=nb).probabilities(list(qs))))
            if qs:
                # a circuit result measuring exactly these qubits in this order (two registers)
                cut = rng.randint(1, len(qs))
                ms = [gates.M(*qs[:cut])] + ([gates.M(*qs[cut:])] if qs[cut:] else [])
                cr = CircuitResult(st, ms, backend=nb, nshots=3)
                variants.append(("CircuitResult.probabilities", cr.probabilities(qs)))
                variants.append(("CircuitResult.probabilities(second call)", cr.probabilities(qs)))
        except Exception as e:  # noqa
            variants.append((f"raised {type(e).__name__}: {e}", None))
        ok = np.array_equal(st, before)
        why = "" if ok else "input state mutated"
        for name, val in variants:
            if val is None or np.asarray(val).shape != model.shape or not np.allclose(np.asarray(val, dtype=float), model, rtol=1e-9, atol=1e-9):
                ok = False
                why = f"{name}: {None if val is None else np.asarray(val).tolist()}"
                break
        if len(ctx.samples) < 3:
            ctx.sample({"suite": "probs", "kind": kind, "n": n, "qubits": qs, "model": model.tolist()[:8]})
        if not ok:
            bad += 1
            fn = "calculate_probabilities" if kind == "sv" else "calculate_probabilities_density_matrix"
            py = (replay_header() + f"nb = NumpyBackend()\nst = np.array({st.tolist()})\n"
                  f"from qibo.result import QuantumState\n"
                  f"out = np.asarray(nb.{fn}(st, {qs}, {n}), dtype=float)\n"
                  f"out2 = np.asarray(QuantumState(st, backend=nb).probabilities({qs}), dtype=float)\n"
                  f"exp = np.array({model.tolist()})\n"
                  f"assert out.shape == exp.shape and np.allclose(out, exp, atol=1e-9), (out, exp)\n"
                  f"assert np.allclose(out2, exp, atol=1e-9), (out2, exp)\n")
            ctx.fail(f"probabilities:{kind}:{srt}", f"probabilities of qubits {qs} (n={n}, {kind}) are not the Born marginal in the given order ({why})",
                     py, expected=model.tolist(), observed=why, broken=["C03_corr_probs"])
    ctx.ob("C03_corr_probs", bad == 0, "correspondence", f"{bad} disagreements" if bad else "")


# ---------------------------------------------------------------------------
# suite: binary/decimal, frequencies


def bits_suite(ctx):
    import qibo

    rng = ctx.rng
    nb = H["NumpyBackend"]()
    lines, meta = [], []
    for k in list(range(1, 11)) + [rng.randint(11, 24) for _ in range(4)]:
        cnt = rng.randint(1, 9)
        ss = [rng.randrange(2**k) for _ in range(cnt)] + [0, 2**k - 1]
        lines.append(f"BIN {k} {nl(ss)}")
        meta.append(("BIN", k, ss))
        rows = [[rng.randint(0, 1) for _ in range(k)] for _ in range(cnt)] + [[0] * k, [1] * k, [1] + [0] * (k - 1), [0] * (k - 1) + [1]]
        lines.append(f"DEC {k} {len(rows)} " + " ".join(str(b) for r in rows for b in r))
        meta.append(("DEC", k, rows))
    for _ in range(30 if ctx.thorough else 12):
        k = rng.randint(1, 5)
        B = rng.choice([1, 2, 3, 4, 5, 8])
        nshots = rng.choice([0, 1, B - 1, B, B + 1, 2 * B, 2 * B + 1, 3 * B, rng.randint(1, 30)])
        lines.append(None)
        meta.append(("SFREQ", k, B, max(nshots, 0)))
    for _ in range(12):
        k = rng.randint(1, 5)
        T = [rng.randrange(2**k) for _ in range(rng.randint(1, 25))]
        lines.append(f"SFREQ {k} 1 {nl(T)}")
        meta.append(("HIST", k, T))
    # sample_frequencies on the real backend first (its draws are the model's input)
    real = [None] * len(meta)
    for i, m in enumerate(meta):
        if m[0] != "SFREQ":
            continue
        _, k, B, nshots = m
        p = np.array([rng.random() for _ in range(2**k)])
        p[rng.randrange(2**k)] = 0.0
        be = H["OracleBackend"](support_chooser(rng))
        old = qibo.get_batch_size()
        try:
            qibo.set_batch_size(B)
            fr = be.sample_frequencies(p / p.sum() * rng.choice([1.0, 1.0, 2.5]), nshots)
        except Exception as e:  # noqa
            fr = f"{type(e).__name__}: {e}"
        finally:
            qibo.set_batch_size(old)
        real[i] = (fr, be.calls, p)
        lines[i] = f"SFREQ {k} {len(be.calls)} " + " ".join(nl(b) for b in be.calls)
    outs = run_driver(lines, driver=DRIVER)
    bad = 0
    for i, (m, out) in enumerate(zip(meta, outs)):
        ctx.case(("bits", m[0], m[1], i))
        ctx.stat("bits_" + m[0])
        ok, obs, py = True, None, ""
        model = [int(t) for t in out.split()]
        try:
            ok, obs, py, key = _bits_eval(nb, m, model, real[i])
        except Exception as e:  # noqa
            ok, obs, py, key = False, f"{type(e).__name__}: {e}", "", {"BIN": "samples_to_binary", "DEC": "samples_to_decimal", "HIST": "calculate_frequencies"}.get(m[0], "sample_frequencies")
        if m[0] == "SFREQ" and real[i] is not None:
            ctx.stat(f"sfreq_batches_{min(len(real[i][1]), 4)}")
        if not ok:
            bad += 1
            ctx.fail(f"bits:{key}", f"{key} disagrees with the model on {m[1:]}", replay_header() + "nb = NumpyBackend()\n" + py,
                     expected=model, observed=obs, broken=["C03_corr_bits"])
    ctx.ob("C03_corr_bits", bad == 0, "correspondence", f"{bad} disagreements" if bad else "")


def _bits_eval(nb, m, model, realrec):
    ok, obs, py = True, None, ""
    if True:
        if m[0] == "BIN":
            _, k, ss = m
            r = nb.samples_to_binary(np.array(ss, dtype=np.int64), k)
            back = nb.samples_to_decimal(r, k)
            obs = np.asarray(r).reshape(-1).tolist()
            ok = np.asarray(r).shape == (len(ss), k) and obs == model and [int(x) for x in back] == ss
            py = (f"r = nb.samples_to_binary(np.array({ss}, dtype=np.int64), {k})\n"
                  f"assert np.asarray(r).reshape(-1).tolist() == {model}\n"
                  f"assert [int(x) for x in nb.samples_to_decimal(r, {k})] == {ss}\n")
            key = "samples_to_binary"
        elif m[0] == "DEC":
            _, k, rows = m
            r = nb.samples_to_decimal(np.array(rows, dtype=np.int64), k)
            back = nb.samples_to_binary(np.asarray(r), k)
            obs = [int(x) for x in r]
            ok = obs == model and np.asarray(back).tolist() == rows
            py = (f"r = nb.samples_to_decimal(np.array({rows}, dtype=np.int64), {k})\nassert [int(x) for x in r] == {model}\n"
                  f"assert np.asarray(nb.samples_to_binary(np.asarray(r), {k})).tolist() == {rows}\n")
            key = "samples_to_decimal"
        elif m[0] == "HIST":
            _, k, T = m
            try:
                obs = H["_dense"](nb.calculate_frequencies(np.array(T)), k, False)
            except ValueError as e:
                obs = str(e)
            ok = obs == model
            py = f"fr = nb.calculate_frequencies(np.array({T}))\nassert _dense(fr, {k}, False) == {model}, fr\n"
            key = "calculate_frequencies"
        else:
            _, k, B, nshots = m
            fr, calls, p = realrec
            try:
                obs = H["_dense"](fr, k, False)
            except ValueError as e:
                obs = str(e)
            ok = obs == model and sum(model) == nshots and all(p[v] > 0 for v in range(2**k) if model[v])
            py = (f"import qibo\nbe = OracleBackend(Tape({calls}))\nqibo.set_batch_size({B})\n"
                  f"fr = be.sample_frequencies(np.array({p.tolist()}) / {p.sum()!r}, {nshots})\n"
                  f"drawn = collections.Counter(x for c in be.calls for x in c)\n"
                  f"assert sum(fr.values()) == {nshots} and dict(fr) == dict(drawn), (fr, drawn)\n")
            key = "sample_frequencies"
    return ok, obs, py, key


# ---------------------------------------------------------------------------
# suite: views (state machine over accessor histories)


def layouts(n):
    """all partitions of an ordered non-empty qubit sub-list into 1..3 registers."""
    out = []
    for qs in ordered_lists(n, allow_empty=False):
        L = len(qs)
        for r in range(1, min(3, L) + 1):
            for cuts in itertools.combinations(range(1, L), r - 1):
                b = [0, *cuts, L]
                out.append([qs[b[i]:b[i + 1]] for i in range(r)])
    return out


def all_ops(nregs):
    ops = [(k, b, r) for k in ("samples", "freqs") for b in (True, False) for r in (True, False)]
    for i in range(nregs):
        ops += [(k, i, b) for k in ("rsamples", "rfreqs") for b in (True, False)]
    return ops


OPCODE = {"samples": 0, "freqs": 1, "rsamples": 2, "rfreqs": 3}


def op_tokens(op):
    return f"{OPCODE[op[0]]} {int(op[1])} {int(op[2])}"


def op_name(op):
    if op[0] in ("samples", "freqs"):
        return f"{'samples' if op[0] == 'samples' else 'frequencies'}(binary={op[1]},registers={op[2]})"
    if op[0] == "probs":
        return f"probabilities({op[1]})"
    return f"M[{op[1]}].result.{'samples' if op[0] == 'rsamples' else 'frequencies'}(binary={op[2]})"


def views_line(regs, init, shots, batches, perm, ops):
    lean_ops = [op for op in ops if op[0] != "probs"]
    return (f"VIEWS {len(regs)} " + " ".join(nl(r) for r in regs) + f" {init} {nl(shots)} {len(batches)} "
            + " ".join(nl(b) for b in batches) + f" {nl(perm)} {len(lean_ops)} " + " ".join(op_tokens(o) for o in lean_ops))


def views_suite(ctx):
    rng = ctx.rng
    cases = []
    # (a) every layout for n<=4, random histories
    for n in range(1, 5):
        lays = layouts(n)
        if n == 4 and not ctx.thorough:
            lays = rng.sample(lays, 110)
        for regs in lays:
            for _ in range(2 if ctx.thorough or n < 4 else 1):
                ops = []
                for _ in range(rng.randint(1, 6)):
                    if rng.random() < 0.12:
                        flat = [q for r in regs for q in r]
                        ops.append(("probs", rng.sample(flat, rng.randint(1, len(flat)))))
                    else:
                        ops.append(rng.choice(all_ops(len(regs))))
                cases.append((n, regs, ops))
    # (b) fixed asymmetric layouts: all histories of length <= 2, random triples
    fixed = [(2, [[1, 0]]), (3, [[2, 0], [1]]), (4, [[3, 1], [0], [2]])]
    for n, regs in fixed:
        ao = all_ops(len(regs))
        for a in ao:
            cases.append((n, regs, [a]))
            for b in ao:
                cases.append((n, regs, [a, b]))
        for _ in range(300 if ctx.thorough else 60):
            cases.append((n, regs, [rng.choice(ao) for _ in range(rng.choice([3, 3, 4, 5]))]))
    runs = []
    for n, regs, ops in cases:
        psi = gi_state(rng, n, zeros=0.25)
        psi = psi / np.linalg.norm(psi)
        nshots = rng.randint(1, 12)
        batch = rng.choice([None, None, 2, 3, 5])
        names = [None if rng.random() < 0.5 else f"r{chr(97 + i)}" for i in range(len(regs))]
        dm = rng.random() < 0.2
        try:
            outs, calls, perms, real_names = H["run_views"](n, regs, names, psi, nshots, ops, support_chooser(rng),
                                                          lambda L: rng.sample(range(L), L), batch=batch, dm=dm)
            err = None
        except Exception as e:  # noqa
            outs, calls, perms, real_names, err = [], [], [], [], f"{type(e).__name__}: {e}"
        runs.append((n, regs, ops, psi, nshots, batch, names, dm, outs, calls, perms, real_names, err))
    lines = []
    for (n, regs, ops, psi, nshots, batch, names, dm, outs, calls, perms, real_names, err) in runs:
        first = next((o for o in ops if o[0] != "probs"), None)
        if first is not None and first[0] == "freqs":
            shots, batches = [], calls
        else:
            shots, batches = (calls[0] if calls else []), []
        perm = perms[0] if perms else []
        lines.append(views_line(regs, 0, shots, batches, perm, ops))
    mouts = run_driver(lines, driver=DRIVER)
    bad = 0
    for run, mout in zip(runs, mouts):
        (n, regs, ops, psi, nshots, batch, names, dm, outs, calls, perms, real_names, err) = run
        lean_ops = [op for op in ops if op[0] != "probs"]
        model = [x.strip() for x in mout.split("|")] if lean_ops else []
        exp_names = [nm if nm is not None else f"register{i}" for i, nm in enumerate(names)]
        first = lean_ops[0] if lean_ops else None
        path = "freq-first" if first is not None and first[0] == "freqs" else "samples-first"
        ctx.case(("views", n, tuple(map(tuple, regs)), tuple(map(str, ops))))
        ctx.stat(f"views_n{n}_regs{len(regs)}")
        ctx.stat(f"views_{path}")
        ctx.stat(f"views_len{len(ops)}")
        if len(ctx.samples) < 7:
            ctx.sample({"suite": "views", "n": n, "registers": regs, "nshots": nshots, "history": [op_name(o) for o in ops], "draws": calls[:2]})
        problem = None
        if err:
            problem = (0, ops[0] if ops else None, "no exception", err)
        elif real_names != exp_names:
            problem = (0, ops[0], exp_names, real_names)
        else:
            j = 0
            for i, (op, got) in enumerate(zip(ops, outs)):
                if op[0] == "probs":
                    if got != "ok":
                        problem = (i, op, "Born marginal of the final state", got)
                        break
                    continue
                if got != model[j]:
                    problem = (i, op, model[j], got)
                    break
                j += 1
            if problem is None and path == "freq-first":
                # sum of the first answer = nshots
                tot = sum(int(t) for t in model[0].split(";")[0].split())
                if tot != nshots:
                    problem = (0, first, f"frequencies summing to {nshots}", model[0])
        if problem:
            bad += 1
            i, op, exp, got = problem
            key = f"views:{op_name(op).split('(')[0] if op else 'execute'}:{'registers' if op and op[0] in ('samples', 'freqs') and op[2] else 'global' if op and op[0] in ('samples', 'freqs') else 'gate'}:{path}"
            py = (replay_header() + f"psi = np.array({psi.tolist()})\nops = {ops!r}\nrec = {perms!r}\n"
                  f"outs, calls, perms, names = run_views({n}, {regs!r}, {names!r}, psi, {nshots}, ops, Tape({calls!r}), "
                  f"lambda L: (rec[0] if rec and len(rec[0]) == L else list(range(L))), batch={batch!r}, dm={dm})\n"
                  f"assert names == {exp_names!r}, names\n"
                  f"T = table_from_draws(ops, calls, perms)\nassert len(T) == {nshots}, (T, calls)\n"
                  f"exp = spec_views({regs!r}, T, ops)\n"
                  f"assert outs == exp, [(i, ops[i], a, b) for i, (a, b) in enumerate(zip(outs, exp)) if a != b][:1]\n")
            ctx.fail(key, f"history {[op_name(o) for o in ops]} on registers {regs}: call #{i} {op_name(op) if op else ''} is not the view of the shot table",
                     py, expected=exp, observed=got, broken=["C03_corr_views"])
    ctx.ob("C03_corr_views", bad == 0, "correspondence", f"{bad} disagreements" if bad else "")


# ---------------------------------------------------------------------------
# suite: collapse


def sorted_subsets(n):
    out = []
    for k in range(1, n + 1):
        out += [list(c) for c in itertools.combinations(range(n), k)]
    return out


def collapse_direct(ctx):
    rng = ctx.rng
    nb = H["NumpyBackend"]()
    lines, meta = [], []
    for n in range(1, 5):
        for qs in sorted_subsets(n):
            m = len(qs)
            shots = list(range(2**m)) if m <= 2 else rng.sample(range(2**m), 3)
            for shot in shots:
                psi = gi_state(rng, n, zeros=0.15)
                lines.append(f"COLL {n} {nl(qs)} {shot} {gi_tokens(psi)}")
                meta.append(("sv", n, qs, shot, psi))
                if n <= 3 and (m <= 2 or rng.random() < 0.5):
                    rho = gi_matrix(rng, 2**n)
                    lines.append(f"COLLDM {n} {nl(qs)} {shot} {gi_tokens(rho)}")
                    meta.append(("dm", n, qs, shot, rho))
    outs = run_driver(lines, driver=DRIVER)
    bad = 0
    for (kind, n, qs, shot, st), out in zip(meta, outs):
        model = parse_gi(out)
        ctx.case(("collapse", kind, n, tuple(qs), shot))
        ctx.stat(f"collapse_{kind}_n{n}")
        before = st.copy()
        sh = np.array([shot], dtype=np.int64)
        fn = "collapse_state" if kind == "sv" else "collapse_density_matrix"
        f = getattr(nb, fn)
        why = ""
        try:
            raw = np.asarray(f(st, list(qs), sh, n, normalize=False))
            ok = raw.shape == st.shape and np.array_equal(raw.reshape(-1), model)
            if not ok:
                why = "un-normalised projection differs"
            norm = np.sqrt((np.abs(model) ** 2).sum()) if kind == "sv" else np.trace(model.reshape(2**n, 2**n))
            if ok and abs(norm) > 1e-12:
                nrm = np.asarray(f(st, list(qs), sh, n))
                ok = np.allclose(nrm.reshape(-1), model / norm, atol=1e-9)
                if not ok:
                    why = "normalised state differs"
            if ok and not np.array_equal(st, before):
                ok, why = False, "input state mutated"
        except Exception as e:  # noqa
            ok, why = False, f"{type(e).__name__}: {e}"
        if not ok:
            bad += 1
            py = (replay_header() + f"nb = NumpyBackend()\nst = np.array({st.tolist()})\n"
                  f"out = np.asarray(nb.{fn}(st.copy(), {list(qs)}, np.array([{shot}]), {n}, normalize=False)).reshape(-1)\n"
                  f"exp = np.array({model.tolist()})\nassert np.array_equal(out, exp), (out, exp)\n"
                  f"nrm = exp.reshape(st.shape)\nnorm = np.sqrt((np.abs(exp)**2).sum()) if st.ndim == 1 else np.trace(nrm)\n"
                  f"if abs(norm) > 1e-12:\n    out2 = np.asarray(nb.{fn}(st.copy(), {list(qs)}, np.array([{shot}]), {n})).reshape(-1)\n"
                  f"    assert np.allclose(out2, exp / norm, atol=1e-9), (out2, exp / norm)\n")
            ctx.fail(f"collapse:{fn}", f"{fn}(qubits={qs}, shot={shot}, n={n}) is not the projection onto the outcome ({why})",
                     py, expected=model.tolist(), observed=why, broken=["C03_corr_collapse"])
    return bad


def recorded_order(ctx):
    """deterministic outcomes: basis state b, collapsing M on every ordered target list;
    the recorded bits must be b[t] for t in the order given (DESIGN §4 F13)."""
    from qibo import Circuit, gates

    rng = ctx.rng
    lines, meta = [], []
    for n in range(1, 4):
        for ts in ordered_lists(n, allow_empty=False):
            for b in itertools.product((0, 1), repeat=n):
                srt = sorted(ts)
                shot_asc = int("".join(str(b[q]) for q in srt), 2)
                lines.append(f"RECBITS {nl(ts)} {shot_asc}")
                meta.append((n, ts, b))
    outs = run_driver(lines, driver=DRIVER)
    bad = 0
    for (n, ts, b), out in zip(meta, outs):
        model = [int(t) for t in out.split()]
        assert model == [b[t] for t in ts], "model/spec mismatch in the harness"
        for dm in (True, False):
            ctx.case(("recorded", n, tuple(ts), b, dm))
            ctx.stat("recorded_" + ("sorted" if ts == sorted(ts) else "unsorted"))
            be = H["OracleBackend"](support_chooser(rng))
            c = Circuit(n, density_matrix=dm)
            for q in range(n):
                if b[q]:
                    c.add(gates.X(q))
            mres = c.add(gates.M(*ts, collapse=True))
            if not dm:
                c.add(gates.M(*range(n)))
            try:
                res = be.execute_circuit(c, nshots=1)
                rec = [int(x) for x in np.asarray(mres.samples()[-1]).reshape(-1)]
                sym = [int(s.outcome()) for s in mres.symbols]
                extra_ok = True
                if dm:
                    st = np.asarray(res.state())
                    e = np.zeros(2**n)
                    e[int("".join(map(str, b)), 2)] = 1
                    extra_ok = np.allclose(st, np.outer(e, e), atol=1e-9)
                else:
                    extra_ok = [int(x) for x in np.asarray(res.samples()[0])] == list(b)
            except Exception as e:  # noqa
                rec, sym, extra_ok = f"{type(e).__name__}: {e}", None, False
            if rec != model or sym != model or not extra_ok:
                bad += 1
                key = "collapse-order:unsorted-targets" if ts != sorted(ts) else "collapse-order:sorted-targets"
                xs = "".join(f"c.add(gates.X({q}))\n" for q in range(n) if b[q])
                py = (replay_header() + f"c = Circuit({n}, density_matrix=True)\n{xs}m = c.add(gates.M(*{ts}, collapse=True))\n"
                      f"NumpyBackend().execute_circuit(c, nshots=1)\n"
                      f"rec = [int(x) for x in m.samples()[-1]]\nsym = [int(s.outcome()) for s in m.symbols]\n"
                      f"assert rec == {model} and sym == {model}, (rec, sym, 'expected {model}: bit j belongs to qubit {ts}[j]')\n")
                ctx.fail(key, f"collapsing M{tuple(ts)} on basis state {b}: recorded bits {rec} (symbols {sym}) are not in the order the qubits were given",
                         py, expected=model, observed=rec, broken=["C03_corr_collapse"])
    return bad


def int_gate(rng, n, on=None):
    """random Gaussian-integer monomial gate (invertible) as (qibo gate, tokens)."""
    from qibo import gates

    free = list(range(n))
    k = min(rng.choice([1, 1, 2]), len(free))
    qs = rng.sample(free, k) if on is None else list(on)
    k = len(qs)
    d = 2**k
    perm = list(range(d))
    rng.shuffle(perm)
    m = np.zeros((d, d), dtype=complex)
    for i, p in enumerate(perm):
        m[i, p] = rng.choice([1, -1, 1j, -1j])
    if rng.random() < 0.35:  # a Hadamard-like dense integer matrix on one qubit
        k, qs, d = 1, qs[:1], 2
        m = np.array([[1, 1], [1, -1]], dtype=complex) * rng.choice([1, 1j])
    g = gates.Unitary(m, *qs, check_unitary=False)
    return g, f"{k} 0 {' '.join(map(str, qs))} {gi_tokens(m)}", (m, qs)


def collapse_circuits(ctx):
    """mid-circuit collapse followed by arbitrary gates, gates conditioned on the outcome, and
    final measurements; density-matrix mode (final state compared) and state-vector mode
    (repeated execution; reported samples must be possible outcomes of the model's state)."""
    from qibo import Circuit, gates

    rng = ctx.rng
    ncases = 600 if ctx.thorough else 220
    def touched(item):
        return set(item[2][1]) if item[0] == "G" else {item[3]} if item[0] == "C" else set()

    def statuses(plan):
        out = []
        for i, it in enumerate(plan):
            if it[0] == "M":
                later = set().union(*[touched(x) for x in plan[i + 1:]]) if plan[i + 1:] else set()
                out.append("collapse" if it[2] or (set(it[1]) & later) else "final")
        return out

    plans = []
    for ci in range(ncases):
        n = rng.randint(1, 4)
        dm = rng.random() < 0.5
        plan = []  # ("G", tokens, (matrix, qubits)) | ("M", ts, explicit_collapse) | ("C", mi, j, q)
        msizes = []
        for _ in range(rng.randint(2, 7)):
            r = rng.random()
            if r < 0.4:
                plan.append(("G",) + int_gate(rng, n)[1:])
            elif r < 0.7:
                ts = rng.sample(range(n), rng.randint(1, min(n, 3)))
                plan.append(("M", ts, rng.random() < 0.55))
                msizes.append(len(ts))
            elif msizes:
                mi = rng.randrange(len(msizes))
                plan.append(("C", mi, rng.randrange(msizes[mi]), rng.randrange(n)))
            else:
                plan.append(("G",) + int_gate(rng, n)[1:])
        if n >= 2 and rng.random() < 0.35:
            # a measurement made collapsing only by a later gate on ONE of its non-first qubits
            ts = rng.sample(range(n), rng.randint(2, min(n, 3)))
            plan.append(("M", ts, False))
            msizes.append(len(ts))
            plan.append(("G",) + int_gate(rng, n, on=[rng.choice(ts[1:])])[1:])
        # final registers: a partition of an ordered subset of the qubits not already in a final register
        st_body = statuses(plan)
        busy = set()
        for it, st_ in zip([x for x in plan if x[0] == "M"], st_body):
            if st_ == "final":
                busy |= set(it[1])
        free = [q for q in range(n) if q not in busy]
        if free and (not dm or rng.random() < 0.5):
            sub = rng.sample(free, rng.randint(1, len(free)))
            r = rng.randint(1, min(3, len(sub)))
            cuts = sorted(rng.sample(range(1, len(sub)), r - 1))
            b = [0, *cuts, len(sub)]
            for i in range(r):
                plan.append(("M", sub[b[i]:b[i + 1]], False))
        plans.append((n, dm, plan))
    runs = []
    for n, dm, plan in plans:
        # build the circuit; measurements that are not explicitly collapsing become collapsing
        # iff a later gate touches one of their qubits (Circuit.add bookkeeping)
        c = Circuit(n, density_matrix=dm)
        handles, mts, mexp = [], [], []
        gate_pos = []
        ok_plan = True
        for item in plan:
            if item[0] == "G":
                _, tok, (m, qs) = item
                c.add(gates.Unitary(m, *qs, check_unitary=False))
                gate_pos.append(set(qs))
            elif item[0] == "M":
                _, ts, expl = item
                handles.append(c.add(gates.M(*ts, collapse=True) if expl else gates.M(*ts)))
                mts.append(ts)
                mexp.append(expl)
                gate_pos.append(None)
            else:
                _, mi, j, q = item
                c.add(gates.RX(q, theta=np.pi * handles[mi].symbols[j]))
                gate_pos.append({q})
        # which measurements end up collapsing / final
        midx = [i for i, it in enumerate(plan) if it[0] == "M"]
        status = []
        for k_, i in enumerate(midx):
            later = set().union(*[g for g in gate_pos[i + 1:] if g]) if any(g for g in gate_pos[i + 1:]) else set()
            status.append("collapse" if mexp[k_] or (set(mts[k_]) & later) else "final")
        # a conditioned gate on a measurement that is still 'final' has no recorded outcome
        for it in plan:
            if it[0] == "C" and status[it[1]] == "final":
                ok_plan = False
        finals = [k_ for k_, s_ in enumerate(status) if s_ == "final"]
        fq_all = [q for k_ in finals for q in mts[k_]]
        if len(fq_all) != len(set(fq_all)):
            continue  # final registers must be disjoint (a partition of a qubit subset)
        if not ok_plan or "collapse" not in status or (not dm and not finals):
            continue
        psi = gi_state(rng, n, zeros=0.1)
        nshots = 1 if dm else rng.randint(1, 4)
        be = H["OracleBackend"](support_chooser(rng))
        init = np.outer(psi, psi.conj()) / np.vdot(psi, psi).real if dm else psi / np.linalg.norm(psi)
        try:
            res = be.execute_circuit(c, initial_state=init.copy(), nshots=nshots)
            err = None
        except Exception as e:  # noqa
            res, err = None, f"{type(e).__name__}: {e}"
        runs.append((n, dm, plan, mts, status, finals, psi, nshots, c, handles, res, err, be.calls))
    lines, idx = [], []
    for ri, run in enumerate(runs):
        (n, dm, plan, mts, status, finals, psi, nshots, c, handles, res, err, calls) = run
        if err:
            continue
        for s in range(nshots):
            toks = []
            mi = 0
            good = True
            for it in plan:
                if it[0] == "G":
                    toks.append("G " + it[1])
                elif it[0] == "M":
                    if status[mi] == "collapse":
                        try:
                            bits = [int(x) for x in np.asarray(handles[mi].samples()[s]).reshape(-1)]
                        except Exception:  # noqa
                            bits, good = [0] * len(mts[mi]), False
                        toks.append(f"M {len(mts[mi])} {' '.join(map(str, mts[mi]))} {' '.join(map(str, bits))}")
                    else:
                        toks.append(f"M 0")  # final measurement: no effect on the state; keeps numbering
                    mi += 1
                else:
                    _, m_i, j, q = it
                    toks.append(f"C {m_i} {j} 1 0 {q} 0 0 0 -1 0 -1 0 0")
            state_toks = gi_tokens(np.outer(psi, psi.conj())) if dm else gi_tokens(psi)
            lines.append(f"CIRC {int(dm)} {n} {len(toks)} {' '.join(toks)} {state_toks}")
            idx.append((ri, s, good))
    outs = run_driver(lines, driver=DRIVER)
    per_run = {}
    for (ri, s, good), out in zip(idx, outs):
        per_run.setdefault(ri, []).append((s, good, parse_gi(out)))
    bad = 0
    for ri, run in enumerate(runs):
        (n, dm, plan, mts, status, finals, psi, nshots, c, handles, res, err, calls) = run
        unsorted_m = any(ts != sorted(ts) and st_ == "collapse" for ts, st_ in zip(mts, status))
        descr = [("G%s" % (it[2][1],) if it[0] == "G" else "M%s%s" % (tuple(it[1]), "c" if it[2] else "") if it[0] == "M" else "RX(%d,pi*m%d[%d])" % (it[3], it[1], it[2])) for it in plan]
        ctx.case(("circ", n, dm, tuple(descr)))
        ctx.stat("circ_" + ("dm" if dm else "sv"))
        ctx.stat("circ_unsorted_collapse" if unsorted_m else "circ_sorted_collapse")
        if any(it[0] == "C" for it in plan):
            ctx.stat("circ_conditioned")
        if any(st_ == "collapse" and not it[2] for it, st_ in zip([p for p in plan if p[0] == "M"], status)):
            ctx.stat("circ_implicit_collapse")
        why = None
        try:
            why = _circ_eval(ctx, run, per_run.get(ri, []))
            if why is None:
                # independent numpy SPEC on a fresh execution with fresh draws
                pl_ = [("G", it[2][0].tolist(), list(it[2][1])) if it[0] == "G" else tuple(it) for it in plan]
                log, base = [], support_chooser(ctx.rng)

                def rec_chooser(p_, n_, log=log, base=base):
                    out_ = base(p_, n_)
                    log.append(out_)
                    return out_

                why = H["check_plan"](n, dm, pl_, psi, nshots, rec_chooser)
                if why:
                    calls = log
        except Exception as e:  # noqa
            why = f"{type(e).__name__}: {e}"
        if len(ctx.samples) < 10 and ri < 2:
            ctx.sample({"suite": "collapse-circuit", "n": n, "density_matrix": dm, "circuit": descr, "nshots": nshots})
        if why:
            bad += 1
            key = "collapse-order:unsorted-targets" if unsorted_m else "collapse-circuit:" + ("dm" if dm else "sv")
            pl = [("G", it[2][0].tolist(), list(it[2][1])) if it[0] == "G" else tuple(it) for it in plan]
            py = (replay_header() + "# circuit (qibo order): " + "; ".join(descr) + f"\nplan = {pl!r}\n"
                  f"why = check_plan({n}, {dm}, plan, np.array({psi.tolist()}), {nshots}, Tape({calls!r}))\nassert why is None, why\n")
            if unsorted_m and False:
                py = (replay_header() + "c = Circuit(2, density_matrix=True)\nc.add(gates.X(1))\nm = c.add(gates.M(1, 0, collapse=True))\n"
                      "NumpyBackend().execute_circuit(c, nshots=1)\nrec = [int(x) for x in m.samples()[-1]]\n"
                      "assert rec == [1, 0], (rec, 'bit j must belong to the j-th listed qubit')\n")
            ctx.fail(key, f"circuit {descr} (n={n}, dm={dm}): {why}", py, expected="model state / possible outcome", observed=why,
                     broken=["C03_corr_collapse"])
    return bad


def _circ_eval(ctx, run, shots):
    (n, dm, plan, mts, status, finals, psi, nshots, c, handles, res, err, calls) = run
    why = None
    if True:
        if err:
            why = err
        else:
            if dm:
                s, good, model = shots[0]
                tr = np.trace(model.reshape(2**n, 2**n)).real
                real = np.asarray(res.state())
                if not good:
                    why = "recorded samples of a collapsing measurement are not readable"
                elif tr <= 1e-9:
                    why = "the recorded outcome has probability zero in the state it was measured on"
                elif abs(np.trace(real)) < 1e-12 or not np.allclose(real.reshape(-1) / np.trace(real), model / tr, atol=1e-8):
                    why = "final state is not the normalised projection onto the recorded outcomes followed by the later gates"
                elif finals:
                    rows = np.asarray(res.samples())
                    fq = [q for k_ in finals for q in mts[k_]]
                    marg = H["born_np"](model.reshape(2**n, 2**n), n, fq)
                    if rows.shape != (1, len(fq)):
                        why = f"samples shape {rows.shape}"
                    elif marg[int("".join(str(int(b)) for b in rows[0]), 2)] <= 1e-9 * marg.sum():
                        why = f"reported final sample {rows[0].tolist()} on qubits {fq} has probability zero in the final state"
            else:
                rows = np.asarray(res.samples())
                fq = [q for k_ in finals for q in mts[k_]]
                if rows.shape != (nshots, len(fq)):
                    why = f"samples shape {rows.shape}"
                else:
                    for s, good, model in shots:
                        if not good:
                            why = "recorded samples of a collapsing measurement are not readable"
                            break
                        marg = H["born_np"](model, n, fq)
                        kidx = int("".join(str(int(b)) for b in rows[s]), 2)
                        if marg.sum() <= 1e-9 or marg[kidx] <= 1e-9 * marg.sum():
                            why = f"shot {s}: reported final sample {rows[s].tolist()} on qubits {fq} has probability zero given the recorded mid-circuit outcomes"
                            break
            if why is None:
                # symbols agree with the recorded samples
                for h_, st_ in zip(handles, status):
                    if st_ == "collapse":
                        last = [int(x) for x in np.asarray(h_.samples()[-1]).reshape(-1)]
                        if [int(sy.outcome()) for sy in h_.symbols] != last:
                            why = "symbols do not report the recorded bits"
            if why is None and not err:
                # register bookkeeping: names of the final registers
                exp_names = [f"register{k_}" for k_ in finals]
                try:
                    got = list(res.samples(registers=True).keys())
                except Exception as e:  # noqa
                    got = f"{type(e).__name__}: {e}"
                if finals and got != exp_names:
                    why = f"register names {got} != {exp_names}"
    return why


def repeated_views(ctx):
    """result objects built from given samples (state-vector execution with a collapsing
    measurement): every accessor must be a view of the reported sample table."""
    from qibo import Circuit, gates

    rng = ctx.rng
    runs, lines = [], []
    for _ in range(120 if ctx.thorough else 40):
        n = rng.randint(2, 4)
        qs = list(range(n))
        rng.shuffle(qs)
        cq = qs[0]
        rest = qs[1:] if rng.random() < 0.5 else qs
        L = len(rest)
        r = rng.randint(1, min(3, L))
        cuts = sorted(rng.sample(range(1, L), r - 1))
        b = [0, *cuts, L]
        regs = [rest[b[i]:b[i + 1]] for i in range(r)]
        c = Circuit(n)
        for q in range(n):
            c.add(gates.H(q))
        c.add(gates.M(cq, collapse=True))
        c.add(gates.H(cq))
        handles = [c.add(gates.M(*reg)) for reg in regs]
        names = [f"register{i + 1}" for i in range(len(regs))]
        nshots = rng.randint(1, 9)
        be = H["OracleBackend"](support_chooser(rng))
        ops = [rng.choice(all_ops(len(regs))) for _ in range(rng.randint(1, 5))]
        if rng.random() < 0.5:
            ops.insert(0, ("freqs", rng.random() < 0.5, True))
        try:
            res = be.execute_circuit(c, nshots=nshots)
            T = [int(x) for x in res.backend.samples_to_decimal(np.asarray(res.samples()), sum(map(len, regs)))]
            real_names = [m.register_name for m in c.measurements]
            outs = [H["canon"](op, H["call_op"](op, res, handles), regs, real_names, nshots) for op in ops]
            err = None
            # probabilities of a result that has no state: frequencies / nshots, marginal in the given order
            flat = [q for r_ in regs for q in r_]
            pq = rng.sample(flat, rng.randint(1, len(flat)))
            exp_p = np.zeros(2 ** len(pq))
            for sdec in T:
                bits = [(sdec >> (len(flat) - 1 - j)) & 1 for j in range(len(flat))]
                exp_p[int("".join(str(bits[flat.index(q)]) for q in pq), 2)] += 1 / nshots
            got_p = np.asarray(res.probabilities(pq), dtype=float)
            got_p2 = np.asarray(res.probabilities(pq), dtype=float)
            if got_p.shape != exp_p.shape or not np.allclose(got_p, exp_p, atol=1e-9) or not np.allclose(got_p2, exp_p, atol=1e-9):
                err = f"probabilities({pq}) = {got_p.tolist()} but the reported samples give {exp_p.tolist()}"
            elif [H["canon"](op, H["call_op"](op, res, handles), regs, real_names, nshots) for op in ops] != outs:
                err = "answers changed after probabilities() was called"
        except Exception as e:  # noqa
            T, outs, real_names, err = [], [], [], f"{type(e).__name__}: {e}"
        runs.append((n, cq, regs, ops, nshots, T, outs, real_names, names, err, be.calls, locals().get("pq")))
        lines.append(views_line(regs, 1, T, [], [], ops))
    mouts = run_driver(lines, driver=DRIVER)
    bad = 0
    for run, mout in zip(runs, mouts):
        (n, cq, regs, ops, nshots, T, outs, real_names, names, err, calls, pq) = run
        model = [x.strip() for x in mout.split("|")]
        ctx.case(("repeated", n, tuple(map(tuple, regs)), tuple(map(str, ops))))
        ctx.stat("repeated_views")
        problem = None
        if err and err.startswith("probabilities("):
            problem = (0, ("probs", []), "frequencies / nshots marginalised in the given qubit order", err)
        elif err:
            problem = (0, ops[0], "no exception", err)
        elif real_names != names:
            problem = (0, ops[0], names, real_names)
        else:
            for i, (op, got, exp) in enumerate(zip(ops, outs, model)):
                if got != exp:
                    problem = (i, op, exp, got)
                    break
        if problem:
            bad += 1
            i, op, exp, got = problem
            regflag = "registers" if op[0] in ("samples", "freqs") and op[2] else "global" if op[0] in ("samples", "freqs") else "gate"
            key = f"views:{op_name(op).split('(')[0]}:{regflag}:repeated-execution"
            if op[0] == "probs":
                key = "views:probabilities:from-samples:repeated-execution"
            build = "".join(f"c.add(gates.H({q}))\n" for q in range(n)) + f"c.add(gates.M({cq}, collapse=True))\nc.add(gates.H({cq}))\n" + \
                f"handles = [c.add(gates.M(*reg)) for reg in {regs!r}]\n"
            py = (replay_header() + f"c = Circuit({n})\n{build}be = OracleBackend(Tape({calls!r}))\nres = be.execute_circuit(c, nshots={nshots})\n"
                  f"ops = {ops!r}\nnames = [m.register_name for m in c.measurements]\n"
                  f"outs = [canon(op, call_op(op, res, handles), {regs!r}, names, {nshots}) for op in ops]\n"
                  f"assert names == {names!r}, names\n"
                  f"T = [int(x) for x in res.backend.samples_to_decimal(np.asarray(res.samples()), {sum(map(len, regs))})]\n"
                  f"exp = spec_views({regs!r}, T, ops)\n"
                  f"assert outs == exp, [(i, ops[i], a, b) for i, (a, b) in enumerate(zip(outs, exp)) if a != b][:1]\n")
            if op[0] == "probs":
                flat = [q for r_ in regs for q in r_]
                py = (replay_header() + f"c = Circuit({n})\n{build}be = OracleBackend(Tape({calls!r}))\nres = be.execute_circuit(c, nshots={nshots})\n"
                      f"flat = {flat!r}; pq = {pq!r}; T = [int(x) for x in res.samples(binary=False)]\nexp = np.zeros(2 ** len(pq))\n"
                      f"for sdec in T:\n    bits = [(sdec >> (len(flat) - 1 - j)) & 1 for j in range(len(flat))]\n"
                      f"    exp[int(''.join(str(bits[flat.index(q)]) for q in pq), 2)] += 1 / {nshots}\n"
                      f"got = np.asarray(res.probabilities(pq), dtype=float)\nassert np.allclose(got, exp, atol=1e-9), (got, exp)\n")
            ctx.fail(key, f"repeated execution, registers {regs}, history {[op_name(o) for o in ops]}: call #{i} {op_name(op)} is not the view of the reported samples {T}",
                     py, expected=exp, observed=got, broken=["C03_corr_collapse"])
    return bad


def collapse_suite(ctx):
    bad = collapse_direct(ctx) + recorded_order(ctx) + collapse_circuits(ctx) + repeated_views(ctx)
    ctx.ob("C03_corr_collapse", bad == 0, "correspondence", f"{bad} disagreements" if bad else "")



# ---------------------------------------------------------------------------
# suite: Circuit.add measurement bookkeeping (model QV/Model/CircuitAdd.lean)


def add_item_tokens(it):
    if it[0] == "G":
        return "G " + nl(sorted(it[2]))
    _, ts, name, collapse, basis = it
    rot = [q for q, b in zip(ts, basis) if b != "Z"]
    return f"M {nl(ts)} {1 if name is not None else 0} {name if name is not None else 'x'} {int(collapse)} {nl(rot)}"


def add_descr(it):
    if it[0] == "G":
        return f"{it[1]}{tuple(it[2])}"
    _, ts, name, collapse, basis = it
    extra = ("" if name is None else f",name={name}") + (",collapse" if collapse else "") + ("" if set(basis) == {"Z"} else f",basis={basis}")
    return f"M{tuple(ts)}{extra}"


def random_gate_item(rng, n):
    k = min(rng.choice([1, 1, 2, 2, 3]), n)
    qs = rng.sample(range(n), k)
    kind = {1: ["H", "X", "RX", "noise", "U"], 2: ["CNOT", "CZ", "SWAP", "ctrl", "U"], 3: ["TOFFOLI", "ctrl", "U"]}[k]
    return ("G", rng.choice(kind), qs)


def add_suite(ctx):
    rng = ctx.rng
    cases = []
    # (a) exhaustive: 2 qubits, every sequence of <= 3 (thorough: 4) calls over an alphabet of
    # 3 gate placements and 8 measurements (ordered targets x collapse flag)
    alpha = [("G", "H", [0]), ("G", "X", [1]), ("G", "CNOT", [0, 1])]
    for ts in ([0], [1], [0, 1], [1, 0]):
        for cl in (False, True):
            alpha.append(("M", ts, None, cl, "Z" * len(ts)))
    for L in range(1, (4 if ctx.thorough else 3) + 1):
        for seq in itertools.product(alpha, repeat=L):
            cases.append((2, list(seq)))
    # (b) 3 qubits: two or three single-qubit measurements added in a row, then one gate that
    # overlaps several of them (the removal loop must not skip), then possibly more
    for ms in itertools.permutations(range(3), 2):
        for gq in ([0, 1], [1, 2], [0, 2], [2, 0], [0, 1, 2], [2, 1, 0]):
            for kind in (("CNOT", "ctrl", "U") if len(gq) == 2 else ("TOFFOLI", "ctrl")):
                cases.append((3, [("M", [q], None, False, "Z") for q in ms] + [("G", kind, gq)]))
    for ms in itertools.permutations(range(3), 3):
        for gq in ([0, 1], [1, 2], [2, 0], [0, 1, 2]):
            cases.append((3, [("M", [q], None, False, "Z") for q in ms] + [("G", "U", gq), ("M", [ms[0]], None, False, "Z")]))
    # (c) random: up to 5 qubits, names (incl. clashes and default-looking names), bases, channels
    for _ in range(900 if ctx.thorough else 300):
        n = rng.randint(1, 5)
        items = []
        for _ in range(rng.randint(1, 10)):
            if rng.random() < 0.45:
                items.append(random_gate_item(rng, n))
            else:
                ts = rng.sample(range(n), rng.randint(1, min(n, 3)))
                name = None if rng.random() < 0.6 else rng.choice(["a", "b", "a", "register1", "register2", "out"])
                basis = "".join(rng.choice("ZZZXY") for _ in ts)
                items.append(("M", ts, name, rng.random() < 0.2, basis))
        if rng.random() < 0.4:
            # several terminal measurements in a row followed by one wide gate
            qs = rng.sample(range(n), min(n, rng.randint(2, 4)))
            items += [("M", [q], None, False, "Z") for q in qs]
            items.append(("G", "U" if len(qs) > 3 else rng.choice(["U", "ctrl"]), qs[:3] if rng.random() < 0.7 else qs[-3:]))
        cases.append((n, items))
    # (d) default-name clash (known finding): an explicit "register<k>" still terminal when the
    # k-th measurement gate arrives without a name; no clash once it is collapsing
    for n_, pre in ((2, [("M", [0], "register1", False, "Z")]),
                    (3, [("M", [0], None, False, "Z"), ("M", [1], "register2", False, "Z")]),
                    (3, [("M", [2, 0], "register1", False, "ZX")]),
                    (3, [("G", "H", [0]), ("M", [0], "register2", False, "Z"), ("M", [0], None, True, "Z")])):
        free = [q for q in range(n_) if all(it[0] != "M" or q not in it[1] for it in pre)]
        cases.append((n_, pre + [("M", [free[0]], None, False, "Z")]))
        cases.append((n_, pre + [("M", [free[0]], None, True, "Z")]))
        hit = next(it[1][0] for it in pre if it[0] == "M" and it[2] is not None)
        cases.append((n_, pre + [("G", "X", [hit]), ("M", [free[0]], None, False, "Z")]))
    lines = [f"ADD {len(items)} " + " ".join(add_item_tokens(it) for it in items) for _, items in cases]
    mouts = run_driver(lines, driver=DRIVER)
    bad = sbad = 0
    for (n, items), mout in zip(cases, mouts):
        model = " ".join(mout.split())
        descr = [add_descr(it) for it in items]
        ctx.case(("add", n, tuple(descr)))
        ctx.stat(f"add_len{min(len(items), 6)}")
        try:
            real = " ".join(H["observe_add"](n, items).split())
        except Exception as e:  # noqa
            real = f"{type(e).__name__}: {e}"
        spec = " ".join(H["spec_add"](items).split())
        if real.startswith("ERR"):
            ctx.stat("add_rejected")
            if items[int(real.split()[1])][2] is None:
                ctx.stat("add_rejected_default_name")
        if len(ctx.samples) < 11 and len(items) >= 5 and real.count("M:") >= 2:
            ctx.sample({"suite": "add", "n": n, "calls": descr, "bookkeeping": real})
        if model != spec:
            sbad += 1
            ctx.log(f"C03 add: Lean model and python SPEC disagree on {descr}: {model!r} vs {spec!r}")
        if real != model or real != spec:
            bad += 1
            nM = sum(1 for it in items if it[0] == "M")
            key = "circuit-add:" + ("rejected" if real.startswith("ERR") or model.startswith("ERR") else "measurements" if real.split("|")[1:2] != model.split("|")[1:2] else "queue")
            py = (replay_header() + f"# Circuit({n}).add of: " + "; ".join(descr) + f"\nitems = {items!r}\n"
                  f"obs = ' '.join(observe_add({n}, items).split())\nexp = ' '.join(spec_add(items).split())\n"
                  "# format: queue (M:targets:register:collapse / G:qubits) | positions of circuit.measurements | has_collapse | measurement_tuples\n"
                  "assert obs == exp, (obs, exp)\n")
            ctx.fail(key, f"Circuit.add bookkeeping after {descr}: a measurement must stay terminal iff no later gate touches one of its qubits ({nM} measurements)",
                     py, expected=spec, observed=real, broken=["C03_corr_add"])
    ctx.ob("C03_corr_add", bad == 0 and sbad == 0, "correspondence", f"{bad} disagreements, {sbad} model/spec" if bad or sbad else "")
    # direct property search: register names of the terminal measurements are pairwise different.
    # The input class excluded by the hypothesis `NoClash` of T03_add_names_unique (explicit name
    # = default name of a later measurement) is reported under its own stable key.
    nbad = cbad = 0
    for n, items in cases:
        clash = H["default_name_clash"](items)
        if clash:
            ctx.stat("add_default_name_clash_inputs")
        try:
            why = H["check_register_names"](n, items)
        except Exception as e:  # noqa
            why = f"{type(e).__name__}: {e}"
        if not why:
            continue
        descr = [add_descr(it) for it in items]
        py = (replay_header() + f"# Circuit({n}).add of: " + "; ".join(descr) + f"\nitems = {items!r}\n"
              f"why = check_register_names({n}, items)\nassert why is None, why\n")
        if clash:
            cbad += 1
            ctx.fail("circuit-add:default-name-clash", f"Circuit.add of {descr}: an explicit register name equals the default name of a later measurement and is not rejected: {why}",
                     py, expected="KeyError or distinct register names", observed=why, broken=["C03_search_default_name_clash"])
        else:
            nbad += 1
            ctx.fail("circuit-add:register-names", f"Circuit.add of {descr}: {why}", py, expected="distinct register names", observed=why,
                     broken=["C03_search_register_names"])
    ctx.ob("C03_search_register_names", nbad == 0, "search", f"{nbad} failing inputs" if nbad else "")
    ctx.ob("C03_search_default_name_clash", cbad == 0, "search", f"{cbad} failing inputs (explicit name = later default name)" if cbad else "")


# ---------------------------------------------------------------------------
# suite: execute_circuit_repeated (model QV/Model/Repeated.lean)


def rep_plan_tokens(plan, status):
    toks, mi = [], 0
    for it in plan:
        if it[0] == "G":
            toks.append("G " + it[3])
        elif it[0] == "M":
            toks.append(f"M {nl(it[1])} {int(status[mi])}")
            mi += 1
        else:
            toks.append(f"C {it[1]} {it[2]} 1 0 {it[3]} 0 0 0 -1 0 -1 0 0")
    return toks


def repeated_suite(ctx):
    rng = ctx.rng
    runs = []
    target = 260 if ctx.thorough else 90
    tries = 0
    while len(runs) < target and tries < 20 * target:
        tries += 1
        n = rng.randint(1, 4)
        dm = rng.random() < 0.4
        plan, msizes = [], []
        for _ in range(rng.randint(2, 7)):
            r = rng.random()
            if r < 0.4:
                g, tok, (m, qs) = int_gate(rng, n)
                plan.append(("G", m.tolist(), list(qs), tok))
            elif r < 0.75 or not msizes:
                ts = rng.sample(range(n), rng.randint(1, min(n, 3)))
                plan.append(("M", ts, rng.random() < 0.5))
                msizes.append(len(ts))
            else:
                mi = rng.randrange(len(msizes))
                plan.append(("C", mi, rng.randrange(msizes[mi]), rng.randrange(n)))
        if rng.random() < 0.5:
            # consecutive terminal measurements made collapsing by ONE later gate
            qs = rng.sample(range(n), min(n, 2))
            for q in qs:
                plan.append(("M", [q], False)); msizes.append(1)
            if len(qs) == 2:
                g, tok, (m, gq) = int_gate(rng, n, on=qs)
                plan.append(("G", m.tolist(), list(gq), tok))
        status = H["plan_status"](plan)
        mts = [it[1] for it in plan if it[0] == "M"]
        # terminal registers: a partition of an ordered subset of the free qubits
        busy = {q for ts, st in zip(mts, status) if not st for q in ts}
        if len(busy) != sum(len(ts) for ts, st in zip(mts, status) if not st):
            continue
        free = [q for q in range(n) if q not in busy]
        if free and rng.random() < 0.8:
            sub = rng.sample(free, rng.randint(1, len(free)))
            r = rng.randint(1, min(3, len(sub)))
            cuts = sorted(rng.sample(range(1, len(sub)), r - 1))
            b = [0, *cuts, len(sub)]
            for i in range(r):
                plan.append(("M", sub[b[i]:b[i + 1]], False))
        status = H["plan_status"](plan)
        mts = [it[1] for it in plan if it[0] == "M"]
        finals = [ts for ts, st in zip(mts, status) if not st]
        if not any(status) or (not dm and not finals):
            continue
        if any(it[0] == "C" and not status[it[1]] for it in plan):
            continue
        psi = gi_state(rng, n, zeros=0.1)
        nshots = rng.randint(1, 6)
        log = []
        base = support_chooser(rng)

        def chooser(p_, n_, log=log, base=base):
            out_ = base(p_, n_)
            log.append(out_)
            return out_

        pl = [tuple(it[:3]) if it[0] == "G" else tuple(it) for it in plan]
        try:
            real, be = H["run_repeated"](n, dm, pl, psi, nshots, chooser)
            asked, calls = be.asked, be.calls
        except Exception as e:  # noqa
            real, asked, calls = f"{type(e).__name__}: {e}", [], log
        runs.append((n, dm, plan, pl, status, psi, nshots, real, asked, calls))
    lines = []
    for (n, dm, plan, pl, status, psi, nshots, real, asked, calls) in runs:
        tape = [x for c_ in calls for x in c_]
        toks = rep_plan_tokens(plan, status)
        st = gi_tokens(np.outer(psi, psi.conj())) if dm else gi_tokens(psi)
        lines.append(f"REP {int(dm)} {n} {nshots} {len(toks)} {' '.join(toks)} {nl(tape)} {st}")
        lines.append(f"REPWF {len(toks)} {' '.join(toks)}")
    mouts = run_driver(lines, driver=DRIVER)
    bad = 0
    for i, run in enumerate(runs):
        (n, dm, plan, pl, status, psi, nshots, real, asked, calls) = run
        mout, wf = mouts[2 * i], mouts[2 * i + 1].split()
        parts = [x.strip() for x in mout.split("|")]
        model = " | ".join(" ".join(x.split()) for x in parts[:3])
        descr = [("G%s" % (tuple(it[2]),) if it[0] == "G" else "M%s%s" % (tuple(it[1]), "c" if it[2] else "") if it[0] == "M" else "RX(%d,pi*m%d[%d])" % (it[3], it[1], it[2])) for it in plan]
        ctx.case(("rep", n, dm, tuple(descr), nshots))
        ctx.stat("rep_" + ("dm" if dm else "sv"))
        if any(it[0] == "C" for it in plan):
            ctx.stat("rep_conditioned")
        if sum(status) >= 2:
            ctx.stat("rep_two_collapsing")
        why = None
        need = int(wf[1])
        if wf[0] != "1":
            why = "harness: plan not well-formed for the model"
        elif " ".join(real.split()) != model:
            why = f"reported samples / per-gate samples / frequencies differ: {real!r} vs model {model!r}"
        elif parts[3] != "0" or len(calls) != nshots * need or any(len(c_) != 1 for c_ in calls):
            why = f"the execution made {len(calls)} sampler calls, the model consumes {nshots}*{need}"
        else:
            # the probabilities given to the sampler at every draw = Born marginals of the model's state
            mseen = [[[int(t) for t in v.split()] for v in sh.split(",")] for sh in parts[4].split(";")] if parts[4].strip() else []
            flat_seen = [v for sh in mseen for v in sh]
            if len(flat_seen) != len(asked):
                why = f"{len(asked)} draws on the real code, {len(flat_seen)} in the model"
            else:
                for di, (pm, pr) in enumerate(zip(flat_seen, asked)):
                    pm = np.asarray(pm, dtype=float)
                    pr = np.asarray(pr, dtype=float)
                    if pm.shape != pr.shape or pm.sum() <= 0 or not np.allclose(pm / pm.sum(), pr / pr.sum(), atol=1e-8):
                        why = f"draw #{di} (shot {di // need}): sampler was given {pr.tolist()}, the state of this shot gives {(pm / max(pm.sum(), 1)).tolist()}"
                        break
        if len(ctx.samples) < 12 and i < 2:
            ctx.sample({"suite": "repeated", "n": n, "density_matrix": dm, "circuit": descr, "nshots": nshots, "observed": real})
        if why:
            bad += 1
            py = (replay_header() + "# circuit (qibo order): " + "; ".join(descr) + f"\nplan = {pl!r}\n"
                  f"why = check_plan({n}, {dm}, plan, np.array({psi.tolist()}), {nshots}, Tape({calls!r}))\nassert why is None, why\n"
                  f"obs, be = run_repeated({n}, {dm}, plan, np.array({psi.tolist()}), {nshots}, Tape({calls!r}))\n"
                  "# rows of result.samples() | samples of every M gate in queue order | frequencies (dense)\n"
                  f"assert ' '.join(obs.split()) == {model!r}, obs\n")
            ctx.fail("repeated-execution:" + ("dm" if dm else "sv"), f"circuit {descr} (n={n}, dm={dm}, nshots={nshots}): {why}", py,
                     expected=model, observed=real, broken=["C03_corr_repeated"])
    ctx.ob("C03_corr_repeated", bad == 0, "correspondence", f"{bad} disagreements" if bad else "")


# ---------------------------------------------------------------------------
# suite: probabilities(qs) histories on results without a final state (model MeasureProbs.lean)


def pop_tokens(op):
    if op[0] == "probs":
        return "4 " + nl(op[1])
    return op_tokens(op)


def probs_history_suite(ctx):
    rng = ctx.rng
    cases = []
    kinds = ["noise", "collapse", "given"]
    # (a) every ordered full list of the measured qubits first, then everything else (k <= 3)
    for regs, n in (([[0, 1]], 3), ([[1, 0]], 2), ([[2], [0]], 3), ([[0, 1, 2]], 3), ([[2, 0], [1]], 3), ([[1], [2, 0]], 4)):
        flat = [q for r in regs for q in r]
        for first in itertools.permutations(flat):
            if list(first) == flat and len(flat) > 2:
                continue
            later = [("probs", list(p_)) for k_ in range(len(flat), 0, -1) for p_ in itertools.permutations(flat, k_)]
            rng.shuffle(later)
            ops = [("probs", list(first))] + later[: (8 if ctx.thorough else 4)]
            ops.insert(rng.randint(1, len(ops)), rng.choice(all_ops(len(regs))))
            cases.append((n, regs, rng.choice(kinds), ops))
    # (b) random histories mixing probabilities in permuted orders with samples / frequencies
    for _ in range(160 if ctx.thorough else 60):
        n = rng.randint(2, 4)
        regs = rng.choice([l for l in layouts(n) if sum(map(len, l)) <= 3 or rng.random() < 0.3])
        flat = [q for r in regs for q in r]
        ops = []
        for _ in range(rng.randint(2, 7)):
            if rng.random() < 0.55:
                full = rng.random() < 0.6
                ops.append(("probs", rng.sample(flat, len(flat) if full else rng.randint(1, len(flat)))))
            else:
                ops.append(rng.choice(all_ops(len(regs))))
        cases.append((n, regs, rng.choice(kinds), ops))
    runs, lines = [], []
    for n, regs, kind, ops in cases:
        nshots = rng.randint(1, 12)
        log, base = [], support_chooser(rng)

        def chooser(p_, n_, log=log, base=base):
            out_ = base(p_, n_)
            log.append(out_)
            return out_

        try:
            outs, rows, calls = H["run_probs_history"](n, regs, kind, nshots, ops, chooser)
            err = None
        except Exception as e:  # noqa
            outs, rows, calls, err = [], [], log, f"{type(e).__name__}: {e}"
        T = [int("".join(map(str, r)), 2) for r in rows]
        runs.append((n, regs, kind, ops, nshots, outs, rows, calls, err))
        lines.append(f"PROBH {len(regs)} " + " ".join(nl(r) for r in regs) + f" {0 if kind == 'given' else 1} {nl(T)} {len(ops)} " + " ".join(pop_tokens(o) for o in ops))
    mouts = run_driver(lines, driver=DRIVER)
    bad = 0
    for run, mout in zip(runs, mouts):
        (n, regs, kind, ops, nshots, outs, rows, calls, err) = run
        model = [x.strip() for x in mout.split("|")]
        ctx.case(("probh", n, tuple(map(tuple, regs)), kind, tuple(map(str, ops))))
        ctx.stat(f"probh_{kind}")
        flat = [q for r in regs for q in r]
        if ops and ops[0][0] == "probs" and len(ops[0][1]) == len(flat) and ops[0][1] != flat:
            ctx.stat("probh_first_call_full_permuted")
        problem = None
        if err:
            problem = (0, ops[0], "no exception", err)
        else:
            spec = H["spec_probs_history"](regs, rows, ops)
            for i, (op, got, exp, sp) in enumerate(zip(ops, outs, model, spec)):
                if got != exp or got != sp:
                    problem = (i, op, sp, got)
                    break
        if len(ctx.samples) < 14 and len(ops) >= 4 and ops[0][0] == "probs":
            ctx.sample({"suite": "probabilities-history", "registers": regs, "kind": kind, "nshots": nshots, "history": [op_name(o) for o in ops]})
        if problem:
            bad += 1
            i, op, exp, got = problem
            key = "views:probabilities:from-samples:" + ("after-probabilities" if any(o[0] == "probs" for o in ops[:i]) else "first-call") if op[0] == "probs" else f"views:{op_name(op).split('(')[0]}:after-probabilities:{kind}"
            py = (replay_header() + f"ops = {ops!r}\nouts, rows, calls = run_probs_history({n}, {regs!r}, {kind!r}, {nshots}, ops, Tape({calls!r}))\n"
                  f"exp = spec_probs_history({regs!r}, rows, ops)\n"
                  "# probabilities(qs) * nshots must be the number of reported rows whose bits on qs (in that order) spell each outcome\n"
                  "assert outs == exp, [(i, ops[i], a, b) for i, (a, b) in enumerate(zip(outs, exp)) if a != b][:1]\n")
            ctx.fail(key, f"{kind} result, registers {regs}, history {[op_name(o) for o in ops]}: call #{i} {op_name(op)} is not the view of the reported samples",
                     py, expected=exp, observed=got, broken=["C03_corr_probs_history"])
    ctx.ob("C03_corr_probs_history", bad == 0, "correspondence", f"{bad} disagreements" if bad else "")


# ---------------------------------------------------------------------------
# suite: sample_frequencies at exact multiples of the batch size (patched and TRUE constant)


def batching_suite(ctx):
    import qibo

    rng = ctx.rng
    true_B = qibo.get_batch_size()
    cases = []
    for B in (2, 3, 5, 8):
        for nshots in (B - 1, B, B + 1, 2 * B - 1, 2 * B, 2 * B + 1, 3 * B):
            cases.append((B, nshots, "patched"))
    big = [true_B, 2 * true_B, true_B - 1, true_B + 1] if ctx.thorough else [true_B, 2 * true_B, rng.choice([true_B - 1, true_B + 1])]
    for nshots in big:
        cases.append((true_B, nshots, "true"))
    lines, recs = [], []
    for B, nshots, mode in cases:
        k = rng.randint(1, 3)
        p = np.zeros(2**k)
        if mode == "true":
            v0, v1 = rng.sample(range(2**k), 2)
            p[v0], p[v1] = 0.75, 0.25
            flip = rng.randrange(max(nshots - 1, 1))

            def chooser(p_, n_, v0=v0, v1=v1, flip=flip):
                # concentrated draws: all v0 except one v1 at a position that moves from batch to batch
                out = [v0] * n_
                if n_:
                    out[flip % n_] = v1
                return out
        else:
            p[:] = [rng.random() for _ in range(2**k)]
            p[rng.randrange(2**k)] = 0.0
            chooser = support_chooser(rng)
        be = H["OracleBackend"](chooser)
        old = qibo.get_batch_size()
        try:
            if mode == "patched":
                qibo.set_batch_size(B)
            assert qibo.get_batch_size() == B
            fr = be.sample_frequencies(p / p.sum(), nshots)
            err = None
        except Exception as e:  # noqa
            fr, err = None, f"{type(e).__name__}: {e}"
        finally:
            qibo.set_batch_size(old)
        rle = []
        for c_ in be.calls:
            runs_ = []
            for x in c_:
                if runs_ and runs_[-1][0] == x:
                    runs_[-1][1] += 1
                else:
                    runs_.append([x, 1])
            rle.append(f"{len(runs_)} " + " ".join(f"{v} {cnt}" for v, cnt in runs_) if runs_ else "0")
        lines.append(f"SFREQRLE {k} {len(be.calls)} " + " ".join(rle))
        lines.append(f"BATCH {nshots} {B}")
        recs.append((B, nshots, mode, k, p, fr, err, [len(c_) for c_ in be.calls]))
    outs = run_driver(lines, driver=DRIVER)
    bad = 0
    for i, (B, nshots, mode, k, p, fr, err, sizes) in enumerate(recs):
        model_fr = [int(t) for t in outs[2 * i].split("|")[0].split()]
        model_sizes = [int(t) for t in outs[2 * i + 1].split()]
        ctx.case(("batching", B, nshots, mode))
        ctx.stat(f"batching_{mode}")
        why = None
        try:
            obs = None if err else H["_dense"](fr, k, False) if nshots else [0] * 2**k
        except ValueError as e:
            obs, err = None, str(e)
        if err:
            why = err
        elif sizes != model_sizes:
            why = f"sample_shots was called with sizes {sizes}, batchSizes gives {model_sizes}"
        elif obs != model_fr:
            why = f"frequencies {obs} are not the histogram {model_fr} of the drawn samples"
        elif sum(obs) != nshots:
            why = f"frequencies sum to {sum(obs)} instead of {nshots}"
        if why:
            bad += 1
            setb = f"qibo.set_batch_size({B})\n" if mode == "patched" else f"assert qibo.get_batch_size() == {B}\n"
            py = (replay_header() + f"import qibo\n{setb}"
                  f"p = np.array({p.tolist()}); be = OracleBackend(lambda p_, n_: [int(np.argmax(p_))] * n_)\n"
                  f"fr = be.sample_frequencies(p / p.sum(), {nshots})\n"
                  f"assert sum(fr.values()) == {nshots} and dict(fr) == {{int(np.argmax(p)): {nshots}}}, fr\n")
            ctx.fail("bits:sample_frequencies", f"sample_frequencies(nshots={nshots}) with SHOT_BATCH_SIZE={B} ({mode} constant): {why}", py,
                     expected=model_fr, observed=why, broken=["C03_corr_batching"])
    # the unpatched sampler with the true constant: a one-hot distribution must give {v: nshots}
    nb = H["NumpyBackend"]()
    state0 = np.random.get_state()
    try:
        for nshots in ([true_B, 2 * true_B] if not ctx.thorough else [true_B, 2 * true_B, 3 * true_B, true_B + 1]):
            for path in ("sample_frequencies", "result.frequencies"):
                ctx.case(("batching-real", nshots, path))
                ctx.stat("batching_unpatched")
                v = rng.randrange(4)
                if path == "sample_frequencies":
                    p = np.zeros(4); p[v] = 1.0
                    try:
                        fr = nb.sample_frequencies(p, nshots)
                        got = {int(k_): int(c_) for k_, c_ in fr.items()}
                    except Exception as e:  # noqa
                        got = f"{type(e).__name__}: {e}"
                    py = (replay_header() + f"p = np.zeros(4); p[{v}] = 1.0\nfr = NumpyBackend().sample_frequencies(p, {nshots})\n"
                          f"assert {{int(k): int(c) for k, c in fr.items()}} == {{{v}: {nshots}}}, fr\n")
                else:
                    from qibo import Circuit, gates
                    c = Circuit(2)
                    if v & 2:
                        c.add(gates.X(0))
                    if v & 1:
                        c.add(gates.X(1))
                    c.add(gates.M(0, 1))
                    try:
                        res = nb.execute_circuit(c, nshots=nshots)
                        got = {int(k_): int(c_) for k_, c_ in res.frequencies(binary=False).items()}
                        rows_n = len(res.samples())
                        if rows_n != nshots:
                            got = {"rows": rows_n}
                    except Exception as e:  # noqa
                        got = f"{type(e).__name__}: {e}"
                    xs = "".join(f"c.add(gates.X({q}))\n" for q in (0, 1) if v & (2 >> q))
                    py = (replay_header() + f"c = Circuit(2)\n{xs}c.add(gates.M(0, 1))\nres = NumpyBackend().execute_circuit(c, nshots={nshots})\n"
                          f"fr = res.frequencies(binary=False)\nassert {{int(k): int(c) for k, c in fr.items()}} == {{{v}: {nshots}}}, fr\n"
                          f"assert len(res.samples()) == {nshots}\n")
                if got != {v: nshots}:
                    bad += 1
                    ctx.fail("bits:sample_frequencies", f"{path} with nshots={nshots} (multiple of SHOT_BATCH_SIZE={true_B}) on a deterministic state gives {got}", py,
                             expected={v: nshots}, observed=got, broken=["C03_corr_batching"])
    finally:
        np.random.set_state(state0)
    ctx.ob("C03_corr_batching", bad == 0, "correspondence", f"{bad} disagreements" if bad else "")

# ---------------------------------------------------------------------------
# direct property search with the real (unpatched) sampler


def real_sampler_search(ctx):
    rng = ctx.rng
    state0 = np.random.get_state()
    bad = 0
    try:
        for _ in range(160 if ctx.thorough else 50):
            n = rng.randint(1, 5)
            regs = rng.choice(layouts(min(n, 4)))
            if n == 5 and rng.random() < 0.5:
                regs = [[4 if q == regs[0][0] else q for q in r] for r in regs]
            psi = gi_state(rng, n, zeros=0.5)
            psi = psi / np.linalg.norm(psi)
            dm = rng.random() < 0.3
            nshots = rng.choice([1, 2, 7, 50, 300])
            seed = rng.randrange(2**31)
            first = rng.choice(["samples", "freqs"])
            ctx.case(("sampler", n, tuple(map(tuple, regs)), nshots, first, seed))
            ctx.stat("sampler_" + first)
            try:
                why = H["check_sampler"](n, regs, psi, dm, nshots, seed, first)
            except Exception as e:  # noqa
                why = f"{type(e).__name__}: {e}"
            if why:
                bad += 1
                py = (replay_header() + f"why = check_sampler({n}, {regs!r}, np.array({psi.tolist()}), {dm}, {nshots}, {seed}, {first!r})\nassert why is None, why\n")
                ctx.fail(f"sampler:{first}-first", f"registers {regs}, nshots={nshots}, seed={seed}: {why}", py, observed=why, broken=["C03_search_sampler"])
    finally:
        np.random.set_state(state0)
    ctx.ob("C03_search_sampler", bad == 0, "search", f"{bad} failing inputs" if bad else "")


def run(ctx):
    MODULES, THEOREMS = registry(PROP)
    ctx.theorems = THEOREMS
    build_and_audit(ctx, PROP, MODULES, THEOREMS)
    probs_suite(ctx)
    bits_suite(ctx)
    views_suite(ctx)
    collapse_suite(ctx)
    add_suite(ctx)
    repeated_suite(ctx)
    probs_history_suite(ctx)
    batching_suite(ctx)
    real_sampler_search(ctx)
    from props import C03_bitflip

    C03_bitflip.run_suites(ctx)
    from props import C03_scale

    C03_scale.run_suites(ctx)
    from props import C03_handles

    C03_handles.run_suites(ctx)
    ctx.notes.append(
        "probabilities: every ordered qubit list for n<=4 (+ random n<=6/7) on Gaussian-integer states and non-Hermitian integer density matrices, "
        "through the backend functions, QuantumState and CircuitResult; binary/decimal/frequency primitives incl. batching with small SHOT_BATCH_SIZE; "
        "views: every partition of every ordered qubit sub-list into <=3 registers for n<=4 with random accessor histories, all histories of length <=2 "
        "on three asymmetric layouts, draws and shuffle controlled and passed to the Lean state machine; collapse: projection primitives on all sorted "
        "subsets n<=4, recorded bit order for every ordered target list and basis state n<=3, random circuits with explicit/implicit collapse, "
        "conditioned RX gates, repeated execution; direct search with the unpatched seeded sampler; "
        "Circuit.add bookkeeping: every sequence of <=3 (thorough 4) calls over 11 gate/measurement placements on 2 qubits, "
        "consecutive measurements hit by one gate on 3 qubits, random sequences with names/bases/channels (n<=5); "
        "execute_circuit_repeated: random circuits with collapsing/terminal measurements and conditioned gates (sv and dm), rows, per-gate "
        "samples, frequencies, draw count and Born probabilities at every draw; probabilities(qs) histories (every full permutation first) on "
        "noise / collapse / samples= results; sample_frequencies at nshots = B, 2B, B+-1 with patched B and with the true 2**18")
    ctx.assumptions += [
        "np.random.choice returns i.i.d. indices of non-zero probability (statistical unbiasedness of the sampler is assumed, not proved)",
        "bit-flip noise: np.random.random returns i.i.d. uniform numbers in [0, 1) (assumed; the counting theorems are over a finite grid of equally likely values)",
        "sample_shots / np.random.shuffle / np.random.random are replaced inside the harness process so that draws are inputs; everything downstream is the real code",
        "only the numpy backend is exercised",
    ]
    ctx.trusted.append("lean/DriverC03.lean line protocol and the canonicalisation of qibo outputs in tools/props/C03.py (HARNESS_SRC)")
