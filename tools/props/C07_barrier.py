"""C07 (third part) — wide fusion (max_qubits 2..n) around gates that never take part in fusion.

Real code driven: `Circuit.fuse` (`_Queue.to_fused`, `FusedGate.can_fuse / fuse`, the
neighbour-graph update after an absorbed child brings new qubits), `NumpyBackend.execute_circuit`
(`M.apply` collapse branch, `CallbackGate.apply`, `FusedGate.apply`).

  barrier_suite   circuits on 3-4 qubits made of one- and two-qubit gates with 1-3 "barriers" in
                  the middle (collapsing measurements on one or two qubits, recording callbacks,
                  gates that are FusedGate objects already), every max_qubits 2..n, state vectors
                  and density matrices, forced draws.  Checked on the real fused circuit:
                    * the flattened fused queue keeps the relative order of every two entries that
                      share a qubit (a callback shares every qubit) — decided here in plain python;
                    * everything observed (probabilities / outcome at each collapse, whole state at
                      each callback, final state) equals the mathematical expectation computed by an
                      independent simulator from the explicit matrices of the spec (tensor
                      contraction, projector + renormalisation at a collapse, same forced draws).
"""
from __future__ import annotations

import itertools

import numpy as np

from props import C07obs

TOL = 1e-9
SQ = 1 / np.sqrt(2)
MATS = {
    "X": [[0, 1], [1, 0]], "Y": [[0, -1j], [1j, 0]], "Z": [[1, 0], [0, -1]], "S": [[1, 0], [0, 1j]], "SDG": [[1, 0], [0, -1j]],
    "H": [[SQ, SQ], [SQ, -SQ]], "T": [[1, 0], [0, np.exp(0.25j * np.pi)]],
    "SX": [[0.5 + 0.5j, 0.5 - 0.5j], [0.5 - 0.5j, 0.5 + 0.5j]],
    "CNOT": [[1, 0, 0, 0], [0, 1, 0, 0], [0, 0, 0, 1], [0, 0, 1, 0]],
    "CZ": [[1, 0, 0, 0], [0, 1, 0, 0], [0, 0, 1, 0], [0, 0, 0, -1]],
    "CY": [[1, 0, 0, 0], [0, 1, 0, 0], [0, 0, 0, -1j], [0, 0, 1j, 0]],
    "SWAP": [[1, 0, 0, 0], [0, 0, 1, 0], [0, 1, 0, 0], [0, 0, 0, 1]],
    "iSWAP": [[1, 0, 0, 0], [0, 0, 1j, 0], [0, 1j, 0, 0], [0, 0, 0, 1]],
}
ONE = ["X", "Y", "Z", "S", "H", "T", "SX", "SDG"]
TWO = ["CNOT", "CZ", "CY", "SWAP", "iSWAP"]


def _B():
    from props import C07
    return C07


# ---------------------------------------------------------------------------
# specs:  ("N", name, qs)  ("U", matrix, qs)  ("MC", qs)  ("CB",)  ("FG", [N/U items])


def short(spec):
    out = []
    for s in spec:
        if s[0] == "N":
            out.append(f"{s[1]}{list(s[2])}")
        elif s[0] == "U":
            out.append(f"U{list(s[2])}")
        elif s[0] in ("MC", "M"):
            out.append(f"{s[0]}{list(s[1])}")
        elif s[0] == "CB":
            out.append("CB")
        else:
            out.append("Fused(" + short(s[1]) + ")")
    return " ".join(out)


def support(s, n):
    if s[0] in ("N", "U"):
        return set(s[2])
    if s[0] in ("MC", "M"):
        return set(s[1])
    if s[0] == "CB":
        return set(range(n))
    return set().union(*[set(x[2]) for x in s[1]])


def _ctor(s):
    if s[0] == "N":
        return f"gates.{s[1]}(*{list(s[2])})"
    m = [[complex(x) for x in row] for row in s[1]]
    return f"gates.Unitary(np.array({m}), *{list(s[2])})"


def code(n, spec, density):
    lines = [C07obs.CODE_HDR, f"c = Circuit({n}, density_matrix={density})", "recs = []"]
    for s in spec:
        if s[0] in ("N", "U"):
            lines.append(f"c.add({_ctor(s)})")
        elif s[0] == "MC":
            lines.append(f"c.add(gates.M(*{list(s[1])}, collapse=True))")
        elif s[0] == "M":
            lines.append(f"c.add(gates.M(*{list(s[1])}))")
        elif s[0] == "CB":
            lines.append("recs.append(Rec(len(recs)))")
            lines.append("c.add(gates.CallbackGate(recs[-1]))")
        else:
            qs = sorted(support(s, n))
            lines.append(f"fg = gates.FusedGate(*{qs})")
            for x in s[1]:
                lines.append(f"fg.append({_ctor(x)})")
            lines.append("c.add(fg)")
    return "\n".join(lines) + "\n"


def build(n, spec, density):
    ns = {}
    exec(code(n, spec, density), ns)  # the harness builds exactly the circuit of the replay
    return ns["c"], ns["recs"]


# ---------------------------------------------------------------------------
# the expectation: explicit matrices, tensor contraction, projectors


EXPECT_PY = '''
def apply_mat(psi, n, m, qs):
    k = len(qs)
    t = np.asarray(psi, dtype=complex).reshape((2,) * n)
    m = np.asarray(m, dtype=complex).reshape((2,) * (2 * k))
    t = np.tensordot(m, t, axes=(list(range(k, 2 * k)), list(qs)))
    return np.moveaxis(t, list(range(k)), list(qs)).reshape(-1)

def expected_events(n, ops, psi, tape, density):
    """ops: ("G", matrix, qs) | ("MC", qs) | ("CB", idx).  Pure state throughout (forced draws)."""
    psi = np.asarray(psi, dtype=complex) / np.linalg.norm(psi)
    pos, events = 0, []
    view = (lambda v: np.outer(v, v.conj())) if density else (lambda v: v.copy())
    for op in ops:
        if op[0] == "G":
            psi = apply_mat(psi, n, op[1], op[2])
        elif op[0] == "CB":
            events.append(("C", op[1], view(psi)))
        else:
            qs = list(op[1])
            p = np.abs(psi.reshape((2,) * n)) ** 2
            rest = [q for q in range(n) if q not in qs]
            p = np.transpose(p, qs + rest).reshape(2 ** len(qs), -1).sum(axis=1)
            p = p / p.sum()
            cand = [k for k in range(len(p)) if p[k] > 1e-6]
            out = cand[tape[pos % len(tape)] % len(cand)]; pos += 1
            events.append(("D", p.copy(), out))
            bits = [(out >> (len(qs) - 1 - i)) & 1 for i in range(len(qs))]
            t = psi.reshape((2,) * n).copy()
            for q, b in zip(qs, bits):
                idx = [slice(None)] * n; idx[q] = 1 - b
                t[tuple(idx)] = 0
            psi = t.reshape(-1); psi = psi / np.linalg.norm(psi)
    events.append(("C", -1, view(psi)))
    return events
'''
RUN_PY = '''
def run_final(circ, recs, init, tape, density):
    """observations of one run plus the final state.  No closing callback / terminal measurement
    is added to the circuit (an entry on every qubit at the end changes what fusion may do).
    Density matrices: the public execution path; state vectors with collapses have no final
    state there, so the queue is applied gate by gate (what one shot of execute_circuit does)."""
    events = []
    for r in recs:
        r.events = events
    be = Tape(tape, events)
    if density:
        state = be.execute_circuit(circ, initial_state=init.copy(), nshots=1).state()
    else:
        state = be.cast(init.copy())
        for g in circ.queue:
            state = g.apply(be, state, circ.nqubits)
    events.append(("C", -1, np.array(state, dtype=complex)))
    return events
'''
_ns: dict = {"np": np}
exec(C07obs.CODE_HDR + EXPECT_PY + RUN_PY, _ns)
apply_mat, expected_events, run_final, same = _ns["apply_mat"], _ns["expected_events"], _ns["run_final"], _ns["same"]


def ops_of(spec):
    ops, ncb = [], 0
    for s in spec:
        if s[0] == "N":
            ops.append(("G", MATS[s[1]], tuple(s[2])))
        elif s[0] == "U":
            ops.append(("G", [list(r) for r in s[1]], tuple(s[2])))
        elif s[0] == "MC":
            ops.append(("MC", tuple(s[1])))
        elif s[0] == "CB":
            ops.append(("CB", ncb))
            ncb += 1
        else:
            for x in s[1]:
                ops += ops_of([x])
    return ops


def ops_lit(ops):
    out = []
    for o in ops:
        if o[0] == "G":
            out.append(("G", [[complex(x) for x in r] for r in o[1]], list(o[2])))
        else:
            out.append(tuple(list(x) if isinstance(x, tuple) else x for x in o))
    return repr(out)


# ---------------------------------------------------------------------------
# generation


def gate1(rng, q):
    return ("N", rng.choice(ONE), (q,))


def gate2(rng, a, b):
    if rng.random() < 0.25:
        return ("U", _B().mat_tuple(_B().rand_unitary_int(rng, 2)), (a, b))
    return ("N", rng.choice(TWO), (a, b))


def barrier(rng, n, busy):
    """a gate that fusion has to leave where it is."""
    r = rng.random()
    if r < 0.55:
        return ("MC", (rng.randrange(n),))
    if r < 0.70:
        return ("MC", tuple(sorted(rng.sample(range(n), 2))))  # ascending: the order convention of the outcome index is not a fusion matter
    if r < 0.85:
        return ("CB",)
    k = rng.choice([1, 2])
    qs = rng.sample(range(n), k)
    items = [gate1(rng, qs[0])] if k == 1 else [gate2(rng, *qs), gate1(rng, rng.choice(qs))]
    return ("FG", items)


def random_spec(rng, n, depth):
    nb = rng.choice([1, 2, 2, 3])
    where = set(rng.sample(range(1, depth), min(nb, depth - 1)))
    spec = []
    for i in range(depth):
        if i in where:
            s = barrier(rng, n, None)
            # two collapses of one qubit in a row: the original is not executable
            if s[0] == "MC" and spec and spec[-1][0] == "MC" and set(spec[-1][1]) & set(s[1]):
                s = ("CB",)
            spec.append(s)
        elif rng.random() < 0.45:
            spec.append(gate1(rng, rng.randrange(n)))
        else:
            spec.append(gate2(rng, *rng.sample(range(n), 2)))
    return spec


def systematic_specs(rng, n):
    """A(2q)  [1q]  barrier  [barrier]  B(2q)  C(1q|2q)  over every placement on n qubits: the
    shapes in which a later group inherits a qubit that a barrier sits on."""
    pairs = list(itertools.permutations(range(n), 2))
    for pa in itertools.combinations(range(n), 2):
        for pb in pairs:
            for b1 in range(n):
                for b2 in [None] + list(range(n)):
                    if b2 == b1:
                        continue
                    for last in range(n):
                        spec = [gate1(rng, rng.randrange(n)), gate2(rng, *pa)]
                        if rng.random() < 0.5:
                            spec.insert(0, gate1(rng, rng.randrange(n)))
                        spec.append(("MC", (b1,)) if rng.random() < 0.8 else ("CB",))
                        if b2 is not None:
                            spec.append(("MC", (b2,)) if rng.random() < 0.8 else ("FG", [gate1(rng, b2)]))
                        spec.append(gate2(rng, *pb))
                        spec.append(gate1(rng, last) if rng.random() < 0.7 else gate2(rng, last, rng.choice([q for q in range(n) if q != last])))
                        yield spec


def order_kept(n, spec, groups):
    """first pair of positions sharing a qubit whose order the flattened fused queue inverts."""
    flat = [i for g in groups for i in g]
    if sorted(flat) != list(range(len(spec))):
        return ("not-a-permutation", flat)
    where = {i: k for k, i in enumerate(flat)}
    sup = [support(s, n) for s in spec]
    for i in range(len(spec)):
        for j in range(i + 1, len(spec)):
            if sup[i] & sup[j] and where[i] > where[j]:
                return (i, j)
    return None


def barrier_suite(ctx):
    B = _B()
    rng = ctx.rng
    cases = []
    sysm = list(systematic_specs(rng, 3))
    cases += [(3, s) for s in (sysm if ctx.thorough else rng.sample(sysm, 150))]
    for _ in range(600 if ctx.thorough else 150):
        n = rng.choice([3, 3, 4])
        cases.append((n, random_spec(rng, n, rng.randint(4, 10))))
    bad_order = bad_state = 0
    for n, spec in cases:
        density = rng.random() < 0.4
        psi = B.int_state(rng, n) if rng.random() < 0.7 else np.eye(2**n, dtype=complex)[rng.randrange(2**n)]
        psi = psi / np.linalg.norm(psi)
        init = np.outer(psi, psi.conj()) if density else psi
        tape = [rng.randrange(64) for _ in range(8)]
        ops = ops_of(spec)
        want = expected_events(n, ops, psi, tape, density)
        full = spec
        try:
            c, recs = build(n, full, density)
            ev0 = run_final(c, recs, init, tape, density)
        except Exception:  # noqa: BLE001  not a fusion matter
            ctx.stat("barrier_original_not_executable")
            continue
        if not same(want, ev0):
            ctx.stat("barrier_original_differs_from_expectation")  # not a fusion matter (C01/C03/C06)
            continue
        hdr0 = (code(n, full, density) + EXPECT_PY + RUN_PY + f"psi = np.array({psi.tolist()})\ninit = " + ("np.outer(psi, psi.conj())" if density else "psi")
                + f"\ntape = {tape}\nwant = expected_events({n}, {ops_lit(ops)}, psi, tape, {density})\n")
        for mq in range(2, n + 1):
            hdr = hdr0 + f"f = c.fuse(max_qubits={mq})\n"
            try:
                f = c.fuse(max_qubits=mq)
                groups, _objs = B.real_groups(c, f)
                ev1 = run_final(f, recs, init, tape, density)
            except Exception as e:  # noqa: BLE001
                bad_state += 1
                ctx.fail(f"fuse:barrier:raises:{type(e).__name__}", f"fusing / executing the fused circuit (max_qubits={mq}) of {short(full)} raises {e!r}",
                         hdr + f"run_final(f, recs, init, tape, {density})\n", broken=["C07_search_fuse_barriers"])
                continue
            ctx.case(("barrier", n, mq, density, short(spec)))
            ctx.stat(f"barrier_n{n}_mq{mq}")
            ctx.stat("barrier_density" if density else "barrier_statevector")
            if groups is not None:
                ctx.stat("barrier_wide_group", sum(1 for g in groups if len(g) > 1 and len(set().union(*[support(full[i], n) for i in g])) >= 3))
                inv = order_kept(n, full, groups)
                if inv is not None:
                    bad_order += 1
                    ctx.fail("fuse:barrier:order", f"fused circuit (max_qubits={mq}) of {short(full)}: entries {inv} of the original queue share a qubit and come out in the opposite order (fused groups {groups})",
                             hdr + ORDER_PY, expected="every two entries sharing a qubit keep their order", observed=f"groups {groups}, inverted pair {inv}",
                             broken=["C07_search_fuse_barrier_order"])
            if not same(want, ev1):
                bad_state += 1
                k = next((i for i, (a, b) in enumerate(zip(want, ev1)) if not same([a], [b])), min(len(want), len(ev1)))
                what = "final state" if k == len(want) - 1 else f"observation {k} ({'collapse probabilities / outcome' if k < len(want) and want[k][0] == 'D' else 'state at a callback'})"
                ctx.fail("fuse:barrier:state", f"fused circuit (max_qubits={mq}) of {short(full)}, density_matrix={density}, forced draws: {what} differs from the expectation computed from the explicit matrices",
                         hdr + f"e0 = run_final(c, recs, init, tape, {density})\nassert same(want, e0), 'original circuit'\ne1 = run_final(f, recs, init, tape, {density})\nassert same(want, e1), [x[:2] for x in e1]\n",
                         expected=str([np.round(x[2], 6).tolist() if x[0] == "C" else (np.round(x[1], 6).tolist(), x[2]) for x in want[k:k + 1]]),
                         observed=str([np.round(x[2], 6).tolist() if x[0] == "C" else (np.round(x[1], 6).tolist(), x[2]) for x in ev1[k:k + 1]]),
                         broken=["C07_search_fuse_barriers"])
    ctx.ob("C07_search_fuse_barrier_order", bad_order == 0, "search", f"{bad_order} fused queues move a gate across a barrier / another gate on a shared qubit" if bad_order else "")
    ctx.ob("C07_search_fuse_barriers", bad_state == 0, "search", f"{bad_state} failures" if bad_state else "")


ORDER_PY = '''
pos = {id(g): i for i, g in enumerate(c.queue)}
flat = []
for g in f.queue:
    flat += [pos[id(m)] for m in g.gates] if (isinstance(g, gates.FusedGate) and id(g) not in pos) else [pos[id(g)]]
def sup(g):
    return set(range(c.nqubits)) if isinstance(g, gates.CallbackGate) else set(g.qubits)
where = {i: k for k, i in enumerate(flat)}
assert sorted(flat) == list(range(len(c.queue))), flat
for i in range(len(c.queue)):
    for j in range(i + 1, len(c.queue)):
        assert not (sup(c.queue[i]) & sup(c.queue[j])) or where[i] < where[j], (i, j, flat)
'''
