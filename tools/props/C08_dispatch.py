"""C08 — the glue of `gate.decompose`: dispatch (which gates are returned unchanged, which go through
the table, which through the MCX recursion), `controlled_by` gates, freshness of the returned gate
objects, `Circuit.decompose(*free)` on registers whose free qubits are in arbitrary states.

Model: lean/QV/Model/DecomposeDispatch.lean (driver command DISP); theorems: QV/Props/C08d/e/f.lean.
`run_suites(ctx)` is called from props/C08.py."""
from __future__ import annotations

import itertools
import math

import numpy as np

from vlib import qgates
from vlib.driver import run_driver

DRIVER = "DriverC08.lean"
FIXED = ["X", "CNOT", "TOFFOLI", "RY"]  # class ids 0..3 are fixed in the model


def _pre():
    from props import C08

    return C08.PRE


class World:
    """class table, parameter tags and templates read from the real code."""

    def __init__(self):
        from qibo.gates.abstract import Gate
        from qibo.transpiler import decompositions as D

        self.Gate = Gate
        self.std = D.standard_decompositions
        infos = {k: v for k, v in qgates.gate_infos().items() if v.generic and v.nq >= 1}
        names = FIXED + sorted(k for k in infos if k not in FIXED)
        self.names = names
        self.infos = infos
        self.cid = {n: i for i, n in enumerate(names)}
        self.tags = {}
        self.cinfo = []
        for n in names:
            info = infos[n]
            probe = info.make(list(range(info.nq)), [0.4 + 0.1 * j for j in range(info.np)])
            nctl = len(probe.control_qubits)
            if n == "X":
                fam = 1
            elif n in ("CNOT", "TOFFOLI"):
                fam = 2
            elif info.cls.decompose is Gate.decompose:
                fam = 0
            else:
                fam = 3
            fb = [-1, -1]
            if nctl == 0:
                for k in (1, 2):
                    try:
                        g = info.make(list(range(info.nq)), [0.4 + 0.1 * j for j in range(info.np)])
                        h = g.controlled_by(*range(info.nq, info.nq + k))
                        if type(h) is not info.cls:
                            fb[k - 1] = self.cid.get(type(h).__name__, -1)
                    except Exception:
                        pass
            self.cinfo.append((fam, nctl, fb[0], fb[1]))

    # -- serialisation of real gate objects ---------------------------------------------
    def tag(self, g):
        ps = tuple(float(p) for p in (getattr(g, "parameters", ()) or ()))
        if not ps:
            return 0
        if len(ps) == 1 and g.__class__.__name__ == "RY":
            k = ps[0] / (math.pi / 4)
            if abs(k - round(k)) < 1e-12 and abs(round(k)) == 1:
                return int(round(k))
        key = (g.__class__.__name__,) + tuple(round(p, 10) for p in ps)
        if key not in self.tags:
            self.tags[key] = 10 + len(self.tags)
        return self.tags[key]

    def ser(self, g):
        """(cls, par, init qubits, control_qubits, target_qubits, cb) or None for classes the model
        does not know."""
        n = g.__class__.__name__
        if n not in self.cid:
            return None
        init = []
        for a in g.init_args:
            if isinstance(a, (int, np.integer)):
                init.append(int(a))
            elif isinstance(a, (list, tuple)) and all(isinstance(x, (int, np.integer)) for x in a):
                init += [int(x) for x in a]
        return (self.cid[n], self.tag(g), tuple(init), tuple(g.control_qubits), tuple(g.target_qubits), int(bool(g.is_controlled_by)))

    @staticmethod
    def enc(o):
        c, p, init, ctl, tgt, cb = o
        return f"{c} {p} {len(init)} " + " ".join(map(str, init)) + f" {len(ctl)} " + " ".join(map(str, ctl)) + f" {len(tgt)} " + " ".join(map(str, tgt)) + f" {cb}"

    def show(self, o):
        """canonical text of an object; the order in which the built-in controls of a class with
        two of them (TOFFOLI, CCZ) were given to the constructor is not compared."""
        c, p, init, ctl, tgt, cb = o
        init = list(init)
        k = self.cinfo[c][1] if c < len(self.cinfo) else 0
        if k >= 2:
            init = sorted(init[:k]) + init[k:]
        return f"{c} {p} {init} {list(ctl)} {list(tgt)} {cb}"

    def canon_answer(self, ans):
        """the driver's answer in the same canonical form."""
        import ast
        import re

        if not ans or not ans[0].isdigit():
            return ans
        out = []
        for part in ans.split(" | "):
            m = re.match(r"(\d+) (-?\d+) (\[.*?\]) (\[.*?\]) (\[.*?\]) (\d)$", part)
            if not m:
                return ans
            out.append(self.show((int(m.group(1)), int(m.group(2)), tuple(ast.literal_eval(m.group(3))),
                                  tuple(ast.literal_eval(m.group(4))), tuple(ast.literal_eval(m.group(5))), int(m.group(6)))))
        return " | ".join(out)

    def show_list(self, gs):
        out = []
        for g in gs:
            o = self.ser(g)
            if o is None:
                return None
            out.append(self.show(o))
        return " | ".join(out)

    def template(self, g):
        """the template the table holds for gate g (bare), as serialised objects."""
        bare = g.__class__(*g.init_args, **g.init_kwargs)
        t = self.std._check_instance(bare)
        out = [self.ser(x) for x in t]
        return None if any(o is None for o in out) else out

    def header(self, mode, ut, free, temps):
        s = f"DISP {mode} {int(ut)} {len(free)} " + " ".join(map(str, free))
        s += f" {len(self.cinfo)} " + " ".join(f"{a} {b} {c} {d}" for a, b, c, d in self.cinfo)
        s += f" {len(temps)} " + " ".join(f"{c} {p} {len(objs)} " + " ".join(self.enc(o) for o in objs) for (c, p), objs in temps.items())
        return " ".join(s.split())


def gexpr(name, qs, vals, cs):
    s = f"gates.{name}(*{list(qs)}, *{list(vals)})"
    if cs:
        s += f".controlled_by(*{list(cs)})"
    return s


def classify(W, g, dec):
    """observable route of a real call."""
    d = qgates.gate_descr
    if len(dec) == 1 and d(dec[0]) == d(g):
        return "same"
    return "other"


def dispatch_suite(ctx):
    """model ↔ real code: every generic class × 0..3 controlled_by controls × placements:
    `decompose(*free)`, `standard_decompositions(g)`, two levels; plus the direct property search
    (operator up to a global phase, for one and two levels)."""
    from qibo import gates
    from props import C08

    PRE = _pre()
    W = World()
    rng = ctx.rng
    lines, meta = [], []
    bad_search = 0
    stat_routes = {}
    table_names = [n for n in W.names if W.cinfo[W.cid[n]][0] == 3]
    for name in W.names:
        info = W.infos[name]
        fam, nctl, _, _ = W.cinfo[W.cid[name]]
        ncs = [0] if nctl else [0, 1, 2, 3]
        for nc in ncs:
            reps = 2 if (ctx.thorough or fam == 3 or name == "X") else 1
            for rep in range(reps):
                n = info.nq + nc + 1 + (1 if name == "X" and nc >= 3 else 0)
                lab = rng.sample(range(n), info.nq + nc) if (rep or nc) else list(range(info.nq))[::-1]
                qs, cs = lab[: info.nq], lab[info.nq:]
                vals = [round(rng.uniform(-3, 3), 3) for _ in range(info.np)]
                free = [q for q in range(n) if q not in lab] if (name == "X" and nc >= 3) else (rng.sample([q for q in range(n) if q not in lab], 1) if rng.random() < 0.3 else [])
                ut = rng.random() < 0.5
                try:
                    g = info.make(qs, vals)
                    if cs:
                        g = g.controlled_by(*cs)
                except Exception:
                    ctx.stat("dispatch_ctor_reject")
                    continue
                o = W.ser(g)
                if o is None:
                    continue
                expr = gexpr(name, qs, vals, cs)
                R = qgates.gate_full_matrix(g, n)
                # templates needed: this gate's (if table family) and those of returned table gates
                temps = {}

                def add_template(x):
                    if x.__class__.__name__ in table_names and not x.is_controlled_by:
                        t = W.template(x)
                        if t is not None:
                            temps[(W.cid[x.__class__.__name__], W.tag(x))] = t

                try:
                    kw = {"use_toffolis": ut} if g.__class__.decompose is not W.Gate.decompose else {}
                    dec = g.decompose(*free, **kw)
                    real1 = W.show_list(dec)
                    lvl2 = [h for x in dec for h in (x.decompose(*free, use_toffolis=ut) if x.__class__.decompose is not W.Gate.decompose else x.decompose(*free))]
                    real2 = W.show_list(lvl2)
                except (ValueError, NotImplementedError) as e:
                    dec, lvl2, real1, real2 = None, None, type(e).__name__, type(e).__name__
                except Exception as e:
                    bad_search += 1
                    ctx.fail(f"raises:decompose:{name}", f"{expr}.decompose(*{free}) raises {type(e).__name__}: {e}",
                             PRE + f"g = {expr}\ng.decompose(*{free})\n", observed=f"{type(e).__name__}: {e}", broken=["C08_search_dispatch"])
                    continue
                add_template(g if not g.is_controlled_by else g)
                if g.__class__ in W.std.decompositions or g.__class__.__name__ in table_names:
                    t = W.template(g)
                    if t is not None:
                        temps[(W.cid[g.__class__.__name__], W.tag(g))] = t
                for x in (dec or []):
                    add_template(x)
                ctx.case(("dispatch", name, nc, tuple(qs), tuple(cs), tuple(free)))
                route = None
                if dec is not None:
                    route = classify(W, g, dec)
                    stat_routes[(name, nc > 0, route)] = stat_routes.get((name, nc > 0, route), 0) + 1
                if real1 is not None:
                    lines.append(W.header(0, ut, free, temps) + " " + W.enc(o))
                    meta.append(("decompose", expr, free, real1))
                if real2 is not None and real1 is not None:
                    lines.append(W.header(2, ut, free, temps) + " " + W.enc(o))
                    meta.append(("two levels of decompose", expr, free, real2))
                if g.__class__ in W.std.decompositions:
                    try:
                        t = W.std(g)
                        rt = W.show_list(t)
                        if rt is not None:
                            lines.append(W.header(1, ut, free, temps) + " " + W.enc(o))
                            meta.append(("standard_decompositions", expr, free, rt))
                    except Exception:
                        pass
                # route of the model
                lines.append(W.header(5, ut, free, {}) + " " + W.enc(o))
                meta.append(("route", expr, free, {"same": ("unchanged", "self", "mcx"), "other": ("table", "mcx")}.get(route)))
                # direct property search: operator up to a global phase, one and two levels,
                # and every returned gate describes itself
                if dec is not None:
                    code = (PRE + f"n = {n}; g = {expr}; R = full(g, n); free = {free}\n"
                            f"kw = {{'use_toffolis': {ut}}} if {g.__class__.decompose is not W.Gate.decompose} else {{}}\n"
                            "dec = g.decompose(*free, **kw)\nassert same_up_to_phase(prod(dec, n), R), 'first level'\n"
                            "for x in dec:\n"
                            "    y = x.__class__(*x.init_args, **x.init_kwargs)\n"
                            "    if x.is_controlled_by: y = y.controlled_by(*x.control_qubits)\n"
                            "    assert np.allclose(full(y, n), full(x, n)), f'returned gate {x.name}{x.qubits} is not the gate its constructor arguments describe ({x.init_args})'\n"
                            "lvl2 = [h for x in dec for h in x.decompose(*free)]\n"
                            "assert same_up_to_phase(prod(lvl2, n), R), 'second level'\n")
                    try:
                        ok1 = qgates.phase_equal(C08.product(dec, n), R)
                        ok2 = qgates.phase_equal(C08.product(lvl2, n), R)
                        stale = None
                        for x in dec:
                            y = x.__class__(*x.init_args, **x.init_kwargs)
                            if x.is_controlled_by:
                                y = y.controlled_by(*x.control_qubits)
                            if not np.allclose(qgates.gate_full_matrix(y, n), qgates.gate_full_matrix(x, n), atol=1e-12):
                                stale = x
                                break
                    except Exception as e:
                        bad_search += 1
                        ctx.fail(f"raises:decompose:{name}", f"rebuilding / multiplying the gates returned by {expr}.decompose(*{free}) raises {type(e).__name__}: {e}",
                                 code, observed=f"{type(e).__name__}: {e}", broken=["C08_search_dispatch"])
                        continue
                    if not ok1:
                        bad_search += 1
                        ctx.fail(f"decompose_cb:dispatch:{name}" if cs else f"decompose:dispatch:{name}",
                                 f"{expr}.decompose(*{free}) is not the gate's operator up to a global phase (returned {C08.descr_list(dec)})",
                                 code, broken=["C08_search_dispatch", "C08_corr_dispatch", "C08_corr_dispatch_level2", "C08_corr_dispatch_route"])
                    elif stale is not None:
                        bad_search += 1
                        ctx.fail(f"decompose:stale-gates:dispatch:{name}", f"{expr}.decompose(*{free}) returns {stale.name}{tuple(stale.qubits)} whose constructor arguments {stale.init_args} describe a different gate",
                                 code, broken=["C08_search_dispatch", "C08_corr_dispatch", "C08_corr_dispatch_level2"])
                    elif not ok2:
                        bad_search += 1
                        ctx.fail(f"decompose:stale-gates:dispatch:{name}", f"the second decomposition level of {expr}.decompose(*{free}) is not the gate's operator up to a global phase",
                                 code, broken=["C08_search_dispatch", "C08_corr_dispatch_level2"])
    res = run_driver(lines, driver=DRIVER)
    mism = {"decompose": [], "two levels of decompose": [], "standard_decompositions": [], "route": []}
    for (kind, expr, free, real), ans in zip(meta, res):
        if kind == "route":
            if real is not None and ans not in real:
                mism[kind].append(f"{expr}: the real call {'returned the gate itself' if real[0] == 'unchanged' else 'returned other gates'} but the model's route is `{ans}`")
        elif W.canon_answer(ans) != real:
            mism[kind].append(f"{kind} of {expr} (free={free}): real `{real[:160]}` model `{ans[:160]}`")
    ctx.ob("C08_corr_dispatch", not (mism["decompose"] or mism["standard_decompositions"]), "correspondence",
           (mism["decompose"] + mism["standard_decompositions"] + [""])[0])
    ctx.ob("C08_corr_dispatch_level2", not mism["two levels of decompose"], "correspondence", (mism["two levels of decompose"] + [""])[0])
    ctx.ob("C08_corr_dispatch_route", not mism["route"], "correspondence", (mism["route"] + [""])[0])
    ctx.ob("C08_search_dispatch", bad_search == 0, "search", f"{bad_search} failing cases" if bad_search else "")
    ctx.stat("dispatch_driver_lines", len(lines))
    ctx.stats["dispatch_routes"] = {f"{k[0]}{'+cb' if k[1] else ''}:{k[2]}": v for k, v in sorted(stat_routes.items()) if k[1]}
    ctx.sample({"suite": "dispatch", "case": "SX(3).controlled_by(1).decompose()", "model": "the gate itself (route unchanged); the attach-controls variant would return RX(3, π/2).controlled_by(1), which by T08_controlled_sx_relative_phase differs by the phase gate diag(1, e^{-iπ/4}) on qubit 1"})


def phase_table(ctx):
    """for which classes does the bare table decomposition have phase EXACTLY 1 (so that attaching
    controls would be right)?  numeric census at random parameters, compared with the generated
    exact-mode obligations `C08_exact_*`; the real dispatch must not attach controls for the others."""
    from props import C08

    out = {}
    for name, (info, own, intab) in C08.decomposable_infos().items():
        if name in ("X", "CNOT", "TOFFOLI") and not intab:
            continue
        worst = 0.0
        for _ in range(4):
            vals = [round(ctx.rng.uniform(-3, 3), 3) for _ in range(info.np)]
            qs = list(range(info.nq))
            g = info.make(qs, vals)
            try:
                dec = C08.std_table()(g) if intab else g.decompose()
            except Exception:
                continue
            P = C08.product(dec, info.nq)
            R = qgates.gate_full_matrix(g, info.nq)
            i = np.argmax(abs(R))
            c = P.flat[i] / R.flat[i]
            worst = max(worst, abs(c - 1))
        out[name] = worst
    ctx.stats["bare_decomposition_phase_is_one"] = sorted(n for n, w in out.items() if w < 1e-9)
    ctx.stats["bare_decomposition_phase_not_one"] = sorted(n for n, w in out.items() if w >= 1e-9)
    return out


def circuit_free_suite(ctx):
    """`Circuit.decompose(*free)` as an operator on the WHOLE register: circuits in which no gate
    touches the free qubits before a multi-controlled X on the ladder branch (|free| ≥ m−2), and
    circuits that use the free qubits in between; exact unitaries (free qubits in every basis
    state, hence in every state)."""
    from qibo import Circuit, gates
    from props import C08

    PRE = _pre()
    rng = ctx.rng
    bad = 0
    cases = []
    for m in ((3, 4, 5) if ctx.thorough else (3, 4)):
        for f in (m - 2, m - 1, 1):
            if f < 1:
                continue
            n = m + 1 + f
            if n > 9:
                continue
            lab = list(range(n))
            rng.shuffle(lab)
            cs, t, fs = lab[:m], lab[m], lab[m + 1:]
            cases.append((n, fs, [("X", [t], [], cs)]))
            # other gates first, none of them on a free qubit; then a gate ON a free qubit, then again
            oth = rng.sample(cs + [t], 2)
            cases.append((n, fs, [("H", [oth[0]], [], []), ("CRY", oth, [0.7], []), ("X", [t], [], cs),
                                  ("RX", [fs[0]], [1.1], []), ("X", [t], [], cs), ("SX", [oth[1]], [], [fs[0]])]))
    for n, fs, recipe in cases:
        build = f"c = Circuit({n})\n" + "".join(f"c.add({gexpr(nm, qs, vals, cs)})\n" for nm, qs, vals, cs in recipe)
        code = (PRE + build + f"free = {fs}\nU = prod(c.queue, {n})\nd = c.decompose(*free)\n"
                f"assert same_up_to_phase(prod(d.queue, {n}), U), 'the decomposed circuit is not the circuit as an operator on the whole register (free qubits in arbitrary states)'\n")
        try:
            c = Circuit(n)
            for nm, qs, vals, cs in recipe:
                g = getattr(gates, nm)(*qs, *vals)
                if cs:
                    g = g.controlled_by(*cs)
                c.add(g)
            U = C08.product(c.queue, n)
            d = c.decompose(*fs)
            V = C08.product(d.queue, n)
            ok = qgates.phase_equal(V, U)
        except Exception as e:
            bad += 1
            ctx.fail(f"circuit_decompose:raises:{type(e).__name__}", f"Circuit.decompose(*{fs}) raises {type(e).__name__}: {e}", code,
                     observed=f"{type(e).__name__}: {e}", broken=["C08_search_circuit_free"])
            continue
        ctx.case(("circuit_free", n, tuple(fs), tuple((r[0], tuple(r[1]), tuple(r[3])) for r in recipe)))
        if not ok:
            bad += 1
            # which basis state of the free qubits goes wrong
            j = int(np.argmax(np.abs(V - (V.flat[np.argmax(abs(U))] / U.flat[np.argmax(abs(U))]) * U).max(axis=0)))
            bits = format(j, f"0{n}b")
            ctx.fail("circuit_decompose:whole-register", f"Circuit.decompose(*{fs}) is not the circuit's operator on the whole register: basis state |{bits}> "
                     f"(free qubits {fs} = {[int(bits[q]) for q in fs]}) is mapped differently", code,
                     broken=["C08_search_circuit_free", "C08_corr_circuit"])
    ctx.ob("C08_search_circuit_free", bad == 0, "search", f"{bad} failing circuits" if bad else "")


def same_parameter_histories(ctx):
    """several gates of ONE class with IDENTICAL parameter values but different layouts are
    decomposed one after the other in one process — `gate.decompose()`, `standard_decompositions(gate)`,
    and both gates in one circuit through `Circuit.decompose()` —, each result compared with the
    gate's own operator.  GeneralizedRBS: every split of 3..4 (5 thorough) qubits into its two
    registers, in both visiting orders (its template depends on the register SIZES, not only on the
    parameters); other classes: different placements and numbers of `controlled_by` controls."""
    from qibo import Circuit, gates
    from props import C08

    PRE = _pre()
    rng = ctx.rng
    std = C08.std_table()
    bad = 0

    def run_history(label, n, exprs, key, broken):
        """exprs: python expressions of the gates, decomposed in this order."""
        nonlocal bad
        loc = {}
        exec("from qibo import gates\nGS = [" + ", ".join(exprs) + "]\n", loc)
        for how, src in (("decompose", "g.decompose()"), ("table", "standard_decompositions(g)"), ("circuit", None)):
            if how == "circuit":
                code = (PRE + f"n = {n}\nGS = [" + ", ".join(exprs) + "]\nc = Circuit(n)\nfor g in GS: c.add(g)\n"
                        "U = prod(c.queue, n)\nassert same_up_to_phase(prod(c.decompose().queue, n), U), 'Circuit.decompose of gates with identical parameters and different layouts'\n")
            else:
                code = (PRE + "from qibo.transpiler.decompositions import standard_decompositions\n" + f"n = {n}\nGS = [" + ", ".join(exprs) + "]\n"
                        f"for k, g in enumerate(GS):\n    assert same_up_to_phase(prod({src}, n), full(g, n)), f'gate #{{k}} of the history: {{g.name}}{{g.qubits}}'\n")
            ctx.case(("same-parameters", label, how, n, tuple(exprs)))
            try:
                gs = loc["GS"]
                if how == "circuit":
                    c = Circuit(n)
                    for g in gs:
                        c.add(g.__class__(*g.init_args, **g.init_kwargs).controlled_by(*g.control_qubits) if g.is_controlled_by else g.__class__(*g.init_args, **g.init_kwargs))
                    U = C08.product(c.queue, n)
                    wrong = None if qgates.phase_equal(C08.product(c.decompose().queue, n), U) else "the circuit holding all of them"
                else:
                    wrong = None
                    for k, g in enumerate(gs):
                        if how == "table" and g.__class__ not in std.decompositions:
                            continue
                        dec = g.decompose() if how == "decompose" else std(g)
                        if not qgates.phase_equal(C08.product(dec, n), qgates.gate_full_matrix(g, n)):
                            wrong = f"gate #{k} {exprs[k]}"
                            break
            except Exception as e:
                bad += 1
                ctx.fail(f"{key}:raises", f"same-parameter history of {label} ({how}) raises {type(e).__name__}: {e}", code,
                         observed=f"{type(e).__name__}: {e}", broken=["C08_search_same_parameters"] + broken)
                continue
            if wrong:
                bad += 1
                ctx.fail(key, f"{label}: after decomposing gates of the same class with the same parameter values on other layouts, "
                         f"{'Circuit.decompose()' if how == 'circuit' else src} of {wrong} is not the gate's operator up to a global phase "
                         f"(history: {'; '.join(exprs)})", code, broken=["C08_search_same_parameters"] + broken)

    # GeneralizedRBS: all splits, both visiting orders, phi = 0.0 and phi ≠ 0
    for k in ((3, 4, 5) if ctx.thorough else (3, 4)):
        for phi in (0.0, round(rng.uniform(-3, 3), 3)):
            th = rng.choice([math.pi / 4, round(rng.uniform(-3, 3), 3)])
            lab = list(range(k))
            rng.shuffle(lab)
            splits = [f"gates.GeneralizedRBS({lab[:a]}, {lab[a:]}, {th}, {phi})" for a in range(1, k)]
            for order in (splits, splits[::-1]):
                run_history("GeneralizedRBS", k, order, "decompose:same-parameters:GeneralizedRBS", C08.obs_of(ctx, "grbs"))
    # other decomposable classes: placements and numbers of controlled_by controls
    for name, (info, own, intab) in C08.decomposable_infos().items():
        if name in ("CNOT",):
            continue
        vals = [round(rng.uniform(-3, 3), 3) for _ in range(info.np)]
        n = info.nq + 2
        try:
            has_ctl = bool(info.make(list(range(info.nq)), vals).control_qubits)
        except Exception:
            continue
        exprs = []
        for rep in range(4 if ctx.thorough else 3):
            lab = rng.sample(range(n), n)
            qs = lab[: info.nq]
            ncb = 0 if has_ctl else rep % 3
            cs = lab[info.nq: info.nq + ncb]
            if name == "X" and ncb >= 3:
                cs = cs[:2]
            exprs.append(gexpr(name, qs, vals, cs))
        run_history(name, n, exprs, f"decompose:same-parameters:{name}", C08.obs_of(ctx, name))
    ctx.ob("C08_search_same_parameters", bad == 0, "search", f"{bad} failing histories" if bad else "")


def adjacent_pairs_suite(ctx):
    """circuits whose decomposed sequence holds ADJACENT gates of one class on the same qubit set:
    role-swapped pairs that do not cancel (CNOT(a,b)·CNOT(b,a), TOFFOLI(a,b,c)·TOFFOLI(a,c,b), the
    three-CNOT SWAP), pairs that do (CZ·CZ, SWAP·SWAP with swapped arguments, X·X, H·H), and
    decomposable gates whose templates start / end with such gates next to them.  `Circuit.decompose()`
    against the circuit's own unitary, and its entries against the concatenation of the per-gate
    decompositions (the model's `decomposeQueue` inserts / drops nothing)."""
    from qibo import Circuit, gates
    from props import C08

    PRE = _pre()
    rng = ctx.rng
    bad = 0
    mism = []
    n = 4
    a, b, c, d = rng.sample(range(n), 4)
    recipes = [
        [f"gates.CNOT({a},{b})", f"gates.CNOT({b},{a})"],
        [f"gates.CNOT({a},{b})", f"gates.CNOT({b},{a})", f"gates.CNOT({a},{b})"],
        [f"gates.CNOT({b},{a})", f"gates.CNOT({a},{b})", f"gates.H({c})"],
        [f"gates.TOFFOLI({a},{b},{c})", f"gates.TOFFOLI({a},{c},{b})"],
        [f"gates.TOFFOLI({a},{b},{c})", f"gates.TOFFOLI({c},{b},{a})", f"gates.TOFFOLI({b},{a},{c})"],
        [f"gates.CZ({a},{b})", f"gates.CZ({b},{a})"],
        [f"gates.SWAP({a},{b})", f"gates.SWAP({b},{a})"],
        [f"gates.X({a})", f"gates.X({a})", f"gates.H({b})", f"gates.H({b})", f"gates.Y({c})", f"gates.Z({c})"],
        [f"gates.CNOT({a},{b})", f"gates.FSWAP({a},{b})", f"gates.CNOT({b},{a})"],
        [f"gates.CNOT({b},{a})", f"gates.RBS({a},{b},0.7)", f"gates.CNOT({b},{a})"],
        [f"gates.CNOT({a},{b})", f"gates.CRY({b},{a},1.3)", f"gates.CNOT({a},{b})"],
        [f"gates.CNOT({b},{a})", f"gates.RZX({a},{b},-0.9)", f"gates.CNOT({b},{a})"],
        [f"gates.H({b})", f"gates.CZ({a},{b})", f"gates.CCZ({c},{a},{b})", f"gates.H({b})"],
        [f"gates.CNOT({a},{b})", f"gates.ECR({b},{a})", f"gates.CNOT({b},{a})", f"gates.iSWAP({a},{b})"],
        [f"gates.TOFFOLI({a},{c},{b})", f"gates.CCZ({a},{b},{c})", f"gates.TOFFOLI({a},{b},{c})"],
        [f"gates.CNOT({b},{a})", f"gates.GIVENS({a},{b},0.4)", f"gates.CNOT({b},{a})", f"gates.CNOT({a},{b})"],
        [f"gates.X({d}).controlled_by({a},{b})", f"gates.TOFFOLI({a},{d},{b})", f"gates.X({c}).controlled_by({a})", f"gates.CNOT({c},{a})"],
    ]
    for r in recipes:
        build = f"c = Circuit({n})\n" + "".join(f"c.add({x})\n" for x in r)
        code = (PRE + build + f"U = prod(c.queue, {n})\nd = c.decompose()\n"
                f"assert same_up_to_phase(prod(d.queue, {n}), U), 'Circuit.decompose() of a circuit with adjacent gates on the same qubits is not the circuit up to a global phase'\n")
        ctx.case(("adjacent", tuple(r)))
        try:
            loc = {}
            exec("from qibo import Circuit, gates\n" + build, loc)
            cc = loc["c"]
            U = C08.product(cc.queue, n)
            dq = cc.decompose().queue
            ok = qgates.phase_equal(C08.product(dq, n), U)
            cat = [x for g in cc.queue for x in C08.descr_list(g.decompose())]
            same = cat == C08.descr_list(dq)
        except Exception as e:
            bad += 1
            ctx.fail("circuit_decompose:adjacent-pairs:raises", f"Circuit.decompose() of [{', '.join(r)}] raises {type(e).__name__}: {e}", code,
                     observed=f"{type(e).__name__}: {e}", broken=["C08_search_circuit_adjacent"])
            continue
        if not same:
            mism.append(f"[{', '.join(r)}]: {len(dq)} entries, the concatenation of the gates' decompositions has {len(cat)}")
        if not ok:
            bad += 1
            ctx.fail("circuit_decompose:adjacent-pairs", f"Circuit.decompose() of [{', '.join(r)}] is not the circuit's operator up to a global phase "
                     f"({len(dq)} entries returned, the gates' decompositions have {len(cat)})", code,
                     broken=["C08_search_circuit_adjacent", "C08_corr_circuit_adjacent", "C08_search_circuit", "C08_corr_circuit"])
    ctx.ob("C08_corr_circuit_adjacent", not mism, "correspondence", (mism + [""])[0])
    ctx.ob("C08_search_circuit_adjacent", bad == 0, "search", f"{bad} failing circuits" if bad else "")


def run_suites(ctx):
    adjacent_pairs_suite(ctx)
    dispatch_suite(ctx)
    same_parameter_histories(ctx)
    phase_table(ctx)
    circuit_free_suite(ctx)
