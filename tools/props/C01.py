"""C01 — state-vector execution applies exactly the circuit's unitary."""
from __future__ import annotations

import itertools
import math

import numpy as np

from vlib import gen, leanrun, qgates
from vlib.driver import gi_tokens, parse_gi, run_driver
from vlib.symtrace import S, BranchOnSymbol, Untranslatable, evaluate, matrix_trees
from vlib.proofs import build_and_audit, registry

PROP = "C01"

# classes whose matrix is outside the symbolic fragment (reason recorded in evidence)
OUTSIDE = {
    "SYC": "entry e^{-i pi/6} is not in Q(zeta_16) and cos(pi/2) is the float 6.1e-17",
    "Unitary": "matrix-valued parameter (the matrix *is* the parameter)",
    "GeneralizedfSim": "matrix-valued parameter",
    "GeneralizedRBS": "qubit-list constructor; traced separately for (1,1),(2,1),(1,2)",
    "Align": "identity placeholder, integer delay",
    "I": "variadic identity",
}


def trace_tables(ctx):
    """regenerate the gate tables from the source and emit kernel obligations."""
    from spec.gatedocs import DOCS

    infos = qgates.gate_infos()
    tab = gen.Table(PROP)
    traced = {}
    S.plan = qgates.assume_in_range_plan
    try:
        for name, info in sorted(infos.items()):
            if not info.generic:
                continue
            try:
                g = info.sym()
                trees = qgates.traced_matrix(g)
            except (Untranslatable, BranchOnSymbol) as e:
                ctx.stat("trace_outside_fragment")
                ctx.ob(f"C01_trace_{name}", name in OUTSIDE, "translator", f"{type(e).__name__}: {e}")
                continue
            traced[name] = (info, trees)
            tab.ob_matrix_unitary(f"C01_unitary_{name}", info.np, trees, gate=name)
            if name in DOCS:
                params = [S.par(i) for i in range(info.np)]
                doc = matrix_trees(np.array(DOCS[name](*params), dtype=object))
                tab.ob_matrix_eq(f"C01_doc_{name}", info.np, trees, doc, gate=name)
        # GeneralizedRBS on small layouts
        G = qgates.gates_module()
        for qi, qo in (([0], [1]), ([0, 1], [2]), ([0], [1, 2])):
            nm = f"GeneralizedRBS_{len(qi)}_{len(qo)}"
            try:
                g = G.GeneralizedRBS(qi, qo, S.par(0), S.par(1))
                trees = qgates.traced_matrix(g)
                traced[nm] = (None, trees)
                tab.ob_matrix_unitary(f"C01_unitary_{nm}", 2, trees, gate=nm)
                from spec.gatedocs import generalized_rbs
                doc = matrix_trees(np.array(generalized_rbs(len(qi), len(qo), S.par(0), S.par(1)), dtype=object))
                tab.ob_matrix_eq(f"C01_doc_{nm}", 2, trees, doc, gate=nm)
            except (Untranslatable, BranchOnSymbol, TypeError) as e:
                ctx.ob(f"C01_trace_{nm}", False, "translator", f"{type(e).__name__}: {e}")
    finally:
        S.plan = None
    status, passed = tab.emit()
    for name, expr, meta in tab.obs:
        ok, sup = status.get(name, (False, False))
        gate = meta.get("gate")
        if not ok and gate in OUTSIDE:
            ctx.stat("outside_fragment")
            continue
        ctx.ob(name, ok, "generated-kernel", "" if ok else "stage-1 evaluation is false")
        ctx.case(("table", name))
    ctx.sample({"obligation": "C01_unitary_U3", "meaning": "∀θφλ, U3(θ,φ,λ)ᴴ·U3(θ,φ,λ)=1 decided by `decide +kernel` on the traced matrix"})
    return traced


# ---------------------------------------------------------------------------
# tracer self-check + numeric table search (runs the real matrices at parameter points)


def param_points(ctx, npar, count):
    pts = []
    grid = [0.0, math.pi / 2, math.pi, -math.pi / 4, 2 * math.pi, 1.0, 0.3, -2.2]
    for _ in range(count):
        pts.append([ctx.rng.choice(grid) if ctx.rng.random() < 0.4 else ctx.rng.uniform(-7, 7) for _ in range(npar)])
    return pts


def table_search(ctx, traced):
    """every class at parameter points: real matrix is unitary, equals the documented
    matrix, and equals the traced expression (tracer fidelity)."""
    from spec.gatedocs import DOCS

    nb = qgates.np_backend()
    infos = qgates.gate_infos()
    count = 24 if ctx.thorough else 8
    for name, info in sorted(infos.items()):
        if not info.generic:
            continue
        pts = param_points(ctx, info.np, count if info.np else 1)
        if info.np:
            # every multiple of pi/2 up to +-8 pi on each parameter in turn (special values are
            # where "exact" shortcuts and sign conventions go wrong), the others random
            for j in range(info.np):
                for k in range(-16, 17):
                    v = [ctx.rng.uniform(-3, 3) for _ in range(info.np)]
                    v[j] = k * math.pi / 2
                    pts.append(v)
        for vals in pts:
            try:
                g = info.make(list(range(info.nq)), vals)
                m = np.asarray(g.matrix(nb))
            except Exception as e:  # constructor range checks etc.
                ctx.stat(f"ctor_reject_{type(e).__name__}")
                continue
            ctx.case(("matrix", name, tuple(round(v, 6) for v in vals)))
            py = f"from qibo import gates; import numpy as np\ng = gates.{name}(*{list(range(info.nq))}, *{vals}); m = g.matrix()\n"
            if not np.allclose(m.conj().T @ m, np.eye(len(m)), atol=1e-9):
                ctx.fail(f"unitary:{name}", f"{name}{tuple(vals)} matrix is not unitary",
                         py + "assert np.allclose(m.conj().T @ m, np.eye(len(m)), atol=1e-9)",
                         broken=[f"C01_unitary_{name}"])
            if name in DOCS:
                params = [S.par(i) for i in range(info.np)]
                doc = matrix_trees(np.array(DOCS[name](*params), dtype=object))
                d = qgates.numeric_matrix(doc, vals)
                if not np.allclose(m, d, atol=1e-9):
                    ctx.fail(f"doc:{name}", f"{name}{tuple(vals)} matrix differs from the documented matrix",
                             py + f"doc = np.array({np.round(d, 12).tolist()})\nassert np.allclose(m, doc, atol=1e-9), (m, doc)",
                             expected=str(np.round(d, 6).tolist()), observed=str(np.round(m, 6).tolist()),
                             broken=[f"C01_doc_{name}"])
            if name in traced:
                t = qgates.numeric_matrix(traced[name][1], vals)
                ok = np.allclose(m, t, atol=1e-9)
                ctx.ob(f"C01_tracer_{name}", ok, "translator-selfcheck",
                       "" if ok else f"traced expression differs from real matrix at {vals}") if not ok else None


def grbs_search(ctx):
    """GeneralizedRBS on register layouts of unequal sizes and permuted qubits: real matrix
    vs the documented Givens rotation (numeric search behind the kernel obligations)."""
    from spec.gatedocs import generalized_rbs

    G = qgates.gates_module()
    nb = qgates.np_backend()
    layouts = [([0], [1]), ([1], [0]), ([0, 1], [2]), ([0], [1, 2]), ([2], [0, 1]), ([2, 0], [1]), ([0, 1], [2, 3]), ([3], [1, 0, 2]), ([0, 2, 1], [3])]
    for qi, qo in layouts:
        for _ in range(2):
            th, ph = ctx.rng.uniform(-3, 3), ctx.rng.choice([0.0, ctx.rng.uniform(-3, 3)])
            try:
                m = np.asarray(G.GeneralizedRBS(qi, qo, th, ph).matrix(nb))
            except Exception as e:  # noqa: BLE001
                ctx.fail(f"grbs:raises:{type(e).__name__}", f"GeneralizedRBS({qi},{qo}) matrix raises {e}", f"from qibo import gates\ngates.GeneralizedRBS({qi},{qo},{th},{ph}).matrix()", broken=["C01_doc_GeneralizedRBS_1_2"])
                continue
            doc = qgates.numeric_matrix(matrix_trees(np.array(generalized_rbs(len(qi), len(qo), S.par(0), S.par(1)), dtype=object)), [th, ph])
            ctx.case(("grbs", tuple(qi), tuple(qo)))
            if not np.allclose(m, doc, atol=1e-9):
                ctx.fail(f"doc:GeneralizedRBS_{len(qi)}_{len(qo)}", f"GeneralizedRBS({qi},{qo},{th},{ph}) matrix differs from the documented Givens rotation",
                         f"from qibo import gates; import numpy as np\nm = gates.GeneralizedRBS({qi},{qo},{th},{ph}).matrix()\ndoc = np.array({np.round(doc, 12).tolist()})\nassert np.allclose(m, doc, atol=1e-9), (m, doc)",
                         broken=[f"C01_doc_GeneralizedRBS_{len(qi)}_{len(qo)}"])


# ---------------------------------------------------------------------------
# exact correspondence of the execution engine

INT_FIXED = ["X", "Y", "Z", "S", "SDG", "CNOT", "CY", "CZ", "SWAP", "iSWAP", "FSWAP", "TOFFOLI", "CCZ"]


def rand_int_matrix(rng, k, dense):
    d = 2**k
    vals = [1, -1, 1j, -1j, 2, 1 + 1j, -1 + 2j, 0]
    if dense:
        return np.array([[rng.choice(vals) for _ in range(d)] for _ in range(d)], dtype=complex)
    # monomial matrix: permutation with phases (keeps amplitudes bounded)
    perm = list(range(d))
    rng.shuffle(perm)
    m = np.zeros((d, d), dtype=complex)
    for i, p in enumerate(perm):
        m[i, p] = rng.choice([1, -1, 1j, -1j, 2])
    return m


def rand_gate(rng, n, allow_dense=True):
    """a random real gate object with integer matrix; returns (gate, descr)."""
    from qibo import gates

    r = rng.random()
    if r < 0.35:
        name = rng.choice(INT_FIXED)
        cls = getattr(gates, name)
        info = qgates.gate_infos()[name]
        if info.nq > n:
            return rand_gate(rng, n, allow_dense)
        qs = rng.sample(range(n), info.nq)
        g = cls(*qs)
        rest = [q for q in range(n) if q not in qs]
        if rest and rng.random() < 0.35 and not g.control_qubits:
            cs = rng.sample(rest, rng.randint(1, len(rest)))
            g = g.controlled_by(*cs)
        return g
    k = rng.choice([1, 1, 2, 2, 3]) if n >= 3 else rng.randint(1, n)
    k = min(k, n)
    qs = rng.sample(range(n), k)
    m = rand_int_matrix(rng, k, dense=allow_dense and rng.random() < 0.3)
    g = gates.Unitary(m, *qs, check_unitary=False)
    rest = [q for q in range(n) if q not in qs]
    if rest and rng.random() < 0.45:
        cs = rng.sample(rest, rng.randint(1, len(rest)))
        g = g.controlled_by(*cs)
    return g


def gate_tokens(g):
    """k nc targets controls matrix — what the model sees of a gate.
    Gates created with controlled_by: local matrix on target_qubits + controls.
    Otherwise the matrix acts on gate.qubits (class-level controls first)."""
    nb = qgates.np_backend()
    m = np.asarray(g.matrix(nb))
    if g.is_controlled_by:
        ts, cs = list(g.target_qubits), list(g.control_qubits)
    else:
        ts, cs = list(g.qubits), []
    return f"{len(ts)} {len(cs)} {' '.join(map(str, ts))} {' '.join(map(str, cs))} {gi_tokens(m)}"


def describe(g):
    return f"{g.__class__.__name__}(t={list(g.target_qubits)},c={list(g.control_qubits)},cb={g.is_controlled_by})"


def exec_cases(ctx):
    """generate circuits: exhaustive small layouts first, then seeded random."""
    from qibo import gates

    rng = ctx.rng
    cases = []
    # exhaustive: every injective target tuple (k<=2..3) and every control subset, n<=3/4
    nmax = 4 if ctx.thorough else 3
    for n in range(1, nmax + 1):
        for k in range(1, min(n, 3) + 1):
            for ts in itertools.permutations(range(n), k):
                rest = [q for q in range(n) if q not in ts]
                for r in range(len(rest) + 1):
                    for cs in itertools.combinations(rest, r):
                        m = rand_int_matrix(rng, k, dense=True)
                        g = gates.Unitary(m, *ts, check_unitary=False)
                        if cs:
                            # controls given in a shuffled order
                            cl = list(cs)
                            rng.shuffle(cl)
                            g = g.controlled_by(*cl)
                        cases.append((n, [g]))
    nrand = 150 if ctx.thorough else 40
    for _ in range(nrand):
        n = rng.randint(1, 6 if ctx.thorough else 5)
        depth = rng.randint(2, 14)
        cases.append((n, [rand_gate(rng, n, allow_dense=(i < 3)) for i in range(depth)]))
    return cases


def exec_correspondence(ctx):
    from qibo import Circuit

    nb = qgates.np_backend()
    cases = exec_cases(ctx)
    lines, meta = [], []
    for n, gs in cases:
        psi = np.array([complex(ctx.rng.randint(-3, 3), ctx.rng.randint(-3, 3)) for _ in range(2**n)])
        gl = " ".join(gate_tokens(g) for g in gs)
        lines.append(f"SV {n} {len(gs)} {gl} {gi_tokens(psi)}")
        meta.append(("SV", n, gs, psi))
        if n <= 3:
            lines.append(f"UNITARY {n} {len(gs)} {gl}")
            meta.append(("UNITARY", n, gs, None))
    outs = run_driver(lines)
    bad = 0
    for (kind, n, gs, psi), out in zip(meta, outs):
        model = parse_gi(out)
        if np.abs(model).max(initial=0) > 2**46:
            ctx.stat("skipped_large")
            continue
        c = Circuit(n)
        for g in gs:
            c.add(g)
        if kind == "SV":
            # the caller's array is passed as it is, twice: the input must not be modified and
            # the second execution must return the same state (first gate applied in place?)
            arg = psi.copy()
            real = np.asarray(nb.execute_circuit(c, initial_state=arg).state())
            real2 = np.asarray(nb.execute_circuit(c, initial_state=arg).state())
            if not np.array_equal(arg, psi) or not np.array_equal(real, real2):
                descr = [describe(g) for g in gs]
                py = _replay_exec(kind, n, gs, psi, model).replace(
                    "out = nb.execute_circuit(c, initial_state=np.array(", "psi = np.array(").replace(")).state()", ")\nnb.execute_circuit(c, initial_state=psi)\nout = nb.execute_circuit(c, initial_state=psi).state()")
                ctx.fail(f"exec:input-modified:{descr[0]}", f"executing {descr} modifies the caller's initial state array / a second execution on the same array differs",
                         py, expected=str(model.tolist()), observed=str(real2.tolist()), broken=["C01_corr_exec"])
                bad += 1
        else:
            real = np.asarray(c.unitary(nb)).reshape(-1)
        key = (kind, n, tuple(describe(g) for g in gs))
        ctx.case(key)
        ctx.stat(f"{kind}_n{n}")
        for g in gs:
            ctx.stat("gate_" + g.__class__.__name__ + ("_cb" if g.is_controlled_by else ""))
        if len(ctx.samples) < 6:
            ctx.sample({"kind": kind, "n": n, "gates": [describe(g) for g in gs]})
        if not np.array_equal(real, model):
            bad += 1
            descr = [describe(g) for g in gs]
            py = _replay_exec(kind, n, gs, psi, model)
            ctx.fail(f"exec:{kind}:{descr[0] if len(descr) == 1 else 'circuit'}",
                     f"{kind} execution of {descr} differs from the operator of the documented semantics",
                     py, expected=str(model.tolist()), observed=str(real.tolist()),
                     broken=["C01_corr_exec"])
    ctx.ob("C01_corr_exec", bad == 0, "correspondence", f"{bad} disagreements" if bad else "")
    ctx.notes.append("exec correspondence: exhaustive (targets × control subsets) for n<=%d with Gaussian-integer matrices, plus seeded random circuits; exact comparison" % (4 if ctx.thorough else 3))


def _replay_exec(kind, n, gs, psi, model):
    lines = ["import numpy as np", "from qibo import Circuit, gates", "from qibo.backends import NumpyBackend",
             "nb = NumpyBackend()", f"c = Circuit({n})"]
    for g in gs:
        m = np.asarray(g.matrix(qgates.np_backend()))
        if g.__class__.__name__ == "Unitary":
            ctor = f"gates.Unitary(np.array({m.tolist()}), *{list(g.target_qubits)}, check_unitary=False)"
        else:
            qs = list(g.target_qubits) if g.is_controlled_by else list(g.qubits)
            ctor = f"gates.{g.__class__.__name__}(*{qs})"
        if g.is_controlled_by:
            ctor += f".controlled_by(*{list(g.control_qubits)})"
        lines.append(f"c.add({ctor})")
    if kind == "SV":
        lines.append(f"out = nb.execute_circuit(c, initial_state=np.array({psi.tolist()})).state()")
    else:
        lines.append("out = np.asarray(c.unitary(nb)).reshape(-1)")
    lines.append(f"expected = np.array({model.tolist()})")
    lines.append("assert np.array_equal(out, expected), (out, expected)")
    return "\n".join(lines)


# ---------------------------------------------------------------------------
# float-level execution search: real gates with real parameters vs spec operator


def exec_search(ctx):
    from qibo import Circuit

    nb = qgates.np_backend()
    infos = {k: v for k, v in qgates.gate_infos().items() if v.generic}
    names = sorted(infos)
    rng = ctx.rng
    ncases = 120 if ctx.thorough else 30
    for _ in range(ncases):
        n = rng.randint(1, 5)
        c = Circuit(n)
        U = np.eye(2**n, dtype=complex)
        descr = []
        for _ in range(rng.randint(1, 8)):
            info = infos[rng.choice(names)]
            if info.nq > n:
                continue
            qs = rng.sample(range(n), info.nq)
            vals = [rng.uniform(-4, 4) for _ in range(info.np)]
            try:
                g = info.make(qs, vals)
            except Exception:
                continue
            rest = [q for q in range(n) if q not in qs]
            if rest and rng.random() < 0.3 and not g.control_qubits:
                try:
                    g = g.controlled_by(*rng.sample(rest, rng.randint(1, len(rest))))
                except Exception:
                    ctx.stat("controlled_by_raises_" + info.name)
                    continue
            c.add(g)
            U = qgates.gate_full_matrix(g, n) @ U
            descr.append(f"{g.__class__.__name__}{tuple(g.init_args)}{dict(g.init_kwargs)} c={list(g.control_qubits)}")
        if not descr:
            continue
        psi = np.array([complex(rng.gauss(0, 1), rng.gauss(0, 1)) for _ in range(2**n)])
        psi /= np.linalg.norm(psi)
        out = np.asarray(nb.execute_circuit(c, initial_state=psi.copy()).state())
        cu = np.asarray(c.unitary(nb))
        ctx.case(("float-exec", n, tuple(descr)))
        if not np.allclose(out, U @ psi, atol=1e-9) or not np.allclose(cu, U, atol=1e-9):
            ctx.fail(f"float-exec:{descr[0].split('(')[0]}", f"execution/unitary of {descr} differs from the product of embedded gate matrices",
                     "# circuit: " + "; ".join(descr), broken=["C01_corr_exec"])


def unitary_history(ctx):
    """`Circuit.unitary()` and execution of ONE circuit object, called again after parameter
    updates in every accepted format: both must be the operator of the current gates."""
    from qibo import Circuit, gates

    nb = qgates.np_backend()
    rng = ctx.rng
    for _ in range(40 if ctx.thorough else 12):
        n = rng.randint(1, 3)
        cls = [rng.choice([gates.RX, gates.RY, gates.RZ, gates.U1, gates.GPI2]) for _ in range(rng.randint(1, 4))]
        qs = [rng.randrange(n) for _ in cls]
        c = Circuit(n)
        for k, (G, q) in enumerate(zip(cls, qs)):
            c.add(G(q, rng.uniform(-3, 3)))
            if n >= 2 and k == 0:
                c.add(gates.CNOT(*rng.sample(range(n), 2)))
        ok, fmt = True, None
        for fmt in ("none", "dict", "list", "flat", "dict"):
            vals = [rng.uniform(-3, 3) for _ in cls]
            pg = [g for g in c.queue if g.parameters]
            if fmt == "dict":
                c.set_parameters({g: v for g, v in zip(pg, vals)})
            elif fmt == "list":
                c.set_parameters([(v,) for v in vals])
            elif fmt == "flat":
                c.set_parameters(np.array(vals))
            U = np.eye(2**n, dtype=complex)
            for g in c.queue:
                fresh = g.__class__(*g.init_args, **g.init_kwargs) if not g.parameters else g.__class__(*g.qubits, *g.parameters)
                U = qgates.gate_full_matrix(fresh, n) @ U
            psi = np.array([complex(rng.gauss(0, 1), rng.gauss(0, 1)) for _ in range(2**n)])
            psi /= np.linalg.norm(psi)
            out = np.asarray(nb.execute_circuit(c, initial_state=psi.copy()).state())
            if not (np.allclose(np.asarray(c.unitary(nb)), U, atol=1e-9) and np.allclose(out, U @ psi, atol=1e-9)):
                ok = False
                break
        ctx.case(("unitary-history", n, tuple(G.__name__ for G in cls), tuple(qs)))
        if not ok:
            ctx.fail(f"unitary-history:{fmt}", f"Circuit.unitary()/execution called again after a `{fmt}` parameter update is not the operator of the current gates ({[G.__name__ for G in cls]})",
                     "from qibo import Circuit, gates; import numpy as np\nc = Circuit(1); c.add(gates.RX(0, 0.1)); c.unitary()\nc.set_parameters({c.queue[0]: 0.7})\nassert np.allclose(c.unitary(), gates.RX(0, 0.7).matrix())",
                     broken=["C01_corr_exec"])


def run(ctx):
    MODULES, THEOREMS = registry(PROP)
    ctx.theorems = THEOREMS
    traced = trace_tables(ctx)
    build_and_audit(ctx, PROP, MODULES, THEOREMS, gen_obs=True)
    exec_correspondence(ctx)
    from props import C01_einsum
    C01_einsum.run_suites(ctx)
    table_search(ctx, traced)
    grbs_search(ctx)
    exec_search(ctx)
    unitary_history(ctx)
    from props import C01_extra
    C01_extra.run_suites(ctx, density=False)
    ctx.assumptions += [
        "qulacs backend (the QASM-convertible gate set) is examined by search only; qibojit / tensorflow / pytorch are not installed in this sandbox",
        "numpy einsum/transpose/reshape behave as modelled (differentially tested on Gaussian-integer data)",
    ]
