"""C14, the gate-level measurement result `m = circuit.add(gates.M(...))` against the model
lean/QV/Model/GateBinding.lean (driver command G).

Histories over ONE real circuit object: plain executions (array initial states), executions
with a `Circuit` as initial state, `m.samples()` / `m.frequencies()` of every measurement gate,
`results[e].samples()` — all sequences of length <= 4 over {plain, circuit-initial-state, gate
read, read of the latest result} and seeded random longer ones, each with state vectors AND with
density matrices (initial states as arrays, as the default, as circuits).  Every execution has its own shot count and a
deterministic outcome of its own, so the rows a gate-level result answers identify the execution
they come from.

  correspondence  every answer agrees with the model (`C14_corr_gate_binding`); the model runs
                  with the accessor logic the tree has (probed on the trace prep ; plain ; read)
  search          SPEC: a gate-level read made after an execution, with nothing but gate-level
                  reads and reads of that execution's own result in between, shows the rows of
                  that execution (= its result object's samples), does not raise and does not
                  answer None (`C14_search_gate_result`, keys
                  `gate-result:circuit-initial-state` / `gate-result:stale`)
"""
from __future__ import annotations

import itertools
import json

from vlib.driver import run_driver

DRIVER = "DriverC14.lean"
KEY_PREP = "gate-result:circuit-initial-state"

GB_SRC = r'''
import collections
import numpy as np
from qibo import Circuit, gates
from qibo.backends import NumpyBackend, _Global


def gb_run(spec, ops):
    """spec = {"n", "cnots": [[a, b]], "regs": [[qubits]]}; ops = ("P", sid, nshots, how) |
    ("Q", xs, nshots, how) (initial state = a circuit with X on the qubits xs) | ("M",) | ("R", e).
    Returns per op the canonical answer; executions are identified by their shot count."""
    n = spec["n"]
    dm = bool(spec.get("dm"))
    c = Circuit(n, density_matrix=dm)
    for q in spec.get("hs", []):  # non-deterministic outcomes: independent sampling shows
        c.add(gates.H(q))
    for a, b in spec["cnots"]:
        c.add(gates.CNOT(a, b))
    ms = [c.add(gates.M(*qs)) for qs in spec["regs"]]
    be = NumpyBackend()
    if spec.get("compiled"):
        c.compile(be)
    old = _Global._backend
    _Global._backend = be
    results, shots, out, fbad = [], [], [], {}

    def ident(rows_list):
        """which execution the per-register arrays describe."""
        if any(r is None for r in rows_list):
            return "none" if all(r is None for r in rows_list) else "malformed: some registers None"
        k = {len(r) for r in rows_list}
        if len(k) != 1:
            return "malformed: registers with %r rows" % sorted(k)
        k = k.pop()
        cand = [e for e, s in enumerate(shots) if s == k]
        if len(cand) != 1:
            return "malformed: %d rows fit no execution" % k
        e = cand[0]
        want = results[e].samples(registers=True)
        for m, rows in zip(ms, rows_list):
            if not np.array_equal(np.asarray(rows), np.asarray(want[m_name(m)])):
                return "malformed: %d rows that are not those of execution %d" % (k, e)
        return "r %d" % e

    def m_name(m):
        return next(g.register_name for g in c.measurements if g.result is m)

    try:
        for op in ops:
            try:
                if op[0] in ("P", "Q"):
                    if op[0] == "P":
                        if op[1] is None:
                            st = None
                        else:
                            st = np.zeros(2 ** n, dtype=complex)
                            st[op[1]] = 1
                            if dm:
                                st = np.outer(st, st.conj())
                    else:
                        st = Circuit(n, density_matrix=dm)
                        for q in op[1]:
                            st.add(gates.X(q))
                        if not op[1]:
                            st.add(gates.I(0))
                    how = op[3] % 3
                    if how == 0:
                        r = c(initial_state=st, nshots=op[2])
                    elif how == 1:
                        r = c.execute(initial_state=st, nshots=op[2])
                    else:
                        r = be.execute_circuit(c, initial_state=st, nshots=op[2])
                    results.append(r)
                    shots.append(op[2])
                    out.append("C %d" % (len(results) - 1))
                elif op[0] == "M":
                    rows = [m.samples() for m in ms]
                    a = ident(rows)
                    if results:
                        # circuit.final_state IS the result the last execution returned (its data)
                        fs = c.final_state
                        if fs is not results[-1] and not (
                                np.array_equal(np.asarray(fs.samples()), np.asarray(results[-1].samples()))
                                and fs.frequencies() == results[-1].frequencies() and fs.nshots == results[-1].nshots):
                            fbad[len(out)] = "circuit.final_state does not hold the samples / frequencies of the result the last execution returned"
                    if a.startswith("r "):
                        e = int(a[2:])
                        for m, rr in zip(ms, rows):
                            f = m.frequencies(binary=False)
                            dec = [int("".join(str(int(b)) for b in row), 2) for row in np.asarray(rr)]
                            if m.nshots != len(rr):
                                fbad[len(out)] = "r %d, but m.nshots = %r" % (e, m.nshots)
                            if collections.Counter(f) != collections.Counter(dec):
                                # the gate keeps its own frequency cache: judged at the SPEC positions only
                                fbad[len(out)] = "r %d, but m.frequencies() %r is not the histogram of m.samples()" % (e, dict(f))
                    out.append(a)
                else:
                    if op[1] >= len(results):
                        out.append("X")
                    else:
                        rr = results[op[1]].samples()
                        out.append("r %d" % op[1] if len(rr) == shots[op[1]] else "malformed: %d rows" % len(rr))
            except Exception as e:
                out.append("raises" if op[0] == "M" else "raises: %s" % type(e).__name__)
    finally:
        _Global._backend = old
    return out, fbad, results


def gb_spec_positions(ops):
    """positions of the gate-level reads the SPEC speaks about, with the execution they must show."""
    pos, last, clean = [], None, False
    nex = 0
    for t, op in enumerate(ops):
        if op[0] in ("P", "Q"):
            last, clean = nex, True
            nex += 1
        elif op[0] == "M":
            if last is not None and clean:
                pos.append((t, last))
        elif op[0] == "R" and op[1] != last:
            clean = False
    return pos


def gb_check(spec, ops):
    out, fbad, results = gb_run(spec, ops)
    bad = [(t, "r %d" % e, fbad.get(t) if out[t] == "r %d" % e else out[t]) for t, e in gb_spec_positions(ops)
           if out[t] != "r %d" % e or t in fbad]
    return out, bad
'''

_NS = {}
exec(compile(GB_SRC, "<C14 gate harness>", "exec"), _NS)  # noqa: S102
globals().update({k: v for k, v in _NS.items() if not k.startswith("__")})


def model_line(rebind, ops):
    toks = ["G", "1" if rebind else "0", "1", str(len(ops))]
    for op in ops:
        toks.append({"P": "P", "Q": "Q", "M": "M"}.get(op[0]) or "R %d" % op[1])
    return " ".join(toks)


def concretise(rng, spec, kinds):
    """give every execution its own shot count and an input."""
    n = spec["n"]
    shots = rng.sample(range(1, 12), sum(1 for k in kinds if k in ("P", "Q")))
    ops, i = [], 0
    for k in kinds:
        if k == "P":
            ops.append(("P", None if rng.random() < 0.15 else rng.randrange(2 ** n), shots[i], rng.randrange(3)))
            i += 1
        elif k == "Q":
            ops.append(("Q", sorted(rng.sample(range(n), rng.randint(0, n))), shots[i], rng.randrange(3)))
            i += 1
        elif k == "M":
            ops.append(("M",))
        elif k == "L":  # the samples of the most recent result
            ops.append(("R", max(i - 1, 0)))
        else:
            ops.append(("R", k))
    return ops


def rand_spec(rng):
    n = rng.choice([1, 2, 2, 3])
    cn = [rng.sample(range(n), 2) for _ in range(rng.randint(0, 2))] if n > 1 else []
    qs = rng.sample(range(n), rng.randint(1, n))
    if len(qs) > 1 and rng.random() < 0.5:
        cut = rng.randint(1, len(qs) - 1)
        regs = [qs[:cut], qs[cut:]]
    else:
        regs = [qs]
    return {"n": n, "cnots": cn, "regs": regs, "dm": False,
            "hs": sorted(rng.sample(range(n), rng.randint(1, n))) if rng.random() < 0.5 else []}


def replay(spec, ops):
    return GB_SRC + f"""
spec = {spec!r}
ops = {ops!r}
out, bad = gb_check(spec, ops)
print(out)
for t, want, got in bad:
    print("operation", t, ops[t], "after the executions before it: expected", want, "observed", got)
raise SystemExit(1 if bad else 0)
"""


def run_suites(ctx):
    rng = ctx.rng
    spec0 = {"n": 2, "cnots": [[0, 1]], "regs": [[0, 1]]}
    probe, _, _ = gb_run(spec0, [("Q", [0], 4, 2), ("P", 0, 5, 2), ("M",)])
    rebind = probe[2] == "r 1"
    ctx.stat("tree_gate_binding_repaired" if rebind else "tree_gate_binding_unrepaired")
    cases = []
    for L in range(1, 5):
        for kinds in itertools.product("PQML", repeat=L):
            if "M" in kinds and kinds[0] in "PQ":
                cases.append((rand_spec(rng) if L > 2 else spec0, list(kinds)))
    for _ in range(400 if ctx.thorough else 80):
        L = rng.randint(4, 9)
        kinds, nex = [], 0
        for _ in range(L):
            t = rng.random()
            if nex == 0 or t < 0.45:
                kinds.append("P" if rng.random() < 0.5 else "Q")
                nex += 1
            elif t < 0.8:
                kinds.append("M")
            else:
                kinds.append(rng.randrange(nex))
        kinds.append("M")
        cases.append((rand_spec(rng), kinds))
    # every history in both modes: state vectors and density matrices
    cases = [(dict(spec, dm=dmode), kinds) for spec, kinds in cases for dmode in (False, True)]
    # ... and with circuit.compile() called before the first execution (every third history)
    cases += [(dict(spec, compiled=True, hs=spec.get("hs") or [0]), kinds) for i, (spec, kinds) in enumerate(cases) if i % 3 == 0]
    lines, reals, bad_search = [], [], 0
    first_bad = None
    for spec, kinds in cases:
        ops = concretise(rng, spec, kinds)
        out, bad = gb_check(spec, ops)
        ctx.case(("gate-binding", json.dumps(spec), json.dumps(ops)))
        ctx.stat("gate_binding_ops", len(ops))
        ctx.stat("gate_binding_dm" if spec["dm"] else "gate_binding_sv")
        if spec.get("compiled"):
            ctx.stat("gate_binding_compiled")
        lines.append(model_line(rebind, ops))
        reals.append((spec, ops, " | ".join(out)))
        if bad:
            bad_search += 1
            if first_bad is None or len(ops) < len(first_bad[1]):
                first_bad = (spec, ops, bad)
    if first_bad is not None:
        spec, ops, bad = first_bad
        t, want, got = bad[0]
        has_prep = any(o[0] == "Q" for o in ops[: t + 1])
        ctx.fail(KEY_PREP if has_prep else ("gate-result:compiled" if spec.get("compiled") else "gate-result:stale"),
                 f"the measurement result m = circuit.add(gates.M(...)) read after execution {want[2:]} "
                 f"({'the history contains an execution with a Circuit as initial state' if has_prep else 'plain executions only'}) "
                 f"does not show that execution: {got} (circuit {spec}, history {ops})",
                 replay(spec, ops), expected=want, observed=got, broken=["C14_search_gate_result"])
    outs = run_driver(lines, driver=DRIVER)
    bad_corr = [(r, o) for r, o in zip(reals, outs) if r[2] != o]
    if bad_corr:
        (spec, ops, real), o = bad_corr[0]
        ctx.log(f"gate-binding model/code disagreement: history {ops} on {spec}: code {real} / model {o}")
        if first_bad is None and not ctx.failures:
            ctx.fail("gate-result:model-mismatch", f"history {ops} on circuit {spec}: the code answers {real}, the model {o}",
                     replay(spec, ops), expected=o, observed=real, broken=["C14_corr_gate_binding"])
    ctx.ob("C14_corr_gate_binding", not bad_corr, "correspondence",
           f"{len(bad_corr)} of {len(cases)} histories disagree with the gate-binding model" if bad_corr else "")
    ctx.ob("C14_search_gate_result", bad_search == 0, "search",
           f"{bad_search} of {len(cases)} histories: a gate-level measurement result does not describe the last execution" if bad_search else "")
