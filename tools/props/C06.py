"""C06 — updating circuit parameters is equivalent to rebuilding the circuit.

Ingredients
  * theorems: lean/QV/Props/C06.lean (bookkeeping model, all arity lists / histories) and
    lean/QV/Props/C06b.lean (parameter-shift rule = derivative);
  * correspondence: the executable model (lean/DriverC06.lean) against the real
    `Circuit.add / set_parameters / get_parameters / invert / copy` on histories with exact
    integer parameter values; the rotation form of RX/RY/RZ that C06b assumes;
  * search on the real code: after every update every derived view must equal the view of
    a freshly built circuit with those values; parameter_shift against a high-accuracy
    finite difference of the real expectation function.
"""
from __future__ import annotations

import math
import random

import numpy as np

from vlib import qgates
from vlib.driver import run_driver
from vlib.proofs import build_and_audit, registry

PROP = "C06"

# ---------------------------------------------------------------------------
# gate catalogue (read from the library by introspection; matrix-valued classes by hand)


class Cls:
    """how to build one parametrised gate class and how its parameters flatten."""

    def __init__(self, name, nq, slots, width, kind="angles"):
        self.name, self.nq, self.slots, self.width, self.kind = name, nq, slots, width, kind


def catalogue():
    """(parametrised classes, fixed classes).  Angle classes come from the constructor
    signatures of the current source; their widths are read off a live instance."""
    infos = qgates.gate_infos()
    par, fixed = {}, {}
    for name, info in sorted(infos.items()):
        if not info.generic or info.nq == 0 or info.nq > 3:
            continue
        if info.np == 0:
            if name in ("H", "X", "Y", "Z", "S", "T", "SX", "CNOT", "CZ", "CY", "SWAP", "iSWAP", "FSWAP", "TOFFOLI", "CCZ", "ECR", "SYC", "CSX"):
                fixed[name] = info.nq
            continue
        try:
            g = info.make(list(range(info.nq)), [0.25] * info.np)
        except Exception:
            continue
        par[name] = Cls(name, info.nq, info.np, int(g.nparams))
    par["Unitary1"] = Cls("Unitary", 1, 1, 4, "unitary")
    par["Unitary2"] = Cls("Unitary", 2, 1, 16, "unitary")
    par["GeneralizedfSim"] = Cls("GeneralizedfSim", 2, 2, 5, "gfsim")
    par["GeneralizedRBS"] = Cls("GeneralizedRBS", 2, 2, 2, "grbs")
    par["Align"] = Cls("Align", 1, 1, 1, "align")
    return par, fixed


def G():
    return qgates.gates_module()


def make_gate(item, values=None):
    """item = dict(name, cls, qs, vals, trainable, controls); `vals` is the per-gate value
    in canonical form: list of floats (angles), ndarray (unitary), (ndarray, float) (gfsim)."""
    cls = item["cls"]
    v = item["vals"] if values is None else values
    tr = item["trainable"]
    qs = item["qs"]
    mod = G()
    if cls is None:
        g = getattr(mod, item["name"])(*qs)
    elif cls.kind == "angles":
        g = getattr(mod, cls.name)(*qs, *v, trainable=tr)
    elif cls.kind == "unitary":
        g = mod.Unitary(np.array(v), *qs, trainable=tr, check_unitary=item.get("check", True))
    elif cls.kind == "gfsim":
        g = mod.GeneralizedfSim(*qs, np.array(v[0]), v[1], trainable=tr)
    elif cls.kind == "grbs":
        g = mod.GeneralizedRBS([qs[0]], [qs[1]], *v, trainable=tr)
    elif cls.kind == "align":
        g = mod.Align(qs[0], v[0])  # non-trainable placeholder (library default)
    else:  # pragma: no cover
        raise ValueError(cls.kind)
    if item.get("controls"):
        g = g.controlled_by(*item["controls"])
    return g


def pyrepr(x):
    if isinstance(x, np.ndarray):
        return f"np.array({pyrepr(x.tolist())})"
    if isinstance(x, (np.floating,)):
        return f"np.float64({float(x)!r})"
    if isinstance(x, (np.integer,)):
        return repr(int(x))
    if isinstance(x, tuple):
        return "(" + ", ".join(pyrepr(y) for y in x) + ("," if len(x) == 1 else "") + ")"
    if isinstance(x, list):
        return "[" + ", ".join(pyrepr(y) for y in x) + "]"
    if isinstance(x, dict):
        return "{" + ", ".join(f"{k}: {pyrepr(v)}" for k, v in x.items()) + "}"
    return repr(x)


def gate_code(item, values=None):
    cls = item["cls"]
    v = item["vals"] if values is None else values
    tr = "" if item["trainable"] or cls is None else ", trainable=False"
    qs = ", ".join(str(q) for q in item["qs"])
    if cls is None:
        s = f"gates.{item['name']}({qs})"
    elif cls.kind == "angles":
        s = f"gates.{cls.name}({qs}, {', '.join(pyrepr(float(x)) for x in v)}{tr})"
    elif cls.kind == "unitary":
        chk = "" if item.get("check", True) else ", check_unitary=False"
        s = f"gates.Unitary({pyrepr(np.array(v))}, {qs}{tr}{chk})"
    elif cls.kind == "gfsim":
        s = f"gates.GeneralizedfSim({qs}, {pyrepr(np.array(v[0]))}, {pyrepr(float(v[1]))}{tr})"
    elif cls.kind == "grbs":
        s = f"gates.GeneralizedRBS([{item['qs'][0]}], [{item['qs'][1]}], {', '.join(pyrepr(float(x)) for x in v)}{tr})"
    else:
        s = f"gates.Align({qs}, {pyrepr(v[0])})"
    if item.get("controls"):
        s += f".controlled_by({', '.join(str(q) for q in item['controls'])})"
    return s


def build_code(n, recipe, values=None, var="c"):
    out = [f"{var} = Circuit({n})"]
    for i, it in enumerate(recipe):
        out.append(f"{var}.add({gate_code(it, None if values is None else values.get(i))})")
    return "\n".join(out) + "\n"


def build(n, recipe, values=None):
    from qibo import Circuit

    c = Circuit(n)
    for i, it in enumerate(recipe):
        c.add(make_gate(it, None if values is None else values.get(i)))
    return c


def flat_of(cls, v):
    """flatten a canonical per-gate value to `width` python scalars."""
    if cls.kind == "unitary":
        return [complex(z) for z in np.asarray(v).reshape(-1)]
    if cls.kind == "gfsim":
        return [complex(z) for z in np.asarray(v[0]).reshape(-1)] + [v[1]]
    return list(v)


def flat_params(p):
    """flatten what `gate.parameters` returns."""
    out = []
    for x in p:
        a = np.asarray(x)
        out += [complex(z) for z in a.reshape(-1)] if a.ndim else [x]
    return out


# ---------------------------------------------------------------------------
# value encodings accepted by set_parameters


def encode_gate_value(cls, v, rnd):
    """one of the per-gate encodings the API accepts for the canonical value v."""
    if cls.kind == "unitary":
        m = np.array(v)
        return rnd.choice([lambda: m.copy(), lambda: (m.copy(),), lambda: m.reshape(-1).tolist(), lambda: m.reshape(-1).copy()])()
    if cls.kind == "gfsim":
        return rnd.choice([lambda: (np.array(v[0]), v[1]), lambda: [np.array(v[0]), v[1]]])()
    if len(v) == 1:
        x = v[0]
        return rnd.choice([lambda: x, lambda: np.float64(x), lambda: (x,), lambda: [x], lambda: np.array([x])])()
    return rnd.choice([lambda: tuple(v), lambda: list(v), lambda: np.array(v)])()


def encode_update(c, recipe, upd):
    """the object passed to set_parameters for update `upd` = dict(fmt, vals{idx: value},
    enc seed).  Deterministic given upd."""
    rnd = random.Random(upd["enc"])
    tidx = [i for i, it in enumerate(recipe) if it["cls"] is not None and it["trainable"] and i in upd["vals"]]
    if upd["fmt"] == "list":
        vals = [encode_gate_value(recipe[i]["cls"], upd["vals"][i], rnd) for i in tidx]
        kind = rnd.choice(["list", "tuple", "array"])
        if kind == "tuple":
            return tuple(vals)
        if kind == "array" and vals and all(recipe[i]["cls"].kind == "angles" and recipe[i]["cls"].slots == 1 for i in tidx):
            return np.array([float(np.asarray(x).reshape(-1)[0]) for x in vals])
        return vals
    if upd["fmt"] == "dict":
        keys = list(tidx)
        rnd.shuffle(keys)
        keys = keys[: upd.get("nkeys", len(keys))]
        return {c.queue[i]: encode_gate_value(recipe[i]["cls"], upd["vals"][i], rnd) for i in keys}
    flat = []
    for i in tidx:
        flat += flat_of(recipe[i]["cls"], upd["vals"][i])
    if all(abs(complex(z).imag) == 0 for z in flat):
        flat = [float(complex(z).real) for z in flat]
    kind = rnd.choice(["list", "tuple", "array"])
    return flat if kind == "list" else tuple(flat) if kind == "tuple" else np.array(flat)


def applied_values(recipe, cur, upd):
    """values of every gate after the update (dict updates may set a subset)."""
    new = dict(cur)
    tidx = [i for i, it in enumerate(recipe) if it["cls"] is not None and it["trainable"] and i in upd["vals"]]
    if upd["fmt"] == "dict":
        rnd = random.Random(upd["enc"])
        keys = list(tidx)
        rnd.shuffle(keys)
        keys = keys[: upd.get("nkeys", len(keys))]
        for i in keys:
            new[i] = upd["vals"][i]
    else:
        for i in tidx:
            new[i] = upd["vals"][i]
    return new


# ---------------------------------------------------------------------------
# random material


def rand_unitary(rs, d):
    a = rs.randn(d, d) + 1j * rs.randn(d, d)
    q, r = np.linalg.qr(a)
    return q * (np.diag(r) / np.abs(np.diag(r)))


def rand_value(cls, rnd):
    rs = np.random.RandomState(rnd.randrange(2**31))
    if cls.kind == "unitary":
        return rand_unitary(rs, 2**cls.nq)
    if cls.kind == "gfsim":
        return (rand_unitary(rs, 2), round(rnd.uniform(-3, 3), 4))
    if cls.kind == "align":
        return [rnd.randint(0, 5)]
    if cls.name == "MS":
        return [round(rnd.uniform(-3, 3), 4), round(rnd.uniform(-3, 3), 4), round(rnd.uniform(0.05, 1.5), 4)]
    special = [0.0, math.pi, math.pi / 2, -math.pi / 2, 1.0]
    return [rnd.choice(special) if rnd.random() < 0.15 else round(rnd.uniform(-3, 3), 4) for _ in range(cls.slots)]


def rand_recipe(rnd, par, fixed, n, depth, names=None, p_nt=0.3, p_ctrl=0.2, p_fixed=0.3):
    recipe = []
    pnames = names or sorted(par)
    fnames = sorted(fixed)
    for _ in range(depth):
        if rnd.random() < p_fixed:
            nm = rnd.choice(fnames)
            if fixed[nm] > n:
                continue
            recipe.append({"name": nm, "cls": None, "qs": rnd.sample(range(n), fixed[nm]), "vals": None, "trainable": False, "controls": []})
            continue
        key = rnd.choice(pnames)
        cls = par[key]
        if cls.nq > n:
            continue
        qs = rnd.sample(range(n), cls.nq)
        tr = rnd.random() >= p_nt and cls.kind != "align"
        rest = [q for q in range(n) if q not in qs]
        ctrl = []
        if rest and rnd.random() < p_ctrl and cls.kind in ("angles", "unitary") and not cls.name.startswith("C") and cls.name not in ("DEUTSCH",):
            ctrl = rnd.sample(rest, rnd.randint(1, min(2, len(rest))))
        recipe.append({"name": key, "cls": cls, "qs": qs, "vals": rand_value(cls, rnd), "trainable": tr, "controls": ctrl})
    return recipe


# ---------------------------------------------------------------------------
# (A) tie of the C06b theorems: RX/RY/RZ have the rotation form, eigenvalue 1/2


def rotation_form(ctx):
    nb = qgates.np_backend()
    paulis = {"RX": np.array([[0, 1], [1, 0]], complex), "RY": np.array([[0, -1j], [1j, 0]]), "RZ": np.array([[1, 0], [0, -1]], complex)}
    bad = []
    for name, P in paulis.items():
        cls = getattr(G(), name)
        for k in range(24 if ctx.thorough else 8):
            th = [0.0, math.pi, -math.pi / 2, 7.5][k] if k < 4 else ctx.rng.uniform(-7, 7)
            g = cls(0, th)
            m = np.asarray(g.matrix(nb))
            exp = math.cos(th / 2) * np.eye(2) - 1j * math.sin(th / 2) * P
            ctx.case(("rotform", name, round(th, 3)))
            if not np.allclose(m, exp, atol=1e-12) or g.generator_eigenvalue() != 0.5 or not np.allclose(P @ P, np.eye(2)):
                bad.append((name, th))
    # every other class refuses (so the rule is only ever applied to the rotation form)
    par, _ = catalogue()
    others = []
    for key, cls in par.items():
        if cls.name in paulis:
            continue
        it = {"name": key, "cls": cls, "qs": list(range(cls.nq)), "vals": rand_value(cls, ctx.rng), "trainable": True, "controls": []}
        try:
            make_gate(it).generator_eigenvalue()
            others.append(cls.name)
        except NotImplementedError:
            pass
    ctx.stat("classes_with_generator_eigenvalue_outside_RX_RY_RZ", len(others))
    if others:
        ctx.assumptions.append(f"classes {others} define generator_eigenvalue; the rotation form proved in C06b is only checked for RX/RY/RZ — covered by the numeric search only")
    ctx.ob("C06_corr_rotation_form", not bad, "correspondence", f"{bad[:3]}" if bad else "")
    if bad:
        name, th = bad[0]
        ctx.fail(f"rotation_form:{name}", f"gates.{name}({th}) is not cos(t/2) I - i sin(t/2) P with eigenvalue 1/2",
                 f"from qibo import gates; import numpy as np, math\nfrom qibo.backends import NumpyBackend\nP = np.array({paulis[name].tolist()})\n"
                 f"g = gates.{name}(0, {th!r}); m = g.matrix(NumpyBackend())\n"
                 f"assert np.allclose(m, math.cos({th!r}/2)*np.eye(2) - 1j*math.sin({th!r}/2)*P) and g.generator_eigenvalue() == 0.5",
                 broken=["C06_corr_rotation_form"])


# ---------------------------------------------------------------------------
# (B) correspondence: Lean model vs real bookkeeping, exact integer values

DAG_RULE = {"neg": 0, "same": 1, "u3": 2, "negfirst": 3, "transpose": 4, "gfsim": 5}


def int_value(cls, rnd):
    if cls.kind == "unitary":
        d = 2**cls.nq
        return np.array([[complex(rnd.randint(-3, 3)) for _ in range(d)] for _ in range(d)])
    if cls.kind == "gfsim":
        return (np.array([[complex(rnd.randint(-3, 3)) for _ in range(2)] for _ in range(2)]), float(rnd.randint(-3, 3)))
    if cls.kind == "align":
        return [rnd.randint(0, 5)]
    if cls.name == "MS":
        return [float(rnd.randint(-3, 3)), float(rnd.randint(-3, 3)), float(rnd.randint(0, 1))]
    return [float(rnd.randint(-4, 4)) for _ in range(cls.slots)]


def to_ints(flat):
    out = []
    for z in flat:
        z = complex(z)
        if z.imag != 0 or z.real != round(z.real):
            return None
        out.append(int(round(z.real)))
    return out


def apply_rule(rule, v):
    if rule == 0:
        return [-x for x in v]
    if rule == 1:
        return list(v)
    if rule == 2:
        return [-v[0], -v[2], -v[1]]
    if rule == 3:
        return [-v[0]] + list(v[1:])
    if rule == 4:
        d = int(round(math.sqrt(len(v))))
        return [v[j * d + i] for i in range(d) for j in range(d)]
    if rule == 5:
        return [v[0], v[2], v[1], v[3], -v[4]]
    return None


def dagger_rules(ctx, par):
    """for each class: which model rule (if any) reproduces the parameters of the real
    `dagger()` on integer values — measured on the current source, so that `invert` can be
    part of the exact histories.  Classes with no integer rule take part without INV."""
    rules = {}
    rnd = random.Random(12345)
    for key, cls in par.items():
        found = None
        for rule in range(6):
            ok = True
            for _ in range(3):
                v = int_value(cls, rnd)
                it = {"name": key, "cls": cls, "qs": list(range(cls.nq)), "vals": v, "trainable": True, "controls": [], "check": False}
                try:
                    d = make_gate(it).dagger()
                    got = to_ints(flat_params(d.parameters))
                except Exception:
                    got = None
                src = to_ints(flat_of(cls, v))
                try:
                    exp = apply_rule(rule, src)
                except Exception:
                    exp = None
                if got is None or exp is None or got != exp or type(d).__name__ != cls.name:
                    ok = False
                    break
            if ok:
                found = rule
                break
        rules[key] = found
        ctx.stat("dagger_rule_" + ("none" if found is None else str(found)))
    return rules


def fixed_with_parametrised_dagger(fixed):
    """fixed gates whose `dagger()` is expressed with a ParametrizedGate class (SYC, iSWAP
    -> fSim): inverting adds a parametrised gate, so they stay out of INV histories."""
    from qibo.gates.abstract import ParametrizedGate

    out = set()
    for nm, nq in fixed.items():
        try:
            if isinstance(getattr(G(), nm)(*range(nq)).dagger(), ParametrizedGate):
                out.add(nm)
        except Exception:
            out.add(nm)
    return out


def fmt_vals(v):
    return " ".join(str(x) for x in v)


def corr_cases(ctx, par, fixed, rules):
    """histories: (n, recipe, ops).  Exhaustive small arity/trainable layouts first, then
    seeded random mixed circuits."""
    rnd = ctx.rng
    cases = []
    reps = {1: "RX", 2: "fSim", 3: "U3", 4: "Unitary1", 5: "GeneralizedfSim", 16: "Unitary2"}

    def item(key, tr, n, rnd):
        cls = par[key]
        qs = rnd.sample(range(n), cls.nq)
        return {"name": key, "cls": cls, "qs": qs, "vals": int_value(cls, rnd), "trainable": tr and cls.kind != "align", "controls": [], "check": False}

    # exhaustive: all sequences of up to L gates over widths {1,2,3,4} x {trainable, not} + a fixed gate
    L = 4 if ctx.thorough else 3
    alphabet = [(w, t) for w in (1, 2, 3, 4) for t in (True, False)] + [None]
    import itertools

    for length in range(0, L + 1):
        for combo in itertools.product(alphabet, repeat=length):
            recipe = []
            for a in combo:
                if a is None:
                    recipe.append({"name": "H", "cls": None, "qs": [rnd.randrange(2)], "vals": None, "trainable": False, "controls": []})
                else:
                    recipe.append(item(reps[a[0]], a[1], 2, rnd))
            cases.append((2, recipe, gen_ops(rnd, recipe, rules, short=True)))
    # random mixed circuits over the whole library
    for _ in range(400 if ctx.thorough else 120):
        n = rnd.randint(2, 4)
        depth = rnd.randint(1, 9)
        recipe = []
        for _ in range(depth):
            if rnd.random() < 0.2:
                nm = rnd.choice(sorted(fixed))
                if fixed[nm] <= n:
                    recipe.append({"name": nm, "cls": None, "qs": rnd.sample(range(n), fixed[nm]), "vals": None, "trainable": False, "controls": []})
                continue
            key = rnd.choice(sorted(par))
            if par[key].nq <= n:
                recipe.append(item(key, rnd.random() < 0.65, n, rnd))
        cases.append((n, recipe, gen_ops(rnd, recipe, rules, short=False)))
    return cases


def gen_ops(rnd, recipe, rules, short):
    """ops with fully determined data; values refer to the *current* queue, which INV
    reverses — tracked here on the skeleton so that generated updates stay well formed."""
    ops = []
    skel = [(it["cls"], it["trainable"], it["name"]) for it in recipe]
    can_inv = all((c is None and nm not in rules.get("__fixed_param_dagger__", ())) or (c is not None and rules.get(nm) is not None) for c, _, nm in skel)
    has_gf = any(c is not None and c.kind == "gfsim" for c, _, _ in skel)
    nops = rnd.randint(2, 4) if short else rnd.randint(3, 8)
    for _ in range(nops):
        tr = [i for i, (c, t, _) in enumerate(skel) if c is not None and t]
        r = rnd.random()
        if r < 0.30:
            ops.append(("SL", [(i, int_value(skel[i][0], rnd)) for i in tr], rnd.randrange(10**6)))
        elif r < 0.50 and not any(skel[i][0].kind == "gfsim" for i in tr):
            ops.append(("SF", [(i, int_value(skel[i][0], rnd)) for i in tr], rnd.randrange(10**6)))
        elif r < 0.65:
            keys = [i for i in tr if rnd.random() < 0.6]
            rnd.shuffle(keys)
            ops.append(("SD", [(i, int_value(skel[i][0], rnd)) for i in keys], rnd.randrange(10**6)))
        elif r < 0.72:
            # refused updates: wrong length / key outside the trainable set
            total = sum(skel[i][0].width for i in tr)
            bad_n = rnd.choice([k for k in range(0, total + 3) if k != len(tr) and k != total] or [total + 5])
            if rnd.random() < 0.5:
                ops.append(("SLBAD", bad_n, 0))
            else:
                nontr = [i for i, (c, t, _) in enumerate(skel) if c is None or not t]
                k = rnd.choice(nontr) if nontr and rnd.random() < 0.7 else len(skel) + 3
                extra = [(i, int_value(skel[i][0], rnd)) for i in tr[:1]]
                ops.append(("SDBAD", k, extra))
        elif r < 0.80 and can_inv:
            ops.append(("INV",))
            skel = skel[::-1]
        elif r < 0.86:
            ops.append(("CP",))
        else:
            incl = rnd.random() < 0.5
            f = rnd.choice(["GL", "GD", "GF"])
            if f == "GF" and has_gf:
                f = "GL"
            ops.append((f, incl))
    ops.append(("GL", True))
    if not has_gf:
        ops.append(("GF", False))
    return ops


def model_line(recipe, ops, rules):
    toks = ["RUN", str(len(recipe))]
    for it in recipe:
        cls = it["cls"]
        if cls is None:
            toks += ["1", "0", "0", "0", "0"]
        else:
            rule = rules.get(it["name"])
            kind = (0 if rule is None else rule) + 8 * (1 + sorted(k for k in rules if not k.startswith("__")).index(it["name"]))
            v = to_ints(flat_of(cls, it["vals"]))
            toks += [str(kind), "1", "1" if it["trainable"] else "0", str(cls.width), str(len(v)), *map(str, v)]
    toks.append(str(len(ops)))
    for op in ops:
        if op[0] in ("SL", "SD"):
            toks += [op[0], str(len(op[1]))]
            for i, v in op[1]:
                fv = to_ints(flat_of(op[3][i], v))
                toks += ([str(i)] if op[0] == "SD" else []) + [str(len(fv)), *map(str, fv)]
        elif op[0] == "SF":
            flat = []
            for i, v in op[1]:
                flat += to_ints(flat_of(op[3][i], v))
            toks += ["SL", str(len(flat))]
            for x in flat:
                toks += ["1", str(x)]
        elif op[0] == "SLBAD":
            toks += ["SL", str(op[1])] + ["1", "0"] * op[1]
        elif op[0] == "SDBAD":
            toks += ["SD", str(1 + len(op[2])), str(op[1]), "1", "0"]
            for i, v in op[2]:
                fv = to_ints(flat_of(op[3][i], v))
                toks += [str(i), str(len(fv)), *map(str, fv)]
        elif op[0] in ("GL", "GD", "GF"):
            toks += [op[0], "1" if op[1] else "0"]
        else:
            toks.append(op[0])
    return " ".join(toks)


def show_real(vals):
    v = to_ints(vals)
    return fmt_vals(v) if v is not None else "noninteger:" + repr(vals)


def real_history(n, recipe, ops):
    """run the history on the real code; returns the answer in the driver's format and a
    python transcript (the replay)."""
    c = build(n, recipe)
    outs = []
    code = ["from qibo import Circuit, gates; import numpy as np", build_code(n, recipe).rstrip()]

    def pos(g):
        for i, x in enumerate(c.queue):
            if x is g:
                return i
        return -1

    def show_dict(d):
        return ";".join(f"{pos(g)}:{show_real(flat_params(p))}" for g, p in d.items())

    for op in ops:
        kind = op[0]
        try:
            if kind in ("SL", "SF", "SD"):
                clsmap = op[3]
                rnd = random.Random(op[2])
                if kind == "SL":
                    obj = [encode_gate_value(clsmap[i], v, rnd) for i, v in op[1]]
                    k = rnd.choice(["list", "tuple"])
                    obj = tuple(obj) if k == "tuple" else obj
                    code.append(f"c.set_parameters({pyrepr(obj)})")
                elif kind == "SF":
                    flat = []
                    for i, v in op[1]:
                        flat += [float(complex(z).real) for z in flat_of(clsmap[i], v)]
                    k = rnd.choice(["list", "tuple", "array"])
                    obj = flat if k == "list" else tuple(flat) if k == "tuple" else np.array(flat)
                    code.append(f"c.set_parameters({pyrepr(obj)})")
                else:
                    enc = [(i, encode_gate_value(clsmap[i], v, rnd)) for i, v in op[1]]
                    obj = {c.queue[i]: e for i, e in enc}
                    code.append("c.set_parameters({" + ", ".join(f"c.queue[{i}]: {pyrepr(e)}" for i, e in enc) + "})")
                c.set_parameters(obj)
                outs.append("ok")
            elif kind == "SLBAD":
                code.append(f"c.set_parameters([0.0] * {op[1]})  # expected ValueError")
                c.set_parameters([0.0] * op[1])
                outs.append("ok")
            elif kind == "SDBAD":
                k = op[1]
                g = c.queue[k] if k < len(c.queue) else G().RX(0, 0.0)
                d = {g: 0.0}
                for i, v in op[2]:
                    d[c.queue[i]] = encode_gate_value(op[3][i], v, random.Random(1))
                code.append(f"c.set_parameters(dict with a key outside the trainable gates: position {k})  # expected KeyError")
                c.set_parameters(d)
                outs.append("ok")
            elif kind == "GL":
                outs.append(";".join(show_real(flat_params(p)) for p in c.get_parameters("list", op[1])))
                code.append(f"print(c.get_parameters('list', {op[1]}))")
            elif kind == "GD":
                outs.append(show_dict(c.get_parameters("dict", op[1])))
                code.append(f"print(c.get_parameters('dict', {op[1]}))")
            elif kind == "GF":
                outs.append(show_real(c.get_parameters("flatlist", op[1])))
                code.append(f"print(c.get_parameters('flatlist', {op[1]}))")
            elif kind == "INV":
                c = c.invert()
                outs.append("inv")
                code.append("c = c.invert()")
            elif kind == "CP":
                c = c.copy(deep=True)
                outs.append("cp")
                code.append("c = c.copy(deep=True)")
        except ValueError:
            outs.append("errV")
        except KeyError:
            outs.append("errK")
    final = show_dict(c.get_parameters("dict", True)) + " # " + show_dict(c.get_parameters("dict", False))
    return " | ".join(outs) + " || " + final, "\n".join(code)


def attach_cls(recipe, ops):
    """give every set-op the class of the gate at each (current) position."""
    cur = [it["cls"] for it in recipe]
    out = []
    for op in ops:
        if op[0] in ("SL", "SF", "SD"):
            out.append((op[0], op[1], op[2], {i: cur[i] for i, _ in op[1]}))
        elif op[0] == "SDBAD":
            out.append((op[0], op[1], op[2], {i: cur[i] for i, _ in op[2]}))
        else:
            out.append(op)
            if op[0] == "INV":
                cur = cur[::-1]
    return out


def bookkeeping_correspondence(ctx, par, fixed):
    rules = dagger_rules(ctx, par)
    rules["__fixed_param_dagger__"] = fixed_with_parametrised_dagger(fixed)
    cases = corr_cases(ctx, par, fixed, rules)
    lines, meta = [], []
    for n, recipe, ops in cases:
        ops = attach_cls(recipe, ops)
        lines.append(model_line(recipe, ops, rules))
        meta.append((n, recipe, ops))
    outs = run_driver(lines, driver="DriverC06.lean")
    bad = 0
    for (n, recipe, ops), line, mout in zip(meta, lines, outs):
        try:
            real, code = real_history(n, recipe, ops)
        except Exception as e:  # the real code raised something the model does not know
            real, code = f"raised {type(e).__name__}: {e}", build_code(n, recipe)
        shape = tuple((it["cls"].width if it["cls"] else 0, it["trainable"]) for it in recipe)
        ctx.case(("hist", shape, tuple(op[0] for op in ops)))
        for op in ops:
            ctx.stat("op_" + op[0])
        for it in recipe:
            ctx.stat("gate_" + (it["cls"].name if it["cls"] else "fixed"))
        if len(ctx.samples) < 4:
            ctx.sample({"kind": "history", "gates": [(it["name"], it["trainable"]) for it in recipe], "ops": [op[0] for op in ops], "answer": mout[:160]})
        if real.replace(" ", "") != mout.replace(" ", ""):
            bad += 1
            if bad > 3:  # a few written-out histories are enough; the count is in the obligation
                continue
            names = sorted({it["cls"].name for it in recipe if it["cls"]})
            ctx.fail("bookkeeping:" + ("+".join(names) if len(names) <= 2 else "mixed"),
                     f"set/get history on gates {[(it['name'], it['trainable']) for it in recipe]} differs from the bookkeeping specification",
                     code + f"\n# expected (model): {mout}\n# observed (qibo): {real}\nraise SystemExit(1)",
                     expected=mout, observed=real, broken=["C06_corr_bookkeeping"])
    ctx.ob("C06_corr_bookkeeping", bad == 0, "correspondence", f"{bad} of {len(cases)} histories disagree" if bad else "")
    # argument types that must be refused
    from qibo import Circuit

    c = Circuit(1)
    c.add(G().RX(0, 0.1))
    refused = 0
    for badarg in ({0.5}, "0.5", 0.5, None):
        try:
            c.set_parameters(badarg)
        except TypeError:
            refused += 1
        except Exception:
            pass
    ok = refused == 4 and c.get_parameters() == [(0.1,)]
    ctx.ob("C06_corr_argument_types", ok, "correspondence", "" if ok else "set/str/scalar arguments are not refused with TypeError")
    if not ok:
        ctx.fail("set_parameters:bad-type", "set_parameters accepts a set/str/scalar or changes the circuit while refusing",
                 "from qibo import Circuit, gates\nc = Circuit(1); c.add(gates.RX(0, 0.1))\nfor a in ({0.5}, '0.5', 0.5, None):\n    try:\n        c.set_parameters(a)\n        raise SystemExit(1)\n    except TypeError:\n        pass\nassert c.get_parameters() == [(0.1,)]",
                 broken=["C06_corr_argument_types"])


# ---------------------------------------------------------------------------
# (C) search: every derived view after an update = view of a freshly built circuit

PRELUDE = '''
import numpy as np
from qibo import Circuit, gates
from qibo.backends import NumpyBackend
nb = NumpyBackend()

def PSI(n, seed=7):
    rs = np.random.RandomState(seed)
    v = rs.randn(2**n) + 1j * rs.randn(2**n)
    return v / np.linalg.norm(v)

def flat(ps):
    out = []
    for p in ps:
        for x in p:
            out += list(np.asarray(x, dtype=complex).reshape(-1))
    return np.array(out)

def v_params(c): return flat(c.get_parameters("list", True))
def v_params_tr(c): return flat(c.get_parameters("list", False))
def v_flat(c): return np.array([complex(z) for x in c.get_parameters("flatlist") for z in np.asarray(x, dtype=complex).reshape(-1)])
def v_unitary(c): return np.asarray(c.unitary(nb))
def v_state(c): return np.asarray(nb.execute_circuit(c, initial_state=PSI(c.nqubits)).state())
def v_state_dm(c):
    d = Circuit(c.nqubits, density_matrix=True)
    for g in c.queue: d.add(g)
    p = PSI(c.nqubits); return np.asarray(nb.execute_circuit(d, initial_state=np.outer(p, p.conj())).state())
def v_call(c): return np.asarray(c(PSI(c.nqubits)).state())
def v_copy_deep(c): return v_unitary(c.copy(deep=True))
def v_copy_deep_params(c): return v_params(c.copy(deep=True))
def v_copy_shallow(c): return v_unitary(c.copy(deep=False))
def v_invert(c): return v_unitary(c.invert())
def v_invert_dagger(c): return v_unitary(c).conj().T
def v_invert_params(c): return v_params(c.invert())
def v_ntrainable(c): return np.array([sum(len(p) for p in c.get_parameters("list")), len(c.get_parameters("list"))])
def v_invert_ntrainable(c): return v_ntrainable(c.invert())
def v_invert_invert(c): return v_unitary(c.invert().invert())
def v_invert_state(c): return v_state(c.invert())
def v_fuse_state(c): return v_state(c.fuse())
def v_fuse1_state(c): return v_state(c.fuse(max_qubits=1))
def v_fuse_unitary(c): return v_unitary(c.fuse())
def v_fuse_params(c): return v_params(c.fuse())
def v_decompose(c): return v_unitary(c.decompose())
def v_on_qubits(c):
    n = c.nqubits; big = Circuit(n + 1); big.add(c.on_qubits(*[(q + 1) % (n + 1) for q in range(n)][::-1])); return v_unitary(big)
def v_on_qubits_params(c):
    n = c.nqubits; big = Circuit(n + 1); big.add(c.on_qubits(*range(1, n + 1))); return v_params(big)
def v_light_cone(c): return v_unitary(c.light_cone(0)[0])
def v_qasm(c): return c.to_qasm()
def v_from_dict(c): return v_unitary(Circuit.from_dict(c.raw))
def v_from_dict_params(c): return v_params(Circuit.from_dict(c.raw))
def v_add(c): return v_unitary(c + c)
def v_add_square(c): u = v_unitary(c); return u @ u
def v_dagger_gates(c):
    d = Circuit(c.nqubits)
    for g in c.queue[::-1]: d.add(g.dagger())
    return v_unitary(d)
def v_gate_matrices(c): return np.concatenate([np.asarray(g.matrix(nb)).reshape(-1) for g in c.queue] + [np.zeros(1)])
def v_summary(c): return c.summary()

def same(a, b, phase=False):
    if isinstance(a, str) or isinstance(b, str): return a == b
    a = np.asarray(a); b = np.asarray(b)
    if a.shape != b.shape: return False
    if phase:
        k = np.argmax(np.abs(b))
        if abs(b.flat[k]) > 1e-12:
            ph = a.flat[k] / b.flat[k]
            if abs(abs(ph) - 1) > 1e-8: return False
            b = ph * b
    return bool(np.allclose(a, b, atol=1e-10, rtol=0))

def run_view(fn, c):
    try: return ("ok", fn(c))
    except Exception as e: return ("raise", type(e).__name__)

def agree(ra, rb, phase=False):
    if ra[0] != rb[0]: return False
    if ra[0] == "raise": return ra[1] == rb[1]
    return same(ra[1], rb[1], phase)
'''

# (name, view on the updated circuit, reference view on the fresh circuit, up to phase).
# The reference is the same view of the freshly built circuit (so that defects of dagger /
# decompose / serialisation themselves, which other properties own, do not alarm here),
# except where the statement names the derived object: copy, fused circuit, call, sum.
VIEWS = [
    ("params", "v_params", "v_params", False),
    ("params_trainable", "v_params_tr", "v_params_tr", False),
    ("gate_matrices", "v_gate_matrices", "v_gate_matrices", False),
    ("unitary", "v_unitary", "v_unitary", False),
    ("execute", "v_state", "v_state", False),
    ("execute_dm", "v_state_dm", "v_state_dm", False),
    ("call", "v_call", "v_state", False),
    ("copy_deep", "v_copy_deep", "v_unitary", False),
    ("copy_deep_params", "v_copy_deep_params", "v_params", False),
    ("copy_shallow", "v_copy_shallow", "v_unitary", False),
    ("invert", "v_invert", "v_invert", False),
    ("invert_params", "v_invert_params", "v_invert_params", False),
    ("invert_invert", "v_invert_invert", "v_invert_invert", False),
    ("invert_trainable_count", "v_invert_ntrainable", "v_ntrainable", False),
    ("invert_execute", "v_invert_state", "v_invert_state", False),
    ("dagger_gates", "v_dagger_gates", "v_dagger_gates", False),
    ("fuse_execute", "v_fuse_state", "v_state", False),
    ("fuse1_execute", "v_fuse1_state", "v_state", False),
    ("fuse_unitary", "v_fuse_unitary", "v_unitary", False),
    ("fuse_params", "v_fuse_params", "v_params", False),
    ("decompose", "v_decompose", "v_decompose", False),
    ("on_qubits", "v_on_qubits", "v_on_qubits", False),
    ("on_qubits_params", "v_on_qubits_params", "v_on_qubits_params", False),
    ("light_cone", "v_light_cone", "v_light_cone", False),
    ("to_qasm", "v_qasm", "v_qasm", False),
    ("from_dict", "v_from_dict", "v_from_dict", False),
    ("from_dict_params", "v_from_dict_params", "v_from_dict_params", False),
    ("add", "v_add", "v_add_square", False),
    ("flatlist", "v_flat", "v_flat", False),
]

# views whose reference view is allowed to refuse (documented refusals): the check is
# then "the updated circuit refuses in the same way"
_NS = None


def ns():
    global _NS
    if _NS is None:
        _NS = {}
        exec(PRELUDE, _NS)
    return _NS


def run_scenario(n, recipe, updates, stop_view=None):
    """build, then for every update: set, compare every view with the fresh circuit.
    Returns list of (update index, view name) that disagree (all views), or a bool when
    `stop_view=(k, name)` is given (used by the shrinker)."""
    N = ns()
    try:
        c = build(n, recipe)
    except Exception:
        return [] if stop_view is None else False
    cur = {i: it["vals"] for i, it in enumerate(recipe) if it["cls"] is not None}
    fails = []
    for k, upd in enumerate(updates):
        try:
            obj = encode_update(c, recipe, upd)
            c.set_parameters(obj)
        except Exception as e:
            fails.append((k, "set_parameters:" + type(e).__name__))
            if stop_view is not None:
                return stop_view == (k, fails[-1][1])
            break
        cur = applied_values(recipe, cur, upd)
        f = build(n, recipe, cur)
        for name, vc, vf, phase in VIEWS:
            ra = N["run_view"](N[vc], c)
            rb = N["run_view"](N[vf], f)
            if not N["agree"](ra, rb, phase):
                fails.append((k, name))
                if stop_view == (k, name):
                    return True
    return fails if stop_view is None else False


def scenario_code(n, recipe, updates, upto, view):
    """self-contained replay: exit status != 0 iff view `view` still disagrees after
    update number `upto`."""
    name, vc, vf, phase = next(v for v in VIEWS if v[0] == view) if not view.startswith("set_parameters") else (view, None, None, False)
    code = PRELUDE + "\n" + build_code(n, recipe)
    cur = {i: it["vals"] for i, it in enumerate(recipe) if it["cls"] is not None}
    c = build(n, recipe)
    for k, upd in enumerate(updates[: upto + 1]):
        obj = encode_update(c, recipe, upd)
        if upd["fmt"] == "dict":
            items = []
            for g, v in obj.items():
                i = next(j for j, x in enumerate(c.queue) if x is g)
                items.append(f"c.queue[{i}]: {pyrepr(v)}")
            line = "c.set_parameters({" + ", ".join(items) + "})\n"
        else:
            line = f"c.set_parameters({pyrepr(obj)})\n"
        if k < upto:
            # earlier views are part of the history (they fill caches)
            code += line + "".join(f"run_view({v[1]}, c)\n" for v in VIEWS)
            try:
                c.set_parameters(obj)
                for v in VIEWS:
                    ns()["run_view"](ns()[v[1]], c)
            except Exception:
                pass
        else:
            code += line
        cur = applied_values(recipe, cur, upd)
    if vc is None:
        return code + "# the update above raised although it is in an accepted format\n"
    code += build_code(n, recipe, cur, var="f")
    code += f"ra = run_view({vc}, c); rb = run_view({vf}, f)\nprint('updated:', ra)\nprint('fresh  :', rb)\nassert agree(ra, rb, {phase})\n"
    return code


def replay_fails(code):
    g = {}
    try:
        exec(compile(code, "<replay>", "exec"), g)
    except AssertionError:
        return True
    except SystemExit as e:
        return bool(e.code)
    except Exception:
        return True
    return False


def shrink(n, recipe, updates, k, view):
    """greedy: keep only the failing update (then earlier ones if needed), drop gates."""
    def still(r, u, kk):
        try:
            return run_scenario(n, r, u, stop_view=(kk, view)) is True
        except Exception:
            return False

    ups, kk = updates[: k + 1], k
    if still(recipe, [updates[k]], 0):
        ups, kk = [updates[k]], 0
    i = 0
    rec = list(recipe)
    while i < len(rec):
        cand = rec[:i] + rec[i + 1:]
        cu = []
        for u in ups:
            vals = {}
            for j, v in u["vals"].items():
                if j == i:
                    continue
                vals[j - 1 if j > i else j] = v
            cu.append({**u, "vals": vals})
        if cand and still(cand, cu, kk):
            rec, ups = cand, cu
        else:
            i += 1
    return rec, ups, kk


def make_updates(rnd, recipe, count, fmts=None):
    tidx = [i for i, it in enumerate(recipe) if it["cls"] is not None and it["trainable"]]
    has_gf = any(recipe[i]["cls"].kind == "gfsim" for i in tidx)
    ups = []
    for _ in range(count):
        fmt = rnd.choice(fmts or ["list", "dict", "flat"])
        if fmt == "flat" and has_gf:
            fmt = "list"
        u = {"fmt": fmt, "vals": {i: rand_value(recipe[i]["cls"], rnd) for i in tidx}, "enc": rnd.randrange(10**6)}
        if fmt == "dict" and tidx and rnd.random() < 0.5:
            u["nkeys"] = rnd.randint(1, len(tidx))
        ups.append(u)
    return ups


def report_view_failures(ctx, n, recipe, updates, fails, seen):
    for k, view in fails:
        r, u, kk = shrink(n, recipe, updates, k, view)
        names = sorted({it["cls"].name if it["cls"] else it["name"] for it in r})
        pnames = sorted({it["cls"].name for it in r if it["cls"]})
        tag = pnames[0] if len(pnames) == 1 and len(r) <= 2 else ("+".join(names) if len(r) <= 2 else "circuit")
        key = f"view:{view}:{tag}"
        if key in seen or sum(1 for x in seen if x.startswith(f"view:{view}:")) >= 2 or len(seen) >= 12:
            continue
        seen.add(key)
        code = scenario_code(n, r, u, kk, view)
        ctx.fail(key, f"after set_parameters ({u[kk]['fmt']} format) the view '{view}' of a circuit with gates "
                      f"{[(it['name'], 'trainable' if it['trainable'] else 'fixed') for it in r]} differs from a freshly built circuit with those values",
                 code, broken=["C06_search_views"])


def views_search(ctx, par, fixed):
    rnd = ctx.rng
    seen = set()
    nfail = 0
    # (1) systematic: every parametrised class, each format, between two fixed neighbours
    for key in sorted(par):
        cls = par[key]
        if cls.kind == "align":
            continue
        n = max(2, cls.nq)
        for fmt in ("list", "dict", "flat"):
            if fmt == "flat" and cls.kind == "gfsim":
                continue
            qs = rnd.sample(range(n), cls.nq)
            recipe = [
                {"name": "H", "cls": None, "qs": [qs[0]], "vals": None, "trainable": False, "controls": []},
                {"name": key, "cls": cls, "qs": qs, "vals": rand_value(cls, rnd), "trainable": True, "controls": []},
                {"name": "RY", "cls": par["RY"], "qs": [qs[-1]], "vals": [0.37], "trainable": False, "controls": []},
            ]
            ups = make_updates(rnd, recipe, 2, [fmt])
            fails = run_scenario(n, recipe, ups)
            ctx.case(("single", key, fmt))
            ctx.stat("views_compared", 2 * len(VIEWS))
            if fails:
                nfail += 1
                report_view_failures(ctx, n, recipe, ups, fails, seen)
    # (2) random mixed circuits, multi-step histories
    for _ in range(120 if ctx.thorough else 36):
        n = rnd.randint(2, 4)
        recipe = rand_recipe(rnd, par, fixed, n, rnd.randint(2, 8))
        if not recipe:
            continue
        ups = make_updates(rnd, recipe, rnd.randint(1, 3))
        fails = run_scenario(n, recipe, ups)
        ctx.case(("mixed", n, tuple((it["name"], it["trainable"], tuple(it["qs"]), tuple(it["controls"])) for it in recipe), tuple(u["fmt"] for u in ups)))
        ctx.stat("views_compared", len(ups) * len(VIEWS))
        for u in ups:
            ctx.stat("fmt_" + u["fmt"])
        if len(ctx.samples) < 8:
            ctx.sample({"kind": "views", "n": n, "gates": [gate_code(it) for it in recipe][:6], "formats": [u["fmt"] for u in ups]})
        if fails:
            nfail += 1
            report_view_failures(ctx, n, recipe, ups, fails, seen)
    derived_search(ctx, par, fixed, seen)
    ctx.ob("C06_search_views", not any(f["key"].startswith(("view:", "derived:")) for f in ctx.failures), "search",
           f"{nfail} scenarios with a differing view" if nfail else "")


DERIVED = '''
def formats(circ, new):
    """the three accepted encodings of the per-gate values `new` for circuit `circ`"""
    out = [("list", list(new))]
    keys = list(circ.get_parameters("dict").keys())
    out.append(("dict", dict(zip(keys, new))))
    if not any(isinstance(v, tuple) and any(isinstance(x, np.ndarray) for x in v) for v in new):
        fl = []
        for v in new:
            fl += [complex(z) for z in np.asarray(v).reshape(-1)]
        if all(z.imag == 0 for z in fl): fl = [z.real for z in fl]
        out.append(("flat", fl)); out.append(("flat-array", np.array(fl)))
    return out
def each_format(c, make, new, check):
    for name, _ in formats(c, new):
        d = make()
        obj = dict(formats(d, new))[name]
        d.set_parameters(obj)
        if not check(d): return False
    return True
def d_deep_copy_isolated(c, f, new):
    """updating a deep copy must not leak into the original"""
    cc = c.copy(deep=True); cc.set_parameters(new)
    return all(agree(run_view(v, c), run_view(w, f), p) for v, w, p in
               ((v_params, v_params, False), (v_unitary, v_unitary, False), (v_invert, v_invert, False),
                (v_decompose, v_decompose, False), (v_from_dict, v_from_dict, False), (v_on_qubits, v_on_qubits, False),
                (v_invert_params, v_invert_params, False), (v_dagger_gates, v_dagger_gates, False)))
def d_copy_updated(c, f2, new):
    return each_format(c, lambda: c.copy(deep=True), new,
        lambda d: agree(run_view(v_unitary, d), run_view(v_unitary, f2)) and agree(run_view(v_state, d), run_view(v_state, f2)))
def d_shallow_updated(c, f2, new):
    return each_format(c, lambda: c.copy(deep=False), new,
        lambda d: agree(run_view(v_unitary, d), run_view(v_unitary, f2)) and agree(run_view(v_unitary, c), run_view(v_unitary, f2)))
def d_fused_updated(c, f2, new):
    def mk():
        fc = c.fuse(); v_state(fc); return fc
    return each_format(c, mk, new, lambda d: agree(run_view(v_state, d), run_view(v_state, f2)) and same(v_params_tr(d), v_params_tr(f2)))
def d_added_updated(c, f2, new):
    e = Circuit(c.nqubits)
    return each_format(c, lambda: c + e, new, lambda d: agree(run_view(v_unitary, d), run_view(v_unitary, f2)))
def d_invert_updated(c, f2, new):
    inv = c.invert(); v_unitary(inv); inv.set_parameters(f2.invert().get_parameters())
    ok = agree(run_view(v_unitary, inv), run_view(v_invert, f2))
    inv = c.invert(); inv.set_parameters(f2.invert().get_parameters("flatlist")) if not any(isinstance(x, np.ndarray) and x.ndim == 2 for x in f2.invert().get_parameters("flatlist")) else None
    return ok and (agree(run_view(v_unitary, inv), run_view(v_invert, f2)) or any(isinstance(x, np.ndarray) and x.ndim == 2 for x in f2.invert().get_parameters("flatlist")))
def d_set_twice(c, f2, new):
    c.set_parameters(new); a = v_unitary(c); c.set_parameters(new)
    return same(a, v_unitary(c)) and agree(run_view(v_unitary, c), run_view(v_unitary, f2))
def d_get_set_roundtrip(c, f, new):
    ok = True
    for fmt in ("list", "dict", "flatlist"):
        try: p = c.get_parameters(fmt)
        except Exception: continue
        try: c.set_parameters(p)
        except Exception:
            if fmt == "flatlist" and any(isinstance(x, np.ndarray) for x in p): continue   # matrix-and-angle gates have no flat form
            return False
        ok = ok and agree(run_view(v_unitary, c), run_view(v_unitary, f)) and same(v_params(c), v_params(f))
    return ok
'''

DERIVED_NAMES = [("deep_copy_isolated", "f"), ("copy_updated", "f2"), ("shallow_updated", "f2"), ("fused_updated", "f2"),
                 ("added_updated", "f2"), ("invert_updated", "f2"), ("set_twice", "f2"), ("get_set_roundtrip", "f")]


def derived_search(ctx, par, fixed, seen):
    """multi-object histories: derived circuits updated themselves, isolation of deep
    copies, idempotence, get∘set round trip on the real code."""
    N = ns()
    if "d_set_twice" not in N:
        exec(DERIVED, N)
    rnd = ctx.rng
    todo = []
    for key in sorted(par):
        cls = par[key]
        if cls.kind == "align":
            continue
        n = max(2, cls.nq)
        qs = rnd.sample(range(n), cls.nq)
        todo.append((n, [{"name": key, "cls": cls, "qs": qs, "vals": rand_value(cls, rnd), "trainable": True, "controls": []},
                         {"name": "H", "cls": None, "qs": [qs[0]], "vals": None, "trainable": False, "controls": []}]))
    for _ in range(60 if ctx.thorough else 16):
        n = rnd.randint(2, 4)
        r = rand_recipe(rnd, par, fixed, n, rnd.randint(2, 7))
        if r:
            todo.append((n, r))
    for n, recipe in todo:
        tidx = [i for i, it in enumerate(recipe) if it["cls"] is not None and it["trainable"]]
        newvals = {i: rand_value(recipe[i]["cls"], rnd) for i in tidx}
        cur = {i: it["vals"] for i, it in enumerate(recipe) if it["cls"] is not None}
        cur2 = {**cur, **newvals}
        new_list = [newvals[i] if recipe[i]["cls"].kind != "angles" or len(newvals[i]) > 1 else newvals[i][0] for i in tidx]
        new_list = [tuple(v) if isinstance(v, list) else v for v in new_list]
        for dname, ref in DERIVED_NAMES:
            ctx.case(("derived", dname, tuple(it["name"] for it in recipe)))
            try:
                c = build(n, recipe)
                f = build(n, recipe, cur)
                f2 = build(n, recipe, cur2)
                ok = N["d_" + dname](c, f if ref == "f" else f2, new_list)
                err = ""
            except Exception as e:
                ok, err = False, f"{type(e).__name__}: {e}"
            if ok:
                continue
            names = sorted({it["cls"].name for it in recipe if it["cls"]})
            tag = names[0] if len(names) == 1 else "circuit"
            key = f"derived:{dname}:{tag}" if dname not in ("deep_copy_isolated", "fused_updated") else f"derived:{dname}"
            if key in seen or sum(1 for k in seen if k.startswith(f"derived:{dname}")) >= 2:
                continue
            seen.add(key)
            code = (PRELUDE + DERIVED + build_code(n, recipe) + build_code(n, recipe, cur, var="f") + build_code(n, recipe, cur2, var="f2")
                    + f"new = {pyrepr(new_list)}\nassert d_{dname}(c, {ref}, new)\n")
            ctx.fail(key, f"history '{dname}' on gates {[it['name'] for it in recipe]} breaks rebuild-equivalence {err}", code, broken=["C06_search_views"])


# ---------------------------------------------------------------------------
# (D) parameter shift = derivative of the real expectation function


def shift_search(ctx, par, fixed):
    from qibo import hamiltonians
    from qibo.derivative import finite_differences, parameter_shift

    nb = qgates.np_backend()
    rnd = ctx.rng
    rot = ["RX", "RY", "RZ"]
    bad = 0
    for trial in range(60 if ctx.thorough else 20):
        n = rnd.randint(1, 3)
        recipe = []
        with_nt = trial % 2 == 1
        for _ in range(rnd.randint(2, 7)):
            r = rnd.random()
            if r < 0.45:
                nm = rnd.choice(rot)
                recipe.append({"name": nm, "cls": par[nm], "qs": [rnd.randrange(n)], "vals": rand_value(par[nm], rnd), "trainable": True, "controls": []})
            elif r < 0.6 and with_nt:
                nm = rnd.choice(rot + ["U3", "fSim", "U1", "RZZ"])
                if par[nm].nq <= n:
                    recipe.append({"name": nm, "cls": par[nm], "qs": rnd.sample(range(n), par[nm].nq), "vals": rand_value(par[nm], rnd), "trainable": False, "controls": []})
            elif r < 0.7:
                nm = rnd.choice(["U1", "GPI", "CRX", "RZZ", "RXX"])
                if par[nm].nq <= n:
                    recipe.append({"name": nm, "cls": par[nm], "qs": rnd.sample(range(n), par[nm].nq), "vals": rand_value(par[nm], rnd), "trainable": True, "controls": []})
            else:
                nm = rnd.choice(["H", "CNOT", "CZ", "X", "S"])
                if fixed.get(nm, 9) <= n:
                    recipe.append({"name": nm, "cls": None, "qs": rnd.sample(range(n), fixed[nm]), "vals": None, "trainable": False, "controls": []})
        tidx = [i for i, it in enumerate(recipe) if it["cls"] is not None and it["trainable"]]
        targets = [j for j, i in enumerate(tidx) if recipe[i]["name"] in rot]
        if not targets:
            continue
        rs = np.random.RandomState(rnd.randrange(2**31))
        a = rs.randn(2**n, 2**n) + 1j * rs.randn(2**n, 2**n)
        hm = (a + a.conj().T) / 2
        psi = rs.randn(2**n) + 1j * rs.randn(2**n)
        psi /= np.linalg.norm(psi)
        ham = hamiltonians.Hamiltonian(n, hm, backend=nb)
        cur = {i: it["vals"] for i, it in enumerate(recipe) if it["cls"] is not None}

        def fval(i, th):
            vals = dict(cur)
            vals[i] = [th]
            st = np.asarray(nb.execute_circuit(build(n, recipe, vals), initial_state=psi.copy()).state())
            return float(np.real(st.conj() @ hm @ st))

        for j in rnd.sample(targets, min(2, len(targets))):
            i = tidx[j]
            th = cur[i][0]
            h = 1e-2
            d1 = (fval(i, th + h) - fval(i, th - h)) / (2 * h)
            d2 = (fval(i, th + h / 2) - fval(i, th - h / 2)) / h
            ref = (4 * d2 - d1) / 3
            nt_before = any(it["cls"] is not None and not it["trainable"] for it in recipe[:i])
            ctx.case(("shift", n, tuple(it["name"] for it in recipe), j))
            ctx.stat("shift_nt_before" if nt_before else "shift_plain")
            cat = "nontrainable-before" if nt_before else ("other-trainable" if any(recipe[k]["name"] not in rot for k in tidx) else "rotations")
            pre = ("from qibo import Circuit, gates, hamiltonians; import numpy as np\nfrom qibo.backends import NumpyBackend\n"
                   "from qibo.derivative import parameter_shift, finite_differences\nnb = NumpyBackend()\n" + build_code(n, recipe)
                   + f"hm = np.array({hm.tolist()})\npsi = np.array({psi.tolist()})\nham = hamiltonians.Hamiltonian({n}, hm, backend=nb)\n"
                   + f"before = c.get_parameters('list', True)\n")
            try:
                c = build(n, recipe)
                before = [tuple(p) for p in c.get_parameters("list", True)]
                got = parameter_shift(c, ham, j, initial_state=psi.copy())
                after = [tuple(p) for p in c.get_parameters("list", True)]
                got2 = parameter_shift(c, ham, j, initial_state=psi.copy(), scale_factor=0.5)
                fd = finite_differences(c, ham, j, initial_state=psi.copy())
                after2 = [tuple(p) for p in c.get_parameters("list", True)]
            except Exception as e:
                bad += 1
                ctx.fail(f"parameter_shift:raises:{cat}", f"parameter_shift raises {type(e).__name__}: {e} on a circuit whose parameter {j} belongs to {recipe[i]['name']}",
                         pre + f"parameter_shift(c, ham, {j}, initial_state=psi.copy())\n", observed=f"{type(e).__name__}: {e}", broken=["C06_search_shift"])
                continue
            same_params = all(np.allclose(x, y, atol=1e-12) for x, y in zip(before, after)) and all(np.allclose(x, y, atol=1e-6) for x, y in zip(before, after2))
            ok = abs(got - ref) < 1e-6 and abs(got2 - 0.5 * ref) < 1e-6 and abs(fd - ref) < 1e-4 and same_params
            if not ok:
                bad += 1
                what = "does not restore the circuit's parameters" if not same_params else f"returns {got}, the derivative of the expectation is {ref}"
                ctx.fail(f"parameter_shift:{cat}", f"parameter_shift w.r.t. parameter {j} ({recipe[i]['name']} at queue position {i}) {what}",
                         pre + f"got = parameter_shift(c, ham, {j}, initial_state=psi.copy())\nafter = c.get_parameters('list', True)\n"
                         f"assert all(np.allclose(x, y) for x, y in zip(before, after))\nassert abs(got - ({ref!r})) < 1e-6, got\n",
                         expected=ref, observed=got, broken=["C06_search_shift"])
    ctx.ob("C06_search_shift", bad == 0, "search", f"{bad} disagreements" if bad else "")


def shift_shots_search(ctx, par, fixed):
    """shot-based mode of parameter_shift (`nshots` given): diagonal (Z-string)
    observables, dense and symbolic, random NON-default initial state vectors, circuits
    chosen so that the derivative for the given state and the one for |0...0> differ
    clearly.  The backend is seeded, the tolerance is 7 standard errors of the estimate
    (bounded through the eigenvalue range), so the clean tree cannot alarm."""
    import sympy  # noqa: F401  (qibo.symbols needs it)
    from qibo import hamiltonians
    from qibo.backends import NumpyBackend
    from qibo.derivative import parameter_shift
    from qibo.symbols import Z

    rnd = ctx.rng
    rot = ["RX", "RY", "RZ"]
    NSHOTS = 200000
    sb = NumpyBackend()
    bseed = rnd.randrange(2**31)
    sb.set_seed(bseed)
    nb = qgates.np_backend()
    bad = 0
    want = 8 if ctx.thorough else 4
    clear = 0
    attempts = 0
    while clear < want and attempts < 60:
        attempts += 1
        n = rnd.randint(1, 3)
        recipe = []
        for _ in range(rnd.randint(2, 6)):
            r = rnd.random()
            if r < 0.6:
                nm = rnd.choice(rot)
                recipe.append({"name": nm, "cls": par[nm], "qs": [rnd.randrange(n)], "vals": rand_value(par[nm], rnd), "trainable": rnd.random() < 0.85, "controls": []})
            else:
                nm = rnd.choice(["H", "CNOT", "CZ", "X"])
                if fixed.get(nm, 9) <= n:
                    recipe.append({"name": nm, "cls": None, "qs": rnd.sample(range(n), fixed[nm]), "vals": None, "trainable": False, "controls": []})
        tidx = [i for i, it in enumerate(recipe) if it["cls"] is not None and it["trainable"]]
        if not tidx:
            continue
        # Z-string observable: sum_k coef_k prod_{q in S_k} Z_q + const
        terms = []
        for _ in range(rnd.randint(1, 3)):
            qs = sorted(rnd.sample(range(n), rnd.randint(1, n)))
            terms.append((rnd.choice([1.0, -1.0, 0.5, 1.5]), qs))
        const = rnd.choice([0.0, 0.0, 0.3])
        diag = np.full(2**n, const)
        for coef, qs in terms:
            for b in range(2**n):
                ones = sum((b >> (n - 1 - q)) & 1 for q in qs)
                diag[b] += coef * (-1) ** ones
        spread = float(diag.max() - diag.min())
        if spread < 1e-9:
            continue
        rs = np.random.RandomState(rnd.randrange(2**31))
        psi = rs.randn(2**n) + 1j * rs.randn(2**n)
        psi /= np.linalg.norm(psi)
        zero = np.zeros(2**n, complex)
        zero[0] = 1
        cur = {i: it["vals"] for i, it in enumerate(recipe) if it["cls"] is not None}

        def fval(i, th, init):
            vals = dict(cur)
            vals[i] = [th]
            st = np.asarray(nb.execute_circuit(build(n, recipe, vals), initial_state=init.copy()).state())
            return float(np.real(np.sum(np.abs(st) ** 2 * diag)))

        def deriv(i, init):
            th, h = cur[i][0], 1e-2
            d1 = (fval(i, th + h, init) - fval(i, th - h, init)) / (2 * h)
            d2 = (fval(i, th + h / 2, init) - fval(i, th - h / 2, init)) / h
            return (4 * d2 - d1) / 3

        se1 = 0.5 * spread / math.sqrt(2 * NSHOTS)  # bound on the std of r (F - B), r = 1/2
        j = rnd.randrange(len(tidx))
        i = tidx[j]
        ref, ref0 = deriv(i, psi), deriv(i, zero)
        is_clear = abs(ref - ref0) > 25 * se1
        if not is_clear and attempts < 50:
            continue
        clear += 1
        symbolic = clear % 2 == 0
        scale = rnd.choice([-1.5, 0.5, 2.0])
        ctx.case(("shift-shots", n, tuple(it["name"] for it in recipe), j, symbolic))
        ctx.stat("shift_shots_symbolic" if symbolic else "shift_shots_dense")
        ctx.stat("shift_shots_clearly_state_dependent" if is_clear else "shift_shots_weakly_state_dependent")
        if symbolic:
            expr = const
            for coef, qs in terms:
                t = coef
                for q in qs:
                    t = t * Z(q)
                expr = expr + t
            ham = hamiltonians.SymbolicHamiltonian(expr, nqubits=n, backend=sb)
            hcode = ("from qibo.symbols import Z\nexpr = " + repr(const) + "".join(" + " + repr(coef) + "".join(f"*Z({q})" for q in qs) for coef, qs in terms)
                     + f"\nham = hamiltonians.SymbolicHamiltonian(expr, nqubits={n}, backend=sb)\n")
        else:
            ham = hamiltonians.Hamiltonian(n, np.diag(diag).astype(complex), backend=sb)
            hcode = f"ham = hamiltonians.Hamiltonian({n}, np.diag(np.array({diag.tolist()})).astype(complex), backend=sb)\n"
        mcode = f"c.add(gates.M(*range({n})))\n"
        pre = ("from qibo import Circuit, gates, hamiltonians; import numpy as np\nfrom qibo.backends import NumpyBackend\n"
               f"from qibo.derivative import parameter_shift\nsb = NumpyBackend(); sb.set_seed({bseed})\n" + build_code(n, recipe) + mcode + hcode
               + f"psi = np.array({psi.tolist()})\nkeep = psi.copy()\nbefore = c.get_parameters('list', True)\n")
        try:
            c = build(n, recipe)
            from qibo import gates as _qg

            c.add(_qg.M(*range(n)))
            before = [tuple(p) for p in c.get_parameters("list", True)]
            keep = psi.copy()
            got = parameter_shift(c, ham, j, initial_state=psi, nshots=NSHOTS)
            got_s = parameter_shift(c, ham, j, initial_state=psi, scale_factor=scale, nshots=NSHOTS)
            exact = parameter_shift(c, ham, j, initial_state=psi)
            after = [tuple(p) for p in c.get_parameters("list", True)]
        except Exception as e:
            bad += 1
            ctx.fail("parameter_shift:shots:raises", f"parameter_shift with nshots and an initial state raises {type(e).__name__}: {e}",
                     pre + f"parameter_shift(c, ham, {j}, initial_state=psi, nshots={NSHOTS})\n", observed=f"{type(e).__name__}: {e}", broken=["C06_search_shift_shots"])
            continue
        tol, tol_s = 7 * se1 + 1e-9, 7 * se1 * abs(scale) + 1e-9
        unchanged = np.array_equal(psi, keep) and all(np.allclose(x, y, atol=1e-12) for x, y in zip(before, after))
        if not unchanged:
            bad += 1
            ctx.fail("parameter_shift:shots:mutates", "parameter_shift (shot-based) changes the circuit's parameters or the caller's initial_state array",
                     pre + f"parameter_shift(c, ham, {j}, initial_state=psi, nshots={NSHOTS})\nassert np.array_equal(psi, keep)\n"
                     "assert all(np.allclose(x, y) for x, y in zip(before, c.get_parameters('list', True)))\n", broken=["C06_search_shift_shots"])
        if abs(got - ref) > tol or abs(got_s - scale * ref) > tol_s or abs(exact - ref) > 1e-6:
            bad += 1
            which = "exact" if abs(exact - ref) > 1e-6 else "shots"
            ctx.fail("parameter_shift:shots:initial-state" if which == "shots" else "parameter_shift:measured-circuit",
                     f"parameter_shift ({which} mode, nshots={NSHOTS}, non-default initial state) w.r.t. parameter {j} returns {got if which == 'shots' else exact:.5f} "
                     f"(scale {scale}: {got_s:.5f}); the derivative for the given state is {ref:.5f}, for |0...0> it is {ref0:.5f}; tolerance {tol:.5f} = 7 standard errors",
                     pre + f"got = parameter_shift(c, ham, {j}, initial_state=psi, nshots={NSHOTS})\n"
                     f"got_s = parameter_shift(c, ham, {j}, initial_state=psi, scale_factor={scale!r}, nshots={NSHOTS})\n"
                     f"exact = parameter_shift(c, ham, {j}, initial_state=psi)\nprint(got, got_s, exact)\n"
                     f"assert abs(exact - ({ref!r})) < 1e-6\nassert abs(got - ({ref!r})) < {tol!r} and abs(got_s - ({scale * ref!r})) < {tol_s!r}\n",
                     expected=ref, observed=got, broken=["C06_search_shift_shots"])
    ctx.ob("C06_search_shift_shots", bad == 0, "search", f"{bad} disagreements" if bad else "")


# ---------------------------------------------------------------------------------------
# set_parameters with ONE array (or a list of rows) for circuits of equal-arity gates
# ---------------------------------------------------------------------------------------

ARRAY_FORMS = ("2d-float64", "2d-float32", "2d-int", "2d-fortran", "flat-array", "flat-float32", "column", "list-of-arrays", "list-of-tuples", "tuple-of-lists")


def array_form(form, rows, rnd, clss=None):
    """(object handed to set_parameters, the values it denotes per gate) for the canonical rows."""
    if form in ("2d-float32", "flat-float32"):
        rows = [[float(np.float32(x)) for x in r] for r in rows]
    if form == "2d-int":
        rows = [[float(rnd.randint(-3, 3)) for _ in r] for r in rows]
        for r, cl in zip(rows, clss or []):
            if cl.name == "MS":
                r[-1] = float(rnd.randint(0, 1))  # MS: 0 <= theta <= pi/2
    a = np.array(rows, dtype=float)
    if form == "2d-float64":
        obj = a.copy()
    elif form == "2d-float32":
        obj = a.astype(np.float32)
    elif form == "2d-int":
        obj = a.astype(np.int64)
    elif form == "2d-fortran":
        obj = np.asfortranarray(a)
    elif form == "flat-array":
        obj = a.reshape(-1).copy()
    elif form == "flat-float32":
        obj = a.reshape(-1).astype(np.float32)
    elif form == "column":
        obj = a.reshape(-1, 1).copy()
    elif form == "list-of-arrays":
        obj = [np.array(r) for r in rows]
    elif form == "list-of-tuples":
        obj = [tuple(r) for r in rows]
    elif form == "tuple-of-lists":
        obj = tuple(list(r) for r in rows)
    else:  # pragma: no cover
        raise ValueError(form)
    return obj, rows


def array_form_code(form, obj):
    if isinstance(obj, np.ndarray):
        s = f"np.array({pyrepr(obj.tolist())}, dtype=np.{obj.dtype.name})"
        return f"np.asfortranarray({s})" if form == "2d-fortran" else s
    return pyrepr(obj)


def array_forms_search(ctx, par, fixed):
    """update == rebuild, for per-gate parameter sets given as one array with one row per gate (and the
    neighbouring forms: flat arrays, columns, lists of rows) on circuits whose trainable gates all take
    the same number p of parameters, mixed with fixed and non-trainable gates."""
    rnd = ctx.rng
    v_params, v_unitary = ns()["v_params"], ns()["v_unitary"]
    by_p = {}
    for key in sorted(par):
        cls = par[key]
        if cls.kind == "angles" and cls.width == cls.slots and 1 <= cls.slots <= 3:
            by_p.setdefault(cls.slots, []).append(key)
    bad, seen, ncases = 0, set(), 0
    fnames = sorted(fixed)
    for p in sorted(by_p):
        for form in ARRAY_FORMS:
            if form == "column" and p > 1:
                continue  # rows of a column are 1-element arrays: only meaningful for one-parameter gates
            for rep in range(6 if ctx.thorough else 3):
                n = rnd.randint(max(cls_nq for cls_nq in [par[k].nq for k in by_p[p]]) if rep == 0 else 2, 4)
                m = [1, 2, 3][rep % 3] if rep < 3 else rnd.randint(1, 5)
                recipe = []
                names = [k for k in by_p[p] if par[k].nq <= n]
                for j in range(m):
                    key = names[(rep + j) % len(names)] if rep == 0 else rnd.choice(names)
                    cls = par[key]
                    recipe.append({"name": key, "cls": cls, "qs": rnd.sample(range(n), cls.nq), "vals": rand_value(cls, rnd), "trainable": True, "controls": []})
                    if rnd.random() < 0.5:
                        fx = rnd.choice([f for f in fnames if fixed[f] <= n])
                        recipe.append({"name": fx, "cls": None, "qs": rnd.sample(range(n), fixed[fx]), "vals": None, "trainable": False, "controls": []})
                    if rnd.random() < 0.4:
                        k2 = rnd.choice([k for k in sorted(par) if par[k].kind == "angles" and par[k].nq <= n])
                        recipe.append({"name": k2, "cls": par[k2], "qs": rnd.sample(range(n), par[k2].nq), "vals": rand_value(par[k2], rnd), "trainable": False, "controls": []})
                rnd.shuffle(recipe)
                tidx = [i for i, it in enumerate(recipe) if it["trainable"]]
                rows = [rand_value(recipe[i]["cls"], rnd) for i in tidx]
                obj, vals = array_form(form, rows, rnd, [recipe[i]["cls"] for i in tidx])
                ncases += 1
                ctx.case(("array-form", p, form, n, tuple((it["name"], it["trainable"], tuple(it["qs"])) for it in recipe)))
                ctx.stat("array_form_" + form)
                values = {i: list(v) for i, v in zip(tidx, vals)}
                fresh = build(n, recipe, values)
                exp_p, exp_u = v_params(fresh), v_unitary(fresh)
                c = build(n, recipe)
                # float32 entries stay float32 inside the gates: single-precision matrices
                tol_p, tol_u = (1e-12, 1e-10) if "float32" not in form else (1e-6, 1e-5)
                try:
                    c.set_parameters(obj)
                    got_p, got_u = v_params(c), v_unitary(c)
                    okk = got_p.shape == exp_p.shape and np.allclose(got_p, exp_p, atol=tol_p, rtol=0) and np.allclose(got_u, exp_u, atol=tol_u, rtol=0)
                    observed = "parameters/unitary differ: " + str([tuple(np.asarray(x).reshape(-1).tolist()) for x in c.get_parameters()])[:300] if not okk else ""
                except Exception as e:  # noqa: BLE001
                    okk, observed = False, f"{type(e).__name__}: {e}"[:300]
                if okk:
                    continue
                bad += 1
                key = f"set_parameters:array-form:{form}"
                if key in seen:
                    continue
                seen.add(key)
                code = ("import numpy as np\nfrom qibo import Circuit, gates, set_backend\nset_backend('numpy')\n"
                        + build_code(n, recipe) + build_code(n, recipe, values, var="fresh")
                        + f"c.set_parameters({array_form_code(form, obj)})\n"
                        + "flat = lambda ps: [float(np.real(x)) for g in ps for x in np.asarray(g).reshape(-1)]\n"
                        + f"assert np.allclose(flat(c.get_parameters()), flat(fresh.get_parameters()), atol={tol_p!r})\n"
                        + f"assert np.allclose(c.unitary(), fresh.unitary(), atol={tol_u!r})\n")
                ctx.fail(key, f"set_parameters with the {form} form (shape {getattr(obj, 'shape', len(obj))}) of the per-gate values of a circuit whose {len(tidx)} trainable gates "
                              f"{[recipe[i]['name'] for i in tidx]} all take {p} parameter(s) does not leave the circuit equal to the one rebuilt from those values",
                         code, expected=[tuple(v) for v in vals], observed=observed, broken=["C06_search_set_parameters_array_forms"])
    ctx.stat("array_form_cases", ncases)
    ctx.ob("C06_search_set_parameters_array_forms", bad == 0, "search", f"{bad} of {ncases} updates differ from the rebuilt circuit" if bad else "")


def run(ctx):
    MODULES, THEOREMS = registry(PROP)
    ctx.theorems = THEOREMS
    build_and_audit(ctx, PROP, MODULES, THEOREMS)
    par, fixed = catalogue()
    ctx.stat("parametrised_classes", len(par))
    rotation_form(ctx)
    bookkeeping_correspondence(ctx, par, fixed)
    views_search(ctx, par, fixed)
    array_forms_search(ctx, par, fixed)
    shift_search(ctx, par, fixed)
    shift_shots_search(ctx, par, fixed)
    from props import C06_gateobj
    C06_gateobj.run_suites(ctx)
    ctx.trusted.append("QV.Model.Params is a hand model of Circuit.add/set_parameters/get_parameters/invert/copy bookkeeping, tied by exact correspondence on integer-valued histories (DriverC06.lean)")
    ctx.notes.append("bookkeeping: all gate sequences up to length 3 (4 thorough) over widths 1-4 x trainable/non-trainable/fixed plus random circuits over every parametrised class, histories of list/flat/dict updates (valid and refused), gets in 3 formats, invert, deep copy — exact integer comparison with the Lean model; "
                     "views: every parametrised class x 3 formats and random mixed circuits, 29 derived views after each of 1-3 updates vs a freshly built circuit (1e-10), derived circuits updated themselves, deep-copy isolation; "
                     "parameter_shift vs Richardson finite difference of the real expectation (1e-6); shot-based parameter_shift (2e5 shots, seeded backend, dense and symbolic Z-string observables, random non-default initial states, scale_factor) within 7 standard errors")
    ctx.assumptions.append("parameter-shift theorem: the circuit depends on the differentiated parameter through one gate of the form cos(t/2) 1 - i sin(t/2) P (checked numerically for RX, RY, RZ); finite_differences is only compared numerically")
