"""C02 — density-matrix execution equals U rho U-dagger of the same circuit."""
from __future__ import annotations

import numpy as np

from props import C01
from vlib import qgates
from vlib.driver import gi_tokens, parse_gi, run_driver
from vlib.proofs import build_and_audit, registry

PROP = "C02"


def dm_correspondence(ctx):
    """Gaussian-integer non-Hermitian 'rho' through the real apply_gate_density_matrix
    (so a missing conjugate or a swapped 01/10 block cannot hide) vs the Lean model."""
    from qibo import Circuit

    nb = qgates.np_backend()
    cases = [(n, gs) for n, gs in C01.exec_cases(ctx) if n <= 4]
    lines, meta = [], []
    for n, gs in cases:
        d = 2**n
        rho = np.array([[complex(ctx.rng.randint(-2, 2), ctx.rng.randint(-2, 2)) for _ in range(d)] for _ in range(d)])
        gl = " ".join(C01.gate_tokens(g) for g in gs)
        lines.append(f"DM {n} {len(gs)} {gl} {gi_tokens(rho)}")
        meta.append((n, gs, rho))
    outs = run_driver(lines)
    bad = 0
    for (n, gs, rho), out in zip(meta, outs):
        model = parse_gi(out)
        if np.abs(model).max(initial=0) > 2**46:
            ctx.stat("skipped_large")
            continue
        c = Circuit(n, density_matrix=True)
        for g in gs:
            c.add(g)
        real = np.asarray(nb.execute_circuit(c, initial_state=rho.copy()).state()).reshape(-1)
        descr = [C01.describe(g) for g in gs]
        ctx.case(("DM", n, tuple(descr)))
        ctx.stat(f"DM_n{n}")
        if len(ctx.samples) < 5:
            ctx.sample({"kind": "DM", "n": n, "gates": descr})
        if not np.array_equal(real, model):
            bad += 1
            py = C01._replay_exec("SV", n, gs, np.zeros(1), model).replace(f"c = Circuit({n})", f"c = Circuit({n}, density_matrix=True)")
            py = py.replace("initial_state=np.array([0j])", f"initial_state=np.array({rho.tolist()})").replace("initial_state=np.array([0.0])", f"initial_state=np.array({rho.tolist()})")
            py = py.replace(".state()", ".state().reshape(-1)")
            ctx.fail(f"dm-exec:{descr[0] if len(descr) == 1 else 'circuit'}",
                     f"density-matrix execution of {descr} differs from U rho U^dagger",
                     py, expected=str(model.tolist()), observed=str(real.tolist()), broken=["C02_corr_dm"])
    ctx.ob("C02_corr_dm", bad == 0, "correspondence", f"{bad} disagreements" if bad else "")


def dm_search(ctx):
    """real gates with real parameters: DM result = U rho U†, trace/Hermiticity kept,
    pure input gives the projector on the state-vector result."""
    from qibo import Circuit

    nb = qgates.np_backend()
    infos = {k: v for k, v in qgates.gate_infos().items() if v.generic}
    names = sorted(infos)
    rng = ctx.rng
    for _ in range(100 if ctx.thorough else 25):
        n = rng.randint(1, 4)
        c = Circuit(n, density_matrix=True)
        csv = Circuit(n)
        U = np.eye(2**n, dtype=complex)
        descr = []
        for _ in range(rng.randint(1, 7)):
            info = infos[rng.choice(names)]
            if info.nq > n:
                continue
            qs = rng.sample(range(n), info.nq)
            vals = [rng.uniform(-4, 4) for _ in range(info.np)]
            try:
                g = info.make(qs, vals)
                g2 = info.make(qs, vals)
            except Exception:
                continue
            rest = [q for q in range(n) if q not in qs]
            if rest and rng.random() < 0.4 and not g.control_qubits:
                cs = rng.sample(rest, rng.randint(1, len(rest)))
                g = g.controlled_by(*cs)
                g2 = g2.controlled_by(*cs)
            c.add(g)
            csv.add(g2)
            U = qgates.gate_full_matrix(g, n) @ U
            descr.append(f"{g.__class__.__name__}{tuple(g.init_args)} p={vals} c={list(g.control_qubits) if g.is_controlled_by else []}")
        if not descr:
            continue
        d = 2**n
        a = np.array([[complex(rng.gauss(0, 1), rng.gauss(0, 1)) for _ in range(d)] for _ in range(d)])
        rho = a @ a.conj().T
        rho /= np.trace(rho)
        out = np.asarray(nb.execute_circuit(c, initial_state=rho.copy()).state())
        ctx.case(("float-dm", n, tuple(descr)))
        exp = U @ rho @ U.conj().T
        psi = a[:, 0] / np.linalg.norm(a[:, 0])
        sv = np.asarray(nb.execute_circuit(csv, initial_state=psi.copy()).state())
        pure = np.asarray(nb.execute_circuit(c, initial_state=np.outer(psi, psi.conj())).state())
        ok = (np.allclose(out, exp, atol=1e-9) and abs(np.trace(out) - 1) < 1e-9 and np.allclose(out, out.conj().T, atol=1e-9)
              and np.allclose(pure, np.outer(sv, sv.conj()), atol=1e-9))
        if not ok:
            ctx.fail(f"float-dm:{descr[0].split('(')[0]}", f"density-matrix execution of {descr} is not U rho U^dagger",
                     "# circuit: " + "; ".join(descr), broken=["C02_corr_dm"])


def dm_history(ctx):
    """the same density-matrix circuit object executed several times, with parameter
    updates in between and through its fused copy: every execution is U rho U^dagger of
    the CURRENT gates (a matrix cached at first use must not survive an update)."""
    from qibo import Circuit, gates

    nb = qgates.np_backend()
    rng = ctx.rng
    param = ["RX", "RY", "RZ", "U1", "U2", "U3", "CRX", "CU1", "CU3", "fSim", "RXX", "RZZ", "GPI", "GIVENS", "RBS", "Unitary", "GeneralizedfSim"]
    infos = qgates.gate_infos()

    def rand_unitary(k):
        a = np.array([[complex(rng.gauss(0, 1), rng.gauss(0, 1)) for _ in range(2**k)] for _ in range(2**k)])
        q, r = np.linalg.qr(a)
        return q * (np.diag(r) / np.abs(np.diag(r)))

    def make(name, n):
        if name == "Unitary":
            k = rng.randint(1, min(2, n))
            qs = rng.sample(range(n), k)
            return lambda m, qs=qs: gates.Unitary(m, *qs), (lambda k=k: rand_unitary(k))
        if name == "GeneralizedfSim":
            if n < 2:
                return None
            qs = rng.sample(range(n), 2)
            return (lambda v, qs=qs: gates.GeneralizedfSim(*qs, v[0], v[1])), (lambda: (rand_unitary(1), rng.uniform(-3, 3)))
        info = infos[name]
        if info.nq > n:
            return None
        qs = rng.sample(range(n), info.nq)
        return (lambda v, info=info, qs=qs: info.make(qs, list(v) if isinstance(v, (list, tuple)) else [v])), (lambda info=info: [rng.uniform(-3, 3) for _ in range(info.np)])

    for _ in range(60 if ctx.thorough else 20):
        n = rng.randint(1, 3)
        builders = []
        for _ in range(rng.randint(1, 4)):
            b = make(rng.choice(param), n)
            if b:
                builders.append(b)
        if not builders:
            continue
        fixed_pos = rng.randint(0, len(builders))
        vals = [newv() for _, newv in builders]

        def build(vals):
            c = Circuit(n, density_matrix=True)
            for i, ((ctor, _), v) in enumerate(zip(builders, vals)):
                if i == fixed_pos and n >= 2:
                    c.add(gates.CNOT(0, 1))
                c.add(ctor(v))
            return c

        def setparams(c, vals):
            out = []
            for v in vals:
                out.append(v if not (isinstance(v, list) and len(v) == 1) else v[0])
            c.set_parameters([tuple(v) if isinstance(v, list) else v for v in out])

        try:
            c = build(vals)
            use_fused = rng.random() < 0.4
            runner = c.fuse(max_qubits=rng.randint(1, 2)) if use_fused else c
        except Exception:  # noqa: BLE001
            ctx.stat("history_build_rejected")
            continue
        descr = [g.__class__.__name__ for g in c.queue]
        ok, step = True, 0
        for step in range(3):
            d = 2**n
            a = np.array([[complex(rng.gauss(0, 1), rng.gauss(0, 1)) for _ in range(d)] for _ in range(d)])
            rho = a @ a.conj().T
            rho /= np.trace(rho)
            fresh = build(vals)
            U = np.asarray(fresh.unitary(nb))
            out = np.asarray(nb.execute_circuit(runner, initial_state=rho.copy()).state())
            if not np.allclose(out, U @ rho @ U.conj().T, atol=1e-9):
                ok = False
                break
            vals = [newv() for _, newv in builders]
            try:
                setparams(c, vals)
            except Exception:  # noqa: BLE001
                ctx.stat("history_set_rejected")
                break
        ctx.case(("dm-history", n, tuple(descr), use_fused))
        if not ok:
            ctx.fail(f"dm-history:{'fused' if use_fused else 'plain'}:{descr[0]}",
                     f"execution #{step + 1} of one density-matrix circuit object ({descr}, fused={use_fused}) after parameter updates is not U rho U^dagger of its current gates",
                     "# build a density-matrix circuit with " + ", ".join(descr) + "; execute, set_parameters, execute again and compare with a freshly built circuit",
                     broken=["C02_corr_dm"])


def run(ctx):
    MODULES, THEOREMS = registry(PROP)
    ctx.theorems = THEOREMS
    build_and_audit(ctx, PROP, MODULES, THEOREMS)
    dm_correspondence(ctx)
    from props import C01_einsum
    C01_einsum.run_suites(ctx)
    dm_search(ctx)
    dm_history(ctx)
    from props import C01_extra
    C01_extra.run_suites(ctx, density=True)
    ctx.notes.append("DM correspondence: exhaustive (targets × control subsets) n<=3 (4 thorough) with Gaussian-integer gates and a non-Hermitian integer rho, random circuits; exact comparison; float search over the whole gate library")
    ctx.assumptions.append("theorems cover pure inputs, mixtures of pure inputs (linearity) and trace preservation; Hermiticity/positivity preservation follow from the mixture form and are exercised numerically")
