"""C19 (part: hardware-style composite model) — `IBMQNoiseModel.from_dict` inside the model.

The rule generation of `from_dict` is transliterated in lean/QV/Model/NoiseIBMQ.lean
(`fromDict`), proved (lean/QV/Props/C19c.lean) to refine the documented per-gate SPEC
(`ibmqSpec`) when composed with the proved `attachNoise`, and compared here on every run with
the REAL `IBMQNoiseModel().from_dict(parameters)` / `.apply(circuit)`:

  * generated parameter dictionaries in every documented form (global number / per-qubit dict for
    each of depolarizing_one_qubit, depolarizing_two_qubit, t1+t2, readout_one_qubit; dict keys in
    any insertion order; the key STRINGS are handed to the model, which parses them (`parsePairKey`,
    `parseQubitKey`): "a-b" / "a - b" / " a -b" pair keys in both orientations, registers of 2-4 and
    of 11-13 qubits so that multi-digit numerals ("10-11", "3 - 12") occur; readout values as
    number / 1-list / pair / longer tuple; the numbers themselves as python float, python int (0, 1,
    integer times), numpy float64, and - where they are only passed through - numpy float32 / numpy
    integers), the undocumented corners of the code (a value that is
    neither number nor dict; t1 and t2 of different types; a t1 key missing in t2 -> KeyError;
    an empty readout tuple -> IndexError) and circuits with 1-, 2- and 3-qubit gates, controlled
    gates, channels already present, single- and multi-qubit measurements;
  * the rule list the model generates (driver DriverC19b.lean) drives the existing queue
    comparison of C19.py (class, qubits, coefficients, operator matrices of every element of
    the real noisy queue), the raise / no-raise behaviour is compared, the rule list itself is
    compared with `nm.errors` where that attribute is observable, and the documented queue
    (`ibmqSpec`) must coincide with the model's decoded queue (the theorem, re-checked).
"""
from __future__ import annotations

import hashlib
import itertools

import numpy as np

from vlib.driver import run_driver

DRIVER = "DriverC19b.lean"


class Values:
    """floats <-> identifiers (the model passes the numbers through unchanged)."""

    def __init__(self):
        self.vals = []

    def new(self, x):
        self.vals.append(x)
        return len(self.vals) - 1

    def __getitem__(self, i):
        return self.vals[i]


def qkey(rng, q, plain=False):
    """the key string of a per-qubit dict (`int(key)` ignores surrounding blanks)."""
    if plain or rng.random() < 0.85:
        return str(q)
    return rng.choice([f" {q}", f"{q} ", f" {q} "])


def pkey(rng, a, b):
    """the key string of a pair: "a-b", blanks anywhere around the numerals."""
    return rng.choice([f"{a}-{b}", f"{a}-{b}", f"{a} - {b}", f"{a}- {b}", f" {a} -{b}", f"{a}  -  {b} "])


def gen_params(rng, n, vt, allow_global_readout, corner, hot_pairs=()):
    """structured description S of a parameters dict (values are identifiers in vt; dict keys are
    the key STRINGS).  hot_pairs: (control, target) tuples of two-qubit gates of the circuit."""
    ctr = itertools.count(1)

    def lam(wide=False):
        """a strength: mostly distinct dyadic floats (a channel identifies the entry it came from); also the
        other kinds of number the documentation allows ("int or float"): python ints 0 / 1, numpy float64
        (a subclass of float); wide=True (values that are only passed through, never type-tested): also
        numpy float32 and numpy integers."""
        x = next(ctr) / 128
        r = rng.random()
        if r < 0.14:
            return vt.new(rng.choice([0, 1, 1]))
        if r < 0.24:
            return vt.new(np.float64(x))
        if wide and r < 0.32:
            return vt.new(rng.choice([np.float32(x), np.int64(1), np.int32(0)]))
        return vt.new(x)

    def qsub(extra=True):
        qs = [q for q in range(n + (1 if extra else 0)) if rng.random() < 0.7] or [0]
        rng.shuffle(qs)
        return qs

    S = {}
    r = rng.random()
    S["dep1"] = ("num", lam()) if r < 0.4 else (("other",) if corner and r > 0.93 else ("dict", [(qkey(rng, q), lam(True)) for q in qsub()]))
    r = rng.random()
    if r < 0.4:
        S["dep2"] = ("num", lam())
    elif corner and r > 0.93:
        S["dep2"] = ("other",)
    else:
        ks = []
        for a, b in hot_pairs:  # pairs that fire, their reversals (which must not), and unrelated ones
            f = rng.random()
            if f < 0.6:
                ks.append((a, b))
            if f > 0.4 and rng.random() < 0.7:
                ks.append((b, a))
        ks += [tuple(rng.sample(range(n), 2)) for _ in range(rng.randint(0, 2))]
        if not ks:
            ks = [tuple(rng.sample(range(n), 2))]
        seen, uniq = set(), []
        for k in ks:
            if k not in seen:
                seen.add(k)
                uniq.append(k)
        rng.shuffle(uniq)
        items = [(pkey(rng, a, b), lam(True)) for a, b in uniq[:6]]
        if corner and rng.random() < 0.2:
            items.append((rng.choice(["3--4", "0-", "a-1", ""]), lam()))  # not a pair of numerals: ValueError
        S["dep2"] = ("dict", items)
    r = rng.random()

    def tvals():
        k = next(ctr)
        r = rng.random()
        if r < 0.25:  # integer times (e.g. t1 = 100, t2 = 80 microseconds)
            return vt.new(100 + k), vt.new(80 + k)
        if r < 0.35:
            return vt.new(np.float64(1.0 + k / 16)), vt.new(np.float64(0.5 + k / 32))
        return vt.new(1.0 + k / 16), vt.new(0.5 + k / 32)

    if r < 0.4:
        a, b = tvals()
        S["t1"], S["t2"] = ("num", a), ("num", b)
    elif corner and r > 0.75:
        a, b = tvals()
        S["t1"], S["t2"] = rng.choice([(("num", a), ("dict", [("0", b)])), (("dict", [("0", a)]), ("num", b)), (("other",), ("num", b))])
    else:
        qs = qsub()
        pairs = [(str(q),) + tvals() for q in qs]  # t2 is looked up with the key string of t1: plain numerals
        l1 = [(q, a) for q, a, _ in pairs]
        l2 = [(q, b) for q, _, b in pairs]
        rng.shuffle(l2)
        if rng.random() < 0.3:
            l2.append((str(n + 2), vt.new(0.25)))  # an extra key of t2 is never read
        if corner and rng.random() < 0.35:
            l2 = [e for e in l2 if e[0] != l1[-1][0]]  # KeyError at the last key of t1
        S["t1"], S["t2"] = ("dict", l1), ("dict", l2)
    g1, g2 = rng.choice([(0.125, 0.375), (0.125, 0.375), (1, 2), (np.float64(0.125), 3)])
    S["gt1"], S["gt2"], S["ep"] = vt.new(g1), vt.new(g2), vt.new(rng.choice([0, 0.25, 1, np.float64(0.5)]))
    r = rng.random()
    if allow_global_readout and r < 0.4:
        S["ro"] = ("num", lam())
    elif corner and r > 0.93:
        S["ro"] = ("other",)
    else:
        items = []
        for q in qsub():
            f = rng.random()
            q = qkey(rng, q)
            if f < 0.3:
                items.append((q, ("num", lam())))
            elif f < 0.5:
                items.append((q, ("list", [lam()])))
            elif f < 0.85:
                items.append((q, ("tuple", [lam(), lam()])))
            elif corner and f > 0.95:
                items.append((q, ("tuple", [])))
            else:
                items.append((q, ("tuple", [lam(), lam(), lam()])))
        S["ro"] = ("dict", items)
    return S


def vsrc(x):
    """source of a number, keeping its type (python int / float, numpy scalar)."""
    if isinstance(x, np.generic):
        return f"np.{type(x).__name__}({x.item()!r})"
    return repr(x)


def params_src(S, vt):
    """Python source of the parameters dict."""

    def pv(v):
        if v[0] == "num":
            return vsrc(vt[v[1]])
        if v[0] == "other":
            return "None"
        return "{" + ", ".join(f"{k!r}: {vsrc(vt[x])}" for k, x in v[1]) + "}"

    pv2 = pv

    def rov(v):
        if v[0] == "num":
            return vsrc(vt[v[1]])
        body = ", ".join(vsrc(vt[x]) for x in v[1])
        return f"[{body}]" if v[0] == "list" else f"({body}{',' if len(v[1]) == 1 else ''})"

    def ro(v):
        if v[0] != "dict":
            return pv(v)
        return "{" + ", ".join(f"{k!r}: {rov(x)}" for k, x in v[1]) + "}"

    return ("{" + f"'depolarizing_one_qubit': {pv(S['dep1'])}, 'depolarizing_two_qubit': {pv2(S['dep2'])}, "
            f"'t1': {pv(S['t1'])}, 't2': {pv(S['t2'])}, 'gate_times': ({vsrc(vt[S['gt1']])}, {vsrc(vt[S['gt2']])}), "
            f"'excited_population': {vsrc(vt[S['ep']])}, 'readout_one_qubit': {ro(S['ro'])}" + "}")


def key_tokens(k):
    return f"{len(k)} " + " ".join(str(ord(ch)) for ch in k) if k else "0"


def params_tokens(S):
    """the dictionary for the driver: the key STRINGS go over as character codes, the model parses them."""

    def pv(v):
        if v[0] == "num":
            return f"0 {v[1]}"
        if v[0] == "other":
            return "2"
        return f"1 {len(v[1])} " + " ".join(f"{key_tokens(k)} {x}" for k, x in v[1])

    def ro(v):
        if v[0] != "dict":
            return pv(v)
        out = [f"1 {len(v[1])}"]
        for k, x in v[1]:
            out.append(f"{key_tokens(k)} 0 {x[1]}" if x[0] == "num" else f"{key_tokens(k)} 1 {len(x[1])} {' '.join(map(str, x[1]))}")
        return " ".join(out)

    return " ".join([pv(S["dep1"]), pv(S["dep2"]), pv(S["t1"]), pv(S["t2"]), str(S["gt1"]), str(S["gt2"]), str(S["ep"]), ro(S["ro"])]).replace("  ", " ")


def parse_payload(tok, vt, C19):
    parts = tok.split(",")
    ids = [int(x) for x in parts[1:]]
    if parts[0] == "D":
        return vt[ids[0]]
    if parts[0] == "T":
        return [vt[i] for i in ids]
    return ("P2", vt[ids[0]], vt[ids[1]], 1)


def parse_rules(field, vt, C19):
    rules = []
    for tok in field.split():
        key, kind, filt, pay = tok[1:].split(":")
        f = None if filt == "-" else tuple(int(x) for x in filt.split(","))
        rules.append({"key": None if key == "-1" else "M", "kind": int(kind), "kargs": [], "filt": f, "conds": [], "single": False,
                      "params": parse_payload(pay, vt, C19), "unordered": f is not None})
    return rules


def real_rule_list(nm):
    """the rules of the real model object, where observable: (key, error class, options, qubits)."""
    from qibo import gates

    out = []
    errors = getattr(nm, "errors", None)
    if errors is None:
        return None
    try:
        for key in (None, gates.M):
            for entry in errors.get(key, []):
                _, error, qubits = entry
                opts = getattr(error, "options", None)
                out.append((None if key is None else "M", error.__class__.__name__, opts, None if qubits is None else tuple(qubits)))
        if any(k not in (None, gates.M) and v for k, v in errors.items()):
            return None
    except Exception:  # noqa: BLE001 - representation changed: not observable
        return None
    return out


def model_rule_list(rules, C19):
    """the same shape from the model's rules: key None first, then key M (the real dict keeps one
    list per key; the relative order of a None rule and an M rule is not observable and does not
    matter: no gate reads both lists)."""
    names = {C19.KIND["depol"]: "DepolarizingError", C19.KIND["thermal"]: "ThermalRelaxationError", C19.KIND["readout"]: "ReadoutError"}
    out = []
    for key in (None, "M"):
        for r in rules:
            if r["key"] != key:
                continue
            p = r["params"]
            if r["kind"] == C19.KIND["readout"]:
                _, a, b, _ = p
                p = [[1 - a, a], [b, 1 - b]]
            out.append((key, names[r["kind"]], p, r["filt"]))
    return out


def same_rule_lists(a, b):
    if len(a) != len(b):
        return False
    for x, y in zip(a, b):
        if x[0] != y[0] or x[1] != y[1] or x[3] != y[3]:
            return False
        try:
            if not np.allclose(np.asarray(x[2], dtype=float), np.asarray(y[2], dtype=float), rtol=0, atol=1e-12):
                return False
        except Exception:  # noqa: BLE001
            return False
    return True


def trace_form(descs, canon):
    """the queue up to reordering of neighbouring channels on disjoint qubits: gates in order, and
    for every run of channels between two gates the per-qubit sequences of channels (two words
    over letters that commute exactly when they share no qubit are equivalent iff their
    projections to every qubit agree)."""
    out, block = [], {}
    for d in descs:
        if d[0] == "chan":
            c = canon(d)
            for q in c[2]:
                block.setdefault(q, []).append(c)
        else:
            out.append(tuple(sorted((q, tuple(map(repr, v))) for q, v in block.items())))
            out.append(repr(d))
            block = {}
    out.append(tuple(sorted((q, tuple(map(repr, v))) for q, v in block.items())))
    return out


FP_SRC = '''import hashlib
def fp(g):
    # class, qubits and a digest of the channel's own data (coefficients and operator matrices on its
    # own qubits: independent of the size of the register)
    from qibo.backends import NumpyBackend
    if not isinstance(g, gates.Channel):
        return (g.__class__.__name__, tuple(g.qubits), "")
    nb = NumpyBackend()
    co = np.round(np.real(np.asarray(g.coefficients, dtype=complex)), 8) + 0.0
    if isinstance(g, gates.DepolarizingChannel):  # symmetric in its qubits: the Pauli strings are listed in qubit order
        parts = [np.sort(co), np.array([float(len(g.gates))])]
    else:
        parts = [co] + [(np.round(np.asarray(u.matrix(nb)), 8) + 0.0).ravel() for u in g.gates]
    h = hashlib.md5(np.concatenate(parts).astype(complex).tobytes()).hexdigest()[:10]
    return (g.__class__.__name__, tuple(sorted(g.qubits)), h)
'''


def ibmq_model_suite(ctx, nb, C19):
    rng = ctx.rng
    bad = 0
    bad_rules = 0
    bad_spec = 0
    ns0 = {}
    exec(C19.PRELUDE + FP_SRC, ns0)  # noqa: S102 - own text
    fp = ns0["fp"]
    built, lines = [], []
    ncases = 220 if ctx.thorough else 70
    for k in range(ncases):
        n = rng.choice([2, 3, 3, 4, 11, 12, 13])  # registers above 10 qubits: multi-digit keys ("10-11", "3 - 12")
        corner = k % 4 == 3
        multi_m = rng.random() < 0.5
        gs = C19.gen_circuit(rng, n, rng.randint(2, 7), allow_m=False, allow_chan=(k % 3 == 0))
        if n > 10:  # gates on the qubits with two-digit indices, both orientations
            for _ in range(rng.randint(1, 3)):
                a = rng.randrange(10, n)
                b = rng.choice([q for q in range(n) if q != a])
                if rng.random() < 0.5:
                    a, b = b, a
                gs.insert(rng.randrange(len(gs) + 1), f"gates.{rng.choice(['CNOT', 'CZ', 'SWAP', 'CY'])}({a}, {b})")
            gs.insert(rng.randrange(len(gs) + 1), f"gates.{rng.choice(['H', 'X', 'S'])}({rng.randrange(10, n)})")
        if n >= 3 and rng.random() < 0.4:
            gs.insert(rng.randrange(len(gs) + 1), f"gates.TOFFOLI({C19._q(rng.sample(range(n), 3))})")
        if multi_m:
            gs.append(f"gates.M({C19._q(rng.sample(range(n), rng.randint(2, min(n, 5))))})")
        else:
            gs += [f"gates.M({q})" for q in rng.sample(range(n), rng.randint(1, min(n, 5)))]
        if rng.random() < 0.3:  # a gate after a measurement
            gs.append(C19.gen_gate(rng, n, allow_m=False, allow_chan=False))
        vt = Values()
        # (a global number "readout_one_qubit" builds ONE unfiltered 2x2 rule: with a multi-qubit M the
        #  channel constructor rejects it with ValueError - documented limitation, not generated)
        csrc = f"c = Circuit({n}, density_matrix=True)\n" + "".join(f"c.add({g})\n" for g in gs)
        hot = [tuple(g.qubits) for g in C19.run_source(csrc)["c"].queue if len(g.qubits) == 2 and not isinstance(g, ns0["gates"].Channel)]
        S = gen_params(rng, n, vt, allow_global_readout=not multi_m, corner=corner, hot_pairs=hot)
        psrc = params_src(S, vt)
        src = csrc + f"params = {psrc}\nnm = IBMQNoiseModel()\n"
        ns = C19.run_source(src)
        in_gates = list(ns["c"].queue)
        ctx.stat("ibmq_model:register>10" if n > 10 else "ibmq_model:register<=4")
        line = " ".join(["IBMQ", str(C19.CLS_CODE["M"]), str(len(in_gates))] + [C19.gate_tokens(g) for g in in_gates] + [params_tokens(S)])
        built.append((src, ns, in_gates, S, vt, multi_m, corner))
        lines.append(line)
    outs = run_driver(lines, driver=DRIVER)
    for (src, ns, in_gates, S, vt, multi_m, corner), out in zip(built, outs):
        c, nm = ns["c"], ns["nm"]
        ctx.case(("ibmq-model", src))
        forms = "/".join(S[k][0] for k in ("dep1", "dep2", "t1", "t2", "ro"))
        ctx.stat("ibmq_model:" + forms)
        if any(S[k][0] == "num" and isinstance(vt[S[k][1]], int) for k in ("dep1", "dep2", "t1", "t2", "ro")):
            ctx.stat("ibmq_model:global-number-given-as-int")
        # (1) from_dict: raise / no raise
        params_before = repr(ns["params"])
        raised = None
        try:
            nm.from_dict(ns["params"])
        except (KeyError, IndexError, ValueError) as e:
            raised = e
        except Exception as e:  # noqa: BLE001
            bad += 1
            ctx.fail("ibmq:from_dict:raises", f"IBMQNoiseModel.from_dict raises {type(e).__name__}: {e}", C19.PRELUDE + src + "nm.from_dict(params)\n",
                     broken=["C19_corr_ibmq_model"])
            continue
        if out.strip() == "RAISE-MISMATCH" or out.startswith(("ERR", "bad")):
            bad_spec += 1
            ctx.log(f"driver answer {out!r} for {src}")
            continue
        if (out.strip() == "RAISE") != (raised is not None):
            bad += 1
            what = (f"from_dict raises {type(raised).__name__}: {raised} where the documented forms give a model" if raised is not None
                    else "from_dict accepts a dictionary whose t1 key is missing in t2 / whose readout tuple is empty / with a key that is not a (pair of) numeral(s)")
            ctx.fail("ibmq:from_dict:raise-behaviour", what,
                     C19.PRELUDE + src + ("nm.from_dict(params)\n" if raised is not None else
                                          "try:\n    nm.from_dict(params)\nexcept (KeyError, IndexError, ValueError):\n    raise SystemExit(0)\nraise SystemExit(1)\n"),
                     broken=["C19_corr_ibmq_model"])
            continue
        if raised is not None:
            ctx.stat("ibmq_model:raises")
            continue
        f_rules, f_items, f_dec, f_spec = [x.strip() for x in out.split("|")]
        rules = parse_rules(f_rules, vt, C19)
        items = C19.parse_items(f_items)
        # (2) the proved refinement, re-checked on this input
        if f_dec != f_spec:
            bad_spec += 1
            ctx.log(f"model queue differs from ibmqSpec: {f_dec} vs {f_spec}")
        # (3) the rule list itself, where the attribute is observable
        real_rl = real_rule_list(nm)
        if real_rl is None:
            ctx.stat("ibmq_model:rule-list-not-observable")
        elif not same_rule_lists(real_rl, model_rule_list(rules, C19)):
            bad_rules += 1
        # (4) the noisy queue
        before = C19.snapshot(c)
        fsrc = src + "nm.from_dict(params)\n"
        try:
            noisy = nm.apply(c)
        except Exception as e:  # noqa: BLE001
            bad += 1
            ctx.fail("ibmq:raises", f"IBMQNoiseModel.apply raises {type(e).__name__}: {e}", C19.PRELUDE + fsrc + "nm.apply(c)\n", broken=["C19_corr_ibmq_model"])
            continue
        res = C19.compare_queue(noisy.queue, items, in_gates, rules, ns, nb)
        if res is not None and len(res[1]) == len(res[2]) and trace_form(res[1], C19.canon) == trace_form(res[2], C19.canon):
            # same channels, neighbouring channels on disjoint qubits in another order: the same noisy circuit
            ctx.stat("ibmq_model:commuting-channel-order-differs")
            res = None
        if res is not None:
            bad += 1
            msg, real, exp = res
            key = C19.classify_apply_failure(in_gates, rules, real, exp)
            key = "ibmq:" + key.split(":", 1)[1] if key.startswith("apply:") else key
            exp_fp = []
            for it in items:
                if it[0] == "G":
                    exp_fp.append(fp(in_gates[it[1]]))
                else:
                    exp_fp.append(fp(C19.expected_channel(rules[it[1]], it[3], ns)))
            replay = (C19.PRELUDE + FP_SRC + fsrc + "noisy = nm.apply(c)\n" + f"expected = {exp_fp!r}\n"
                      "got = [fp(g) for g in noisy.queue]\nprint(got); print(expected)\n"
                      "assert got == expected, 'noisy queue is not the documented one'\n")
            ctx.fail(key, f"IBMQNoiseModel.from_dict({params_src(S, vt)}).apply: {msg}: got {C19.short(real)}, documented {C19.short(exp)}",
                     replay, expected=str(C19.short(exp)), observed=str(C19.short(real)), broken=["C19_corr_ibmq_model"])
            continue
        if C19.snapshot(c) != before:
            bad += 1
            ctx.fail("apply:mutates-input", "IBMQNoiseModel.apply changes the circuit it is given", C19.PRELUDE + fsrc + "nm.apply(c)\nraise SystemExit(1)\n",
                     broken=["C19_corr_ibmq_model"])
            continue
        if repr(ns["params"]) != params_before:
            ctx.stat("ibmq_model:from_dict-mutates-parameters")
    if bad_rules and not bad:
        # the rule lists differ but every noisy queue is the documented one: representation change only
        ctx.log(f"{bad_rules} rule lists differ from nm.errors while all noisy queues agree (internal representation)")
    ctx.ob("C19_corr_ibmq_model", bad == 0, "correspondence", f"{bad} disagreements" if bad else "")
    ctx.ob("C19_ibmq_spec_recheck", bad_spec == 0, "correspondence", f"{bad_spec} inputs where fromDict+attachNoise differs from ibmqSpec" if bad_spec else "")
