"""C15 — symbolic and dense Hamiltonians denote the same operator.

Three ingredients (see tools/README.md):
  * kernel step: theorems of lean/QV/Props/C15*.lean (model: lean/QV/Model/Hamil.lean);
  * correspondence: the real `_get_symbol_matrix`, `terms`, `SymbolicTerm`, `h @ state`,
    `expectation_from_samples`, the algebra over call histories (`_compose`, cached `terms`,
    `constant`) on exact Gaussian-integer data vs the Lean model (driver lean/DriverC15.lean);
  * direct search on the real code against plain numpy arithmetic (the SPEC).
"""
from __future__ import annotations

import itertools
from collections import Counter

import numpy as np

from vlib.driver import parse_gi, run_driver
from vlib.proofs import build_and_audit, registry

PROP = "C15"

# ---------------------------------------------------------------------------
# forms: a small AST, its numpy meaning (SPEC), its sympy/qibo construction, its source

PAULI = {
    "I": np.eye(2, dtype=complex),
    "X": np.array([[0, 1], [1, 0]], dtype=complex),
    "Y": np.array([[0, -1j], [1j, 0]], dtype=complex),
    "Z": np.array([[1, 0], [0, -1]], dtype=complex),
}

PRE = (
    "import numpy as np, sympy\n"
    "from collections import Counter\n"
    "from qibo import set_backend, hamiltonians\n"
    "set_backend('numpy')\n"
    "from qibo.symbols import I, X, Y, Z, Symbol\n"
    "from qibo.hamiltonians import Hamiltonian, SymbolicHamiltonian\n"
    "P = {'I': np.eye(2), 'X': np.array([[0, 1], [1, 0]]), 'Y': np.array([[0, -1j], [1j, 0]]), 'Z': np.diag([1., -1.])}\n"
    "def E(m, q, n):\n"
    "    out = np.eye(1, dtype=complex)\n"
    "    for r in range(n): out = np.kron(out, m if r == q else np.eye(2))\n"
    "    return out\n"
)


def embed(m, q, n):
    out = np.eye(1, dtype=complex)
    for r in range(n):
        out = np.kron(out, m if r == q else np.eye(2))
    return out


def cnum(c):
    c = complex(c)
    return c


def spec_matrix(f, n, custom):
    """plain numpy arithmetic meaning of a form (the SPEC)."""
    t = f[0]
    if t == "c":
        return complex(f[1]) * np.eye(2**n, dtype=complex)
    if t == "s":
        m = PAULI[f[1]] if f[1] in PAULI else custom[f[1]]
        return embed(m, f[2], n)
    if t == "+":
        return spec_matrix(f[1], n, custom) + spec_matrix(f[2], n, custom)
    if t == "-":
        return spec_matrix(f[1], n, custom) - spec_matrix(f[2], n, custom)
    if t == "*":
        return spec_matrix(f[1], n, custom) @ spec_matrix(f[2], n, custom)
    if t == "^":
        return np.linalg.matrix_power(spec_matrix(f[1], n, custom), f[2])
    if t == "sm":
        return complex(f[1]) * spec_matrix(f[2], n, custom)
    raise ValueError(t)


def dagger_form(f):
    t = f[0]
    if t == "c":
        return ("c", complex(f[1]).conjugate())
    if t == "s":
        return f  # Paulis (and the Hermitian custom symbols used with it) are self-adjoint
    if t in "+-":
        return (t, dagger_form(f[1]), dagger_form(f[2]))
    if t == "*":
        return ("*", dagger_form(f[2]), dagger_form(f[1]))
    if t == "^":
        return ("^", dagger_form(f[1]), f[2])
    if t == "sm":
        return ("sm", complex(f[1]).conjugate(), dagger_form(f[2]))
    raise ValueError(t)


def _csrc(c, style):
    """source text of a scalar.  style 'py': python complex/int; 'sym': sympy Integer + I."""
    c = complex(c)
    re, im = c.real, c.imag
    ire, iim = int(round(re)), int(round(im))
    integral = abs(re - ire) < 1e-12 and abs(im - iim) < 1e-12
    if style == "sym" and integral:
        if iim == 0:
            return f"sympy.Integer({ire})"
        return f"(sympy.Integer({ire}) + sympy.Integer({iim}) * sympy.I)"
    if integral and iim == 0 and style == "int":
        return f"({ire})"
    if im == 0:
        return f"({re!r})"
    return f"({c!r})"


def form_src(f, style="py"):
    """python source of the sympy expression (qibo symbols) for a form."""
    t = f[0]
    if t == "c":
        return _csrc(f[1], style)
    if t == "s":
        if f[1] in PAULI:
            return f"{f[1]}({f[2]})"
        return f"SYM['{f[1]}']"
    if t in "+-*":
        return f"({form_src(f[1], style)} {t} {form_src(f[2], style)})"
    if t == "^":
        return f"({form_src(f[1], style)})**{f[2]}"
    if t == "sm":
        return f"({_csrc(f[1], style)} * {form_src(f[2], style)})"
    raise ValueError(t)


def spec_src(f, n):
    """python source of the plain-numpy meaning (uses E, P of PRE and CUSTOM)."""
    t = f[0]
    if t == "c":
        return f"({complex(f[1])!r} * np.eye({2**n}))"
    if t == "s":
        if f[1] in PAULI:
            return f"E(P['{f[1]}'], {f[2]}, {n})"
        return f"E(CUSTOM['{f[1]}'], {f[2]}, {n})"
    if t in "+-":
        return f"({spec_src(f[1], n)} {t} {spec_src(f[2], n)})"
    if t == "*":
        return f"({spec_src(f[1], n)} @ {spec_src(f[2], n)})"
    if t == "^":
        return f"np.linalg.matrix_power({spec_src(f[1], n)}, {f[2]})"
    if t == "sm":
        return f"({complex(f[1])!r} * {spec_src(f[2], n)})"
    raise ValueError(t)


def custom_src(custom, qubit_of):
    lines = ["CUSTOM = {}", "SYM = {}"]
    for name, m in sorted(custom.items()):
        lines.append(f"CUSTOM['{name}'] = np.array({np.asarray(m).tolist()!r})")
        lines.append(f"SYM['{name}'] = Symbol({qubit_of[name]}, CUSTOM['{name}'], '{name}_')")
    return "\n".join(lines) + "\n"


def build_expr(f, style, custom, qubit_of):
    """the real sympy expression, built with the real qibo symbols, by evaluating the source
    (so that the replay is literally what was run)."""
    env = {}
    exec(PRE + custom_src(custom, qubit_of), env)  # noqa: S102 - own generated text
    return eval(form_src(f, style), env), env  # noqa: S307


def form_qubits(f):
    t = f[0]
    if t == "c":
        return set()
    if t == "s":
        return {f[2]}
    if t in "+-*":
        return form_qubits(f[1]) | form_qubits(f[2])
    return form_qubits(f[-1] if t == "sm" else f[1])


def mono_count(f):
    """number of monomials of the fully distributed form (before collecting)."""
    t = f[0]
    if t in "cs":
        return 1
    if t in "+-":
        return mono_count(f[1]) + mono_count(f[2])
    if t == "*":
        return mono_count(f[1]) * mono_count(f[2])
    if t == "^":
        return mono_count(f[1]) ** f[2]
    return mono_count(f[2])


def form_stats(f, acc=None):
    """(max factors on one qubit in a product chain — rough —, has pow, has custom)."""
    acc = acc if acc is not None else Counter()
    t = f[0]
    acc[t] += 1
    if t == "s" and f[1] not in PAULI:
        acc["custom"] += 1
    for a in f[1:]:
        if isinstance(a, tuple):
            form_stats(a, acc)
    return acc


class FormGen:
    """structured random forms: several factors on one qubit, powers <= 4, constants,
    Gaussian-integer coefficients, nested sums inside products and powers."""

    counter = 0  # custom symbols get process-unique names: sympy identifies symbols by name

    def __init__(self, rng, n, ncustom=0, hermitian_custom=False):
        self.rng, self.n = rng, n
        self.custom, self.qubit_of = {}, {}
        for k in range(ncustom):
            FormGen.counter += 1
            name = f"A{FormGen.counter}"
            m = np.array([[complex(rng.randint(-2, 2), rng.randint(-2, 2)) for _ in range(2)] for _ in range(2)])
            if hermitian_custom:
                m = m + m.conj().T
            self.custom[name] = m
            self.qubit_of[name] = rng.randrange(n)

    def coeff(self, gaussian=True):
        r = self.rng
        k = r.random()
        if k < 0.35:
            return complex(r.choice([-3, -2, -1, 1, 2, 3]))
        if k < 0.5 or not gaussian:
            return complex(r.choice([-2, -1, 1, 2]))
        if k < 0.75:
            return complex(0, r.choice([-2, -1, 1, 2]))
        return complex(r.randint(-2, 2), r.choice([-2, -1, 1, 2]))

    def sym(self):
        r = self.rng
        if self.custom and r.random() < 0.2:
            name = r.choice(sorted(self.custom))
            return ("s", name, self.qubit_of[name])
        return ("s", r.choice("XXYYZZI"), r.randrange(self.n))

    def monomial(self, maxlen=5):
        r = self.rng
        k = r.randint(1, maxlen)
        # bias towards repeated qubits: draw qubits from a small pool
        pool = [r.randrange(self.n) for _ in range(r.randint(1, 2))]
        out = None
        for _ in range(k):
            s = self.sym()
            if s[1] in PAULI and r.random() < 0.6:
                s = ("s", s[1], r.choice(pool))
            if r.random() < 0.25:
                s = ("^", s, r.randint(2, 4) if r.random() < 0.8 else r.randint(0, 1))
            out = s if out is None else ("*", out, s)
        return out

    def form(self, depth=2, gaussian=True):
        r = self.rng
        k = r.random()
        if depth == 0 or k < 0.3:
            m = self.monomial()
            if r.random() < 0.7:
                m = ("sm", self.coeff(gaussian), m) if r.random() < 0.5 else ("*", ("c", self.coeff(gaussian)), m)
            return m
        if k < 0.6:
            return (r.choice("++-"), self.form(depth - 1, gaussian), self.form(depth - 1, gaussian))
        if k < 0.75:
            return ("*", self.form(depth - 1, gaussian), self.form(depth - 1, gaussian))
        if k < 0.85:
            return ("^", self.form(depth - 1, gaussian), r.randint(2, 3 if depth > 1 else 4))
        if k < 0.93:
            return ("+", self.form(depth - 1, gaussian), ("c", self.coeff(gaussian)))
        return ("sm", self.coeff(gaussian), self.form(depth - 1, gaussian))


def int_state(rng, n, lo=-3, hi=3):
    while True:
        v = np.array([complex(rng.randint(lo, hi), rng.randint(lo, hi)) for _ in range(2**n)])
        if np.any(v != 0):
            return v


def int_dm(rng, n, hermitian=False):
    d = 2**n
    a = np.array([[complex(rng.randint(-2, 2), rng.randint(-2, 2)) for _ in range(d)] for _ in range(d)])
    if hermitian:
        a = a @ a.conj().T
    while abs(np.real(np.trace(a))) < 0.5:
        a = a + np.eye(d)
    return a


def close(a, b, tol=1e-9):
    a, b = np.asarray(a), np.asarray(b)
    if a.shape != b.shape:
        return False
    scale = max(1.0, float(np.abs(b).max(initial=0)))
    return bool(np.all(np.abs(a - b) <= tol * scale))


def arr_src(a):
    return f"np.array({np.asarray(a).tolist()!r})"


# ---------------------------------------------------------------------------
# direct search 1: forms — matrix, terms, action, expectation


def header(gen, n, f, style):
    return (PRE + custom_src(gen.custom, gen.qubit_of)
            + f"n = {n}\nform = {form_src(f, style)}\nh = SymbolicHamiltonian(form, nqubits=n)\n"
            + f"M = {spec_src(f, n)}\n")


def term_list_matrix(h, n):
    """sum of the embedded term matrices + constant (API: h.terms, term.matrix,
    term.target_qubits, h.constant)."""
    tot = np.zeros((2**n, 2**n), dtype=complex)
    terms = h.terms
    for t in terms:
        qs = list(t.target_qubits)
        m = np.asarray(t.matrix)
        k = len(qs)
        rest = [q for q in range(n) if q not in qs]
        full = np.kron(m, np.eye(2 ** len(rest))).reshape(2 * n * (2,))
        order = qs + rest
        inv = [order.index(q) for q in range(n)]
        full = full.transpose(inv + [n + i for i in inv]).reshape(2**n, 2**n)
        tot += full
    return tot + complex(h.constant) * np.eye(2**n)


TERM_MAT_SRC = (
    "def term_list_matrix(h, n):\n"
    "    tot = np.zeros((2**n, 2**n), dtype=complex)\n"
    "    for t in h.terms:\n"
    "        qs = list(t.target_qubits); m = np.asarray(t.matrix)\n"
    "        rest = [q for q in range(n) if q not in qs]\n"
    "        full = np.kron(m, np.eye(2 ** len(rest))).reshape(2 * n * (2,))\n"
    "        order = qs + rest; inv = [order.index(q) for q in range(n)]\n"
    "        tot += full.transpose(inv + [n + i for i in inv]).reshape(2**n, 2**n)\n"
    "    return tot + complex(h.constant) * np.eye(2**n)\n"
)


def has_nested_pow(expr):
    """a power whose base is itself a power survives sympy.expand for non-commutative
    symbols, e.g. (Z0**2)**4 (arises from (c*Z0*Z0)**4)."""
    import sympy

    e = sympy.expand(expr)
    return any(isinstance(p, sympy.Pow) and isinstance(p.args[0], sympy.Pow) for p in sympy.preorder_traversal(e))


def zero_key(M, default):
    """the zero operator is its own input class (the term list is empty)."""
    return "zero-operator:" + default.split(":")[0] if not np.any(M) else default


def check_form(ctx, gen, n, f, style, hermitian):
    """all observables of one form on the real code against numpy arithmetic."""
    try:
        return _check_form(ctx, gen, n, f, style, hermitian)
    except Exception as ex:  # the real code raised on a form of the property's domain
        import traceback

        tb = traceback.extract_tb(ex.__traceback__)
        site = next((fr.name for fr in reversed(tb) if "/qibo/" in fr.filename), "unknown")
        expr, _ = build_expr(f, style, gen.custom, gen.qubit_of)
        M = spec_matrix(f, n, gen.custom)
        if not np.any(M):
            key = "zero-operator:raises"
        elif has_nested_pow(expr):
            key = "terms:nested-pow"
        else:
            key = f"raises:{site}:{type(ex).__name__}"
        ctx.fail(key, f"{type(ex).__name__}: {ex} in {site} for form {form_src(f, style)} on {n} qubits",
                 header(gen, n, f, style) + "psi = np.ones(2**n, dtype=complex); rho = np.eye(2**n, dtype=complex)\n"
                 "h.matrix; h.terms; h @ psi; h @ rho; h.expectation(psi); h.expectation(rho)\n",
                 observed=f"{type(ex).__name__}: {ex}", broken=["C15_search_forms"])
        return None, None, None, False


def _check_form(ctx, gen, n, f, style, hermitian):
    from qibo.hamiltonians import SymbolicHamiltonian

    rng = ctx.rng
    M = spec_matrix(f, n, gen.custom)
    if np.abs(M).max(initial=0) > 2**40:
        ctx.stat("form_skipped_large")
        return None
    expr, _ = build_expr(f, style, gen.custom, gen.qubit_of)
    import sympy

    if not isinstance(expr, sympy.Expr):
        expr = sympy.sympify(expr)
    h = SymbolicHamiltonian(expr, nqubits=n)
    head = header(gen, n, f, style)
    st = form_stats(f)
    ctx.case(("form", n, form_src(f, style)))
    ctx.stat(f"form_n{n}")
    ctx.stat("form_hermitian" if hermitian else "form_nonhermitian")
    if st["^"]:
        ctx.stat("form_with_pow")
    if st["custom"]:
        ctx.stat("form_with_custom_symbol")
    if len(ctx.samples) < 4:
        ctx.sample({"kind": "form", "n": n, "form": form_src(f, style)})
    broken = ["C15_search_forms"]
    ok = True

    def bad(key, what, code, expected, observed):
        nonlocal ok
        ok = False
        ctx.fail(zero_key(M, key), what + f" — form {form_src(f, style)} on {n} qubits", head + code, expected=str(np.asarray(expected).tolist()),
                 observed=str(np.asarray(observed).tolist()), broken=broken)

    # dense matrix (first and second call, and the `dense` property)
    D = np.asarray(h.matrix)
    if not close(D, M):
        bad("dense:matrix", "SymbolicHamiltonian.matrix differs from plain matrix arithmetic",
            "assert np.allclose(h.matrix, M, atol=1e-9)\n", M, D)
    if not close(np.asarray(h.dense.matrix), M) or not close(np.asarray(h.matrix), M):
        bad("dense:second-call", "second read of matrix / dense differs", "h.matrix\nassert np.allclose(h.dense.matrix, M, atol=1e-9)\n", M, h.dense.matrix)
    # terms
    T = term_list_matrix(h, n)
    if not close(T, M):
        bad("terms:sum", "sum of SymbolicHamiltonian.terms matrices + constant differs from the operator",
            TERM_MAT_SRC + "assert np.allclose(term_list_matrix(h, n), M, atol=1e-9)\n", M, T)
    # action on states / density matrices (fresh object too: terms not yet computed)
    psi = int_state(rng, n)
    rho = int_dm(rng, n)
    for fresh in (False, True):
        hh = SymbolicHamiltonian(expr, nqubits=n) if fresh else h
        psi0, rho0 = psi.copy(), rho.copy()
        v = np.asarray(hh @ psi)
        if not close(v, M @ psi):
            bad("matmul:state", "h @ state differs from matrix @ state",
                f"psi = {arr_src(psi)}\nassert np.allclose(h @ psi, M @ psi, atol=1e-9)\n", M @ psi, v)
        r = np.asarray(hh @ rho)
        if not close(r, M @ rho):
            bad("matmul:dm", "h @ rho differs from matrix @ rho",
                f"rho = {arr_src(rho)}\nassert np.allclose(h @ rho, M @ rho, atol=1e-9)\n", M @ rho, r)
        if not (np.array_equal(psi, psi0) and np.array_equal(rho, rho0)):
            bad("matmul:mutates-input", "h @ state modified its argument", f"psi = {arr_src(psi0)}\nq = psi.copy(); h @ psi\nassert np.array_equal(psi, q)\n", psi0, psi)
        for normalize in (False, True):
            e = hh.expectation(psi, normalize=normalize)
            ex = np.real(np.vdot(psi, M @ psi))
            if normalize:
                ex = ex / np.real(np.vdot(psi, psi))
            ed = hh.dense.expectation(psi, normalize=normalize)
            if not (close(e, ex) and close(ed, ex)):
                bad("expectation:state", f"expectation(state, normalize={normalize}) differs (symbolic {e}, dense {ed})",
                    f"psi = {arr_src(psi)}\nex = np.real(np.vdot(psi, M @ psi)){' / np.real(np.vdot(psi, psi))' if normalize else ''}\n"
                    f"assert abs(h.expectation(psi, normalize={normalize}) - ex) < 1e-9 * max(1, abs(ex))\n"
                    f"assert abs(h.dense.expectation(psi, normalize={normalize}) - ex) < 1e-9 * max(1, abs(ex))\n", ex, [e, ed])
            e = hh.expectation(rho, normalize=normalize)
            ex = np.real(np.trace(M @ rho))
            if normalize:
                ex = ex / np.real(np.trace(rho))
            ed = hh.dense.expectation(rho, normalize=normalize)
            if not (close(e, ex) and close(ed, ex)):
                bad("expectation:dm", f"expectation(rho, normalize={normalize}) differs (symbolic {e}, dense {ed})",
                    f"rho = {arr_src(rho)}\nex = np.real(np.trace(M @ rho)){' / np.real(np.trace(rho))' if normalize else ''}\n"
                    f"assert abs(h.expectation(rho, normalize={normalize}) - ex) < 1e-9 * max(1, abs(ex))\n"
                    f"assert abs(h.dense.expectation(rho, normalize={normalize}) - ex) < 1e-9 * max(1, abs(ex))\n", ex, [e, ed])
    return h, expr, M, ok


def forms_search(ctx):
    rng = ctx.rng
    N = 160 if ctx.thorough else 60
    allok = True
    # fixed boundary forms first (DESIGN §4 F21 class and friends)
    fixed = [
        (1, ("*", ("*", ("c", 1j), ("s", "X", 0)), ("s", "Z", 0))),
        (1, ("*", ("s", "X", 0), ("*", ("s", "Y", 0), ("s", "Z", 0)))),
        (2, ("*", ("*", ("s", "Z", 0), ("s", "X", 1)), ("*", ("s", "X", 0), ("s", "Z", 1)))),
        (2, ("^", ("+", ("s", "X", 0), ("*", ("s", "Z", 0), ("s", "Y", 1))), 3)),
        (2, ("+", ("c", 2), ("sm", -1, ("*", ("s", "Z", 1), ("*", ("s", "X", 0), ("s", "Z", 1)))))),
        (3, ("-", ("*", ("s", "X", 2), ("*", ("s", "Y", 0), ("s", "X", 2))), ("^", ("s", "Z", 1), 3))),
        (2, ("c", 3)),
        (2, ("*", ("^", ("s", "X", 0), 2), ("^", ("s", "Y", 1), 0))),
    ]
    dummy = FormGen(rng, 1)
    for n, f in fixed:
        for style in ("py", "sym"):
            g = FormGen(rng, n)
            r = check_form(ctx, g, n, f, style, False)
            allok &= bool(r is None or r[3])
    for i in range(N):
        n = rng.choice([1, 2, 2, 3, 3, 4])
        hermitian = rng.random() < 0.4
        g = FormGen(rng, n, ncustom=rng.choice([0, 0, 1, 2]), hermitian_custom=hermitian)
        f = g.form(depth=rng.choice([1, 2, 2, 3]) if n < 4 else rng.choice([1, 2]))
        if hermitian:
            f = ("+", f, dagger_form(f))
        style = rng.choice(["py", "sym", "int"])
        try:
            r = check_form(ctx, g, n, f, style, hermitian)
        except RecursionError:
            ctx.stat("form_skipped_recursion")
            continue
        allok &= bool(r is None or r[3])
    del dummy
    ctx.ob("C15_search_forms", allok, "search", "" if allok else "see failing inputs")


# ---------------------------------------------------------------------------
# direct search 2: algebra (+ - scalar @) between symbolic / dense / scalars, call histories


SCALARS = [2, -3, 0.5, -1.5, 1j, (2 - 1j), 0, -1]


def _apply_op(op, A, B):
    if op == "+":
        return A + B
    if op == "-":
        return A - B
    if op == "r-":
        return B - A
    if op == "*":
        return A * B
    if op == "r*":
        return B * A
    if op == "r+":
        return B + A
    if op == "@":
        return A @ B
    raise ValueError(op)


def _op_src(op, a, b):
    return {"+": f"{a} + {b}", "-": f"{a} - {b}", "r-": f"{b} - {a}", "*": f"{a} * {b}", "r*": f"{b} * {a}",
            "r+": f"{b} + {a}", "@": f"{a} @ {b}"}[op]


def algebra_search(ctx):
    from qibo.hamiltonians import Hamiltonian, SymbolicHamiltonian

    rng = ctx.rng
    allok = True
    N = 70 if ctx.thorough else 28
    for it in range(N):
        n = rng.choice([1, 2, 2, 3])
        g = FormGen(rng, n, ncustom=rng.choice([0, 0, 1]))
        forms = [g.form(depth=rng.choice([1, 2])) for _ in range(3)]
        style = rng.choice(["py", "sym"])
        mats = [spec_matrix(f, n, g.custom) for f in forms]
        if max(np.abs(m).max(initial=0) for m in mats) > 2**20:
            continue
        for kind in ("symbolic", "dense"):
            src = PRE + custom_src(g.custom, g.qubit_of) + f"n = {n}\n"
            objs = []
            for i, f in enumerate(forms):
                if kind == "symbolic":
                    e, _ = build_expr(f, style, g.custom, g.qubit_of)
                    import sympy

                    objs.append(SymbolicHamiltonian(sympy.sympify(e), nqubits=n))
                    src += f"h{i} = SymbolicHamiltonian(sympy.sympify({form_src(f, style)}), nqubits=n); M{i} = {spec_src(f, n)}\n"
                else:
                    objs.append(Hamiltonian(n, mats[i].copy()))
                    src += f"M{i} = {spec_src(f, n)}; h{i} = Hamiltonian(n, M{i}.copy())\n"
            # a short history of operations; cur / curM track the result
            cur, curM, cs = objs[0], mats[0], "h0"
            if rng.random() < 0.5:
                # every operand has already been looked at (dense matrix cached) before the
                # arithmetic: the result must not depend on which caches are filled
                for o in objs:
                    o.matrix
                src += "h0.matrix; h1.matrix; h2.matrix\n"
                ctx.stat(f"alg_operands_primed:{kind}")
            if rng.random() < 0.5 and kind == "dense":
                # prime the eigen caches so that scalar multiples inherit them (must not matter for .matrix)
                try:
                    cur.eigenvalues()
                    if rng.random() < 0.5:
                        cur.eigenvectors()
                    src += "h0.eigenvalues(); h0.eigenvectors()\n"
                except Exception:
                    pass
            steps = rng.randint(1, 4)
            for s in range(steps):
                r = rng.random()
                if r < 0.45:
                    j = rng.randrange(3)
                    op = rng.choice(["+", "-", "@", "r-", "r+"]) if True else "+"
                    if op in ("r-", "r+"):
                        op = {"r-": "-", "r+": "+"}[op]
                        new = _apply_op(op, objs[j], cur)
                        newM = _apply_op(op, mats[j], curM)
                        ns = f"({_op_src(op, f'h{j}', cs)})"
                    else:
                        new = _apply_op(op, cur, objs[j])
                        newM = _apply_op(op, curM, mats[j])
                        ns = f"({_op_src(op, cs, f'h{j}')})"
                    opname = f"{op}:{kind}"
                else:
                    a = rng.choice(SCALARS)
                    if rng.random() < 0.3:
                        a = np.float64(a.real) if isinstance(a, complex) else np.float64(a)
                    op = rng.choice(["*", "r*", "+", "r+", "-", "r-"])
                    new = _apply_op(op, cur, a)
                    I = np.eye(2**n)
                    newM = {"*": curM * a, "r*": a * curM, "+": curM + a * I, "r+": a * I + curM, "-": curM - a * I, "r-": a * I - curM}[op]
                    ns = f"({_op_src(op, cs, repr(a) if not isinstance(a, np.floating) else f'np.float64({float(a)!r})')})"
                    opname = f"scalar{op}:{kind}"
                ctx.stat(f"alg_{opname}")
                cur, curM, cs = new, newM, ns
                D = np.asarray(cur.matrix)
                ctx.case(("alg", kind, cs, it))
                if not close(D, curM):
                    allok = False
                    ctx.fail(f"algebra:{opname}", f"matrix of {cs} differs from the same arithmetic on matrices ({kind})",
                             src + f"r = {cs}\nexpected = {arr_src(curM)}\nassert np.allclose(r.matrix, expected, atol=1e-9)\n",
                             expected=str(curM.tolist()), observed=str(D.tolist()), broken=["C15_search_algebra"])
                    break
                psi = int_state(rng, n)
                v = np.asarray(cur @ psi)
                e = cur.expectation(psi)
                if not (close(v, curM @ psi) and close(e, np.real(np.vdot(psi, curM @ psi)))):
                    allok = False
                    ctx.fail(zero_key(curM, f"algebra-action:{opname}"), f"({cs}) @ state or its expectation differs from matrix arithmetic ({kind})",
                             src + f"r = {cs}\nexpected = {arr_src(curM)}\npsi = {arr_src(psi)}\n"
                             "assert np.allclose(r @ psi, expected @ psi, atol=1e-9)\n"
                             "assert abs(r.expectation(psi) - np.real(np.vdot(psi, expected @ psi))) < 1e-7\n",
                             expected=str((curM @ psi).tolist()), observed=str(v.tolist()), broken=["C15_search_algebra"])
                    break
            # operands must be unchanged by the history
            for i in range(3):
                if not close(np.asarray(objs[i].matrix), mats[i]):
                    allok = False
                    ctx.fail(f"algebra:mutates-operand:{kind}", f"an operand changed while computing {cs}",
                             src + f"r = {cs}\nassert np.allclose(h{i}.matrix, M{i}, atol=1e-9)\n", broken=["C15_search_algebra"])
            # products of operands that have all been looked at by now (dense matrices cached),
            # in both orders: h_i @ h_j denotes M_i M_j whatever was computed on the factors before
            for i, j in ((0, 1), (1, 0), (1, 2), (2, 0)):
                ctx.stat(f"alg_product_after_use:{kind}")
                P = np.asarray((objs[i] @ objs[j]).matrix)
                if not close(P, mats[i] @ mats[j]):
                    allok = False
                    ctx.fail(f"algebra:@:{kind}", f"h{i} @ h{j} formed after the matrices of both factors were computed differs from M{i} M{j} ({kind})",
                             src + f"h{i}.matrix; h{j}.matrix\nassert np.allclose((h{i} @ h{j}).matrix, M{i} @ M{j}, atol=1e-9)\n",
                             expected=str((mats[i] @ mats[j]).tolist()), observed=str(P.tolist()), broken=["C15_search_algebra"])
                    break
        # mixed classes: either refused or right
        e0, _ = build_expr(forms[0], style, g.custom, g.qubit_of)
        import sympy

        hs = SymbolicHamiltonian(sympy.sympify(e0), nqubits=n)
        hd = Hamiltonian(n, mats[1].copy())
        for op in ("+", "-", "@"):
            for a, b, am, bm, nm in ((hs, hd, mats[0], mats[1], "symbolic,dense"), (hd, hs, mats[1], mats[0], "dense,symbolic")):
                try:
                    r = _apply_op(op, a, b)
                    D = np.asarray(r.matrix)
                except (NotImplementedError, TypeError):
                    ctx.stat("alg_mixed_refused")
                    continue
                ctx.stat("alg_mixed_accepted")
                if not close(D, _apply_op(op, am, bm)):
                    allok = False
                    ctx.fail(f"algebra:mixed{op}", f"{nm} {op} gives a wrong matrix",
                             PRE + custom_src(g.custom, g.qubit_of) + f"n = {n}\nhs = SymbolicHamiltonian(sympy.sympify({form_src(forms[0], style)}), nqubits=n)\n"
                             f"Ms = {spec_src(forms[0], n)}\nMd = {spec_src(forms[1], n)}\nhd = Hamiltonian(n, Md.copy())\n"
                             + (f"r = hs {op} hd; ex = Ms {op} Md\n" if nm.startswith("symbolic") else f"r = hd {op} hs; ex = Md {op} Ms\n")
                             + "assert np.allclose(r.matrix, ex, atol=1e-9)\n", broken=["C15_search_algebra"])
    ctx.ob("C15_search_algebra", allok, "search", "" if allok else "see failing inputs")


# ---------------------------------------------------------------------------
# direct search 3: eigenvalue / eigenvector / exp caches across scalar multiples


def eigcache_search(ctx):
    from scipy.linalg import expm

    from qibo.hamiltonians import Hamiltonian, SymbolicHamiltonian

    rng = ctx.rng
    allok = True
    N = 50 if ctx.thorough else 24
    for it in range(N):
        n = rng.choice([1, 2, 2, 3])
        g = FormGen(rng, n, ncustom=0)
        f0 = g.form(depth=rng.choice([1, 2]))
        f = ("+", f0, dagger_form(f0))
        M = spec_matrix(f, n, g.custom)
        if np.abs(M).max(initial=0) > 2**16 or not np.allclose(M, M.conj().T):
            continue
        kind = rng.choice(["dense", "symbolic"])
        src = PRE + f"from scipy.linalg import expm\nn = {n}\nM = {spec_src(f, n)}\n"
        if kind == "dense":
            H = Hamiltonian(n, M.copy())
            src += "H = Hamiltonian(n, M.copy())\n"
        else:
            e, _ = build_expr(f, "py", g.custom, g.qubit_of)
            H = SymbolicHamiltonian(e, nqubits=n)
            src += f"H = SymbolicHamiltonian({form_src(f, 'py')}, nqubits=n)\n"
        curM, cur, cs = M, H, "H"
        for step in range(rng.randint(1, 4)):
            prime = rng.choice(["vals", "vecs", "both", "none", "exp"])
            t = rng.choice([0.3, -0.7, 1.1])
            try:
                if prime in ("vals", "both"):
                    cur.eigenvalues()
                    src += f"{cs}.eigenvalues()\n" if step == 0 else "R.eigenvalues()\n"
                if prime in ("vecs", "both"):
                    cur.eigenvectors()
                    src += f"{cs}.eigenvectors()\n" if step == 0 else "R.eigenvectors()\n"
                if prime == "exp":
                    cur.exp(t)
                    src += f"{cs}.exp({t})\n" if step == 0 else f"R.exp({t})\n"
            except Exception as ex:  # pragma: no cover
                ctx.stat(f"eig_raise_{type(ex).__name__}")
            a = rng.choice([2, -3, 0.5, -1.5, -1, 0, 1, np.float64(-0.25), -2.0])
            side = rng.choice(["l", "r"])
            cur = a * cur if side == "l" else cur * a
            asrc = f"np.float64({float(a)!r})" if isinstance(a, np.floating) else repr(a)
            src += ("R = " + (f"{asrc} * " if side == "l" else "") + ("H" if step == 0 else "R") + (f" * {asrc}" if side == "r" else "") + "\n")
            curM = a * curM
            ctx.case(("eig", kind, it, step, float(a), prime))
            ctx.stat(f"eig_{kind}_{'neg' if a < 0 else ('zero' if a == 0 else 'pos')}_{prime}")
            tt = rng.choice([0.4, -0.9])
            checks = []
            try:
                order = rng.sample(["vals", "vecs", "exp", "exp2", "matrix"], 5)
                for what in order:
                    if what == "vals":
                        ev = np.asarray(cur.eigenvalues())
                        ok = close(np.real(ev), np.linalg.eigvalsh(curM), 1e-8) and close(np.imag(ev), 0 * np.imag(ev), 1e-8)
                        checks.append(("eigenvalues", ok, "ev = np.asarray(R.eigenvalues())\nassert np.allclose(ev, np.linalg.eigvalsh(EX), atol=1e-7)\n"))
                    elif what == "vecs":
                        V = np.asarray(cur.eigenvectors())
                        ev = np.asarray(cur.eigenvalues())
                        ok = close(curM @ V, V @ np.diag(ev), 1e-7) and close(V.conj().T @ V, np.eye(2**n), 1e-7) and close(np.real(ev), np.linalg.eigvalsh(curM), 1e-8)
                        checks.append(("eigenvectors", ok, "V = np.asarray(R.eigenvectors()); ev = np.asarray(R.eigenvalues())\n"
                                       "assert np.allclose(EX @ V, V @ np.diag(ev), atol=1e-7) and np.allclose(V.conj().T @ V, np.eye(len(V)), atol=1e-7)\n"
                                       "assert np.allclose(ev, np.linalg.eigvalsh(EX), atol=1e-7)\n"))
                    elif what in ("exp", "exp2"):
                        x = tt if what == "exp" else t
                        U = np.asarray(cur.exp(x))
                        ok = close(U, expm(-1j * x * curM), 1e-7)
                        checks.append((f"exp", ok, f"assert np.allclose(R.exp({x}), expm(-1j * {x} * EX), atol=1e-7)\n"))
                    else:
                        ok = close(np.asarray(cur.matrix), curM)
                        checks.append(("matrix", ok, "assert np.allclose(R.matrix, EX, atol=1e-9)\n"))
            except Exception as ex:
                allok = False
                ctx.fail(f"eigcache:raises:{kind}", f"{type(ex).__name__}: {ex} after scalar multiples with cached spectrum",
                         src + f"EX = {arr_src(curM)}\n" + "".join(c[2] for c in checks) + "R.eigenvalues(); R.eigenvectors(); R.exp(0.4)\n",
                         observed=f"{type(ex).__name__}: {ex}", broken=["C15_search_eigcache"])
                break
            badc = [c for c in checks if not c[1]]
            if badc:
                allok = False
                sign = "neg" if a < 0 else ("zero" if a == 0 else "pos")
                ctx.fail(f"eigcache:{badc[0][0]}:{sign}:{kind}",
                         f"{badc[0][0]} of a scalar multiple (a={a}) with spectrum cached before ({prime}) is wrong",
                         src + f"EX = {arr_src(curM)}\n" + "".join(c[2] for c in checks), broken=["C15_search_eigcache"])
                break
    ctx.ob("C15_search_eigcache", allok, "search", "" if allok else "see failing inputs")


# ---------------------------------------------------------------------------
# direct search 4: expectation_from_samples (both classes)


def z_form(rng, n, allow_repeat=True):
    """Z-string polynomial: sum of c * prod Z(q) (repeated factors, powers), + constant."""
    nt = rng.randint(1, 4)
    out = None
    for _ in range(nt):
        k = rng.randint(1, 4)
        mono = None
        pool = [rng.randrange(n) for _ in range(rng.randint(1, 3))]
        for _ in range(k):
            s = ("s", "Z", rng.choice(pool) if allow_repeat else rng.randrange(n))
            if rng.random() < 0.2:
                s = ("^", s, rng.randint(2, 3))
            mono = s if mono is None else ("*", mono, s)
        c = rng.choice([1, -1, 2, -3, 0.5, 1.5])
        term = ("sm", c, mono) if c != 1 else mono
        out = term if out is None else (rng.choice("+-"), out, term)
    if rng.random() < 0.5:
        out = ("+", out, ("c", rng.choice([1, -2, 0.5])))
    return out


def samples_search(ctx):
    from qibo.hamiltonians import Hamiltonian, SymbolicHamiltonian

    rng = ctx.rng
    allok = True
    N = 120 if ctx.thorough else 40
    fixed = [
        (2, ("*", ("s", "Z", 0), ("*", ("s", "Z", 1), ("s", "Z", 0)))),
        (2, ("*", ("s", "Z", 0), ("s", "Z", 1))),
        (3, ("+", ("sm", 2, ("*", ("s", "Z", 2), ("s", "Z", 0))), ("c", 1))),
        (1, ("^", ("s", "Z", 0), 3)),
        (2, ("-", ("^", ("s", "Z", 1), 2), ("s", "Z", 0))),
    ]
    for it in range(N + len(fixed)):
        if it < len(fixed):
            n, f = fixed[it]
        else:
            n = rng.choice([1, 2, 3, 3, 4])
            f = z_form(rng, n)
        M = spec_matrix(f, n, {})
        diag = np.real(np.diag(M))
        e, _ = build_expr(f, "py", {}, {})
        import sympy

        e = sympy.sympify(e)
        hs = SymbolicHamiltonian(e, nqubits=n)
        hd = Hamiltonian(n, M.copy())
        support = sorted(form_qubits(f))
        # qubit maps: None, all permutations for small n (random one otherwise), tuple form, subset maps (symbolic only)
        maps = [None]
        perms = list(itertools.permutations(range(n)))
        maps += [list(p) for p in (perms if n <= 3 and it % 4 == 0 else rng.sample(perms, min(3, len(perms))))]
        maps.append(tuple(rng.choice(perms)))
        extra = [q for q in range(n) if q not in support]
        sub = None
        if extra:
            keep = support + rng.sample(extra, rng.randint(0, len(extra) - 1))
            rng.shuffle(keep)
            sub = keep
        for qm in maps + ([sub] if sub else []):
            L = n if qm is None else len(qm)
            keys = ["".join(rng.choice("01") for _ in range(L)) for _ in range(rng.randint(1, 6))]
            if rng.random() < 0.3:
                keys = ["".join(b) for b in itertools.product("01", repeat=L)]
            keys = list(dict.fromkeys(keys))
            freq = {k: rng.randint(0 if len(keys) > 1 else 1, 40) for k in keys}
            if sum(freq.values()) == 0:
                freq[keys[0]] = 3
            if rng.random() < 0.5:
                freq = Counter(freq)
            tot = sum(freq.values())
            qmap = list(range(n)) if qm is None else list(qm)
            ex = 0.0
            for k, c in freq.items():
                bits = [0] * n  # qubits outside the map do not matter for the symbolic observable (not in its support)
                for pos, q in enumerate(qmap):
                    bits[q] = int(k[pos])
                ex += c / tot * diag[int("".join(map(str, bits)), 2)]
            is_sub = qm is not None and len(qm) < n
            ctx.case(("samples", form_src(f), repr(qm), tuple(sorted(freq.items()))))
            ctx.stat("samples_subset_map" if is_sub else ("samples_default_map" if qm is None else "samples_perm_map"))
            fsrc = ("Counter(" if isinstance(freq, Counter) else "dict(") + repr(dict(freq)) + ")"
            base = (PRE + f"n = {n}\nform = sympy.sympify({form_src(f)})\nM = {spec_src(f, n)}\nfreq = {fsrc}\nqm = {qm!r}\n"
                    f"expected = {ex!r}\n")
            for cls, h in (("symbolic", hs), ("dense", hd)):
                if cls == "dense" and is_sub:
                    continue
                freq0 = dict(freq)
                qm0 = None if qm is None else type(qm)(qm)
                try:
                    got = h.expectation_from_samples(freq, qubit_map=qm)
                    got2 = h.expectation_from_samples(freq, qubit_map=qm)
                except Exception as exn:
                    allok = False
                    ctx.fail(f"samples:raises:{cls}", f"expectation_from_samples raises {type(exn).__name__}: {exn} for {form_src(f)}, map {qm}",
                             base + ("h = SymbolicHamiltonian(form, nqubits=n)\n" if cls == "symbolic" else "h = Hamiltonian(n, M)\n")
                             + "h.expectation_from_samples(freq, qubit_map=qm)\n", observed=f"{type(exn).__name__}: {exn}", broken=["C15_search_samples"])
                    continue
                rep = "repeated-factor" if _has_repeat(hs) else "plain"
                if not (close(got, ex, 1e-9) and close(got2, ex, 1e-9)) or dict(freq) != freq0 or qm != qm0:
                    allok = False
                    ctx.fail(f"samples:{cls}:{rep}", f"expectation_from_samples of {form_src(f)} (n={n}, qubit_map={qm}, freq={dict(freq)}) is {got}, "
                             f"frequency-weighted eigenvalues give {ex}",
                             base + ("h = SymbolicHamiltonian(form, nqubits=n)\n" if cls == "symbolic" else "h = Hamiltonian(n, M)\n")
                             + "got = h.expectation_from_samples(freq, qubit_map=qm)\nassert abs(got - expected) < 1e-9, (got, expected)\n",
                             expected=ex, observed=float(np.real(got)), broken=["C15_search_samples"])
    # a non-diagonal observable must be refused, not evaluated
    for f in (("s", "X", 0), ("*", ("s", "Z", 0), ("s", "Y", 1))):
        n = 2
        e, _ = build_expr(f, "py", {}, {})
        for cls, h in (("symbolic", SymbolicHamiltonian(e, nqubits=n)), ("dense", Hamiltonian(n, spec_matrix(f, n, {})))):
            try:
                h.expectation_from_samples({"00": 3, "11": 1})
                allok = False
                ctx.fail(f"samples:nondiagonal-accepted:{cls}", "a non-diagonal observable is evaluated from computational-basis samples",
                         PRE + f"h = SymbolicHamiltonian({form_src(f)}, nqubits=2)\n" + ("h = h.dense\n" if cls == "dense" else "")
                         + "try:\n    h.expectation_from_samples({'00': 3, '11': 1})\nexcept NotImplementedError:\n    raise SystemExit(0)\nraise SystemExit(1)\n",
                         broken=["C15_search_samples"])
            except NotImplementedError:
                ctx.stat("samples_nondiagonal_refused")
    ctx.ob("C15_search_samples", allok, "search", "" if allok else "see failing inputs")


def _has_repeat(h):
    for t in h.terms:
        qs = [f.target_qubit for f in t.factors]
        if len(qs) != len(set(qs)):
            return True
    return False


# ---------------------------------------------------------------------------
# direct search 5: built-in models, dense vs symbolic vs formula


def _ring_pairs(n):
    return [(i, (i + 1) % n) for i in range(n)]


def model_formula(name, n, **kw):
    Zm, Xm, Ym = PAULI["Z"], PAULI["X"], PAULI["Y"]
    d = 2**n
    H = np.zeros((d, d), dtype=complex)
    if name in ("X", "Y", "Z"):
        for q in range(n):
            H -= embed(PAULI[name], q, n)
    elif name == "TFIM":
        for a, b in _ring_pairs(n):
            H -= embed(Zm, a, n) @ embed(Zm, b, n) + kw["h"] * embed(Xm, a, n)
    elif name == "MaxCut":
        A = kw["adj"]
        for j in range(n):
            for k in range(n):
                H -= 0.5 * A[j][k] * (np.eye(d) - embed(Zm, j, n) @ embed(Zm, k, n))
    elif name == "Heisenberg":
        J, hh = kw["J"], kw["h"]
        for a, b in _ring_pairs(n):
            for c, P in zip(J, (Xm, Ym, Zm)):
                H -= c * embed(P, a, n) @ embed(P, b, n)
        for q in range(n):
            for c, P in zip(hh, (Xm, Ym, Zm)):
                H -= c * embed(P, q, n)
    elif name == "XXZ":
        for a, b in _ring_pairs(n):
            H += embed(Xm, a, n) @ embed(Xm, b, n) + embed(Ym, a, n) @ embed(Ym, b, n) + kw["delta"] * embed(Zm, a, n) @ embed(Zm, b, n)
    return H


FORMULA_SRC = (
    "def ring(n): return [(i, (i + 1) % n) for i in range(n)]\n"
    "def PP(p, a, b, n): return E(P[p], a, n) @ E(P[p], b, n)\n"
)


def models_search(ctx):
    from qibo import hamiltonians

    rng = ctx.rng
    allok = True
    nmax = 6 if ctx.thorough else 5
    cases = []
    for n in range(1, nmax + 1):
        for nm in ("X", "Y", "Z"):
            cases.append((nm, n, {}, f"hamiltonians.{nm}({n}, dense=DENSE)", f"-sum(E(P['{nm}'], q, {n}) for q in range({n}))"))
        if n >= 2:
            for h in [0.0, 1.0, -0.5, rng.choice([0.3, 2.5, -1.25]), 3]:
                cases.append(("TFIM", n, {"h": h}, f"hamiltonians.TFIM({n}, h={h!r}, dense=DENSE)",
                              f"-sum(PP('Z', a, b, {n}) + {h!r} * E(P['X'], a, {n}) for a, b in ring({n}))"))
            for delta in [0.5, 0.0, -1.0, rng.choice([0.25, 2.0, -0.75]), 1]:
                cases.append(("XXZ", n, {"delta": delta}, f"hamiltonians.XXZ({n}, delta={delta!r}, dense=DENSE)",
                              f"sum(PP('X', a, b, {n}) + PP('Y', a, b, {n}) + {delta!r} * PP('Z', a, b, {n}) for a, b in ring({n}))"))
            Js = [[1, 1, 1], [0.5, -1.0, 2.0], 2, -0.5, [rng.choice([0.25, -2, 3]), rng.choice([0.0, 1.5]), rng.choice([-1, 0.75])], [0, 0, 1.0], [0, 2, 0]]
            hs_ = [0, [0.5, 0, 0], [0.25, -1.0, 2.0], 1.5, [0.0, 0.0, -2.0], [0, 1, 0], -1]
            for J in Js:
                hf = rng.choice(hs_) if not ctx.thorough or n > 4 else None
                for hh in ([hf] if hf is not None else hs_):
                    Jl = J if isinstance(J, list) else [J] * 3
                    hl = hh if isinstance(hh, list) else [hh] * 3
                    cases.append(("Heisenberg", n, {"J": Jl, "h": hl}, f"hamiltonians.Heisenberg({n}, {J!r}, {hh!r}, dense=DENSE)",
                                  f"-sum({Jl[0]!r} * PP('X', a, b, {n}) + {Jl[1]!r} * PP('Y', a, b, {n}) + {Jl[2]!r} * PP('Z', a, b, {n}) for a, b in ring({n}))"
                                  f" - sum({hl[0]!r} * E(P['X'], q, {n}) + {hl[1]!r} * E(P['Y'], q, {n}) + {hl[2]!r} * E(P['Z'], q, {n}) for q in range({n}))"))
            for J, hh in [(1, [0.5, 0, 0]), (-2.0, 0.5), (0.5, [0, 0, 1.0]), (1, 0)]:
                cases.append(("Heisenberg", n, {"J": [J] * 3, "h": hh if isinstance(hh, list) else [hh] * 3},
                              f"hamiltonians.XXX({n}, {J!r}, {hh!r}, dense=DENSE)",
                              f"-sum({J!r} * (PP('X', a, b, {n}) + PP('Y', a, b, {n}) + PP('Z', a, b, {n})) for a, b in ring({n}))"
                              f" - sum({(hh if isinstance(hh, list) else [hh] * 3)[0]!r} * E(P['X'], q, {n}) + {(hh if isinstance(hh, list) else [hh] * 3)[1]!r} * E(P['Y'], q, {n}) + {(hh if isinstance(hh, list) else [hh] * 3)[2]!r} * E(P['Z'], q, {n}) for q in range({n}))"))
            if n == 2:
                cases.append(("Heisenberg", n, {"J": [1] * 3, "h": [0.5, 0, 0]}, f"hamiltonians.XXX({n}, dense=DENSE)",
                              f"-sum(PP('X', a, b, {n}) + PP('Y', a, b, {n}) + PP('Z', a, b, {n}) for a, b in ring({n})) - sum(0.5 * E(P['X'], q, {n}) for q in range({n}))"))
        # MaxCut: default, random symmetric weights, asymmetric weights, zero rows
        adjs = [None]
        A = [[float(rng.choice([0, 1, 2, 0.5, -1])) for _ in range(n)] for _ in range(n)]
        adjs.append(A)
        S = [[0.0] * n for _ in range(n)]
        for i in range(n):
            for j in range(i + 1, n):
                S[i][j] = S[j][i] = float(rng.choice([0, 1, 3]))
        adjs.append(S)
        for A in adjs:
            Aeff = [[1.0] * n for _ in range(n)] if A is None else A
            asrc = "None" if A is None else repr(A)
            cases.append(("MaxCut", n, {"adj": Aeff}, f"hamiltonians.MaxCut({n}, dense=DENSE, adj_matrix={asrc})",
                          f"-0.5 * sum({Aeff!r}[j][k] * (np.eye({2**n}) - E(P['Z'], j, {n}) @ E(P['Z'], k, {n})) for j in range({n}) for k in range({n}))"))
            if A is not None:
                cases.append(("MaxCut", n, {"adj": Aeff}, f"hamiltonians.MaxCut({n}, dense=DENSE, adj_matrix=np.array({asrc}))",
                              f"-0.5 * sum({Aeff!r}[j][k] * (np.eye({2**n}) - E(P['Z'], j, {n}) @ E(P['Z'], k, {n})) for j in range({n}) for k in range({n}))"))
    env = {}
    exec(PRE + FORMULA_SRC, env)  # noqa: S102
    for name, n, kw, call, formula in cases:
        M = model_formula(name, n, **kw)
        ctx.case(("model", call))
        ctx.stat(f"model_{name}")
        got = {}
        for dense in (True, False):
            src = PRE + FORMULA_SRC + f"n = {n}\nh = {call.replace('DENSE', str(dense))}\nM = {formula}\n"
            try:
                h = eval(call.replace("DENSE", str(dense)), env)  # noqa: S307
                D = np.asarray(h.matrix)
            except Exception as ex:
                if name in ("TFIM", "XXZ") and n < 2:
                    continue
                allok = False
                ctx.fail(f"model:{name}:raises:{'dense' if dense else 'symbolic'}", f"{call.replace('DENSE', str(dense))} raises {type(ex).__name__}: {ex}",
                         src, observed=f"{type(ex).__name__}: {ex}", broken=["C15_search_models"])
                continue
            which = "dense" if dense else "symbolic"
            if h.nqubits != n or D.shape != M.shape or not close(D, M):
                allok = False
                ctx.fail(f"model:{name}:{which}", f"{call.replace('DENSE', str(dense))}: matrix differs from the documented formula"
                         + (f" (nqubits {h.nqubits}, shape {D.shape})" if D.shape != M.shape else ""),
                         src + "assert h.nqubits == n and np.allclose(h.matrix, M, atol=1e-9)\n",
                         expected=str(M.shape) if D.shape != M.shape else str(np.round(M, 6).tolist())[:2000], observed=str(D.shape) if D.shape != M.shape else str(np.round(D, 6).tolist())[:2000], broken=["C15_search_models"])
                continue
            if not dense:
                # the symbolic route on its own: terms and action
                T = term_list_matrix(h, n)
                psi = int_state(rng, n)
                v = np.asarray(h @ psi)
                if not (close(T, M) and close(v, M @ psi) and close(h.expectation(psi), np.real(np.vdot(psi, M @ psi)))):
                    allok = False
                    ctx.fail(zero_key(M, f"model:{name}:terms"), f"{call.replace('DENSE', 'False')}: terms / action differ from the formula",
                             src + TERM_MAT_SRC + f"psi = {arr_src(psi)}\nassert np.allclose(term_list_matrix(h, n), M, atol=1e-9)\nassert np.allclose(h @ psi, M @ psi, atol=1e-9)\n",
                             broken=["C15_search_models"])
    ctx.ob("C15_search_models", allok, "search", "" if allok else "see failing inputs")


# ---------------------------------------------------------------------------
# direct search 6: objects whose form / matrix is replaced through the public setters


def history_search(ctx):
    from qibo.hamiltonians import Hamiltonian, SymbolicHamiltonian

    rng = ctx.rng
    allok = True
    for it in range(12 if ctx.thorough else 5):
        n = rng.choice([1, 2, 3])
        g = FormGen(rng, n)
        f1, f2 = g.form(depth=1), g.form(depth=1)
        # keep the register size: mention the last qubit in both forms
        f1 = ("+", f1, ("s", "Z", n - 1))
        f2 = ("+", f2, ("s", "X", n - 1))
        M1, M2 = spec_matrix(f1, n, {}), spec_matrix(f2, n, {})
        e1, _ = build_expr(f1, "py", {}, {})
        e2, _ = build_expr(f2, "py", {}, {})
        import sympy

        e1, e2 = sympy.sympify(e1), sympy.sympify(e2)
        # the form setter recomputes nqubits from the symbols of the new form: keep cases
        # where both forms (after sympy's own simplification) still mention qubit n-1
        if any(max((sy.target_qubit for sy in e.free_symbols), default=-1) != n - 1 for e in (e1, e2)):
            ctx.stat("history_skipped_register_changes")
            continue
        h = SymbolicHamiltonian(e1, nqubits=n)
        touched = rng.sample(["matrix", "terms", "action"], rng.randint(1, 3))
        psi = int_state(rng, n)
        if "matrix" in touched:
            h.matrix
        if "terms" in touched:
            h.terms
        if "action" in touched:
            h @ psi
        h.form = e2
        ctx.case(("history-form", form_src(f1), form_src(f2), tuple(touched)))
        ctx.stat("history_form_setter")
        ok = close(np.asarray(h.matrix), M2) and close(np.asarray(h @ psi), M2 @ psi) and close(term_list_matrix(h, n), M2)
        if not ok:
            allok = False
            ctx.fail("stale:form-setter", f"after h.form = f2 the object still answers for the previous form (read before: {touched})",
                     PRE + TERM_MAT_SRC + f"n = {n}\nh = SymbolicHamiltonian({form_src(f1)}, nqubits=n)\npsi = {arr_src(psi)}\nh.matrix; h.terms; h @ psi\n"
                     f"h.form = {form_src(f2)}\nM2 = {spec_src(f2, n)}\nassert np.allclose(h.matrix, M2) and np.allclose(h @ psi, M2 @ psi) and np.allclose(term_list_matrix(h, n), M2)\n",
                     expected=str(M2.tolist()), observed=str(np.asarray(h.matrix).tolist()), broken=["C15_search_history"])
        # dense: matrix setter vs cached spectrum / exponential
        A = M1 + M1.conj().T
        B = M2 + M2.conj().T
        if np.abs(A).max(initial=0) > 2**16 or np.abs(B).max(initial=0) > 2**16 or close(np.linalg.eigvalsh(A), np.linalg.eigvalsh(B), 1e-6):
            continue
        H = Hamiltonian(n, A.copy())
        H.eigenvalues()
        if rng.random() < 0.5:
            H.eigenvectors()
        H.exp(0.3)
        H.matrix = B.copy()
        ctx.stat("history_matrix_setter")
        from scipy.linalg import expm

        try:
            ok = close(np.asarray(H.eigenvalues()), np.linalg.eigvalsh(B), 1e-8) and close(np.asarray(H.exp(0.3)), expm(-0.3j * B), 1e-7)
        except Exception:
            ok = False
        if not ok:
            allok = False
            ctx.fail("stale:matrix-setter", "after H.matrix = B the cached eigenvalues / exp of the previous matrix are returned",
                     PRE + f"from scipy.linalg import expm\nA = {arr_src(A)}\nB = {arr_src(B)}\nH = Hamiltonian({n}, A.copy()); H.eigenvalues(); H.eigenvectors(); H.exp(0.3)\nH.matrix = B.copy()\n"
                     "assert np.allclose(H.eigenvalues(), np.linalg.eigvalsh(B), atol=1e-7) and np.allclose(H.exp(0.3), expm(-0.3j * B), atol=1e-7)\n",
                     broken=["C15_search_history"])
    ctx.ob("C15_search_history", allok, "search", "" if allok else "see failing inputs")


# ---------------------------------------------------------------------------
# correspondence: the Lean model (lean/QV/Model/Hamil.lean through lean/DriverC15.lean)
# against the real code, exact Gaussian-integer data

DRIVER = "DriverC15.lean"


def fail(ctx, key, what, python, expected=None, observed=None, broken=None):
    """ctx.fail, but a second report under the same key still marks its obligations."""
    for f in ctx.failures:
        if f["key"] == key:
            for b in broken or []:
                if b not in f["broken"]:
                    f["broken"].append(b)
            return
    ctx.fail(key, what, python, expected=expected, observed=observed, broken=broken)


class SymIds:
    """symbol name -> small integer (sympy identifies symbols by name)."""

    def __init__(self):
        self.ids = {}

    def of(self, name):
        return self.ids.setdefault(name, len(self.ids) + 1)


def gi(z):
    z = complex(z)
    r, i = round(z.real), round(z.imag)
    if abs(z.real - r) > 1e-9 or abs(z.imag - i) > 1e-9:
        raise ValueError(f"non-integer scalar {z}")
    return f"{r} {i}"


def gis(a):
    return " ".join(gi(z) for z in np.asarray(a).reshape(-1))


def sym_tokens_real(s, ids):
    from qibo import symbols

    pauli = 1 if s.__class__ in (symbols.I, symbols.X, symbols.Y, symbols.Z) else 0
    return f"{ids.of(s.name)} {s.target_qubit} {pauli} {gis(np.asarray(s.matrix))}"


def tree_tokens(expr, ids):
    """the sympy tree exactly as `_get_symbol_matrix` walks it."""
    import sympy

    from qibo.symbols import Symbol

    if isinstance(expr, sympy.Add):
        ts = [tree_tokens(t, ids) for t in expr.as_ordered_terms()]
        out = ts[0]
        for t in ts[1:]:
            out = f"A {out} {t}"
        return out
    if isinstance(expr, sympy.Mul):
        ts = [tree_tokens(t, ids) for t in expr.as_ordered_factors()]
        out = ts[0]
        for t in ts[1:]:
            out = f"M {out} {t}"
        return out
    if isinstance(expr, sympy.Pow):
        base, e = expr.as_base_exp()
        if int(e) < 0:
            raise ValueError("negative power")
        return f"P {int(e)} {tree_tokens(base, ids)}"
    if isinstance(expr, Symbol):
        return "S " + sym_tokens_real(expr, ids)
    if expr.is_number:
        return "C " + gi(complex(expr))
    raise ValueError(f"unexpected node {type(expr)}")


def ast_tokens(f, gen, ids):
    t = f[0]
    if t == "c":
        return "C " + gi(f[1])
    if t == "s":
        if f[1] in PAULI:
            return f"S {ids.of(f[1] + str(f[2]))} {f[2]} 1 {gis(PAULI[f[1]])}"
        return f"S {ids.of(f[1] + '_' + str(f[2]))} {f[2]} 0 {gis(gen.custom[f[1]])}"
    if t == "+":
        return f"A {ast_tokens(f[1], gen, ids)} {ast_tokens(f[2], gen, ids)}"
    if t == "-":
        return f"A {ast_tokens(f[1], gen, ids)} K -1 0 {ast_tokens(f[2], gen, ids)}"
    if t == "*":
        return f"M {ast_tokens(f[1], gen, ids)} {ast_tokens(f[2], gen, ids)}"
    if t == "^":
        return f"P {f[2]} {ast_tokens(f[1], gen, ids)}"
    if t == "sm":
        return f"K {gi(f[1])} {ast_tokens(f[2], gen, ids)}"
    raise ValueError(t)


def raw_monomials(expr, ids):
    """(tokens, canonical dict) of sympy.expand(expr).as_coefficients_dict(): the
    (coefficient, ordered factors) pairs SymbolicTerm is built from."""
    import sympy

    from qibo.symbols import Symbol

    e = sympy.expand(expr)
    toks, canon = [], {}
    items = list(e.as_coefficients_dict().items())
    for f, c in items:
        fs = []
        key = []
        coef = complex(c)
        if f != 1:
            for fac in f.as_ordered_factors():
                if isinstance(fac, sympy.Pow):
                    b, k = fac.args
                    k = int(k)
                    while isinstance(b, sympy.Pow):  # (Z0**2)**4: sympy keeps nested powers of nc symbols
                        b, k2 = b.args
                        k *= int(k2)
                    if not isinstance(b, Symbol) or k < 0:
                        raise ValueError("negative power")
                    fs.append(f"S {sym_tokens_real(b, ids)} {int(k)}")
                    key.append((ids.of(b.name), int(k)))
                elif isinstance(fac, Symbol):
                    fs.append(f"S {sym_tokens_real(fac, ids)} 1")
                    key.append((ids.of(fac.name), 1))
                elif fac == sympy.I:
                    fs.append("N 0 1")
                    coef *= 1j
                elif fac.is_number:
                    fs.append("N " + gi(complex(fac)))
                    coef *= complex(fac)
                else:
                    raise ValueError(f"factor {fac}")
        toks.append(f"{gi(complex(c))} {len(fs)} " + " ".join(fs))
        canon[tuple(key)] = canon.get(tuple(key), 0) + coef
    canon = {k: v for k, v in canon.items() if abs(v) > 1e-12}
    return f"{len(items)} " + " ".join(toks), canon


def parse_gis(s):
    s = s.strip()
    if not s:
        return np.zeros(0, dtype=complex)
    return parse_gi(s)


def embed_local(m, qs, n):
    """a local matrix on the ordered qubits `qs` as a 2^n x 2^n matrix."""
    qs = list(qs)
    rest = [q for q in range(n) if q not in qs]
    full = np.kron(np.asarray(m), np.eye(2 ** len(rest))).reshape(2 * n * (2,))
    order = qs + rest
    inv = [order.index(q) for q in range(n)]
    return full.transpose(inv + [n + i for i in inv]).reshape(2**n, 2**n)


def real_terms_canon(h, ids, n):
    """real term list, canonical: factor-name tuple -> (sum of coefficients, set of target
    qubits, sum of the term matrices embedded in the register) — independent of the order
    of the terms, of a split of one term into several, and of the order in which a term
    lists its target qubits."""
    out = {}
    for t in h.terms:
        key = tuple(ids.of(f.name) for f in t.factors)
        c, tq, m = out.get(key, (0, None, 0))
        out[key] = (c + complex(t.coefficient), frozenset(t.target_qubits), m + embed_local(t.matrix, t.target_qubits, n))
    return out


def corr_forms(ctx):
    """random forms: real dense matrix / action / term list vs the model, exactly."""
    import sympy

    from qibo.hamiltonians import SymbolicHamiltonian

    rng = ctx.rng
    N = 160 if ctx.thorough else 60
    lines, meta = [], []
    for it in range(N):
        n = rng.choice([1, 2, 2, 3, 3, 4])
        g = FormGen(rng, n, ncustom=rng.choice([0, 0, 1, 2]))
        f = g.form(depth=rng.choice([1, 2, 2, 3]) if n < 4 else rng.choice([1, 2]))
        if rng.random() < 0.3:
            f = ("+", f, dagger_form(f))
        if mono_count(f) > 250:
            ctx.stat("corr_skipped_many_monomials")
            continue
        style = rng.choice(["py", "sym", "int"])
        M = spec_matrix(f, n, g.custom)
        if np.abs(M).max(initial=0) > 2**30:
            ctx.stat("corr_skipped_large")
            continue
        expr, _ = build_expr(f, style, g.custom, g.qubit_of)
        expr = sympy.sympify(expr)
        if has_nested_pow(expr):
            ctx.stat("corr_form_nested_pow")
        ids = SymIds()
        try:
            tree = tree_tokens(expr, ids)
            mons, canon = raw_monomials(expr, ids)
            # the ast uses the same names as the real symbols
            ids_ast = SymIds()
            ids_ast.ids = {}
            for name, k in ids.ids.items():
                ids_ast.ids[name] = k
            ast = ast_tokens(f, _NameGen(g), ids_ast)
        except ValueError as ex:
            ctx.stat(f"corr_skipped_{str(ex).split()[0]}")
            continue
        psi = int_state(rng, n, -2, 2)
        rho = int_dm(rng, n)
        k0 = len(lines)
        lines.append(f"FORM {n} {tree} {ast} {gis(psi)}")
        lines.append(f"FORMDM {n} {tree} {ast} {gis(rho)}")
        lines.append(f"TERMS {n} {mons} {gis(psi)} {gis(rho)}")
        lines.append(f"EXPAND {ast}")
        meta.append((k0, n, g, f, style, expr, M, psi, rho, ids, canon))
    outs = run_driver(lines, driver=DRIVER)
    bad = {"dense": 0, "action": 0, "terms": 0, "expand": 0}
    for k0, n, g, f, style, expr, M, psi, rho, ids, canon in meta:
        head = header(g, n, f, style)
        h = SymbolicHamiltonian(expr, nqubits=n)
        ctx.case(("corr-form", n, form_src(f, style)))
        ctx.stat(f"corr_form_n{n}")
        d, v1, v2, v3 = [parse_gis(x) for x in outs[k0].split(";")]
        r1, r2 = [parse_gis(x) for x in outs[k0 + 1].split(";")]
        # (1) dense matrix: real _get_symbol_matrix vs model on the same tree
        try:
            D = np.asarray(h.matrix).reshape(-1)
        except Exception as ex:
            bad["dense"] += 1
            fail(ctx, f"raises:matrix:{type(ex).__name__}", f"h.matrix raises {type(ex).__name__}: {ex} for {form_src(f, style)}",
                 head + "h.matrix\n", observed=f"{type(ex).__name__}: {ex}", broken=["C15_corr_dense"])
            continue
        if not np.array_equal(D, d):
            bad["dense"] += 1
            fail(ctx, zero_key(M, "dense:matrix"), f"real dense matrix of {form_src(f, style)} differs from the model of _get_symbol_matrix (and from the operator)"
                 if not close(D, M.reshape(-1)) else f"model of _get_symbol_matrix disagrees with the real matrix of {form_src(f, style)} (model out of date?)",
                 head + "assert np.allclose(h.matrix, M, atol=1e-9)\n", expected=str(d.tolist()), observed=str(D.tolist()), broken=["C15_corr_dense"])
        # (2) action: real h @ psi / h @ rho vs denote, term route, dense route of the model
        try:
            v = np.asarray(h @ psi).reshape(-1)
            r = np.asarray(h @ rho).reshape(-1)
        except Exception as ex:
            v, r = np.zeros(0), np.zeros(0)
        okv = all(np.array_equal(v, x) for x in (v1, v2, v3))
        okr = all(np.array_equal(r, x) for x in (r1, r2))
        if not (okv and okr):
            bad["action"] += 1
            fail(ctx, zero_key(M, "matmul:state" if not okv else "matmul:dm"),
                 f"h @ state of {form_src(f, style)} differs from the model (SPEC denotation {v1.tolist() if not okv else r1.tolist()})",
                 head + f"psi = {arr_src(psi)}\nrho = {arr_src(rho)}\nassert np.allclose(h @ psi, M @ psi, atol=1e-9)\nassert np.allclose(h @ rho, M @ rho, atol=1e-9)\n",
                 expected=str((v1 if not okv else r1).tolist()), observed=str((v if not okv else r).tolist()), broken=["C15_corr_action"])
        # (3) term list
        parts = outs[k0 + 2].split("|")
        model_terms = {}
        for p in parts[:-1]:
            c, fids, tq, m = p.split(";")
            key = tuple(int(x) for x in fids.split())
            c = parse_gis(c)[0]
            mm = parse_gis(m)
            oc, _, om = model_terms.get(key, (0, None, 0))
            tqs = [int(x) for x in tq.split()]
            model_terms[key] = (oc + c, frozenset(tqs), om + embed_local(mm.reshape(2 ** len(tqs), 2 ** len(tqs)), tqs, n))
        const, av, ar, vg = parts[-1].split(";")
        try:
            real_terms = real_terms_canon(h, ids, n)
            okt = set(k for k, val in real_terms.items() if abs(val[0]) > 1e-12) == set(k for k, val in model_terms.items() if abs(val[0]) > 1e-12)
            for k in real_terms:
                if not okt or abs(real_terms[k][0]) <= 1e-12:
                    continue
                okt = okt and close(real_terms[k][0], model_terms[k][0]) and real_terms[k][1] == model_terms[k][1] \
                    and np.array_equal(np.asarray(real_terms[k][2]), model_terms[k][2])
            okt = okt and close(complex(h.constant), parse_gis(const)[0])
            okt = okt and np.array_equal(parse_gis(av), v) and np.array_equal(parse_gis(ar), r) and np.array_equal(parse_gis(vg), v)
        except Exception:
            okt = False
        if not okt:
            bad["terms"] += 1
            T = None
            try:
                T = term_list_matrix(h, n)
            except Exception:
                pass
            fail(ctx, zero_key(M, "terms:sum" if T is None or not close(T, M) else "terms:list"),
                 f"term list of {form_src(f, style)} (coefficients, ordered factors, target qubits, matrices, constant, action) differs from the model of SymbolicTerm",
                 head + TERM_MAT_SRC + f"psi = {arr_src(psi)}\nassert np.allclose(term_list_matrix(h, n), M, atol=1e-9)\nassert np.allclose(h @ psi, M @ psi, atol=1e-9)\n"
                 "for t in h.terms:\n"
                 "    m = t.coefficient * np.eye(1)\n"
                 "    for q in t.target_qubits:\n"
                 "        fq = np.eye(2)\n"
                 "        for fac in t.factors:\n"
                 "            if fac.target_qubit == q: fq = fq @ np.asarray(fac.matrix)\n"
                 "        m = np.kron(m, fq)\n"
                 "    assert set(t.target_qubits) == set(fac.target_qubit for fac in t.factors)\n"
                 "    assert np.allclose(t.matrix, m, atol=1e-9)\n",
                 expected=str({str(k): str(v[0]) for k, v in model_terms.items()}), observed="see replay", broken=["C15_corr_terms"])
        # (4) the expansion oracle (sympy) vs the model's expand
        mc = {}
        for p in outs[k0 + 3].split("|"):
            c, fs = p.split(";")
            t = [int(x) for x in fs.split()]
            key = tuple((t[2 * i], t[2 * i + 1]) for i in range(len(t) // 2))
            mc[key] = mc.get(key, 0) + parse_gis(c)[0]
        mc = {k: v for k, v in mc.items() if abs(v) > 1e-12}
        if set(mc) != set(canon) or any(abs(mc[k] - canon[k]) > 1e-9 * max(1, abs(mc[k])) for k in mc):
            bad["expand"] += 1
    ctx.ob("C15_corr_dense", bad["dense"] == 0, "correspondence", f"{bad['dense']} disagreements" if bad["dense"] else "")
    ctx.ob("C15_corr_action", bad["action"] == 0, "correspondence", f"{bad['action']} disagreements" if bad["action"] else "")
    ctx.ob("C15_corr_terms", bad["terms"] == 0, "correspondence", f"{bad['terms']} disagreements" if bad["terms"] else "")
    # the expansion is an oracle (sympy) in the trusted base: a disagreement of the model's
    # `expand` with it does not by itself say the property fails; it is reported as an
    # obligation whose failing input (if any) is found by the search on terms:sum
    ctx.ob("C15_corr_expand_oracle", bad["expand"] == 0, "correspondence", f"{bad['expand']} disagreements with sympy.expand" if bad["expand"] else "")


class _NameGen:
    """ast symbols must carry the names qibo gives the real symbols (`X0`, `A0n2_1`)."""

    def __init__(self, g):
        self.custom = g.custom


def _ast_name(f):
    return f[1] + str(f[2]) if f[1] in PAULI else f"{f[1]}_{f[2]}"


def corr_samples(ctx):
    """expectation_from_samples of both classes vs the model (scaled by the number of shots,
    integer coefficients and counts: exact)."""
    import sympy

    from qibo.hamiltonians import Hamiltonian, SymbolicHamiltonian

    rng = ctx.rng
    N = 80 if ctx.thorough else 30
    lines, meta = [], []
    for it in range(N):
        n = rng.choice([1, 2, 3, 3, 4])
        f = z_form(rng, n) if it > 1 else ("*", ("s", "Z", 0), ("*", ("s", "Z", n - 1), ("s", "Z", 0)))
        f = _int_coeffs(f)
        e, _ = build_expr(f, "int", {}, {})
        e = sympy.sympify(e)
        ids = SymIds()
        try:
            mons, _ = raw_monomials(e, ids)
            tree = tree_tokens(e, ids)
        except ValueError:
            continue
        perms = list(itertools.permutations(range(n)))
        qm = list(rng.choice(perms))
        keys = list(dict.fromkeys("".join(rng.choice("01") for _ in range(n)) for _ in range(rng.randint(1, 6))))
        freq = {k: rng.randint(1, 30) for k in keys}
        lines.append(f"SAMPLES {n} {mons} {tree} {n} {' '.join(map(str, qm))} {len(freq)} " + " ".join(f"{k} {c}" for k, c in freq.items()))
        meta.append((n, f, e, qm, freq))
    outs = run_driver(lines, driver=DRIVER)
    bad = 0
    for (n, f, e, qm, freq), out in zip(meta, outs):
        a, b, c = [parse_gis(x)[0] for x in out.split(";")]
        tot = sum(freq.values())
        M = spec_matrix(f, n, {})
        hs = SymbolicHamiltonian(e, nqubits=n)
        hd = Hamiltonian(n, M.copy())
        ctx.case(("corr-samples", form_src(f), tuple(qm), tuple(sorted(freq.items()))))
        ctx.stat("corr_samples")
        try:
            rs = hs.expectation_from_samples(dict(freq), qubit_map=list(qm)) * tot
            rd = hd.expectation_from_samples(dict(freq), qubit_map=list(qm)) * tot
        except Exception as ex:
            rs = rd = float("nan")
        ok = close(rs, a.real, 1e-9) and close(rd, b.real, 1e-9) and a == b == c
        if not ok:
            bad += 1
            which = "symbolic" if not close(rs, c.real, 1e-9) else "dense"
            rep = "repeated-factor" if _has_repeat(hs) else "plain"
            fail(ctx, f"samples:{which}:{rep}" if a == b == c else "samples:model-inconsistent",
                 f"expectation_from_samples of {form_src(f)} with qubit_map {qm}, freq {freq}: symbolic {rs / tot}, dense {rd / tot}, frequency-weighted eigenvalues {c.real / tot}",
                 PRE + f"n = {n}\nform = sympy.sympify({form_src(f)})\nM = {spec_src(f, n)}\nfreq = {freq!r}\nqm = {qm!r}\nexpected = {c.real / tot!r}\n"
                 "hs = SymbolicHamiltonian(form, nqubits=n); hd = Hamiltonian(n, M)\n"
                 "assert abs(hs.expectation_from_samples(freq, qubit_map=qm) - expected) < 1e-9\n"
                 "assert abs(hd.expectation_from_samples(freq, qubit_map=qm) - expected) < 1e-9\n",
                 expected=c.real / tot, observed=[float(np.real(rs)) / tot, float(np.real(rd)) / tot], broken=["C15_corr_samples"])
    ctx.ob("C15_corr_samples", bad == 0, "correspondence", f"{bad} disagreements" if bad else "")


def _int_coeffs(f):
    t = f[0]
    if t == "c":
        return ("c", int(round(2 * complex(f[1]).real)))
    if t == "s":
        return f
    if t == "sm":
        return ("sm", int(round(2 * complex(f[1]).real)), _int_coeffs(f[2]))
    if t == "^":
        return ("^", _int_coeffs(f[1]), f[2])
    return (t, _int_coeffs(f[1]), _int_coeffs(f[2]))


def corr_models(ctx):
    """TFIM, the one-body models and Heisenberg / XXX / XXZ: real dense builder and real
    symbolic builder vs the model's `tfimDense` / `dense (tfimForm)`, `oneBodyDense` /
    `dense (oneBodyForm)`, `heisDense` / `dense (heisForm)`."""
    from qibo import hamiltonians

    nmax = 5 if ctx.thorough else 4
    lines, meta = [], []
    for n in range(1, nmax + 1):
        for nm in "XYZ":
            lines.append(f"ONE {n} {gis(PAULI[nm])}")
            meta.append(("ONE", n, nm))
        if n >= 2:
            for h in (0, 1, -2, 3):
                lines.append(f"TFIM {n} {h} 0")
                meta.append(("TFIM", n, h))
            # Heisenberg (and XXX / XXZ, which call it): fixed boundary cases + seeded random couplings / fields
            heis = [((1, 1, 1), (0, 0, 0)), ((1, 2, -3), (0, 1, 0)), ((0, 0, 2), (1, -1, 2)), ((-1, 0, 1), (0, 0, 3))]
            for _ in range(3 if ctx.thorough else 2):
                heis.append((tuple(ctx.rng.randint(-3, 3) for _ in range(3)), tuple(ctx.rng.choice([0, 0, 1, -2, 3]) for _ in range(3))))
            big = n >= 5  # the interpreted model needs ~30 s per 5-qubit Heisenberg case: keep three
            for J, hh in (heis[1:3] if big else heis):
                lines.append(f"HEIS {n} {' '.join(map(str, J))} {' '.join(map(str, hh))}")
                meta.append(("HEIS", n, (J, hh)))
            for delta in ((2,) if big else (0, 2, -1)):
                lines.append(f"HEIS {n} -1 -1 {-delta} 0 0 0")
                meta.append(("XXZ", n, delta))
            for c, hh in (() if big else ((2, (0, 0, 0)), (-1, (1, 0, -2)))):
                lines.append(f"HEIS {n} {c} {c} {c} {' '.join(map(str, hh))}")
                meta.append(("XXX", n, (c, hh)))
    outs = run_driver(lines, driver=DRIVER)
    bad = 0
    for (kind, n, par), out in zip(meta, outs):
        A, B = [parse_gis(x) for x in out.split(";")]
        ctx.case(("corr-model", kind, n, par))
        ctx.stat(f"corr_model_{kind}")
        try:
            if kind == "ONE":
                rd = np.asarray(getattr(hamiltonians, par)(n, dense=True).matrix).reshape(-1)
                rs = np.asarray(getattr(hamiltonians, par)(n, dense=False).matrix).reshape(-1)
                call = f"hamiltonians.{par}({n}, dense=DENSE)"
                M = model_formula(par, n)
            elif kind == "TFIM":
                rd = np.asarray(hamiltonians.TFIM(n, h=par, dense=True).matrix).reshape(-1)
                rs = np.asarray(hamiltonians.TFIM(n, h=par, dense=False).matrix).reshape(-1)
                call = f"hamiltonians.TFIM({n}, h={par}, dense=DENSE)"
                M = model_formula("TFIM", n, h=par)
            elif kind == "HEIS":
                J, hh = par
                rd = np.asarray(hamiltonians.Heisenberg(n, list(J), list(hh), dense=True).matrix).reshape(-1)
                rs = np.asarray(hamiltonians.Heisenberg(n, list(J), list(hh), dense=False).matrix).reshape(-1)
                call = f"hamiltonians.Heisenberg({n}, {list(J)}, {list(hh)}, dense=DENSE)"
                M = model_formula("Heisenberg", n, J=J, h=hh)
            elif kind == "XXZ":
                rd = np.asarray(hamiltonians.XXZ(n, delta=par, dense=True).matrix).reshape(-1)
                rs = np.asarray(hamiltonians.XXZ(n, delta=par, dense=False).matrix).reshape(-1)
                call = f"hamiltonians.XXZ({n}, delta={par}, dense=DENSE)"
                M = model_formula("XXZ", n, delta=par)
            else:
                c, hh = par
                rd = np.asarray(hamiltonians.XXX(n, c, list(hh), dense=True).matrix).reshape(-1)
                rs = np.asarray(hamiltonians.XXX(n, c, list(hh), dense=False).matrix).reshape(-1)
                call = f"hamiltonians.XXX({n}, {c}, {list(hh)}, dense=DENSE)"
                M = model_formula("Heisenberg", n, J=(c, c, c), h=hh)
        except Exception:
            rd = rs = np.zeros(0)
        if not (np.array_equal(rd, A) and np.array_equal(rs, B)):
            bad += 1
            which = "dense" if not np.array_equal(rd, A) else "symbolic"
            name = par if kind == "ONE" else {"TFIM": "TFIM", "HEIS": "Heisenberg", "XXZ": "XXZ", "XXX": "XXX"}[kind]
            fail(ctx, f"model:{name}:{which}", f"{call.replace('DENSE', str(which == 'dense'))} differs from the model builder",
                 PRE + f"h = {call.replace('DENSE', str(which == 'dense'))}\nM = {arr_src(M)}\nassert np.allclose(h.matrix, M, atol=1e-9)\n",
                 broken=["C15_corr_models"])
    ctx.ob("C15_corr_models", bad == 0, "correspondence", f"{bad} disagreements" if bad else "")


# ---------------------------------------------------------------------------
# correspondence + search: the algebra of SymbolicHamiltonian objects over call histories
# (lean/QV/Model/HamilAlg.lean): objects are created, read (`h @ state` parses `terms`),
# combined (+ - @ scalar multiples, scalar shifts, c - h) in any order; every object must
# answer as the plain matrix arithmetic says, whatever was read from the operands before.

HIST_SCALARS = [2, -3, 1j, (2 - 1j), -1, 0, 3.0, (1 + 2j), -2, 1.5, -0.5]
HIST_USES = ["terms", "matmul", "expectation", "matmul", "terms"]


def _hist_scalar_src(c):
    if isinstance(c, np.floating):
        return f"np.float64({float(c)!r})"
    return repr(c)


def _const_part(rng, g, n):
    """an additive part that ends up in `constant`: a number, Z0*Z0, an even Pauli power."""
    k = rng.random()
    q = rng.randrange(n)
    if k < 0.35:
        return ("c", g.coeff(gaussian=rng.random() < 0.4))
    if k < 0.5:
        return ("c", rng.choice([1.5, -0.5, 2.5]))
    if k < 0.7:
        p = rng.choice("XYZ")
        return ("*", ("s", p, q), ("s", p, q))
    if k < 0.85:
        return ("^", ("s", rng.choice("XYZ"), q), rng.choice([2, 4]))
    return ("sm", rng.choice([2, -3, 1j]), ("^", ("s", rng.choice("XYZ"), q), 2))


def _all_routes(h, M, n, psi, rho):
    """every route of an object against plain matrix arithmetic; returns the name of the
    first route that differs (None if all agree) and what was observed."""
    try:
        v = np.asarray(h @ psi)
        if not close(v, M @ psi):
            return "matmul:state", v
        r = np.asarray(h @ rho)
        if not close(r, M @ rho):
            return "matmul:dm", r
        e = h.expectation(psi)
        if not close(e, np.real(np.vdot(psi, M @ psi)), 1e-8):
            return "expectation:state", e
        e = h.expectation(rho)
        if not close(e, np.real(np.trace(M @ rho)), 1e-8):
            return "expectation:dm", e
        T = term_list_matrix(h, n)
        if not close(T, M):
            return "terms+constant", T
        D = np.asarray(h.matrix)
        if not close(D, M):
            return "matrix", D
    except Exception as ex:  # noqa: BLE001
        return f"raises:{type(ex).__name__}", str(ex)
    return None, None


ROUTES_SRC = TERM_MAT_SRC + (
    "def routes(h, M, n, psi, rho):\n"
    "    assert np.allclose(h @ psi, M @ psi, atol=1e-9), 'h @ psi'\n"
    "    assert np.allclose(h @ rho, M @ rho, atol=1e-9), 'h @ rho'\n"
    "    assert abs(h.expectation(psi) - np.real(np.vdot(psi, M @ psi))) < 1e-7, 'expectation(psi)'\n"
    "    assert abs(h.expectation(rho) - np.real(np.trace(M @ rho))) < 1e-7, 'expectation(rho)'\n"
    "    assert np.allclose(term_list_matrix(h, n), M, atol=1e-9), 'terms + constant'\n"
    "    assert np.allclose(h.matrix, M, atol=1e-9), 'matrix'\n"
)


def corr_history(ctx):
    """histories of SymbolicHamiltonian objects: operands fresh or already used (terms /
    h @ psi / expectation / matrix), + - @ in both orders, scalars on either side, chains;
    every route of every object vs plain numpy arithmetic, and h @ psi / constant vs the
    Lean model of the history (when all scalars are Gaussian integers)."""
    import sympy

    from qibo.hamiltonians import SymbolicHamiltonian

    rng = ctx.rng
    N = 110 if ctx.thorough else 44
    lines, meta = [], []
    for it in range(N):
        n = rng.choice([1, 2, 2, 3])
        g = FormGen(rng, n, ncustom=rng.choice([0, 0, 0, 1]))
        ids = SymIds()
        nobj0 = rng.choice([2, 2, 3])
        objs, mats, names, monos, toks = [], [], [], [], []
        modelable = True
        src = PRE + ROUTES_SRC + custom_src(g.custom, g.qubit_of) + f"n = {n}\n"
        psi0 = int_state(rng, n, -1, 1)
        src += f"psi0 = {arr_src(psi0)}\n"
        ok_case = True
        for k in range(nobj0):
            f = g.form(depth=rng.choice([0, 1, 1, 2]))
            if it % 4 != 3 or rng.random() < 0.5:
                # an identity component: what `constant` collects
                f = (rng.choice("+-"), f, _const_part(rng, g, n))
            if mono_count(f) > 40:
                ok_case = False
                break
            style = rng.choice(["py", "sym", "int"])
            e, _ = build_expr(f, style, g.custom, g.qubit_of)
            e = sympy.sympify(e)
            try:
                toks.append("N " + ast_tokens(f, _NameGen(g), ids))
            except ValueError:
                modelable = False
            objs.append(SymbolicHamiltonian(e, nqubits=n))
            mats.append(spec_matrix(f, n, g.custom))
            monos.append(mono_count(f))
            names.append("new")
            src += f"h{k} = SymbolicHamiltonian(sympy.sympify({form_src(f, style)}), nqubits=n); M{k} = {spec_src(f, n)}\n"
        if not ok_case:
            ctx.stat("hist_skipped")
            continue
        parsed = set()

        def use(i, how=None):
            """the operand is used before the composition (terms / @ / expectation parse the
            term list; matrix does not)."""
            nonlocal src
            how = how or rng.choice(HIST_USES + ["matrix"])
            if how == "terms":
                objs[i].terms
                src += f"h{i}.terms\n"
            elif how == "matmul":
                objs[i] @ psi0
                src += f"h{i} @ psi0\n"
            elif how == "expectation":
                objs[i].expectation(psi0)
                src += f"h{i}.expectation(psi0)\n"
            else:
                objs[i].matrix
                src += f"h{i}.matrix\n"
                ctx.stat("hist_use_matrix")
                return
            ctx.stat(f"hist_use_{how}")
            parsed.add(i)
            toks.append(f"T {i}")

        for s in range(rng.randint(2, 5)):
            r = rng.random()
            k = len(objs)
            i = rng.randrange(k) if rng.random() < 0.6 else k - 1
            j = rng.randrange(k)
            if r < 0.1:
                use(i)
                continue
            if r < 0.65:
                op = rng.choice(["+", "-", "-", "-", "@"])
                if op == "@" and monos[i] * monos[j] > 60:
                    op = "-"
                pre = rng.random()
                if pre < 0.5:  # both operands already parsed
                    use(i, rng.choice(HIST_USES))
                    use(j, rng.choice(HIST_USES))
                elif pre < 0.7:
                    use(rng.choice([i, j]))
                new = _apply_op(op, objs[i], objs[j])
                newM = _apply_op(op, mats[i], mats[j])
                toks.append({"+": "A", "-": "B", "@": "M"}[op] + f" {i} {j}")
                src += f"h{k} = h{i} {op} h{j}; M{k} = M{i} {op} M{j}\n"
                monos.append(monos[i] * monos[j] if op == "@" else monos[i] + monos[j])
                state = "parsed-operands" if i in parsed and j in parsed else ("fresh-operands" if i not in parsed and j not in parsed else "mixed-operands")
                names.append((op, state))
            else:
                c = rng.choice(HIST_SCALARS)
                if isinstance(c, float) and rng.random() < 0.5:
                    c = np.float64(c)
                if rng.random() < 0.5:
                    use(i)
                cs = _hist_scalar_src(c)
                I = np.eye(2**n)
                kind = rng.choice(["*", "r*", "+", "r+", "-", "r-"])
                new = _apply_op(kind, objs[i], c)
                newM = {"*": mats[i] * c, "r*": c * mats[i], "+": mats[i] + c * I, "r+": c * I + mats[i], "-": mats[i] - c * I, "r-": c * I - mats[i]}[kind]
                code = {"*": "K", "r*": "K", "+": "PA", "r+": "PA", "-": "PS", "r-": "RS"}[kind]
                try:
                    toks.append(f"{code} {gi(c)} {i}")
                except ValueError:
                    modelable = False
                src += f"h{k} = {_op_src(kind, f'h{i}', cs)}; M{k} = " + {
                    "*": f"M{i} * {cs}", "r*": f"{cs} * M{i}", "+": f"M{i} + {cs} * np.eye({2**n})", "r+": f"{cs} * np.eye({2**n}) + M{i}",
                    "-": f"M{i} - {cs} * np.eye({2**n})", "r-": f"{cs} * np.eye({2**n}) - M{i}"}[kind] + "\n"
                monos.append(monos[i] + 1)
                names.append((f"scalar{kind}", "parsed-operands" if i in parsed else "fresh-operands"))
            objs.append(new)
            mats.append(newM)
            ctx.stat(f"hist_step_{names[-1][0]}_{names[-1][1]}")
            if np.abs(newM).max(initial=0) > 2**24:
                break
        psi = int_state(rng, n, -2, 2)
        rho = int_dm(rng, n)
        src += f"psi = {arr_src(psi)}\nrho = {arr_src(rho)}\n"
        if modelable:
            lines.append(f"HIST {n} {len(toks)} {' '.join(toks)} {gis(psi)}")
            ctx.stat("hist_with_model")
        else:
            ctx.stat("hist_spec_only")
        meta.append((n, objs, mats, names, src, psi, rho, len(lines) - 1 if modelable else None))
    outs = run_driver(lines, driver=DRIVER)
    bad = 0
    for n, objs, mats, names, src, psi, rho, li in meta:
        ctx.case(("corr-history", n, tuple(names), src[-300:]))
        model = None
        if li is not None:
            halves = outs[li].split("||")
            model = [[(parse_gis(o.split(";")[0])[0], parse_gis(o.split(";")[1])) for o in half.split("|")] for half in halves]
            same_models = len(model) == 2 and len(model[0]) == len(model[1]) == len(objs) and all(
                a[0] == b[0] and np.array_equal(a[1], b[1]) for a, b in zip(*model))
            if not same_models:
                # the two modelled implementations are proved equivalent (T15_history_act): never expected
                bad += 1
                fail(ctx, "history:model-inconsistent", "the fresh-parse and the term-reuse model disagree", src, broken=["C15_corr_history"])
                continue
        # newest objects first: the result of the last composition is the usual culprit
        for k in reversed(range(len(objs))):
            h = objs[k]
            route, seen = _all_routes(h, mats[k], n, psi, rho)
            corr_ok = True
            if model is not None and route is None:
                mc, mv = model[0][k]
                corr_ok = np.array_equal(np.asarray(h @ psi).reshape(-1), mv) and close(complex(h.constant), mc)
            if route is None and corr_ok:
                continue
            bad += 1
            state = names[k][1] if names[k] != "new" else "new"
            opn = names[k][0] if names[k] != "new" else "new"
            if route is not None:
                fail(ctx, zero_key(mats[k], f"algebra:history:{state}"),
                     f"object h{k} of a history of symbolic Hamiltonians (made by {opn} from {state}): route {route} gives {np.asarray(seen).tolist() if not isinstance(seen, str) else seen}, "
                     f"matrix arithmetic M{k} disagrees",
                     src + f"routes(h{k}, M{k}, n, psi, rho)\n",
                     expected=str((mats[k] @ psi).tolist()), observed=str(np.asarray(seen).tolist() if not isinstance(seen, str) else seen), broken=["C15_corr_history"])
            break
    ctx.ob("C15_corr_history", bad == 0, "correspondence", f"{bad} histories disagree" if bad else "")


def samples_history_search(ctx):
    """expectation_from_samples of sums / differences of already used diagonal observables."""
    import sympy

    from qibo.hamiltonians import SymbolicHamiltonian

    rng = ctx.rng
    allok = True
    for it in range(40 if ctx.thorough else 14):
        n = rng.choice([1, 2, 3])
        f1, f2 = z_form(rng, n), z_form(rng, n)
        if it % 2 == 0:
            f1 = ("+", f1, ("c", rng.choice([2, -1, 0.5])))
            f2 = ("+", f2, ("c", rng.choice([5, -3, 1.5])))
        e1, _ = build_expr(f1, "py", {}, {})
        e2, _ = build_expr(f2, "py", {}, {})
        h1, h2 = SymbolicHamiltonian(sympy.sympify(e1), nqubits=n), SymbolicHamiltonian(sympy.sympify(e2), nqubits=n)
        M1, M2 = spec_matrix(f1, n, {}), spec_matrix(f2, n, {})
        keys = list(dict.fromkeys("".join(rng.choice("01") for _ in range(n)) for _ in range(rng.randint(1, 5))))
        freq = {k: rng.randint(1, 30) for k in keys}
        qm = list(rng.choice(list(itertools.permutations(range(n)))))
        used = rng.choice(["both", "both", "first", "none"])
        src = (PRE + f"n = {n}\nh1 = SymbolicHamiltonian(sympy.sympify({form_src(f1)}), nqubits=n); M1 = {spec_src(f1, n)}\n"
               f"h2 = SymbolicHamiltonian(sympy.sympify({form_src(f2)}), nqubits=n); M2 = {spec_src(f2, n)}\nfreq = {freq!r}\nqm = {qm!r}\n")
        if used in ("both", "first"):
            h1.expectation_from_samples(dict(freq), qubit_map=list(qm))
            src += "h1.expectation_from_samples(dict(freq), qubit_map=list(qm))\n"
        if used == "both":
            h2.expectation_from_samples(dict(freq), qubit_map=list(qm))
            src += "h2.expectation_from_samples(dict(freq), qubit_map=list(qm))\n"
        src += ("def ex(M):\n    tot = sum(freq.values()); d = np.real(np.diag(M)); out = 0.0\n    for k, c in freq.items():\n"
                "        bits = [0] * n\n        for pos, q in enumerate(qm): bits[q] = int(k[pos])\n"
                "        out += c / tot * d[int(''.join(map(str, bits)), 2)]\n    return out\n")
        env = {}
        for op in ("-", "+", "r-"):
            a, b, Ma, Mb = (h1, h2, M1, M2) if op != "r-" else (h2, h1, M2, M1)
            o = "-" if op == "r-" else op
            an, bn = ("h1", "h2") if op != "r-" else ("h2", "h1")
            Mn = f"M{an[1]} {o} M{bn[1]}"
            M = Ma - Mb if o == "-" else Ma + Mb
            tot = sum(freq.values())
            d = np.real(np.diag(M))
            want = 0.0
            for k, c in freq.items():
                bits = [0] * n
                for pos, q in enumerate(qm):
                    bits[q] = int(k[pos])
                want += c / tot * d[int("".join(map(str, bits)), 2)]
            ctx.case(("samples-history", form_src(f1), form_src(f2), op, used, tuple(qm), tuple(sorted(freq.items()))))
            ctx.stat(f"samples_history_{used}")
            try:
                r = a - b if o == "-" else a + b
                got = float(np.real(r.expectation_from_samples(dict(freq), qubit_map=list(qm))))
            except Exception as exn:  # noqa: BLE001
                got = float("nan")
            if not close(got, want, 1e-9):
                allok = False
                ctx.fail(f"samples:history:{o}:{'parsed' if used == 'both' else 'fresh'}",
                         f"({an} {o} {bn}).expectation_from_samples is {got}, frequency-weighted eigenvalues of the difference/sum give {want} (operands used before: {used})",
                         src + f"got = ({an} {o} {bn}).expectation_from_samples(dict(freq), qubit_map=list(qm))\nassert abs(got - ex({Mn})) < 1e-9, (got, ex({Mn}))\n",
                         expected=want, observed=got, broken=["C15_search_samples_history"])
    ctx.ob("C15_search_samples_history", allok, "search", "" if allok else "see failing inputs")


# ---------------------------------------------------------------------------
# correspondence + search: SymbolicHamiltonian.expectation_from_circuit — the measurement
# layer (one measurement per non-identity factor, on that factor's qubit in that factor's
# Pauli basis, for every written order of the factors) and the estimate it produces
# (lean/QV/Model/HamilCirc.lean, theorems T15_circuit_*).

CIRC_PRE = PRE + "from qibo import Circuit, gates\n"
EIGEN = {  # Pauli axis, sign -> (preparation gates on |0>, un-normalised integer amplitudes)
    ("Z", 1): ([], (1, 0)), ("Z", -1): (["X"], (0, 1)),
    ("X", 1): (["H"], (1, 1)), ("X", -1): (["X", "H"], (1, -1)),
    ("Y", 1): (["H", "S"], (1, 1j)), ("Y", -1): (["X", "H", "S"], (1, -1j)),
}


def _pauli_terms_src(terms, const):
    parts = []
    for c, fs in terms:
        parts.append(f"({c!r})*" + "*".join(f"{k}({q})" for k, q in fs))
    if const != 0:
        parts.append(f"({const!r})")
    return " + ".join(parts)


def _pauli_terms_matrix(terms, const, n):
    M = complex(const) * np.eye(2**n, dtype=complex)
    for c, fs in terms:
        T = np.eye(2**n, dtype=complex)
        for k, q in fs:
            T = T @ embed(PAULI[k], q, n)
        M = M + c * T
    return M


def _order_name(fs):
    qs = [q for k, q in fs if k != "I"]
    if len(qs) < 2 or qs == sorted(qs):
        return "ascending"
    return "descending" if qs == sorted(qs, reverse=True) else "mixed"


def _gen_pauli_terms(rng, n, axis=None):
    """1-3 Pauli strings, one factor per qubit, written in ascending / descending / shuffled
    qubit order; `axis` (qubit -> Pauli) forces the Pauli of each qubit (deterministic shots)."""
    terms = []
    for _ in range(rng.randint(1, 3)):
        k = rng.randint(1, n)
        qs = rng.sample(range(n), k)
        order = rng.choice(["asc", "desc", "desc", "shuffle"])
        qs = sorted(qs) if order == "asc" else (sorted(qs, reverse=True) if order == "desc" else qs)
        fs = [((axis[q] if axis else rng.choice("XYZ")), q) for q in qs]
        if rng.random() < 0.15:
            free = [q for q in range(n) if q not in qs]
            if free:
                fs.insert(rng.randrange(len(fs) + 1), ("I", rng.choice(free)))
        terms.append((rng.choice([1, -1, 2, -2, 3, -3]), fs))
    return terms


def _layers_of(circuits):
    out = []
    for c in circuits:
        pairs = []
        for m in c.measurements:
            names = [getattr(b, "__name__", str(b)) for b in getattr(m, "basis_gates", [])] or list(m.init_kwargs.get("basis", []))
            pairs += list(zip(m.target_qubits, names))
        out.append(sorted(pairs))
    return out


def corr_circuit(ctx):
    import sympy

    from qibo import Circuit, gates
    from qibo.hamiltonians import SymbolicHamiltonian

    rng = ctx.rng
    N = 70 if ctx.thorough else 26
    fixed = [
        (2, {0: ("X", 1), 1: ("Z", -1)}, [(1, [("Z", 1), ("X", 0)])], 0),
        (3, {0: ("X", 1), 1: ("Z", -1), 2: ("Y", 1)}, [(1, [("Z", 1), ("X", 0)]), (0.5, [("Y", 2), ("Z", 1)])], 0),
        (3, {0: ("X", -1), 1: ("Z", 1), 2: ("Y", -1)}, [(1, [("Y", 2), ("X", 0)]), (-2, [("Z", 1)])], 0),
        (2, {0: ("X", 1), 1: ("Z", -1)}, [(1, [("Z", 1), ("X", 0)])], 2),
        (2, {0: ("Z", 1), 1: ("Z", -1)}, [(1, [("I", 0)]), (1, [("Z", 1)])], 0),
    ]
    lines, meta = [], []
    for it in range(N + len(fixed)):
        if it < len(fixed):
            n, st, terms, const = fixed[it]
        else:
            n = rng.choice([1, 2, 3, 3, 4])
            st = {q: (rng.choice("XYZ"), rng.choice([1, -1])) for q in range(n)}
            terms = _gen_pauli_terms(rng, n, axis={q: st[q][0] for q in range(n)})
            const = rng.choice([0, 0, 0, 2, -1, 1.5])
        src = CIRC_PRE + f"n = {n}\nc = Circuit(n)\n"
        c = Circuit(n)
        amps = np.ones(1, dtype=complex)
        for q in range(n):
            prep, a = EIGEN[st[q]]
            for g in prep:
                c.add(getattr(gates, g)(q))
                src += f"c.add(gates.{g}({q}))\n"
            amps = np.kron(amps, np.array(a, dtype=complex))
        form_s = _pauli_terms_src(terms, const)
        src += f"h = SymbolicHamiltonian(sympy.sympify({form_s}), nqubits=n)\n"
        env = {}
        exec(CIRC_PRE, env)  # noqa: S102 - own generated text
        h = SymbolicHamiltonian(sympy.sympify(eval(form_s, env)), nqubits=n)  # noqa: S307
        M = _pauli_terms_matrix(terms, const, n)
        src += "M = " + " + ".join(
            [f"({cf!r}) * " + " @ ".join(f"E(P['{k}'], {q}, n)" for k, q in fs) for cf, fs in terms] + [f"({const!r}) * np.eye(2**n)"]) + "\n"
        # model input: the real term list (coefficient, factors in the order the term keeps them)
        try:
            rterms = [(complex(t.coefficient), [(f.name[0], f.target_qubit) for f in t.factors]) for t in h.terms]
            rconst = complex(h.constant)
            toks = " ".join(f"{gi(cf)} {len(fs)} " + " ".join(f"{k} {q}" for k, q in fs) for cf, fs in rterms)
            lines.append(f"CIRC {n} {len(rterms)} {toks} {gis(amps)}")
            li = len(lines) - 1
        except ValueError:
            rterms, rconst, li = None, None, None
        meta.append((n, st, terms, const, c, h, M, amps, src, rterms, rconst, li))
    outs = run_driver(lines, driver=DRIVER)
    bad_layer = bad_value = 0
    for n, st, terms, const, c, h, M, amps, src, rterms, rconst, li in meta:
        orders = [_order_name(fs) for _, fs in terms]
        worst = "mixed" if "mixed" in orders else ("descending" if "descending" in orders else "ascending")
        ctx.case(("corr-circuit", n, _pauli_terms_src(terms, const), tuple(sorted(st.items()))))
        ctx.stat(f"circ_det_{worst}")
        psi = amps / np.linalg.norm(amps)
        exact = float(np.real(np.vdot(psi, M @ psi)))
        rec = []
        be = h.backend
        orig = be.execute_circuits

        def spy(circuits, *a, _orig=orig, _rec=rec, **k):
            _rec.extend(circuits)
            return _orig(circuits, *a, **k)

        exn = None
        try:
            be.execute_circuits = spy
            got = complex(h.expectation_from_circuit(c, nshots=40))
        except Exception as ex:  # noqa: BLE001
            got, exn = complex("nan"), ex
        finally:
            try:
                del be.execute_circuits
            except AttributeError:
                be.execute_circuits = orig
        model_val = None
        if li is not None:
            left, nrm = outs[li].split("||")
            nrm = parse_gis(nrm)[0].real
            mt = []
            for part in ([] if not left.strip() else left.split("|")):
                k, layer, v, e = part.split(";")
                mt.append((int(k), sorted((int(x.split(":")[0]), x.split(":")[1]) for x in layer.split()), parse_gis(v)[0], parse_gis(e)[0]))
            model_val = sum(cf * v / (2**k * nrm) for (cf, _), (k, _, v, _) in zip(rterms, mt)) + rconst
            # the theorem, on data: measuredValue = 2^k <psi|P psi>
            if any(abs(v - 2**k * e) > 0 for k, _, v, e in mt):
                bad_value += 1
                fail(ctx, "from-circuit:model-inconsistent", "model: measuredValue differs from 2^k <psi|P psi> (contradicts T15_circuit_term)", src, broken=["C15_corr_circuit_value"])
            # (1) the measurement layer of the real rotated circuits
            if rec and exn is None:
                real_layers = _layers_of(rec)
                model_layers = [ly for _, ly, _, _ in mt if ly]
                if real_layers != model_layers:
                    bad_layer += 1
                    ctx.stat("circ_layer_mismatch")
            elif exn is None:
                ctx.stat("circ_layer_not_recorded")
        # (2) the estimate: every shot is deterministic, so it must be exact
        ok = exn is None and abs(got - exact) < 1e-9
        if model_val is not None and abs(model_val - exact) > 1e-9:
            ok = False
        if ok:
            continue
        bad_value += 1
        if exn is not None:
            key = "from-circuit:raises:identity-term" if any(all(k == "I" for k, _ in fs) for _, fs in terms) else f"from-circuit:raises:{type(exn).__name__}"
        elif const != 0 and abs(got + const - exact) < 1e-9:
            key = "from-circuit:constant-dropped"
        else:
            key = f"from-circuit:{worst}"
        fail(ctx, key,
             f"expectation_from_circuit of {_pauli_terms_src(terms, const)} on the product of Pauli eigenstates {dict(sorted(st.items()))} (every shot deterministic) is "
             f"{got if exn is None else repr(exn)}, <psi|H|psi> = {exact}",
             src + "psi = c().state()\nexact = float(np.real(np.vdot(psi, M @ psi)))\n"
             "got = h.expectation_from_circuit(c, nshots=40)\nassert abs(got - exact) < 1e-9, (got, exact)\n",
             expected=exact, observed=str(got), broken=["C15_corr_circuit_value", "C15_corr_circuit_layer"])
    ctx.ob("C15_corr_circuit_layer", bad_layer == 0, "correspondence", f"{bad_layer} measurement layers differ from the model" if bad_layer else "")
    ctx.ob("C15_corr_circuit_value", bad_value == 0, "correspondence", f"{bad_value} estimates differ" if bad_value else "")


def circuit_search(ctx):
    """generic (entangled) states: the estimate is statistical; compare with <psi|H|psi>
    within six standard deviations (seeded sampling, so the replay is deterministic)."""
    import sympy

    from qibo import Circuit, gates
    from qibo.hamiltonians import SymbolicHamiltonian

    rng = ctx.rng
    allok = True
    nshots = 3000
    for it in range(24 if ctx.thorough else 9):
        n = rng.choice([2, 3, 3, 4])
        terms = _gen_pauli_terms(rng, n)
        const = 0  # the identity component is the business of corr_circuit
        c = Circuit(n)
        src = CIRC_PRE + f"n = {n}\nc = Circuit(n)\n"
        for _ in range(rng.randint(n, 2 * n + 1)):
            if n > 1 and rng.random() < 0.35:
                a, b = rng.sample(range(n), 2)
                c.add(gates.CNOT(a, b))
                src += f"c.add(gates.CNOT({a}, {b}))\n"
            else:
                g, q, th = rng.choice(["RX", "RY", "RZ"]), rng.randrange(n), round(rng.uniform(0, 2 * np.pi), 3)
                c.add(getattr(gates, g)(q, th))
                src += f"c.add(gates.{g}({q}, {th}))\n"
        form_s = _pauli_terms_src(terms, const)
        env = {}
        exec(CIRC_PRE, env)  # noqa: S102 - own generated text
        h = SymbolicHamiltonian(sympy.sympify(eval(form_s, env)), nqubits=n)  # noqa: S307
        M = _pauli_terms_matrix(terms, const, n)
        psi = np.asarray(c().state())
        exact = float(np.real(np.vdot(psi, M @ psi)))
        tol = 6 * float(np.sqrt(sum(abs(cf) ** 2 for cf, _ in terms) / nshots)) + 1e-9
        seed = rng.randrange(2**31)
        orders = [_order_name(fs) for _, fs in terms]
        worst = "mixed" if "mixed" in orders else ("descending" if "descending" in orders else "ascending")
        ctx.case(("circuit-search", n, form_s, src[-200:]))
        ctx.stat(f"circ_generic_{worst}")
        try:
            h.backend.set_seed(seed)
            got = float(np.real(h.expectation_from_circuit(c, nshots=nshots)))
        except Exception as exn:  # noqa: BLE001
            got = float("nan")
        if not abs(got - exact) <= tol:
            allok = False
            ctx.fail(f"from-circuit:statistical:{worst}",
                     f"expectation_from_circuit of {form_s} with {nshots} shots is {got}, <psi|H|psi> = {exact} (tolerance {tol:.4f} = 6 sigma)",
                     src + f"h = SymbolicHamiltonian(sympy.sympify({form_s}), nqubits=n)\nM = " + " + ".join(
                         [f"({cf!r}) * " + " @ ".join(f"E(P['{k}'], {q}, n)" for k, q in fs) for cf, fs in terms]) + "\n"
                     f"psi = c().state()\nexact = float(np.real(np.vdot(psi, M @ psi)))\nh.backend.set_seed({seed})\n"
                     f"got = float(np.real(h.expectation_from_circuit(c, nshots={nshots})))\nassert abs(got - exact) <= {tol!r}, (got, exact)\n",
                     expected=exact, observed=got, broken=["C15_search_circuit"])
    ctx.ob("C15_search_circuit", allok, "search", "" if allok else "see failing inputs")


# ---------------------------------------------------------------------------


def run(ctx):
    MODULES, THEOREMS = registry(PROP)
    ctx.theorems = THEOREMS
    build_and_audit(ctx, PROP, MODULES, THEOREMS)
    # correspondence model <-> real code (exact Gaussian-integer data)
    corr_forms(ctx)
    corr_samples(ctx)
    corr_models(ctx)
    corr_history(ctx)
    corr_circuit(ctx)
    # direct search on the real code against plain numpy arithmetic
    forms_search(ctx)
    algebra_search(ctx)
    eigcache_search(ctx)
    samples_search(ctx)
    models_search(ctx)
    history_search(ctx)
    samples_history_search(ctx)
    circuit_search(ctx)
    ctx.trusted += [
        "sympy: construction-time normalisation of expressions, `expand`, `as_coefficients_dict`, `as_ordered_terms/factors` keep the order of non-commutative symbols and denote the same element of the free algebra (the model's `expand` is compared with sympy's on every case: obligation C15_corr_expand_oracle)",
        "numpy kron / matmul / matrix_power / einsum on 2^n-dimensional arrays behave as the bit-label model of QV/Model/Hamil.lean (modelled, compared exactly on Gaussian-integer data on every run)",
        "np.linalg.eigh / eigvalsh, scipy.linalg.expm (spectra and exponentials are compared numerically, not modelled)",
    ]
    ctx.notes.append(
        "correspondence: random Pauli-polynomial forms (n<=4, several factors per qubit, powers<=4, nested sums in products/powers, "
        "Gaussian-integer coefficients as python complex / sympy Integer+I, custom 2x2 integer symbols, Hermitian and not) — real dense matrix, "
        "h@psi, h@rho, term list (coefficients, ordered factors, target qubits, term matrices, constant) and sympy's expansion vs the Lean model, exactly; "
        "Z-string expectation_from_samples of both classes under all/random qubit-map permutations; TFIM, X/Y/Z, Heisenberg / XXX / XXZ builders n<=4(5). "
        "search: the same observables plus expectation (state/DM, normalize), algebra histories (+ - scalar @, both classes, mixed refused), "
        "eigen/exp caches across scalar multiples of every sign, samples with dict/Counter/tuple maps/subset maps, all builders of models.py n<=5(6) vs explicit formulas, setters; "
        "algebra histories (lean/QV/Model/HamilAlg.lean): 2-3 symbolic objects, 2-6 steps of + - @ scalar multiples/shifts, c - h with operands read (h @ state) or fresh before each step — "
        "every object's h @ state, expectation and constant vs the model (fresh-parse and term-reuse variants, proved equivalent) and vs matrix arithmetic; "
        "expectation_from_samples of sums/differences of already used diagonal observables"
    )
    ctx.assumptions += [
        "expectation_from_circuit: the law of large numbers is not proved — the estimate is compared exactly on products of Pauli eigenstates (every shot deterministic) and within 6 sigma on generic states; terms with several factors on one qubit are outside this route (the real code measures Pauli strings only)",
        "sympy's normalisation of composed forms (h1 - h2 -> Add(f1, Mul(-1, f2)), collection of like terms) is trusted to keep the element of the free algebra; the history suite compares the resulting objects' action and constant with the model on every run",
        "sparse matrices and non-numpy backends are not exercised",
    ]
