"""C17, quantum-network part: exact correspondence of the Lean model `lean/QV/Model/Networks.lean`
(driver `lean/DriverC17b.lean`) with the real classes of `qibo/quantum_info/quantum_networks.py`
on Gaussian-integer data, plus exact direct searches of the statements proved in
`lean/QV/Props/C17d.lean` on the real classes.

Suites (all on every run; dims 1..3 per leg exhaustively, pure and non-pure, plus seeded random):
  net_ctor    every construction route (QuantumNetwork(...), from_operator, QuantumComb.from_operator
              with/without inverse, QuantumChannel(...), QuantumChannel.from_operator, IdentityChannel,
              TraceOperation): partition, system_input, is_pure, stored tensor, full(), matrix()
  net_apply   QuantumChannel.apply on Gaussian-integer operators
  net_link    link_product with two and three operands and several subscripts
  net_matmul  `@` for channel@channel and superchannel@channel including the refusals
  net_algebra (search) apply = Σ KρK† for both documented Choi conventions, `A @ B` = "A then B" =
              network of the composed Kraus family, associativity, identity channel is a unit,
              full(pure) = vec K vec K†, pure branch of apply = non-pure branch after full(update=True)
"""
from __future__ import annotations

import itertools

import numpy as np

from vlib.driver import gi_tokens, run_driver

DRIVER = "DriverC17b.lean"
NHDR = ("import numpy as np\nfrom qibo import set_backend\nset_backend('numpy')\n"
        "from qibo.quantum_info.quantum_networks import (QuantumNetwork, QuantumComb, QuantumChannel,\n"
        "    IdentityChannel, TraceOperation, link_product)\nfrom qibo.backends import NumpyBackend\nnb = NumpyBackend()\n")


def gi(rng, shape, lo=-2, hi=2, real=False):
    n = int(np.prod(shape)) if len(shape) else 1
    a = np.array([complex(rng.randint(lo, hi), 0 if real else rng.randint(lo, hi)) for _ in range(n)])
    return a.reshape(shape)


# The user may hand over tensors / operators / states of any numeric kind; the VALUES of every result must
# not depend on it (the dtype of the result is not compared).  Real kinds need data without imaginary part.
KINDS = ("c128", "c64", "f64", "i64")
REAL_KINDS = ("f64", "i64")
NPTYPE = {"c128": "complex128", "c64": "complex64", "f64": "float64", "i64": "int64"}


def as_kind(a, kind):
    """the same values as an array of the given kind ("list": nested python lists of complex numbers)."""
    a = np.asarray(a)
    if kind == "list":
        return a.tolist()
    if kind in REAL_KINDS:
        assert not np.iscomplexobj(a) or np.all(a.imag == 0)
        a = a.real
    return a.astype(getattr(np, NPTYPE[kind]))


def pick_kind(rng, data, kinds=KINDS):
    """a kind that can hold the data exactly."""
    data = np.asarray(data)
    is_real = not np.iscomplexobj(data) or bool(np.all(data.imag == 0))
    return rng.choice([k for k in kinds if is_real or k not in REAL_KINDS])


def arr_src(a):
    """source text reproducing the array WITH its dtype (python lists are written as lists)."""
    if isinstance(a, list):
        return repr(a)
    a = np.asarray(a)
    if a.dtype.kind in "fiu":
        return f"np.array({a.reshape(-1).tolist()!r}, dtype=np.{a.dtype.name}).reshape({tuple(a.shape)!r})"
    return f"np.array({a.reshape(-1).tolist()!r}, dtype=np.{a.dtype.name}).reshape({tuple(a.shape)!r})"


def prod(xs):
    out = 1
    for x in xs:
        out *= x
    return out


class NS:
    """a network given by its construction route; yields the driver tokens, the real object and
    a source expression for replays."""

    def __init__(self, route, part=(), data=None, pure=False, sys=None, inverse=False, shape=None, d=None, kind="c128"):
        self.route, self.part, self.data, self.pure = route, tuple(part), data, pure
        self.sys, self.inverse, self.shape, self.d = sys, inverse, shape, d
        self.kind = kind  # numeric kind of the array handed to the real constructor

    # -- driver tokens
    def tokens(self):
        p = " ".join(map(str, self.part))
        n = len(self.part)
        s = "0" if self.sys is None else "1 " + " ".join("1" if b else "0" for b in self.sys)
        dat = gi_tokens(self.data) if self.data is not None else ""
        r = self.route
        if r in ("N", "F", "Q", "B"):
            return f"{r} {int(self.pure)} {n} {p} {s} {dat}"
        if r in ("C", "H"):
            return f"{r} {int(self.pure)} {int(self.inverse)} {n} {p} {dat}"
        if r == "S":
            return f"S {self.d} {dat}"
        return f"{r} {self.d}"

    def _arr(self):
        a = np.asarray(self.data, dtype=complex)
        a = a.reshape(self.shape) if self.shape is not None else a
        return as_kind(a, self.kind)

    # -- real object
    def build(self):
        from qibo.backends import NumpyBackend
        from qibo.quantum_info import quantum_networks as qn

        nb = NumpyBackend()
        r = self.route
        if r == "N":
            return qn.QuantumNetwork(self._arr().copy(), self.part, self.sys, pure=self.pure, backend=nb)
        if r == "F":
            return qn.QuantumNetwork.from_operator(self._arr().copy(), self.part, self.sys, pure=self.pure, backend=nb)
        if r == "C":
            return qn.QuantumComb.from_operator(self._arr().copy(), self.part, inverse=self.inverse, pure=self.pure, backend=nb)
        if r == "H":
            return qn.QuantumChannel.from_operator(self._arr().copy(), self.part, inverse=self.inverse, pure=self.pure, backend=nb)
        if r == "Q":
            return qn.QuantumChannel(self._arr().copy(), self.part, self.sys, pure=self.pure, backend=nb)
        if r == "B":
            return qn.QuantumComb(self._arr().copy(), self.part, pure=self.pure, backend=nb)
        if r == "S":
            return qn.QuantumChannel.from_operator(self._arr().copy(), backend=nb)
        if r == "I":
            return qn.IdentityChannel(self.d, backend=nb)
        return qn.TraceOperation(self.d, backend=nb)

    def src(self):
        r = self.route
        a = arr_src(self._arr()) if self.data is not None else ""
        if r == "N":
            return f"QuantumNetwork({a}, {self.part!r}, {self.sys!r}, pure={self.pure}, backend=nb)"
        if r == "F":
            return f"QuantumNetwork.from_operator({a}, {self.part!r}, {self.sys!r}, pure={self.pure}, backend=nb)"
        if r == "C":
            return f"QuantumComb.from_operator({a}, {self.part!r}, inverse={self.inverse}, pure={self.pure}, backend=nb)"
        if r == "H":
            return f"QuantumChannel.from_operator({a}, {self.part!r}, inverse={self.inverse}, pure={self.pure}, backend=nb)"
        if r == "Q":
            return f"QuantumChannel({a}, {self.part!r}, {self.sys!r}, pure={self.pure}, backend=nb)"
        if r == "B":
            return f"QuantumComb({a}, {self.part!r}, pure={self.pure}, backend=nb)"
        if r == "S":
            return f"QuantumChannel.from_operator({a}, backend=nb)"
        if r == "I":
            return f"IdentityChannel({self.d}, backend=nb)"
        return f"TraceOperation({self.d}, backend=nb)"

    def key(self):
        return f"{self.route}:{'pure' if self.pure else 'full'}{':inv' if self.inverse else ''}" + ("" if self.kind == "c128" else f":{self.kind}")


def rand_net(rng, route, part, pure, inverse=False, sys=None, kind=None):
    """Gaussian-integer data of the right size for the route; the array is handed over in a shape
    the route accepts (the constructors reshape)."""
    part = tuple(part)
    m = prod(part)
    kind = kind or rng.choice(KINDS)
    real = kind in REAL_KINDS
    if route in ("N", "Q"):
        if route == "Q":
            # the class constructor completes a one-leg partition; data size is unchanged
            pass
        size = m if pure else m * m
        data = gi(rng, (size,), real=real)
        shapes = [(size,)]
        if pure:
            shapes.append(part)
        else:
            shapes += [tuple(p * p for p in part), (m, m)]
        return NS(route, part, data, pure, sys=sys, shape=rng.choice(shapes), kind=kind)
    if pure:
        return NS(route, part, gi(rng, (m,), real=real), True, sys=sys, inverse=inverse, shape=part, kind=kind)
    shape = rng.choice([(m, m), part + part])
    if route == "F" and shape != (m, m) and False:
        shape = (m, m)
    return NS(route, part, gi(rng, (m * m,), real=real), False, sys=sys, inverse=inverse, shape=shape, kind=kind)


def real_dump(net):
    return {
        "P": [int(x) for x in net.partition],
        "S": [bool(x) for x in net.system_input],
        "U": bool(net.is_pure()),
        "T": np.asarray(net._tensor).reshape(-1),  # stored representation (observable through operator())
        "F": np.asarray(net.full()).reshape(-1),
        "M": np.asarray(net.matrix()).reshape(-1),
    }


def parse_dump(line):
    if line.strip() == "none":
        return None
    out = {}
    for sec in line.split(";"):
        t = sec.split()
        tag, vals = t[0], [int(x) for x in t[1:]]
        if tag == "P":
            out["P"] = vals
        elif tag == "S":
            out["S"] = [bool(x) for x in vals]
        elif tag == "U":
            out["U"] = bool(vals[0])
        else:
            out[tag] = np.array([complex(vals[2 * k], vals[2 * k + 1]) for k in range(len(vals) // 2)])
    return out


def same_dump(a, b):
    if a is None or b is None:
        return a is None and b is None
    if a["P"] != b["P"] or a["S"] != b["S"] or a["U"] != b["U"]:
        return False
    return all(a[k].shape == b[k].shape and np.array_equal(a[k], b[k]) for k in ("T", "F", "M"))


def dump_str(d):
    if d is None:
        return "raises"
    return f"partition={d['P']} system_input={d['S']} pure={d['U']} tensor={d['T'].tolist()} full={d['F'].tolist()}"[:500]


class Suite:
    def __init__(self, ctx, name):
        self.ctx, self.name, self.ob = ctx, name, f"C17_corr_{name}"
        self.lines, self.meta = [], []

    def add(self, line, real_fn, key, src, what, parse=parse_dump, same=same_dump, show=dump_str, check=None):
        """`check(model) -> str`: assertion appended to the replay source (exit status != 0 iff it still fails)."""
        self.lines.append(line)
        self.meta.append((real_fn, key, src, what, parse, same, show, check))

    def run(self):
        ctx = self.ctx
        outs = run_driver(self.lines, driver=DRIVER)
        bad = 0
        for (real_fn, key, src, what, parse, same, show, check), out in zip(self.meta, outs):
            model = parse(out)
            try:
                real, err = real_fn(), None
            except Exception as e:  # noqa: BLE001
                real, err = None, e
            ctx.case((self.name, key, len(self.lines)) if False else None)
            ctx.stat(f"{self.name}:{key.split(':')[0]}")
            if not same(real, model):
                bad += 1
                ctx.fail(f"{self.name}:{key}", f"{what}: the real class differs from the index model"
                         + (f" (raised {type(err).__name__}: {err})" if err else ""),
                         NHDR + src + f"\n# model: {show(model)}\n" + (check(model) if check else ""), expected=show(model),
                         observed=(show(real) if err is None else repr(err)), broken=[self.ob])
        ctx.ob(self.ob, bad == 0, "correspondence", f"{bad} disagreements" if bad else f"{len(self.lines)} cases")
        return bad


def dump_assert(expr, model):
    """replay: the dump of `expr` must equal the model's dump."""
    if model is None:
        return (f"try:\n    net = {expr}\nexcept Exception:\n    raise SystemExit(0)\n"
                "raise SystemExit('the call is accepted although a required check should refuse it')")
    return (f"net = {expr}\nassert [int(x) for x in net.partition] == {model['P']!r}, net.partition\n"
            f"assert [bool(x) for x in net.system_input] == {model['S']!r}, net.system_input\n"
            f"assert bool(net.is_pure()) == {model['U']!r}\n"
            f"assert np.array_equal(np.asarray(net.full()).reshape(-1), np.array({model['F'].tolist()!r})), net.full().reshape(-1)\n"
            f"assert np.array_equal(np.asarray(net._tensor).reshape(-1), np.array({model['T'].tolist()!r}))\n"
            f"assert np.array_equal(np.asarray(net.matrix()).reshape(-1), np.array({model['M'].tolist()!r}))\n")


class LazySuite(Suite):
    """the replay source needs the model's answer: build it after the driver ran."""

    def add_net(self, line, real_fn, key, expr, what):
        self.lines.append(line)
        self.meta.append((real_fn, key, expr, what))

    def run(self):
        ctx = self.ctx
        outs = run_driver(self.lines, driver=DRIVER)
        bad = 0
        for (real_fn, key, expr, what), out in zip(self.meta, outs):
            model = parse_dump(out)
            try:
                real, err = real_fn(), None
            except Exception as e:  # noqa: BLE001
                real, err = None, e
            ctx.case()
            ctx.stat(f"{self.name}:{key.split(':')[0]}")
            if not same_dump(real, model):
                bad += 1
                ctx.fail(f"{self.name}:{key}", f"{what}: the real class differs from the index model"
                         + (f" (raised {type(err).__name__}: {err})" if err else ""),
                         NHDR + dump_assert(expr, model), expected=dump_str(model),
                         observed=(dump_str(real) if err is None else repr(err)), broken=[self.ob])
        ctx.ob(self.ob, bad == 0, "correspondence", f"{bad} disagreements" if bad else f"{len(self.lines)} cases")
        return bad


def partitions(maxlegs, maxdim=3):
    for n in range(1, maxlegs + 1):
        yield from itertools.product(range(1, maxdim + 1), repeat=n)


# ---------------------------------------------------------------------------------------------


def corr_ctor(ctx):
    rng = ctx.rng
    s = LazySuite(ctx, "net_ctor")

    def add(ns, what):
        s.add_net("NET " + ns.tokens(), lambda ns=ns: real_dump(ns.build()), ns.key() + f":{len(ns.part)}legs", ns.src(), what)

    for part in partitions(3 if ctx.thorough else 2):
        n = len(part)
        for pure in (False, True):
            if not pure and prod(part) > 12:
                continue
            sys_opts = [None, tuple(rng.random() < 0.5 for _ in range(n))]
            for sys in sys_opts:
                add(rand_net(rng, "N", part, pure, sys=sys), f"QuantumNetwork(tensor, {part}, {sys}, pure={pure})")
                add(rand_net(rng, "F", part, pure, sys=sys), f"QuantumNetwork.from_operator(op, {part}, {sys}, pure={pure})")
            if n % 2 == 0:
                for inv in (False, True):
                    add(rand_net(rng, "C", part, pure, inverse=inv), f"QuantumComb.from_operator(op, {part}, inverse={inv}, pure={pure})")
            if n <= 2:
                for inv in (False, True):
                    add(rand_net(rng, "H", part, pure, inverse=inv), f"QuantumChannel.from_operator(op, {part}, inverse={inv}, pure={pure})")
                sys_q = [None] + ([(True,), (False,)] if n == 1 else [])
                for sys in sys_q:
                    add(rand_net(rng, "Q", part, pure, sys=sys), f"QuantumChannel(tensor, {part}, {sys}, pure={pure})")
    # three and four legs (random subset), a comb with four legs
    extra = [(2, 1, 2), (1, 3, 2), (2, 2, 2), (3, 1, 1)] + [tuple(rng.randint(1, 2) for _ in range(4)) for _ in range(3)]
    for part in extra:
        for pure in (False, True):
            sys = tuple(rng.random() < 0.5 for _ in part)
            add(rand_net(rng, "N", part, pure, sys=sys), f"QuantumNetwork(tensor, {part}, {sys}, pure={pure})")
            add(rand_net(rng, "F", part, pure, sys=None), f"QuantumNetwork.from_operator(op, {part}, None, pure={pure})")
            if len(part) == 4:
                add(rand_net(rng, "C", part, pure, inverse=rng.random() < 0.5), f"QuantumComb.from_operator(op, {part}, pure={pure})")
    for d in (1, 2, 3):
        for kind in KINDS:
            add(NS("S", (1, d), gi(rng, (d * d,), real=kind in REAL_KINDS), shape=(d, d), d=d, kind=kind), f"QuantumChannel.from_operator(rho), dimension {d}, {kind} array")
        add(NS("I", (d, d), d=d), f"IdentityChannel({d})")
        add(NS("R", (d,), d=d), f"TraceOperation({d})")
    s.run()


def chan_specs(rng, din, dout, pure):
    """a channel object with partition (din, dout) through every route that yields one."""
    out = []
    for inv in (False, True):
        part = (dout, din) if inv else (din, dout)
        out.append(rand_net(rng, "H", part, pure, inverse=inv))
        out.append(rand_net(rng, "C", part, pure, inverse=inv))
    out.append(rand_net(rng, "Q", (din, dout), pure))
    return out


def corr_apply(ctx):
    rng = ctx.rng
    s = Suite(ctx, "net_apply")

    def parse(line):
        t = [int(x) for x in line.split()]
        return np.array([complex(t[2 * k], t[2 * k + 1]) for k in range(len(t) // 2)])

    def same(real, model):
        return real is not None and real.shape == model.shape and np.array_equal(real, model)

    def show(x):
        return "raises" if x is None else str(np.asarray(x).tolist())[:400]

    def chk(model):
        return f"exp = np.array({np.asarray(model).tolist()!r})\nassert out.shape == exp.shape and np.array_equal(out, exp), (out, exp)\n"

    for din, dout in itertools.product((1, 2, 3), repeat=2):
        for pure in (False, True):
            for ns in chan_specs(rng, din, dout, pure):
                if ns.route == "C":
                    continue  # QuantumComb has no apply
                # the state's kind is chosen independently of the channel's: real channel x complex state,
                # complex channel x real state, single precision, integers, nested python lists
                for skind in (rng.choice(("c128", "list")), rng.choice(("c64", "f64", "i64"))):
                    rho = gi(rng, (din, din), real=skind in REAL_KINDS)
                    state = as_kind(rho, skind)
                    ctx.stat(f"net_apply:kinds:{'real' if ns.kind in REAL_KINDS else 'complex'}-channel x {'real' if skind in REAL_KINDS else 'complex'}-state")
                    s.add(f"APPLY {ns.tokens()} {gi_tokens(rho)}",
                          lambda ns=ns, state=state: np.asarray(ns.build().apply(state.copy() if hasattr(state, "copy") else [list(r) for r in state])).reshape(-1),
                          f"{'pure' if pure else 'full'}:{'real' if ns.kind in REAL_KINDS else 'complex'}-channel:{'list' if skind == 'list' else 'real' if skind in REAL_KINDS else 'complex'}-state",
                          f"out = np.asarray({ns.src()}.apply({arr_src(state)})).reshape(-1)",
                          f"QuantumChannel.apply ({ns.key()}), dims {din}->{dout}, pure={pure}, channel array {ns.kind}, state {skind}", parse, same, show, chk)
    # a state (one-leg partition) and the one-leg input convention
    for d in (1, 2, 3):
        for pure in (False, True):
            ns = rand_net(rng, "H", (d,), pure)
            rho = gi(rng, (1, 1))
            s.add(f"APPLY {ns.tokens()} {gi_tokens(rho)}",
                  lambda ns=ns, rho=rho: np.asarray(ns.build().apply(rho.copy())).reshape(-1),
                  f"state-network:{'pure' if pure else 'full'}:{'real' if ns.kind in REAL_KINDS else 'complex'}", f"out = np.asarray({ns.src()}.apply({arr_src(rho)})).reshape(-1)", f"state network of dimension {d} applied to a scalar",
                  parse, same, show, chk)
    s.run()


LETTERS = "jklmnopq"


def subs_str(ins, out, rng):
    arrow = rng.choice(["->", " -> ", "-> "])
    comma = rng.choice([",", ", "])
    return comma.join("".join(LETTERS[x] for x in lab) for lab in ins) + arrow + "".join(LETTERS[x] for x in out)


def corr_link(ctx):
    from qibo.quantum_info import quantum_networks as qn

    rng = ctx.rng
    s = LazySuite(ctx, "net_link")
    # (input label lists, output labels)
    patterns = [
        ([[0, 1], [1, 2]], [0, 2]),      # channel then channel
        ([[0, 1], [2, 0]], [2, 1]),      # "jk,lj->lk": the second network first
        ([[0, 1], [1, 2]], [2, 0]),      # transposed output
        ([[0, 1, 2, 3], [1, 2]], [0, 3]),  # super-channel applied to a channel
        ([[0, 1], [1, 2], [2, 3]], [0, 3]),  # three operands
        ([[0, 1], [2, 3]], [0, 1, 2, 3]),  # tensor product
        ([[0, 1], [2, 3]], [0, 2, 1, 3]),  # tensor product, legs interleaved
        ([[0, 1], [1]], [0]),            # discard the output
        ([[0], [0, 1]], [1]),            # feed a state
        ([[0, 1], [0, 1]], []),          # full contraction
        ([[0, 1, 2], [1]], [0, 2]),      # contract a middle leg
    ]
    reps = 4 if ctx.thorough else 2
    for ins, out in patterns:
        labels = sorted({x for lab in ins for x in lab})
        combos = list(itertools.product((1, 2, 3), repeat=len(labels)))
        if len(combos) > 27:
            combos = [c for c in combos if max(c) <= 2] + rng.sample(combos, 6)
        picks = combos if len(labels) <= 3 else combos
        for dims in picks:
            dim = dict(zip(labels, dims))
            if prod(dim[x] ** 2 for x in out) > 1300:
                continue
            for _ in range(reps if len(labels) <= 3 else 1):
                ops = []
                for lab in ins:
                    part = tuple(dim[x] for x in lab)
                    pure = rng.random() < 0.4
                    if not pure and prod(part) > 12:
                        pure = True
                    sys = tuple(rng.random() < 0.5 for _ in part)
                    ops.append(rand_net(rng, "N", part, pure, sys=sys))
                sub = subs_str(ins, out, rng)
                line = f"LINK {len(ops)} " + " ".join(f"{len(lab)} {' '.join(map(str, lab))} {ns.tokens()}" for lab, ns in zip(ins, ops)) \
                    + f" {len(out)} {' '.join(map(str, out))}"
                method = len(ops) == 2 and rng.random() < 0.5

                def real(ops=ops, sub=sub, method=method):
                    nets = [ns.build() for ns in ops]
                    if method:
                        return real_dump(nets[0].link_product(sub, nets[1]))
                    return real_dump(qn.link_product(sub, *nets, surpress_warning=True))

                expr = (f"{ops[0].src()}.link_product({sub!r}, {ops[1].src()})" if method
                        else f"link_product({sub!r}, " + ", ".join(ns.src() for ns in ops) + ", surpress_warning=True)")
                s.add_net(line, real, f"{''.join(LETTERS[x] for x in ins[0])}-{len(ins)}ops", expr, f"link_product({sub!r}) with partitions {[ns.part for ns in ops]}")
    s.run()


def corr_matmul(ctx):
    rng = ctx.rng
    s = LazySuite(ctx, "net_matmul")
    for d0, d1, d2 in itertools.product((1, 2, 3), repeat=3):
        for pa, pb in itertools.product((False, True), repeat=2):
            A = rng.choice(chan_specs(rng, d0, d1, pa))
            B = rng.choice(chan_specs(rng, d1, d2, pb))
            s.add_net(f"MATMUL {A.tokens()} {B.tokens()}", lambda A=A, B=B: real_dump(A.build() @ B.build()),
                      f"channel:{'p' if pa else 'f'}{'p' if pb else 'f'}", f"({A.src()}) @ ({B.src()})", f"A @ B with dims {d0}->{d1}->{d2}")
    # state network fed through a channel (partition (1, d) @ (d, d'))
    for d0, d1 in itertools.product((1, 2, 3), repeat=2):
        ka = rng.choice(KINDS)
        A = NS("S", (1, d0), gi(rng, (d0 * d0,), real=ka in REAL_KINDS), shape=(d0, d0), d=d0, kind=ka)
        B = rng.choice(chan_specs(rng, d0, d1, rng.random() < 0.5))
        s.add_net(f"MATMUL {A.tokens()} {B.tokens()}", lambda A=A, B=B: real_dump(A.build() @ B.build()), "state",
                  f"({A.src()}) @ ({B.src()})", f"state @ channel, dims {d0}->{d1}")
    # refusals: inner dimensions differ / wrong number of legs
    for _ in range(6):
        d0, d1, d1b, d2 = (rng.randint(1, 3) for _ in range(4))
        if d1 == d1b:
            d1b = d1 % 3 + 1
        A = rand_net(rng, "N", (d0, d1), rng.random() < 0.5)
        B = rand_net(rng, "N", (d1b, d2), rng.random() < 0.5)
        s.add_net(f"MATMUL {A.tokens()} {B.tokens()}", lambda A=A, B=B: real_dump(A.build() @ B.build()), "refuse:inner",
                  f"({A.src()}) @ ({B.src()})", f"A @ B with mismatching inner dimensions {d1} != {d1b}")
    for pa, pb in (((2, 2), (2,)), ((2, 2), (2, 2, 2)), ((2,), (2, 2)), ((2, 2, 2), (2, 2)), ((1, 2, 2, 1), (2, 2, 1))):
        A = rand_net(rng, "N", pa, True)
        B = rand_net(rng, "N", pb, True)
        s.add_net(f"MATMUL {A.tokens()} {B.tokens()}", lambda A=A, B=B: real_dump(A.build() @ B.build()), "refuse:legs",
                  f"({A.src()}) @ ({B.src()})", f"A @ B with partitions {pa} and {pb}")
    # super-channel @ channel
    for dims in itertools.product((1, 2), repeat=4):
        for _ in range(1 if not ctx.thorough else 2):
            S = rand_net(rng, "N", dims, rng.random() < 0.5, sys=(True, False, True, False) if rng.random() < 0.5 else None)
            B = rng.choice(chan_specs(rng, dims[1], dims[2], rng.random() < 0.5))
            s.add_net(f"MATMUL {S.tokens()} {B.tokens()}", lambda S=S, B=B: real_dump(S.build() @ B.build()), "super",
                      f"({S.src()}) @ ({B.src()})", f"S @ B with super-channel partition {dims}")
    s.run()


def gi_isometry(rng, dout, din):
    """dout x din matrix with orthonormal columns and entries in {0, ±1, ±i} (needs din <= dout)."""
    rows = rng.sample(range(dout), din)
    K = np.zeros((dout, din), dtype=complex)
    for c, r in enumerate(rows):
        K[r, c] = rng.choice([1, -1, 1j, -1j])
    return K


def kraus_tensor(Ks, din, dout):
    """T[t0, t1] = Σ K[t1/dout, t0/din] conj K[t1%dout, t0%din] (partition (din, dout))."""
    T = np.zeros((din * din, dout * dout), dtype=complex)
    for K in Ks:
        T += np.einsum("oi,pk->ikop", K, K.conj()).reshape(din * din, dout * dout)
    return T


def corr_pred(ctx):
    """is_hermitian / is_causal / is_unital: exact Boolean agreement on Gaussian-integer tensors —
    positives built from (scaled) isometries, unital families, tensor products of channels (4-leg
    combs), negatives by perturbing one entry, plus arbitrary tensors."""
    rng = ctx.rng
    s = Suite(ctx, "net_pred")

    def parse(line):
        return line.split()

    def same(real, model):
        return real is not None and list(real) == list(model)

    def show(x):
        return "raises" if x is None else f"is_hermitian, is_causal, is_unital = {list(x)}"

    def add(ns, what):
        def real(ns=ns):
            net = ns.build()
            h = "1" if net.is_hermitian() else "0"
            c = ("1" if net.is_causal() else "0") if hasattr(net, "is_causal") else "-"
            u = ("1" if net.is_unital() else "0") if hasattr(net, "is_unital") and len(net.partition) == 2 else "-"
            for nm, v in (("hermitian", h), ("causal", c), ("unital", u)):
                if v != "-":
                    ctx.stat(f"net_pred:{nm}_{'true' if v == '1' else 'false'}")
            return [h, c, u]

        def parse_for(line, ns=ns):
            t = line.split()
            # the model answers for every even / two-leg partition; the class may not have the method
            cls_has_causal = ns.route in ("B", "C", "H", "Q", "I", "S")
            cls_has_unital = ns.route in ("H", "Q", "I", "S")
            return [t[0], t[1] if cls_has_causal else "-", t[2] if cls_has_unital else "-"]

        def chk(model):
            return ("got = ['1' if net.is_hermitian() else '0'] + [('1' if getattr(net, m)() else '0') if hasattr(net, m) and ok else '-' "
                    "for m, ok in (('is_causal', True), ('is_unital', len(net.partition) == 2))]\n"
                    f"assert got == {list(model)!r}, got\n")

        s.add("PRED " + ns.tokens(), real, ns.key(), f"net = {ns.src()}", what, parse_for, same, show, chk)

    def chan(T, din, dout, route="Q"):
        return NS(route, (din, dout), T.reshape(-1), False, shape=(din * din, dout * dout), kind=pick_kind(rng, T))

    for din, dout in itertools.product((1, 2, 3), repeat=2):
        for _ in range(2):
            fams = []
            if din <= dout:
                fams.append(("isometries", [gi_isometry(rng, dout, din) for _ in range(rng.randint(1, 3))]))
            if dout <= din:
                fams.append(("co-isometries", [gi_isometry(rng, din, dout).conj().T for _ in range(rng.randint(1, 2))]))
            fams.append(("generic", [gi(rng, (dout, din)) for _ in range(rng.randint(1, 2))]))
            for label, Ks in fams:
                T = kraus_tensor(Ks, din, dout)
                add(chan(T, din, dout, rng.choice(["Q", "B"])), f"channel object of a {label} Kraus family, dims {din}->{dout}")
                T2 = T.copy()
                T2[rng.randrange(T.shape[0]), rng.randrange(T.shape[1])] += rng.choice([1, 1j, -1])
                add(chan(T2, din, dout, rng.choice(["Q", "B"])), f"perturbed channel object ({label}), dims {din}->{dout}")
        add(rand_net(rng, "Q", (din, dout), True), f"pure channel object, dims {din}->{dout}")
        K = gi_isometry(rng, max(din, dout), min(din, dout))
        K = K if dout >= din else K.conj().T
        add(NS("H", (dout, din), K.reshape(-1), True, inverse=True, shape=(dout, din), kind=pick_kind(rng, K)), f"pure channel object of a (co-)isometry, dims {din}->{dout}")
    for d in (1, 2, 3):
        add(NS("I", (d, d), d=d), f"IdentityChannel({d})")
        rho = gi(rng, (d, d))
        add(NS("S", (1, d), (rho + rho.conj().T).reshape(-1), shape=(d, d), d=d), f"hermitian state network, dimension {d}")
        add(NS("S", (1, d), rho.reshape(-1), shape=(d, d), d=d), f"generic state network, dimension {d}")
    # 4-leg combs: tensor products of two channel objects (causal iff both factors are), perturbed
    for dims in [(1, 2, 2, 1), (2, 2, 1, 1), (2, 1, 1, 2), (1, 1, 2, 2), (2, 2, 2, 2), (2, 2, 2, 1)][: (6 if ctx.thorough else 5)]:
        d0, d1, d2, d3 = dims
        for variant in ("tp", "generic", "perturbed"):
            def fam(a, b):
                if variant != "generic" and a <= b:
                    return [gi_isometry(rng, b, a)]
                return [gi(rng, (b, a))]

            TP, TQ = kraus_tensor(fam(d0, d1), d0, d1), kraus_tensor(fam(d2, d3), d2, d3)
            T = np.einsum("ab,cd->abcd", TP, TQ)
            if variant == "perturbed":
                idx = tuple(rng.randrange(k) for k in T.shape)
                T[idx] += 1
            add(NS("B", dims, T.reshape(-1), False, shape=T.shape, kind=pick_kind(rng, T)), f"4-leg comb P⊗Q ({variant}), partition {dims}")
    for part in [(2,), (3,), (2, 2), (1, 2), (2, 1, 2)]:
        add(rand_net(rng, "N", part, False), f"QuantumNetwork with partition {part}: is_hermitian")
        M = gi(rng, (prod(part), prod(part)))
        add(NS("F", part, (M + M.conj().T).reshape(-1), False, shape=(prod(part), prod(part))), f"QuantumNetwork from a hermitian operator, partition {part}")
    s.run()
    for k in ("causal_true", "causal_false", "unital_true", "unital_false", "hermitian_true", "hermitian_false"):
        ctx.stats.setdefault("net_pred:" + k, 0)


def corr_misc(ctx):
    rng = ctx.rng
    s = LazySuite(ctx, "net_misc")
    for part in [(1,), (2,), (3,), (1, 2), (2, 2), (3, 2), (2, 1, 2)]:
        for pa, pb in itertools.product((False, True), repeat=2):
            sys = tuple(rng.random() < 0.5 for _ in part)
            A = rand_net(rng, "N", part, pa, sys=sys)
            B = rand_net(rng, "N", part, pb, sys=sys)
            s.add_net(f"ADD {A.tokens()} {B.tokens()}", lambda A=A, B=B: real_dump(A.build() + B.build()), "add",
                      f"({A.src()}) + ({B.src()})", f"A + B, partition {part}")
            s.add_net(f"CONJ {A.tokens()}", lambda A=A: real_dump(A.build().conj()), "conj", f"({A.src()}).conj()", f"A.conj(), partition {part}")
    s.run()


# ---------------------------------------------------------------------------------------------
# direct exact search of the proved statements on the real classes


def search_algebra(ctx):
    from qibo.backends import NumpyBackend
    from qibo.quantum_info import quantum_networks as qn
    from qibo.quantum_info import superoperator_transformations as st

    nb = NumpyBackend()
    rng = ctx.rng
    name = "C17_search_net_algebra"
    bad = 0

    def check(ok, key, what, py, expected=None, observed=None):
        nonlocal bad
        ctx.case()
        ctx.stat("net_algebra:" + key.split(":")[0])
        if not ok:
            bad += 1
            ctx.fail(key, what, NHDR + py, expected=expected, observed=observed, broken=[name])

    def row_choi(Ks):
        return sum(np.outer(K.reshape(-1), K.reshape(-1).conj()) for K in Ks)

    def col_choi(Ks):
        return sum(np.outer(K.T.reshape(-1), K.T.reshape(-1).conj()) for K in Ks)

    def choi_kind(C, kind):
        return as_kind(C, kind if (kind not in REAL_KINDS or np.all(np.asarray(C).imag == 0)) else "c128")

    def kraus_net(Ks, din, dout, conv, kind="c128"):
        if conv == "row":
            return qn.QuantumChannel.from_operator(choi_kind(row_choi(Ks), kind), (dout, din), inverse=True, backend=nb)
        return qn.QuantumChannel.from_operator(choi_kind(col_choi(Ks), kind), (din, dout), backend=nb)

    def kraus_src(Ks, din, dout, conv, kind="c128"):
        if conv == "row":
            return f"QuantumChannel.from_operator({arr_src(choi_kind(row_choi(Ks), kind))}, ({dout}, {din}), inverse=True, backend=nb)"
        return f"QuantumChannel.from_operator({arr_src(choi_kind(col_choi(Ks), kind))}, ({din}, {dout}), backend=nb)"

    def cp(x):
        return x.copy() if hasattr(x, "copy") else [list(r) for r in x]

    def kinds_pair():
        """(kind of the channel's arrays, kind of the state): every second time one side is real and the other
        genuinely complex — the combination in which a cast to the other side's dtype loses the imaginary part."""
        r = rng.random()
        if r < 0.35:
            return rng.choice(REAL_KINDS), rng.choice(("c128", "c64", "list"))
        if r < 0.6:
            return rng.choice(("c128", "c64")), rng.choice(REAL_KINDS)
        return rng.choice(KINDS), rng.choice(KINDS + ("list",))

    def safe(f):
        try:
            return f()
        except Exception as e:  # noqa: BLE001
            return e

    def pure_case(din, dout, ck, sk):
        """pure channel: full() = Choi tensor of the stored operator, apply agrees before/after full(update=True)."""
        U = gi(rng, (dout, din), real=ck in REAL_KINDS)
        rho = gi(rng, (din, din), real=sk in REAL_KINDS)
        Uk, state = as_kind(U, ck), as_kind(rho, sk)
        truth = U @ rho @ U.conj().T
        ctx.stat(f"net_algebra:kinds:{'real' if ck in REAL_KINDS else 'complex'}-channel x {'real' if sk in REAL_KINDS else 'complex'}-state")

        def pure_full():
            p = qn.QuantumChannel.from_operator(Uk.copy(), (dout, din), pure=True, inverse=True, backend=nb)
            q = kraus_net([U], din, dout, "row")
            a1 = np.asarray(p.apply(cp(state)))
            ok = np.array_equal(np.asarray(p.full()), np.asarray(q.full())) and np.array_equal(a1, truth)
            ok = ok and np.array_equal(np.asarray(p.matrix()), np.outer(U.T.reshape(-1), U.T.reshape(-1).conj()))
            p.full(update=True)
            return ok and not p.is_pure() and np.array_equal(np.asarray(p.apply(cp(state))), truth)

        ok = safe(pure_full)
        check(ok is True, "network-apply:pure", f"pure channel object of K: full() is not vec K vec K† in the input-first order, or apply differs from KρK† before/after full(update=True) (dims {din}->{dout}, operator {ck}, state {sk})",
              f"U = {arr_src(Uk)}\nrho = {arr_src(state)}\np = QuantumChannel.from_operator(U, ({dout}, {din}), pure=True, inverse=True, backend=nb)\n"
              f"assert np.array_equal(p.matrix(), np.outer(U.T.reshape(-1), U.T.reshape(-1).conj()))\nassert np.array_equal(p.apply(rho), U @ rho @ U.conj().T)\n"
              "p.full(update=True)\nassert np.array_equal(p.apply(rho), U @ rho @ U.conj().T)\n", observed=repr(ok))

    for din, dout in itertools.product((1, 2, 3), repeat=2):
        for rank in (1, 2, 3):
            ck, sk = kinds_pair()
            Ks = [gi(rng, (dout, din), real=ck in REAL_KINDS) for _ in range(rank)]
            rho = gi(rng, (din, din), real=sk in REAL_KINDS)
            state = as_kind(rho, sk)
            truth = sum(K @ rho @ K.conj().T for K in Ks)
            ctx.stat(f"net_algebra:kinds:{'real' if ck in REAL_KINDS else 'complex'}-channel x {'real' if sk in REAL_KINDS else 'complex'}-state")
            for conv in ("row", "column"):
                out = safe(lambda: np.asarray(kraus_net(Ks, din, dout, conv, ck).apply(cp(state))))
                ok = isinstance(out, np.ndarray) and out.shape == truth.shape and np.array_equal(out, truth)
                check(ok, f"network-apply:mixed", f"apply of the channel object built from the {conv}-order Choi operator ({ck} array) of a Kraus family "
                      f"({'inverse=True' if conv == 'row' else 'input leg first'}) to a {sk} state differs from Σ KρK† (dims {din}->{dout}, rank {rank})",
                      f"ch = {kraus_src(Ks, din, dout, conv, ck)}\nout = np.asarray(ch.apply({arr_src(state)}))\nexp = {arr_src(truth)}\nassert out.shape == exp.shape and np.array_equal(out, exp), (out, exp)\n",
                      expected=str(truth.tolist()), observed=str(out.tolist() if isinstance(out, np.ndarray) else out))
            # composition with a second channel dout -> d2, both conventions mixed
            d2 = rng.randint(1, 3)
            Ls = [gi(rng, (d2, dout)) for _ in range(rng.randint(1, 2))]
            c1, c2 = rng.choice(("row", "column")), rng.choice(("row", "column"))
            comp_K = [L @ K for K in Ks for L in Ls]

            def comp():
                A, B = kraus_net(Ks, din, dout, c1, ck), kraus_net(Ls, dout, d2, c2)
                C = A @ B
                D = kraus_net(comp_K, din, d2, "row")
                a = np.asarray(qn.QuantumChannel(C.full(), C.partition, backend=nb).apply(cp(state)))
                return (tuple(C.partition) == (din, d2) and tuple(C.system_input) == (True, False)
                        and np.array_equal(np.asarray(C.full()), np.asarray(D.full()))
                        and np.array_equal(a, sum(L @ truth @ L.conj().T for L in Ls)))

            ok = safe(comp)
            check(ok is True, "network-compose", f"A @ B is not the channel object of 'A then B' = Kraus family {{L·K}} (dims {din}->{dout}->{d2})",
                  f"A = {kraus_src(Ks, din, dout, c1, ck)}\nB = {kraus_src(Ls, dout, d2, c2)}\nD = {kraus_src(comp_K, din, d2, 'row')}\n"
                  "C = A @ B\nassert tuple(C.partition) == tuple(D.partition) and tuple(C.system_input) == (True, False)\nassert np.array_equal(C.full(), D.full())\n",
                  observed=repr(ok))
            # associativity and units, arbitrary (not completely positive) tensors, pure and not
            d3 = rng.randint(1, 3)
            specs = [rng.choice(chan_specs(rng, a, b, rng.random() < 0.5)) for a, b in ((din, dout), (dout, d2), (d2, d3))]

            def assoc():
                A, B, C = (ns.build() for ns in specs)
                l, r = (A @ B) @ C, A @ (B @ C)
                return np.array_equal(np.asarray(l.full()), np.asarray(r.full())) and tuple(l.partition) == tuple(r.partition) == (din, d3)

            ok = safe(assoc)
            check(ok is True, "network-compose:assoc", f"(A @ B) @ C != A @ (B @ C) (dims {din}->{dout}->{d2}->{d3})",
                  "A, B, C = " + ", ".join(ns.src() for ns in specs) + "\nassert np.array_equal(((A @ B) @ C).full(), (A @ (B @ C)).full())\n", observed=repr(ok))

            def unit():
                A = specs[0].build()
                return (np.array_equal(np.asarray((qn.IdentityChannel(din, backend=nb) @ A).full()), np.asarray(A.full()))
                        and np.array_equal(np.asarray((A @ qn.IdentityChannel(dout, backend=nb)).full()), np.asarray(A.full())))

            ok = safe(unit)
            check(ok is True, "network-compose:unit", f"IdentityChannel is not a unit of @ (dims {din}->{dout})",
                  f"A = {specs[0].src()}\nassert np.array_equal((IdentityChannel({din}, backend=nb) @ A).full(), A.full())\n"
                  f"assert np.array_equal((A @ IdentityChannel({dout}, backend=nb)).full(), A.full())\n", observed=repr(ok))
        # pure channel: full() = Choi tensor of the stored operator, apply agrees before/after full(update=True)
        for ck, sk in (kinds_pair(), (rng.choice(REAL_KINDS), "c128")):
            pure_case(din, dout, ck, sk)

    # the Choi operator straight from kraus_to_choi (qubit channels): row with inverse, column without
    for n in (1, 2):
        d = 2**n
        Ks = [gi(rng, (d, d)) for _ in range(rng.randint(1, 3))]
        rho = gi(rng, (d, d))
        truth = sum(K @ rho @ K.conj().T for K in Ks)
        kl = [(tuple(range(n)), K) for K in Ks]
        for order, inv in (("row", True), ("column", False)):
            def f(order=order, inv=inv):
                C = st.kraus_to_choi([(q, K.copy()) for q, K in kl], order=order)
                return np.asarray(qn.QuantumChannel.from_operator(C, (d, d), inverse=inv, backend=nb).apply(rho.copy()))

            out = safe(f)
            ok = isinstance(out, np.ndarray) and np.array_equal(out, truth)
            check(ok, "network-apply:mixed", f"QuantumChannel.from_operator(kraus_to_choi(K, order={order!r}), inverse={inv}).apply(ρ) differs from Σ KρK† ({n} qubits)",
                  "from qibo.quantum_info import superoperator_transformations as st\n"
                  f"Ks = [{', '.join(arr_src(K) for K in Ks)}]\nC = st.kraus_to_choi([({tuple(range(n))!r}, K) for K in Ks], order={order!r})\n"
                  f"out = QuantumChannel.from_operator(C, ({d}, {d}), inverse={inv}, backend=nb).apply({arr_src(rho)})\nassert np.array_equal(out, {arr_src(truth)})\n",
                  observed=str(out.tolist() if isinstance(out, np.ndarray) else out))
    ctx.ob(name, bad == 0, "search", f"{bad} failing inputs" if bad else "")


def observe_dimension_check(ctx):
    """OBSERVATION ONLY (never an obligation, never a failure; decision of the lead): `link_product` and
    the super-channel branch of `@` accept connected systems of different dimension when one of them
    is 1 (numpy's einsum broadcasts the size-1 axis); `A @ B` for two channels and all other
    mismatches are refused.  Composing ill-typed networks is outside the statement of C17 — the
    composition theorems of lean/QV/Props/C17d.lean carry the matching-dimension hypothesis — so
    this only records how many ill-typed compositions the real code accepts / refuses."""
    from qibo.quantum_info import quantum_networks as qn

    rng = ctx.rng
    cases = []
    for d in (2, 3):
        cases.append(("jk,kl->jl", [(2, 1), (d, 2)], False))
        cases.append(("jk,kl->jl", [(2, d), (1, 2)], False))
        cases.append(("j,jk->k", [(1,), (d, 2)], False))
        cases.append(("jk,kl,lm->jm", [(2, 2), (2, 1), (d, 2)], False))
        cases.append(("@", [(2, 2, 1, 2), (2, d)], True))
        cases.append(("@", [(2, 2, d, 2), (2, 1)], True))
    cases.append(("@", [(2, 3), (2, 2)], True))
    cases.append(("jk,kl->jl", [(2, 2), (3, 2)], False))
    for sub, parts, mat in cases:
        ops = [rand_net(rng, "N", part, rng.random() < 0.5) for part in parts]
        try:
            nets = [ns.build() for ns in ops]
            _ = nets[0] @ nets[1] if mat else qn.link_product(sub, *nets, surpress_warning=True)
            accepted = True
        except Exception:  # noqa: BLE001
            accepted = False
        ctx.stat("observation:ill-typed-composition:" + ("accepted" if accepted else "refused"))


def search_dilation(ctx):
    """statements of lean/QV/Props/C17e.lean on the real kraus_to_stinespring / stinespring_to_kraus,
    exactly, on Gaussian-integer Kraus families, environment states and operators; the model's
    `applyStinespring` is compared with the same partial trace computed by numpy."""
    from qibo.quantum_info import superoperator_transformations as st

    rng = ctx.rng
    name = "C17_search_dilation"
    HDR = "import numpy as np\nfrom qibo import set_backend\nset_backend('numpy')\nfrom qibo.quantum_info import superoperator_transformations as st\n"
    bad = 0
    lines, expect = [], []

    def ptrace(S, v, rho, d, e):
        big = S @ np.kron(rho, np.outer(v, v.conj())) @ S.conj().T
        return np.einsum("iaja->ij", big.reshape(d, e, d, e))

    def check(ok, key, what, py, expected=None, observed=None):
        nonlocal bad
        ctx.case()
        ctx.stat("dilation:" + key.split(":")[-1])
        if not ok:
            bad += 1
            ctx.fail(key, what, HDR + py, expected=expected, observed=observed, broken=[name])

    for n in (1, 2):
        d = 2**n
        for e in (1, 2, 3, 4):
            for default_env in (False, True):
                Ks = [gi(rng, (d, d)) for _ in range(e)]
                kl = [(tuple(range(n)), K) for K in Ks]
                v = gi(rng, (e,))
                if default_env:
                    v = np.zeros(e, dtype=complex)
                    v[0] = 1
                rho = gi(rng, (d, d))
                nv = np.vdot(v, v)
                truth = sum(K @ rho @ K.conj().T for K in Ks)
                ksrc = "[" + ", ".join(f"({tuple(range(n))!r}, {arr_src(K)})" for K in Ks) + "]"
                call = f"st.kraus_to_stinespring({ksrc}, nqubits={n}" + ("" if default_env else f", initial_state_env={arr_src(v)}") + ")"
                try:
                    if default_env:
                        S = np.asarray(st.kraus_to_stinespring([(q, K.copy()) for q, K in kl], nqubits=n))
                    else:
                        S = np.asarray(st.kraus_to_stinespring([(q, K.copy()) for q, K in kl], nqubits=n, initial_state_env=v.copy()))
                    out = ptrace(S, v, rho, d, e)
                    ok = np.array_equal(out, nv * nv * truth)
                except Exception as ex:  # noqa: BLE001
                    S, out, ok = None, repr(ex), False
                check(ok, "stinespring-dilation:action", f"Tr_env U(ρ⊗|v><v|)U† != <v|v>²·Σ KρK† for U = kraus_to_stinespring(K, v) ({n} qubits, {e} operators{', default environment' if default_env else ''})",
                      f"U = {call}\nv = {arr_src(v)}\nrho = {arr_src(rho)}\nbig = U @ np.kron(rho, np.outer(v, v.conj())) @ U.conj().T\n"
                      f"out = np.einsum('iaja->ij', big.reshape({d}, {e}, {d}, {e}))\nexp = {arr_src(nv * nv * truth)}\nassert np.array_equal(out, exp), (out, exp)\n",
                      expected=str((nv * nv * truth).tolist()), observed=str(out.tolist() if isinstance(out, np.ndarray) else out))
                if S is None:
                    continue
                gram = sum(K.conj().T @ K for K in Ks)
                ok = np.array_equal(S.conj().T @ S, np.kron(gram, np.outer(v, v.conj())))
                check(ok, "stinespring-dilation:isometry", f"U†U != (Σ K†K) ⊗ |v><v| for U = kraus_to_stinespring(K, v) ({n} qubits, {e} operators)",
                      f"U = {call}\nv = {arr_src(v)}\nG = {arr_src(gram)}\nassert np.array_equal(U.conj().T @ U, np.kron(G, np.outer(v, v.conj())))\n")
                # any matrix S: stinespring_to_kraus gives a Kraus family of the dilation's action; reverse round trip
                T = gi(rng, (d * e, d * e))
                try:
                    kw = {} if default_env else {"initial_state_env": v.copy()}
                    back = [np.asarray(K) for K in st.stinespring_to_kraus(T.copy(), e, nqubits=n, **kw)]
                    ok = len(back) == e and np.array_equal(sum(K @ rho @ K.conj().T for K in back), ptrace(T, v, rho, d, e))
                    again = np.asarray(st.kraus_to_stinespring([(tuple(range(n)), K) for K in back], nqubits=n, **kw))
                    ok2 = np.array_equal(again, T @ np.kron(np.eye(d), np.outer(v, v.conj())))
                except Exception as ex:  # noqa: BLE001
                    ok = ok2 = False
                kws = "" if default_env else f", initial_state_env={arr_src(v)}"
                check(ok, "stinespring-dilation:to_kraus", f"stinespring_to_kraus(S, {e}, v) is not a Kraus family of ρ ↦ Tr_env S(ρ⊗|v><v|)S† ({n} qubits)",
                      f"S = {arr_src(T)}\nv = {arr_src(v)}\nrho = {arr_src(rho)}\nKs = st.stinespring_to_kraus(S, {e}, nqubits={n}{kws})\n"
                      f"big = S @ np.kron(rho, np.outer(v, v.conj())) @ S.conj().T\nassert np.array_equal(sum(K @ rho @ K.conj().T for K in Ks), np.einsum('iaja->ij', big.reshape({d}, {e}, {d}, {e})))\n")
                check(ok2, "stinespring-dilation:reverse-roundtrip", f"kraus_to_stinespring(stinespring_to_kraus(S, v), v) != S·(1⊗|v><v|) ({n} qubits, dim_env {e})",
                      f"S = {arr_src(T)}\nv = {arr_src(v)}\nKs = st.stinespring_to_kraus(S, {e}, nqubits={n}{kws})\n"
                      f"again = st.kraus_to_stinespring([({tuple(range(n))!r}, K) for K in Ks], nqubits={n}{kws})\nassert np.array_equal(again, S @ np.kron(np.eye({d}), np.outer(v, v.conj())))\n")
                # the model's SPEC `applyStinespring` against numpy's partial trace, on the real U and on T
                for M in (S, T):
                    lines.append(f"ASTINE {d} {e} {gi_tokens(M)} {gi_tokens(v)} {gi_tokens(rho)}")
                    expect.append(ptrace(M, v, rho, d, e).reshape(-1))
    outs = run_driver(lines, driver=DRIVER)
    nbad = 0
    for line, exp in zip(outs, expect):
        t = [int(x) for x in line.split()]
        got = np.array([complex(t[2 * k], t[2 * k + 1]) for k in range(len(t) // 2)])
        ctx.case()
        if got.shape != exp.shape or not np.array_equal(got, exp):
            nbad += 1
    # SPEC against SPEC: a disagreement is a defect of the harness / model, not of qibo
    ctx.ob("C17_corr_dilation_spec", nbad == 0, "correspondence", f"{nbad} disagreements between the Lean SPEC applyStinespring and numpy" if nbad else f"{len(lines)} cases")
    ctx.ob(name, bad == 0, "search", f"{bad} failing inputs" if bad else "")



# ---------------------------------------------------------------------------------------------
# dispatch: the call graph of the conversion wrappers, regenerated from the source (ast)

REPS = ("kraus", "choi", "liouville", "pauli", "chi", "stinespring")
PARS = (("order", "order"), ("norm", "normalize"), ("po", "pauli_order"), ("env", "initial_state_env"),
        ("nq", "nqubits"), ("denv", "dim_env"))
LIB_DEFAULT = {"order": "'row'", "normalize": "False", "pauli_order": "'IXYZ'", "initial_state_env": "None", "nqubits": "None"}
SIDE = ("vectorization", "unvectorization", "comp_basis_to_pauli", "pauli_to_comp_basis", "pauli_basis")
LIT = {"'row'": 0, "'column'": 1, "'system'": 2, "True": 1, "False": 0, "None": 0, "'IXYZ'": 0}


def nominal(name):
    """typing suggested by the function name."""
    if name.startswith("to_"):
        b = name[3:]
        return ("op", "pauli" if b == "pauli_liouville" else b)
    if "_to_" in name:
        a, b = name.split("_to_", 1)
        if a in REPS and b in REPS:
            return (a, b)
    return None


def regenerate_dispatch(prim_typings):
    """(rows, side_violations, notes): rows = [(name, src, dst, [(callee, src, dst, data, [6 arg tokens])])]
    in call order, from the CURRENT source of superoperator_transformations.py (+ basis.py signatures)."""
    import ast
    import inspect

    from qibo.quantum_info import basis as basis_mod
    from qibo.quantum_info import superoperator_transformations as st_mod

    tree = ast.parse(inspect.getsource(st_mod))
    btree = ast.parse(inspect.getsource(basis_mod))
    funcs = {n.name: n for n in tree.body if isinstance(n, ast.FunctionDef)}
    bfuncs = {n.name: n for n in btree.body if isinstance(n, ast.FunctionDef)}

    def sig(fn):
        a = fn.args
        names = [x.arg for x in a.args]
        defaults = [None] * (len(names) - len(a.defaults)) + [ast.unparse(d) for d in a.defaults]
        return list(zip(names, defaults))

    def names_in(node):
        return {n.id for n in ast.walk(node) if isinstance(n, ast.Name)}

    prim_names = {t[0] for t in prim_typings}
    conv = {n for n in funcs if (nominal(n) is not None or n == "_reshuffling")}

    def call_args(call, callee_sig):
        args = {}
        for i, a in enumerate(call.args):
            if i < len(callee_sig):
                args[callee_sig[i][0]] = a
        for k in call.keywords:
            if k.arg is not None:
                args[k.arg] = k.value
        return args

    def arg_tokens(call, callee_sig, caller_params):
        passed = call_args(call, callee_sig)
        cs = dict(callee_sig)
        toks = []
        for _, pname in PARS:
            if pname not in cs:
                toks.append("D")
                continue
            if pname not in passed:
                d = cs[pname]
                toks.append("D" if d is None or d == LIB_DEFAULT.get(pname, d) else f"L{LIT.get(d, 98)}")
                continue
            e = passed[pname]
            if isinstance(e, ast.Name) and e.id == pname and pname in caller_params:
                toks.append("C")
            else:
                toks.append(f"L{LIT.get(ast.unparse(e), 99)}")
        return toks, passed

    rows, side_bad, graph = {}, [], {}
    for name, fn in funcs.items():
        if name.startswith("_") or name == "kraus_to_unitaries":
            continue
        params = [pn for pn, _ in sig(fn)]
        current = {params[0]} if params else set()
        steps = []
        returned_ok = [True]

        def visit(stmts):
            nonlocal current
            for s in stmts:
                if isinstance(s, (ast.If, ast.For, ast.While, ast.With)):
                    visit(getattr(s, "body", []))
                    visit(getattr(s, "orelse", []))
                    continue
                value = getattr(s, "value", None)
                if value is None:
                    continue
                calls = []

                def post(node):  # inner calls first: f(g(x)) runs g, then f
                    for ch in ast.iter_child_nodes(node):
                        post(ch)
                    if isinstance(node, ast.Call) and isinstance(node.func, ast.Name):
                        calls.append(node)

                post(value)
                for c in calls:
                    if c.func.id in SIDE:
                        csig = sig(funcs[c.func.id]) if c.func.id in funcs else sig(bfuncs[c.func.id])
                        toks, passed = arg_tokens(c, csig, params)
                        for (par, pname), t in zip(PARS, toks):
                            if pname in dict(csig) and pname in params and t != "C":
                                side_bad.append(f"{name}: {c.func.id}(... {pname}={'<default>' if pname not in passed else ast.unparse(passed[pname])})")
                conv_calls = [c for c in calls if c.func.id in conv]
                for c in conv_calls:
                    csig = sig(funcs[c.func.id])
                    toks, passed = arg_tokens(c, csig, params)
                    first = passed.get(csig[0][0])
                    data = first is not None and bool(names_in(first) & current)
                    steps.append([c.func.id, data, toks])
                    graph.setdefault(name, set()).add(c.func.id)
                targets = set()
                if isinstance(s, ast.Assign):
                    for t in s.targets:
                        targets |= names_in(t)
                elif isinstance(s, (ast.AugAssign, ast.AnnAssign)):
                    targets |= names_in(s.target)
                if conv_calls:
                    if isinstance(s, ast.Return):
                        current = {"<returned>"}
                    else:
                        current = set(targets)
                elif isinstance(s, ast.Return):
                    if steps and not (names_in(value) & current):
                        returned_ok[0] = False
                elif targets and (names_in(value) & current):
                    current |= targets

        visit(fn.body)
        if steps and not returned_ok[0]:
            steps[-1][1] = False
        if name in prim_names or not steps:
            continue
        rows[name] = steps
    # call order
    order, seen = [], set()

    def dfs(n):
        if n in seen:
            return
        seen.add(n)
        for m in sorted(graph.get(n, ())):
            if m in rows:
                dfs(m)
        order.append(n)

    for n in rows:
        dfs(n)
    typings = list(prim_typings)
    out = []
    for n in order:
        nom = nominal(n)
        cur = nom[0]
        steps = []
        for callee, data, toks in rows[n]:
            cands = [t for t in typings if t[0] == callee and t[1] == cur]
            if cands:
                s_, d_ = cands[0][1], cands[0][2]
            else:
                cn = nominal(callee) or (cur, cur)
                s_, d_ = cn
            steps.append((callee, s_, d_, data, toks))
            cur = d_
        out.append((n, nom[0], nom[1], steps))
        typings.append((n, nom[0], nom[1]))
    return out, side_bad


def row_text(r):
    n, s, d, steps = r
    return f"{n} {s} {d} {len(steps)} " + " ".join(f"{c} {a} {b} {1 if data else 0} {' '.join(toks)}" for c, a, b, data, toks in steps)


def dispatch_failing_input(ctx, fname, ob):
    """a wrapper whose regenerated pipeline is not accepted: look for a configuration on which the
    real function does not return a representation of the same channel (SPEC: props.C17.Ref)."""
    import inspect

    from props.C17 import HDR, Ref, arr_src as asrc, close, tp_kraus_full, cmatrix
    from qibo.quantum_info import superoperator_transformations as st

    nom = nominal(fname)
    f = getattr(st, fname, None)
    if nom is None or f is None or nom[1] in ("kraus", "stinespring"):
        return False
    a, b = nom
    rng = ctx.rng
    params = inspect.signature(f).parameters
    for n in (1, 2):
        d = 2**n
        Ks = tp_kraus_full(rng, d, 1 if a == "op" else 2)
        env = {}
        if a == "stinespring":
            e = 2
            U, _ = np.linalg.qr(cmatrix(rng, d * e))
            v = cmatrix(rng, 1, e)[0]
            v = v / np.linalg.norm(v)
            Ks = [np.einsum("ijb,b->ij", U.reshape(d, e, d, e)[:, al, :, :], v) for al in range(e)]
            env = {"dim_env": e, "initial_state_env": v, "nqubits": n}
        rho = cmatrix(rng, d)
        truth = Ref.apply_kraus(Ks, rho)
        for order in ("column", "row", "system"):
            for normalize in (True, False):
                for po in ("ZXIY", "IXYZ"):
                    src = {"op": lambda: Ks[0], "kraus": lambda: [(tuple(range(n)), K) for K in Ks], "choi": lambda: Ref.choi(Ks, order),
                           "liouville": lambda: Ref.liouville(Ks, order), "pauli": lambda: Ref.pauli(Ks, n, normalize, po),
                           "chi": lambda: Ref.chi(Ks, n, normalize, po), "stinespring": lambda: U}[a]()
                    kw = {k: v for k, v in (("order", order), ("normalize", normalize), ("pauli_order", po)) if k in params}
                    kw.update({k: (x.copy() if isinstance(x, np.ndarray) else x) for k, x in env.items() if k in params})
                    exp = {"choi": lambda: Ref.choi(Ks, order), "liouville": lambda: Ref.liouville(Ks, order),
                           "pauli": lambda: Ref.pauli(Ks, n, normalize, po), "chi": lambda: Ref.chi(Ks, n, normalize, po)}[b]()
                    try:
                        out = np.asarray(f(src, **kw))
                    except NotImplementedError:
                        continue
                    except Exception:  # noqa: BLE001
                        out = None
                    if out is None or not close(out, exp, 1e-7):
                        kws = ", ".join(f"{k}={(asrc(x) if isinstance(x, np.ndarray) else repr(x))}" for k, x in kw.items())
                        srcs = ("[" + ", ".join(f"({q!r}, {asrc(K)})" for q, K in src) + "]") if a == "kraus" else asrc(src)
                        ctx.fail(f"dispatch:{fname}", f"{fname}({a}, {', '.join(f'{k}={v!r}' for k, v in kw.items() if not isinstance(v, np.ndarray))}) does not return the {b} representation of the same channel ({n} qubits): its pipeline does not hand the configuration on consistently",
                                 HDR + f"out = np.asarray(st.{fname}({srcs}, {kws}))\nexp = {asrc(exp)}\nassert out.shape == exp.shape and np.allclose(out, exp, atol=1e-6), np.abs(out - exp).max()\n",
                                 expected=str(np.round(exp, 6).tolist())[:300], observed=str(None if out is None else np.round(out, 6).tolist())[:300], broken=[ob])
                        return True
    return False


def corr_dispatch(ctx):
    ob = "C17_dispatch_table"
    prim_line, table_line = run_driver(["DPRIMS", "DTABLE"], driver=DRIVER)
    prim_typings = [tuple(t.split()) for t in prim_line.split(" | ")]
    model_rows = {r.split()[0]: " ".join(r.split()) for r in table_line.split(" | ")}
    rows, side_bad = regenerate_dispatch(prim_typings)
    texts = [row_text(r) for r in rows]
    # tableOk on every prefix: the first failing prefix names the offending wrapper
    lines = [f"DTABLEOK {k} " + " ".join(texts[:k]) for k in range(1, len(texts) + 1)]
    outs = run_driver(lines, driver=DRIVER) if lines else []
    first_bad = next((k for k, o in enumerate(outs) if o.strip() != "ok"), None)
    regen = {r[0]: " ".join(t.split()) for r, t in zip(rows, texts)}
    differs = sorted(n for n in set(regen) | set(model_rows) if regen.get(n) != model_rows.get(n))
    ctx.stat("dispatch:wrappers", len(rows))
    ctx.stat("dispatch:rows_differing_from_model_table", len(differs))
    for r in rows:
        ctx.case(("dispatch", r[0]))
    for t in texts[:3]:
        ctx.sample({"dispatch_row": t})
    ok = first_bad is None and len(rows) > 0
    detail = ""
    if not ok:
        bad_name = rows[first_bad][0] if rows else "<no wrappers found>"
        detail = f"tableOk fails at wrapper {bad_name}: regenerated `{regen.get(bad_name)}` vs model `{model_rows.get(bad_name)}`"
        if rows:
            dispatch_failing_input(ctx, bad_name, ob)
    elif differs:
        # a consistent re-routing: accepted (the soundness theorem covers every table passing tableOk)
        detail = f"accepted; rows differing from the model's table: {differs}"
    ctx.ob(ob, ok, "correspondence", detail or f"{len(rows)} wrappers regenerated from the source, identical to the model's table")
    ob2 = "C17_dispatch_side_calls"
    if side_bad:
        for item in side_bad[:1]:
            dispatch_failing_input(ctx, item.split(":")[0], ob2)
    ctx.ob(ob2, not side_bad, "correspondence", "; ".join(side_bad[:4]))


def search_basis_keywords(ctx):
    """EVERY keyword combination of pauli_basis / comp_basis_to_pauli / pauli_to_comp_basis
    (sparse x vectorize x normalize x order x pauli_order x nqubits): the dense result is the documented
    matrix (SPEC props.C17.Ref) and the sparse pair (elements, indexes) densifies, row by row, to exactly
    the dense matrix of the same call."""
    import itertools as it
    import math

    from props.C17 import ALL_PO, Ref
    from qibo.quantum_info import basis

    rng = ctx.rng
    name = "C17_search_basis_keywords"
    HDR = "import numpy as np\nfrom qibo import set_backend\nset_backend('numpy')\nfrom qibo.quantum_info import basis\n"
    DENS = ("def dens(pair, ncols):\n    el, ix = np.asarray(pair[0]), np.real(np.asarray(pair[1])).astype(int)\n    D = np.zeros((el.shape[0], ncols), dtype=complex)\n"
            "    for r in range(el.shape[0]):\n        D[r, ix[r]] = el[r]\n    return D\n")
    bad = 0

    def dens(pair, ncols):
        # pauli_to_comp_basis returns its indexes through backend.cast, i.e. as complex numbers
        el, ix = np.asarray(pair[0]), np.real(np.asarray(pair[1])).astype(int)
        D = np.zeros((el.shape[0], ncols), dtype=complex)
        for r in range(el.shape[0]):
            D[r, ix[r]] = el[r]
        return D

    def eq(a, b, exact):
        a, b = np.asarray(a), np.asarray(b)
        return a.shape == b.shape and (np.array_equal(a, b) if exact else bool(np.allclose(a, b, atol=1e-12, rtol=0)))

    def check(ok, key, what, py):
        nonlocal bad
        ctx.case()
        ctx.stat("basis_keywords:" + key.split(":")[1])
        if not ok:
            bad += 1
            ctx.fail(key, what, HDR + DENS + py, broken=[name])

    for n in (1, 2, 3) if ctx.thorough else (1, 2):
        d = 2**n
        pos = ALL_PO if n == 1 else ["IXYZ"] + rng.sample(ALL_PO, 3 if n == 2 else 1)
        for po, normalize, order in it.product(pos, (False, True), ("row", "column", "system")):
            s = math.sqrt(d) if normalize else 1.0
            rows = np.array([Ref.vec(P, order) / s for P in Ref.paulis(n, po)])  # row k = vec(P_k)/s
            exact = not normalize
            kw = f"normalize={normalize}, order={order!r}, pauli_order={po!r}"
            ctx.case(("basis-kw", n, po, normalize, order))
            for fname, exp in (("comp_basis_to_pauli", rows.conj()), ("pauli_to_comp_basis", rows.T)):
                f = getattr(basis, fname)
                try:
                    dense = np.asarray(f(n, normalize=normalize, sparse=False, order=order, pauli_order=po))
                    sp = dens(f(n, normalize=normalize, sparse=True, order=order, pauli_order=po), d * d)
                    okd, oks = eq(dense, exp, exact), eq(sp, dense, exact)
                except Exception:  # noqa: BLE001
                    okd = oks = False
                check(okd, f"basis-keywords:{fname}:dense", f"{fname}({n}, {kw}) is not the documented change of basis",
                      f"out = basis.{fname}({n}, {kw})\nexp = np.array({exp.tolist()!r})\nassert np.allclose(out, exp, atol=1e-12, rtol=0)\n")
                check(oks, f"basis-keywords:{fname}:sparse", f"the sparse pair of {fname}({n}, sparse=True, {kw}) does not densify to the dense matrix of the same call",
                      f"D = dens(basis.{fname}({n}, sparse=True, {kw}), {d * d})\nM = basis.{fname}({n}, sparse=False, {kw})\nassert D.shape == M.shape and np.allclose(D, M, atol=1e-12, rtol=0), np.abs(D - M).max()\n")
            # pauli_basis: vectorize x sparse
            try:
                dense = np.asarray(basis.pauli_basis(n, normalize=normalize, vectorize=True, sparse=False, order=order, pauli_order=po))
                sp = dens(basis.pauli_basis(n, normalize=normalize, vectorize=True, sparse=True, order=order, pauli_order=po), d * d)
                okd, oks = eq(dense, rows, exact), eq(sp, dense, exact)
            except Exception:  # noqa: BLE001
                okd = oks = False
            check(okd, "basis-keywords:pauli_basis:dense", f"pauli_basis({n}, vectorize=True, {kw}) rows are not the vectorised Pauli strings",
                  f"out = basis.pauli_basis({n}, vectorize=True, {kw})\nexp = np.array({rows.tolist()!r})\nassert np.allclose(out, exp, atol=1e-12, rtol=0)\n")
            check(oks, "basis-keywords:pauli_basis:sparse", f"the sparse pair of pauli_basis({n}, vectorize=True, sparse=True, {kw}) does not densify to the dense result",
                  f"D = dens(basis.pauli_basis({n}, vectorize=True, sparse=True, {kw}), {d * d})\nM = basis.pauli_basis({n}, vectorize=True, {kw})\nassert np.allclose(D, M, atol=1e-12, rtol=0)\n")
            if order == "row":  # vectorize=False: order is irrelevant (None or given)
                full = np.array(Ref.paulis(n, po)) / s
                for o in (None, rng.choice(("row", "column", "system"))):
                    try:
                        out = np.asarray(basis.pauli_basis(n, normalize=normalize, vectorize=False, sparse=False, order=o, pauli_order=po))
                        ok = eq(out, full, exact)
                    except Exception:  # noqa: BLE001
                        ok = False
                    check(ok, "basis-keywords:pauli_basis:unvectorized", f"pauli_basis({n}, vectorize=False, normalize={normalize}, order={o!r}, pauli_order={po!r}) is not the list of Pauli strings",
                          f"out = basis.pauli_basis({n}, normalize={normalize}, vectorize=False, order={o!r}, pauli_order={po!r})\nexp = np.array({full.tolist()!r})\nassert np.allclose(out, exp, atol=1e-12, rtol=0)\n")
                try:
                    basis.pauli_basis(n, normalize=normalize, vectorize=False, sparse=True, pauli_order=po)
                    ok = False
                except NotImplementedError:
                    ok = True
                except Exception:  # noqa: BLE001
                    ok = False
                check(ok, "basis-keywords:pauli_basis:sparse-unvectorized", "pauli_basis(vectorize=False, sparse=True) must raise NotImplementedError as documented",
                      f"try:\n    basis.pauli_basis({n}, vectorize=False, sparse=True, pauli_order={po!r})\nexcept NotImplementedError:\n    raise SystemExit(0)\nraise SystemExit(1)\n")
    ctx.ob(name, bad == 0, "search", f"{bad} failing inputs" if bad else "")


def run_suites(ctx):
    import logging

    # link_product warns (root logger) when an index joins two inputs / two outputs: expected here
    prev = logging.root.manager.disable
    logging.disable(logging.WARNING)
    try:
        corr_ctor(ctx)
        corr_apply(ctx)
        corr_link(ctx)
        corr_matmul(ctx)
        corr_misc(ctx)
        corr_pred(ctx)
        search_algebra(ctx)
        observe_dimension_check(ctx)
        search_dilation(ctx)
        corr_dispatch(ctx)
        search_basis_keywords(ctx)
    finally:
        logging.disable(prev)
    ctx.notes.append("quantum networks: exact Gaussian-integer correspondence of lean/QV/Model/Networks.lean with QuantumNetwork / "
                     "QuantumComb / QuantumChannel / IdentityChannel / TraceOperation (every construction route incl. inverse=True and "
                     "one-leg partitions, partition + system_input + is_pure + stored tensor + full() + matrix(); apply; link_product with "
                     "2 and 3 operands, 11 subscript patterns; @ incl. refusals and super-channel; +, conj), dims 1..3 per leg "
                     "exhaustively, pure and non-pure; exact search of apply = Σ KρK† (both Choi conventions, non-square), A @ B = 'A then B' "
                     "= object of {L·K}, associativity, IdentityChannel unit, full(pure) = vec K vec K†; "
                     "observation (not an obligation): link_product / super-channel @ accept a size-1 leg against a larger one (einsum broadcast), "
                     "see statistic observation:ill-typed-composition")
