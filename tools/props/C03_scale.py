"""C03 — size-scaling collapse suite (registers of 9-12 qubits).

The exhaustive collapse correspondence of tools/props/C03.py stops at n = 4 (n = 3 for recorded
bit order).  This suite drives the REAL collapse code on larger registers, where index
bookkeeping that happens to work for few qubits can fail (e.g. anything relying on the iteration
order of a set of small integers):

  direct    backend.collapse_state / collapse_density_matrix on n = 9..12 (density matrices n = 9,
            thorough also 10) for measured subsets of every size, including "all but <= 4 qubits
            with an unmeasured qubit >= 8", on Gaussian-integer product states whose qubits all carry
            different single-qubit states (a permutation of unmeasured qubits is visible) and on
            random Gaussian-integer states; compared EXACTLY (normalize=False) with the projection
            computed by plain index arithmetic (no reshape / transpose), and within tolerance after
            normalisation; a few n = 9, 10 cases also through the Lean model (COLL).
  circuit   Circuit with a collapsing M (targets in any order) on product states with distinct
            per-qubit amplitudes, followed by a terminal M on the unmeasured qubits (any order), executed
            shot by shot with the draws forced: the probabilities handed to the sampler at the terminal
            draw must be the product of the per-qubit probabilities, rows of computational-basis
            preparations are deterministic, the recorded bits are re-measured; density-matrix mode
            compares the final state with the projected product state.
"""
from __future__ import annotations

import numpy as np

from vlib.driver import gi_tokens, parse_gi, run_driver

DRIVER = "DriverC03.lean"

SCALE_SRC = r'''
def project_index(state, n, qubits, shot):
    """SPEC: un-normalised projection onto `bits of shot on qubits` (first listed = most
    significant), by index arithmetic on the flat array only."""
    st = np.asarray(state)
    idx = np.arange(2 ** n)
    keep = np.ones(2 ** n, dtype=bool)
    m = len(qubits)
    for j, q in enumerate(qubits):
        b = (shot >> (m - 1 - j)) & 1
        keep &= ((idx >> (n - 1 - q)) & 1) == b
    if st.ndim == 1:
        return np.where(keep, st, 0)
    return np.where(keep[:, None] & keep[None, :], st, 0)


def product_state(amps):
    """flat state of the product of single-qubit vectors (qubit 0 = most significant)."""
    v = np.array([1], dtype=complex)
    for a in amps:
        v = np.kron(v, np.asarray(a, dtype=complex))
    return v


def make_state(n, dm, kind, data):
    """kind 'product': data = per-qubit amplitudes; 'random': data = seed of a Gaussian-integer state / matrix."""
    if kind == "product":
        psi = product_state(data)
        return np.outer(psi, psi.conj()) if dm else psi
    g = np.random.default_rng(data)
    shape = (2 ** n, 2 ** n) if dm else (2 ** n,)
    return (g.integers(-3, 4, size=shape) + 1j * g.integers(-3, 4, size=shape)).astype(complex)


def check_collapse_direct(n, dm, qubits, shot, state):
    nb = NumpyBackend()
    st = np.asarray(state, dtype=complex)
    before = st.copy()
    f = nb.collapse_density_matrix if dm else nb.collapse_state
    exp = project_index(st, n, qubits, shot)
    raw = np.asarray(f(st, list(qubits), np.array([shot], dtype=np.int64), n, normalize=False))
    if raw.shape != st.shape or not np.array_equal(raw, exp):
        bad = np.argwhere(raw.reshape(exp.shape) != exp)[:1].tolist() if raw.shape == st.shape else None
        return "un-normalised projection differs from the projection onto the outcome (first differing index %r)" % (bad,)
    norm = np.trace(exp) if dm else np.sqrt((np.abs(exp) ** 2).sum())
    if abs(norm) > 1e-12:
        nrm = np.asarray(f(st, list(qubits), np.array([shot], dtype=np.int64), n))
        if not np.allclose(nrm, exp / norm, atol=1e-9):
            return "normalised collapsed state differs from the normalised projection"
    if not np.array_equal(st, before):
        return "input state mutated"
    return None


def check_collapse_circuit(n, dm, meas, rest, amps, nshots, chooser):
    """collapsing M(*meas) on the product state `amps` (prepared as initial state), then terminal
    M(*rest).  Returns None or a description."""
    c = Circuit(n, density_matrix=dm)
    r = c.add(gates.M(*meas, collapse=True))
    if rest:
        c.add(gates.M(*rest))
    psi = product_state(amps)
    psi = psi / np.linalg.norm(psi)
    init = np.outer(psi, psi.conj()) if dm else psi
    be = OracleBackend(chooser)
    res = be.execute_circuit(c, initial_state=init.copy(), nshots=nshots)
    rec = np.asarray(r.samples())
    if rec.shape != (nshots, len(meas)):
        return "recorded samples shape %r" % (rec.shape,)
    pq = [np.abs(np.asarray(a, dtype=complex)) ** 2 / (np.abs(np.asarray(a, dtype=complex)) ** 2).sum() for a in amps]
    for s in range(nshots):
        for j, q in enumerate(meas):
            if pq[q][int(rec[s][j])] <= 1e-12:
                return "shot %d: recorded bit %d of qubit %d has probability zero" % (s, int(rec[s][j]), q)
    if rest:
        rows = np.asarray(res.samples())
        if rows.shape != (nshots, len(rest)):
            return "samples shape %r" % (rows.shape,)
        want = np.array([1.0])
        for q in rest:
            want = np.kron(want, pq[q])
        per = len(be.asked) // nshots
        for s in range(nshots):
            asked = np.asarray(be.asked[s * per + per - 1], dtype=float)
            if asked.shape != want.shape or not np.allclose(asked / asked.sum(), want, atol=1e-9):
                k = int(np.argmax(np.abs(asked / asked.sum() - want))) if asked.shape == want.shape else -1
                return ("shot %d: after collapsing qubits %r the sampler was given probabilities for qubits %r that are not the product of "
                        "the qubits' own probabilities (outcome %d: %.6f instead of %.6f)" % (s, tuple(meas), tuple(rest), k, asked[k] / asked.sum() if k >= 0 else -1, want[k] if k >= 0 else -1))
            if want[int("".join(str(int(b)) for b in rows[s]), 2)] <= 1e-12:
                return "shot %d: reported row %r of qubits %r has probability zero" % (s, rows[s].tolist(), tuple(rest))
    if dm and nshots == 1:
        proj = [np.eye(2)[int(rec[0][list(meas).index(q)])] if q in meas else np.asarray(amps[q], dtype=complex) for q in range(n)]
        v = product_state(proj)
        v = v / np.linalg.norm(v)
        if not np.allclose(np.asarray(res.state()), np.outer(v, v.conj()), atol=1e-9):
            return "final density matrix is not the projected product state"
    return None
'''


def _base():
    from props import C03 as base

    return base


_NS = {}


def ns():
    if not _NS:
        exec(_base().HARNESS_SRC, _NS)
        exec(SCALE_SRC, _NS)
    return _NS


def header_src():
    return _base().HARNESS_SRC + "\n" + SCALE_SRC + "\n"


def distinct_amps(rng, n):
    """one Gaussian-integer single-qubit vector per qubit, pairwise non-proportional, both entries non-zero."""
    pool = [(1, 2), (2, 1), (1, 3), (3, 1), (1, 1j), (2, 1j), (1, 2j), (1, -2), (3, 2), (2, 3), (1, 1 + 1j), (1 + 1j, 2), (3, 1j), (1, 4), (4, 1), (2, 3j)]
    return [list(a) for a in rng.sample(pool, n)]


def subsets_for(rng, n, thorough):
    """measured subsets (sorted): every size, plus the classes 'all but k <= 4 qubits with an unmeasured qubit >= 8'."""
    out = []
    for m in range(1, n + 1):
        out.append(sorted(rng.sample(range(n), m)))
    for k in (1, 2, 3, 4):
        for _ in range(3 if thorough else 2):
            hi = rng.choice(range(8, n))
            others = rng.sample([q for q in range(n) if q != hi], k - 1)
            un = set([hi] + others)
            out.append([q for q in range(n) if q not in un])
        # the contiguous block 0..n-k-1
        out.append(list(range(n - k)))
    return out


def direct_suite(ctx):
    base = _base()
    N = ns()
    rng = ctx.rng
    cases = []
    for n in (9, 10, 11, 12):
        for qs in subsets_for(rng, n, ctx.thorough):
            m = len(qs)
            kind = rng.choice(["product", "product", "random"])
            cases.append((n, False, qs, rng.randrange(2 ** m), kind))
    for n in ((9, 10) if ctx.thorough else (9,)):
        subs = subsets_for(rng, n, False)
        for qs in (subs if ctx.thorough and n == 9 else rng.sample(subs, 7) + [list(range(n - 4)), list(range(n - 2))]):
            cases.append((n, True, qs, rng.randrange(2 ** len(qs)), "product" if rng.random() < 0.7 else "random"))
    lean_lines, lean_idx = [], []
    runs = []
    for n, dm, qs, shot, kind in cases:
        data = distinct_amps(rng, n) if kind == "product" else rng.randrange(2 ** 31)
        state = N["make_state"](n, dm, kind, data)
        runs.append((n, dm, qs, shot, kind, state, data))
        if not dm and n <= 10 and len(lean_lines) < (8 if ctx.thorough else 4) and (len(qs) >= n - 4):
            lean_lines.append(f"COLL {n} {base.nl(qs)} {shot} {gi_tokens(state)}")
            lean_idx.append(len(runs) - 1)
    mouts = run_driver(lean_lines, driver=DRIVER) if lean_lines else []
    model = {i: parse_gi(o) for i, o in zip(lean_idx, mouts)}
    bad = 0
    for i, (n, dm, qs, shot, kind, state, data) in enumerate(runs):
        un = [q for q in range(n) if q not in qs]
        cls = "hi-unmeasured" if (len(un) <= 4 and any(q >= 8 for q in un)) else "other"
        ctx.case(("collapse_large", n, dm, tuple(qs), shot, kind))
        ctx.stat(f"collapse_large_{'dm' if dm else 'sv'}_n{n}")
        ctx.stat(f"collapse_large_{cls}")
        try:
            why = N["check_collapse_direct"](n, dm, qs, shot, state)
            if why is None and i in model:
                raw = np.asarray(N["NumpyBackend"]().collapse_state(np.asarray(state, dtype=complex), list(qs), np.array([shot]), n, normalize=False)).reshape(-1)
                if not np.array_equal(raw, model[i]):
                    why = "differs from the Lean model collapseState"
        except Exception as e:  # noqa
            why = f"{type(e).__name__}: {e}"
        if why:
            bad += 1
            fn = "collapse_density_matrix" if dm else "collapse_state"
            py = (header_src() + f"state = make_state({n}, {dm}, {kind!r}, {data!r})\n"
                  f"why = check_collapse_direct({n}, {dm}, {list(qs)!r}, {shot}, state)\nassert why is None, why\n")
            ctx.fail(f"collapse:{fn}:large", f"{fn}(qubits={qs}, shot={shot}, n={n}) on a {kind} state: {why}", py, observed=why,
                     broken=["C03_corr_collapse_large"])
    ctx.ob("C03_corr_collapse_large", bad == 0, "correspondence", f"{bad} disagreements" if bad else "")


def circuit_suite(ctx):
    base = _base()
    N = ns()
    rng = ctx.rng
    cases = []
    for n in (9, 10, 11, 12):
        for k in (1, 2, 3, 4):           # all but k qubits measured, an unmeasured qubit >= 8
            hi = rng.choice(range(8, n))
            un = [hi] + rng.sample([q for q in range(n) if q != hi], k - 1)
            meas = [q for q in range(n) if q not in un]
            cases.append((n, False, meas, un))
        cases.append((n, False, list(range(n - 4)), list(range(n - 4, n))))
        for _ in range(3 if ctx.thorough else 1):
            m = rng.randint(1, n - 1)
            meas = rng.sample(range(n), m)
            rest = [q for q in range(n) if q not in meas]
            cases.append((n, False, meas, rng.sample(rest, rng.randint(1, min(len(rest), 6)))))
    cases.append((9, True, list(range(5)), [5, 6, 7, 8]))
    if ctx.thorough:
        cases.append((9, True, [0, 1, 2, 3, 4, 6, 7], [8, 5]))
        cases.append((10, True, list(range(6)), [6, 7, 8, 9]))
    bad = 0
    for n, dm, meas, rest in cases:
        meas = list(meas)
        if rng.random() < 0.5:
            rng.shuffle(meas)
        rest = list(rest)
        rng.shuffle(rest)
        comp = rng.random() < 0.4
        amps = distinct_amps(rng, n)
        if comp:  # unmeasured qubits in computational states, not all equal: rows are deterministic
            bits = [rng.randint(0, 1) for _ in range(n)]
            if len(rest) > 1 and len({bits[q] for q in rest}) == 1:
                bits[rest[0]] ^= 1
            for q in range(n):
                if q not in meas:
                    amps[q] = [1 - bits[q], bits[q]]
        nshots = 1 if dm else rng.randint(1, 3)
        ctx.case(("collapse_circuit_large", n, dm, tuple(meas), tuple(rest), comp))
        ctx.stat(f"collapse_circuit_large_{'dm' if dm else 'sv'}_n{n}")
        log = []
        sup = base.support_chooser(rng)

        def chooser(p_, n_, log=log, sup=sup):
            o_ = sup(p_, n_)
            log.append(o_)
            return o_

        try:
            why = N["check_collapse_circuit"](n, dm, meas, rest, amps, nshots, chooser)
        except Exception as e:  # noqa
            why = f"{type(e).__name__}: {e}"
        if why:
            bad += 1
            py = (header_src() + f"why = check_collapse_circuit({n}, {dm}, {meas!r}, {rest!r}, {amps!r}, {nshots}, Tape({log!r}))\nassert why is None, why\n")
            ctx.fail("collapse:circuit:large:" + ("dm" if dm else "sv"),
                     f"{n} qubits, M{tuple(meas)} collapsing then M{tuple(rest)} on a product state with distinct qubit states: {why}", py, observed=why,
                     broken=["C03_corr_collapse_large_circuit"])
    ctx.ob("C03_corr_collapse_large_circuit", bad == 0, "correspondence", f"{bad} disagreements" if bad else "")


def run_suites(ctx):
    direct_suite(ctx)
    circuit_suite(ctx)
    ctx.notes.append(
        "collapse at scale: collapse_state on 9-12 qubits (collapse_density_matrix on 9, thorough 10) for measured subsets of every size incl. all but <=4 "
        "qubits with an unmeasured qubit >= 8, on product states with pairwise different qubit states and on random Gaussian-integer states, exact against "
        "index-arithmetic projection (+ Lean COLL for n = 9, 10); circuits with a collapsing M followed by a terminal M on unmeasured qubits, draws forced, "
        "sampler probabilities compared with the product of per-qubit probabilities, density-matrix final state at n = 9")
