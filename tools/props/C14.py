"""C14 — every execution result stands alone, whatever was run before, after or beside it.

Tie between the Lean state machine (lean/QV/Model/ResultSM.lean, driven through
lean/DriverC14.lean) and the real qibo code, with randomness as an input: the real
NumpyBackend is subclassed so that `sample_shots` (the only random primitive of the execution
and measurement code) returns draws chosen by the harness, and `np.random.shuffle` is replaced
by a recorded permutation of the sorted array.

Suites
  histories  random call histories (<= 10 ops) over ONE real circuit object: executions with
             different inputs and shot counts interleaved with samples / frequencies /
             probabilities / state calls (binary, registers variants) on old and new results;
             circuits with several registers, collapse measurements, noise channels (repeated
             execution), density matrices.  (a) CORRESPONDENCE: every observable and the number
             of random draws consumed agree with the Lean state machine fed with the recorded
             draws; (b) SEARCH: every result agrees with a FRESH circuit object on which only
             that result's own execution and accessor calls are replayed with the same draws.
  legacy     the concrete F8 trace and its relatives (detects which accessor logic the tree has)
  seed       backend.set_seed: same seed + same calls => same samples, whatever ran before
             (numpy backend, Clifford backend)
  parallel   qibo.parallel helpers with 1..4 workers against sequential execution
  parallel-model  (tools/props/C14_parallel.py) the REAL helpers run under harness-imposed schedules
             (turnstile on execute_circuit / apply_gate / sample_shots / set_parameters, from outside),
             the observed objects, per-gate parameter reads, order of random draws replayed in the
             scheduler model lean/QV/Model/Parallel.lean; every result against the job run alone
  final      circuit._final_state after every prefix of a history = the model's St.final
  consistency  (tools/props/C14_consistency.py) every result object, fresh and after to_dict/from_dict
             and dump/load: nshots = rows = sum of frequencies, all views histograms of the same rows,
             probabilities = frequencies / nshots where derived from samples
  gate-binding  (tools/props/C14_gates.py) plain executions interleaved with executions that take a
             Circuit as initial state, and the gate-level results m = circuit.add(gates.M(...)) read
             in between, against lean/QV/Model/GateBinding.lean and against the last execution
  writes     attribute writes made by an execution (statistics) and their effect on old results
"""
from __future__ import annotations

import json

import numpy as np

from vlib.driver import run_driver
from vlib.proofs import build_and_audit, registry

PROP = "C14"
DRIVER = "DriverC14.lean"
KEY_STALE = "stale-cache:samples-after-reexecution"
KEY_CLIFFORD = "stale-cache:clifford-samples-after-reexecution"

# ---------------------------------------------------------------------------
# harness shared verbatim by the check and by every replay snippet

HARNESS_SRC = r'''
import collections
import numpy as np
from qibo import Circuit, gates
from qibo.backends import NumpyBackend, _Global


class OracleBackend(NumpyBackend):
    """the real numpy backend; `sample_shots` returns draws supplied by
    `chooser(probabilities, nshots)` and records them."""

    def __init__(self, chooser):
        super().__init__()
        self.chooser = chooser
        self.calls = []

    def sample_shots(self, probabilities, nshots):
        p = np.asarray(probabilities, dtype=float).ravel()
        out = [int(x) for x in self.chooser(p, int(nshots))]
        self.calls.append(out)
        return np.array(out, dtype=np.int64)


class Tape:
    """chooser that replays recorded draws (argmax of p when the tape is exhausted)."""

    def __init__(self, tape):
        self.tape = [list(t) for t in tape]
        self.i = 0

    def __call__(self, p, n):
        t = self.tape[self.i] if self.i < len(self.tape) else []
        self.i += 1
        best = int(np.argmax(p))
        t = [x if 0 <= x < len(p) else best for x in list(t)[:n]]
        return t + [best] * (n - len(t))


class FixedShuffle:
    """np.random.shuffle := sort, then the permutation given by permfn(length)."""

    def __init__(self, permfn):
        self.permfn = permfn
        self.perms = []

    def __enter__(self):
        self.old = np.random.shuffle
        np.random.shuffle = self.sh
        return self

    def __exit__(self, *a):
        np.random.shuffle = self.old

    def sh(self, a):
        perm = list(self.permfn(len(a)))
        self.perms.append(perm)
        a[:] = np.sort(a)[perm]


class PermTape:
    def __init__(self, perms):
        self.perms = [list(p) for p in perms]
        self.i = 0

    def __call__(self, n):
        p = self.perms[self.i] if self.i < len(self.perms) else list(range(n))
        self.i += 1
        return p if sorted(p) == list(range(n)) else list(range(n))


ONEQ = {"H": gates.H, "X": gates.X, "Y": gates.Y, "Z": gates.Z, "S": gates.S, "T": gates.T, "SX": gates.SX}
TWOQ = {"CNOT": gates.CNOT, "CZ": gates.CZ, "SWAP": gates.SWAP}
ROT = {"RX": gates.RX, "RY": gates.RY, "RZ": gates.RZ}


def build(spec):
    """spec = {"n", "dm", "gates": [[name, args…]]}; "M": terminal measurement [qubits, name],
    "MC": collapsing measurement [qubits], "PN": Pauli noise channel [qubit, pauli, p]."""
    c = Circuit(spec["n"], density_matrix=bool(spec["dm"]))
    for g in spec["gates"]:
        nm = g[0]
        if nm in ONEQ:
            c.add(ONEQ[nm](g[1]))
        elif nm in TWOQ:
            c.add(TWOQ[nm](g[1], g[2]))
        elif nm in ROT:
            c.add(ROT[nm](g[1], theta=g[2]))
        elif nm == "CTRL":  # ["CTRL", base, targets, controls, theta-or-None]
            base = g[1]
            if base in ROT:
                gg = ROT[base](g[2][0], theta=g[4])
            elif base in TWOQ:
                gg = TWOQ[base](g[2][0], g[2][1])
            else:
                gg = ONEQ[base](g[2][0])
            c.add(gg.controlled_by(*g[3]))
        elif nm == "PN":
            c.add(gates.PauliNoiseChannel(g[1], [(g[2], g[3])]))
        elif nm == "MC":
            c.add(gates.M(*g[1], collapse=True))
        elif nm == "M":
            c.add(gates.M(*g[1]) if g[2] is None else gates.M(*g[1], register_name=g[2]))
        else:
            raise ValueError(nm)
    return c


def shape_of(spec, c):
    """(kind, widths, names, pre): execution path, register widths / names, number of
    sample_shots calls per shot before the terminal measurement."""
    regs = [g for g in spec["gates"] if g[0] == "M"]
    widths = [len(g[1]) for g in regs]
    names = [m.register_name for m in c.measurements]
    if c.repeated_execution:
        kind = 1 if spec["dm"] else 2
    else:
        kind = 0
    pre = sum(1 for g in spec["gates"] if g[0] == "MC")
    if not spec["dm"]:
        pre += sum(1 for g in spec["gates"] if g[0] == "PN")
    return kind, widths, names, pre


def input_state(n, sid, dm):
    """input number sid: basis states first, then integer-amplitude superpositions."""
    d = 2 ** n
    if sid is None:  # default initial state |0…0>
        return None
    if sid < d:
        v = np.zeros(d, dtype=complex)
        v[sid] = 1
    else:
        v = np.array([((sid * 7 + x * 3) % 4) + 1j * ((sid + x * x) % 3 - 1) for x in range(d)], dtype=complex)
        if not np.any(v):
            v[0] = 1
        v = v / np.linalg.norm(v)
    return np.outer(v, v.conj()) if dm else v


def _s(l):
    return " ".join(str(int(v)) for v in l)


def _ints(x):
    a = np.asarray(x)
    if a.size and not np.all(np.equal(np.mod(a, 1), 0)):
        raise ValueError("non-integer samples")
    return [int(v) for v in a.reshape(-1)]


def _dec(a, binary, nshots, w):
    a = np.asarray(a)
    if (a.ndim != 2 or a.shape[1] != w) if binary else a.ndim != 1:
        raise ValueError("shape %r" % (a.shape,))
    nshots = a.shape[0]  # a wrong number of rows shows up in the comparison
    v = _ints(a)
    if binary:
        if set(v) - {0, 1}:
            raise ValueError("non-binary samples")
        return [int("".join(str(b) for b in v[i * w:(i + 1) * w]) or "0", 2) for i in range(nshots)]
    if any(x < 0 or x >= 2 ** w for x in v):
        raise ValueError("sample out of range")
    return v


def _dense(counter, w, binary):
    if not isinstance(counter, (collections.Counter, dict)):
        raise ValueError("not a counter: %r" % type(counter))
    out = [0] * (2 ** w)
    for key, v in counter.items():
        if binary:
            if not isinstance(key, str) or len(key) != w or set(key) - {"0", "1"}:
                raise ValueError("bad binary key %r" % (key,))
            idx = int(key, 2)
        else:
            if isinstance(key, (str, bytes)) or int(key) != key or not (0 <= int(key) < 2 ** w):
                raise ValueError("bad decimal key %r" % (key,))
            idx = int(key)
        if int(v) != v or v <= 0:
            raise ValueError("bad count %r" % (v,))
        out[idx] += int(v)
    return out


def run_history(spec, ops, chooser, permfn, how=None):
    """drive ONE real circuit object through the history `ops`:
       ("E", uid, sid, nshots) | ("S", r, binary, registers) | ("F", r, binary, registers) |
       ("P", r) | ("T", r)            (r = index of the result in order of creation)
    returns per op: canonical observable, number of sample_shots calls, the calls, the shuffles,
    and numeric values (state / probabilities) for tolerance comparison."""
    c = build(spec)
    kind, widths, names, pre = shape_of(spec, c)
    k = sum(widths)
    be = OracleBackend(chooser)
    results, uids, snaps = [], [], []
    rec = []
    old_backend = _Global._backend
    _Global._backend = be
    try:
        with FixedShuffle(permfn) as fs:
            for t, op in enumerate(ops):
                c0, p0 = len(be.calls), len(fs.perms)
                val = None
                try:
                    if op[0] == "E":
                        _, uid, sid, nshots = op
                        st = input_state(spec["n"], sid, spec["dm"])
                        mode = (how[t] if how else 0) % 3
                        if mode == 0:
                            r = c(initial_state=st, nshots=nshots)
                        elif mode == 1:
                            r = c.execute(initial_state=st, nshots=nshots)
                        else:
                            r = be.execute_circuit(c, initial_state=st, nshots=nshots)
                        results.append(r)
                        uids.append(uid)
                        snap = None
                        if hasattr(r, "state"):
                            snap = np.array(r.state(), dtype=complex, copy=True)
                        snaps.append(snap)
                        obs = "C"
                    else:
                        j = op[1]
                        r = results[j]
                        ns = [o for o in ops if o[0] == "E"][j][3]
                        if op[0] == "S":
                            out = r.samples(binary=op[2], registers=op[3])
                            if op[3]:
                                if not isinstance(out, dict) or list(out.keys()) != list(names):
                                    raise ValueError("register keys %r" % (list(out.keys()) if isinstance(out, dict) else type(out),))
                                obs = "rt " + " ; ".join(_s(_dec(out[nm], op[2], ns, w)) for nm, w in zip(names, widths))
                            else:
                                obs = "t " + _s(_dec(out, op[2], ns, k))
                        elif op[0] == "F":
                            out = r.frequencies(binary=op[2], registers=op[3])
                            if op[3]:
                                if not isinstance(out, dict) or isinstance(out, collections.Counter) or list(out.keys()) != list(names):
                                    raise ValueError("register keys %r" % (list(out.keys())[:4] if isinstance(out, dict) else type(out),))
                                obs = "rh " + " ; ".join(_s(_dense(out[nm], w, op[2])) for nm, w in zip(names, widths))
                            else:
                                obs = "h " + _s(_dense(out, k, op[2]))
                        elif op[0] == "P":
                            p = np.asarray(r.probabilities(), dtype=float).reshape(-1)
                            val = p
                            if kind == 2:
                                cnt = p * ns
                                if p.shape != (2 ** k,) or not np.allclose(cnt, np.round(cnt), atol=1e-9):
                                    raise ValueError("probabilities %r are not counts / %d" % (p.tolist(), ns))
                                obs = "hp %d %s" % (ns, _s(np.round(cnt)))
                            else:
                                obs = "o " + _owner(p, [None if s is None else _born(s) for s in snaps], uids, j)
                        elif op[0] == "T":
                            if not hasattr(r, "state"):
                                obs = "X"
                            else:
                                v = np.asarray(r.state(), dtype=complex)
                                val = v
                                obs = "o " + _owner(v, snaps, uids, j)
                        else:
                            raise ValueError(op)
                except ValueError as e:
                    obs = "malformed: %s" % e
                except Exception as e:  # the real code raised
                    obs = "raises: %s" % type(e).__name__
                fin = getattr(c, "_final_state", None)
                rec.append({"obs": obs, "used": len(be.calls) - c0, "calls": [list(x) for x in be.calls[c0:]],
                            "perms": [list(x) for x in fs.perms[p0:]], "val": val,
                            "final": next((i for i, rr in enumerate(results) if rr is fin), None)})
    finally:
        _Global._backend = old_backend
    return {"kind": kind, "widths": widths, "names": names, "pre": pre, "rec": rec, "circuit": c, "results": results}


def _born(s):
    s = np.asarray(s)
    return np.abs(s) ** 2 if s.ndim == 1 else np.real(np.diag(s))


def _owner(v, snaps, uids, own):
    """identifier of the execution whose snapshot equals v (own execution preferred)."""
    def eq(a):
        return a is not None and np.shape(a) == np.shape(v) and np.allclose(a, v, atol=1e-9)
    if eq(snaps[own]):
        return str(uids[own])
    for a, u in zip(snaps, uids):
        if eq(a):
            return str(u)
    return "?"


def alone_ops(ops, j):
    """the sub-history of result j, addressed to result 0 of a fresh circuit object;
    also the positions of those operations in `ops`."""
    out, pos, created = [], [], 0
    for t, op in enumerate(ops):
        if op[0] == "E":
            if created == j:
                out.append(op); pos.append(t)
            created += 1
        elif op[1] == j:
            out.append((op[0], 0) + tuple(op[2:])); pos.append(t)
    return out, pos


def check_alone(spec, ops, full, j, how=None):
    """SPEC of the property: result j of the history must show exactly what a FRESH circuit
    object shows when only j's own execution and accessor calls are replayed with the same
    draws.  Returns None or (position in ops, expected, observed)."""
    sub, pos = alone_ops(ops, j)
    tape = [call for t in pos for call in full["rec"][t]["calls"]]
    perms = [p for t in pos for p in full["rec"][t]["perms"]]
    alone = run_history(spec, sub, Tape(tape), PermTape(perms), [how[t] for t in pos] if how else None)
    for t, a in zip(pos, alone["rec"]):
        f = full["rec"][t]
        if a["obs"] != f["obs"] or a["used"] != f["used"]:
            return t, "%s u=%d" % (a["obs"], a["used"]), "%s u=%d" % (f["obs"], f["used"])
        if a["val"] is not None and not (np.shape(a["val"]) == np.shape(f["val"]) and np.allclose(a["val"], f["val"], atol=1e-9)):
            return t, "value of the fresh circuit", "a different state / probability vector"
    return None
'''

_HARNESS_NS = {}
exec(compile(HARNESS_SRC, "<C14 harness>", "exec"), _HARNESS_NS)  # noqa: S102  (same text goes into replays)
globals().update({k: v for k, v in _HARNESS_NS.items() if not k.startswith("__")})


# ---------------------------------------------------------------------------
# generators

def random_spec(rng, kind_hint=None):
    """one circuit: gates, optional noise / collapse, 1..3 terminal registers."""
    n = rng.choice([1, 2, 2, 3, 3, 3])
    kind = kind_hint if kind_hint is not None else rng.choice(["plain", "plain", "plaindm", "noise", "collapse", "collapsedm", "noisecollapse"])
    dm = kind in ("plaindm", "collapsedm")
    gs = []

    def some_gates(m):
        for _ in range(m):
            t = rng.random()
            if t < 0.45 or n == 1:
                gs.append([rng.choice(["H", "X", "Y", "S", "SX", "T"]), rng.randrange(n)])
            elif t < 0.75:
                a, b = rng.sample(range(n), 2)
                gs.append([rng.choice(["CNOT", "CZ", "SWAP"]), a, b])
            else:
                gs.append([rng.choice(["RX", "RY"]), rng.randrange(n), round(rng.uniform(0.3, 2.8), 3)])

    some_gates(rng.randint(1, 4))
    if kind in ("noise", "noisecollapse", "plaindm") and (kind != "plaindm" or rng.random() < 0.6):
        for _ in range(rng.randint(1, 2)):
            gs.append(["PN", rng.randrange(n), rng.choice(["X", "Y", "Z"]), rng.choice([0.3, 0.5, 0.7])])
    if kind in ("collapse", "collapsedm", "noisecollapse"):
        qs = rng.sample(range(n), rng.randint(1, min(2, n)))
        gs.append(["MC", qs])
        if rng.random() < 0.5 and kind == "collapsedm":
            gs.append(["PN", rng.randrange(n), "X", 0.4])
    some_gates(rng.randint(0, 3))
    # terminal registers: a partition of a random non-empty subset of the qubits, any order
    qs = rng.sample(range(n), max(rng.randint(1, n), rng.randint(1, n)))
    nreg = max(rng.randint(1, min(3, len(qs))), rng.randint(1, min(3, len(qs))))
    cuts = sorted(rng.sample(range(1, len(qs)), nreg - 1)) if nreg > 1 else []
    parts = [qs[a:b] for a, b in zip([0] + cuts, cuts + [len(qs)])]
    for i, p in enumerate(parts):
        gs.append(["M", p, rng.choice([None, None, "reg%c" % (97 + i)])])
    return {"n": n, "dm": dm, "gates": gs}


def random_history(rng, spec, maxops):
    n = spec["n"]
    nstates = 2 ** n + 4
    ops, nres, uid = [], 0, 100
    shots = {}
    length = rng.randint(4, maxops)
    while len(ops) < length:
        if nres == 0 or (rng.random() < 0.3 and nres < 4):
            ns = rng.choice([1, 2, 3, 4, 5, 6, 7])
            ops.append(("E", uid, None if rng.random() < 0.15 else rng.randrange(nstates), ns))
            shots[nres] = ns
            uid += 1
            nres += 1
            continue
        # accessor; old results are addressed as often as the newest one
        j = rng.randrange(nres) if rng.random() < 0.6 else nres - 1
        t = rng.random()
        if t < 0.4:
            ops.append(("S", j, rng.random() < 0.5, rng.random() < 0.4))
        elif t < 0.8:
            ops.append(("F", j, rng.random() < 0.5, rng.random() < 0.4))
        elif t < 0.9:
            ops.append(("P", j))
        else:
            ops.append(("T", j))
    return ops


def support_chooser(rng):
    """draws from the support of the distribution (never an impossible outcome)."""
    def ch(p, n):
        p = np.asarray(p, dtype=float)
        idx = [i for i, x in enumerate(p) if x > 1e-12]
        w = [p[i] for i in idx]
        return rng.choices(idx, weights=w, k=n)
    return ch


def perm_chooser(rng):
    def pf(n):
        p = list(range(n))
        rng.shuffle(p)
        return p
    return pf


def history_line(tag, full, ops, legacy, j=None):
    toks = [tag]
    if j is not None:
        toks.append(str(j))
    toks += [str(full["kind"]), "1" if legacy else "0", str(full["pre"]), str(len(full["widths"]))]
    toks += [str(w) for w in full["widths"]]
    toks.append(str(len(ops)))
    for op, rc in zip(ops, full["rec"]):
        flat = [x for call in rc["calls"] for x in call]
        if op[0] == "E":
            toks += ["E", str(op[1]), str(op[3]), str(len(flat))] + [str(x) for x in flat]
        elif op[0] == "S":
            perm = rc["perms"][0] if rc["perms"] else []
            toks += ["S", str(op[1]), "1" if op[3] else "0", str(len(flat))] + [str(x) for x in flat]
            toks += [str(len(perm))] + [str(x) for x in perm]
        elif op[0] == "F":
            toks += ["F", str(op[1]), "1" if op[3] else "0", str(len(flat))] + [str(x) for x in flat]
        else:
            toks += [op[0], str(op[1])]
    return " ".join(toks)


def real_line(full):
    return " | ".join("%s u=%d" % (rc["obs"], rc["used"]) for rc in full["rec"])


def replay_history(spec, ops, how, draws_by_op, perms_by_op):
    """self-contained snippet: replays the history on one circuit object with the recorded
    draws and checks every result against a fresh circuit object."""
    return HARNESS_SRC + f'''
spec = {spec!r}
ops = {[tuple(o) for o in ops]!r}
how = {list(how)!r}
calls = {draws_by_op!r}
perms = {perms_by_op!r}
full = run_history(spec, ops, Tape([c for cs in calls for c in cs]), PermTape([p for ps in perms for p in ps]), how)
nres = sum(1 for o in ops if o[0] == "E")
bad = [(j, check_alone(spec, ops, full, j, how)) for j in range(nres)]
bad = [(j, b) for j, b in bad if b is not None]
for j, b in bad:
    print("result", j, "operation", b[0], ops[b[0]], "fresh circuit gives", b[1], "history gives", b[2])
raise SystemExit(1 if bad else 0)
'''


# ---------------------------------------------------------------------------
# suites

def probe_legacy():
    """does the tree still answer r2.samples() from the rows cached by r1? (the F8 trace)"""
    spec = {"n": 2, "dm": False, "gates": [["M", [0], None], ["M", [1], None]]}
    ops = [("E", 100, 0, 5), ("S", 0, True, False), ("E", 101, 3, 7), ("S", 1, True, False)]
    full = run_history(spec, ops, lambda p, n: [int(np.argmax(p))] * n, lambda n: list(range(n)))
    return full["rec"][3]["obs"] != "t 3 3 3 3 3 3 3", spec, ops, full


def suite_legacy(ctx):
    """the concrete traces of DESIGN §4 F8 and relatives, checked against the fresh circuit."""
    legacy, spec, ops, full = probe_legacy()
    ctx.stat("tree_accessor_logic_legacy" if legacy else "tree_accessor_logic_repaired")
    traces = [
        (spec, ops),
        (spec, [("E", 100, 0, 5), ("E", 101, 3, 7), ("F", 0, True, True), ("F", 1, True, True), ("F", 0, True, True)]),
        (spec, [("E", 100, 0, 5), ("S", 0, True, False), ("E", 101, 3, 7), ("F", 1, True, False), ("F", 1, False, True)]),
        (spec, [("E", 100, 0, 5), ("E", 101, 3, 7), ("S", 1, True, False), ("S", 0, True, True), ("F", 0, False, False)]),
        ({"n": 2, "dm": False, "gates": [["MC", [0]], ["M", [0], None], ["M", [1], None]]},
         [("E", 100, 0, 3), ("E", 101, 3, 3), ("S", 1, True, False), ("F", 1, True, False)]),
        ({"n": 2, "dm": True, "gates": [["H", 0], ["MC", [0]], ["M", [1, 0], "a"]]},
         [("E", 100, 0, 2), ("E", 101, 3, 4), ("S", 1, False, False), ("S", 0, False, True), ("T", 0)]),
        ({"n": 1, "dm": False, "gates": [["PN", 0, "X", 0.5], ["M", [0], None]]},
         [("E", 100, 0, 4), ("E", 101, 1, 2), ("F", 1, True, False), ("P", 1), ("F", 0, True, True)]),
    ]
    bad = 0
    for sp, tr in traces:
        how = [0] * len(tr)
        f = run_history(sp, tr, lambda p, n: [int(np.argmax(p))] * n, lambda n: list(range(n)), how)
        ctx.case(("trace", json.dumps(sp), tuple(tr)))
        nres = sum(1 for o in tr if o[0] == "E")
        for j in range(nres):
            b = check_alone(sp, tr, f, j, how)
            if b is not None:
                bad += 1
                report_history(ctx, sp, tr, how, f, j, b, legacy, ["C14_search_traces"])
                break
    ctx.ob("C14_search_traces", bad == 0, "search", f"{bad} of {len(traces)} fixed traces violate the property" if bad else "")
    return legacy


def report_history(ctx, spec, ops, how, full, j, b, legacy, broken):
    t, exp, obs = b
    key = KEY_STALE if legacy else "independence:%s:%s" % (["plain", "repeated-dm", "repeated-sv"][full["kind"]], ops[t][0])
    ctx.fail(
        key,
        f"result {j} of a history on one circuit object differs from the same execution on a fresh circuit object "
        f"(operation {t}: {ops[t]}; circuit {spec['gates']}; history {ops})",
        replay_history(spec, ops, how, [rc["calls"] for rc in full["rec"]], [rc["perms"] for rc in full["rec"]]),
        expected=exp, observed=obs, broken=broken,
    )


def suite_histories(ctx, legacy):
    rng = ctx.rng
    nhist = 5000 if ctx.thorough else 500
    maxops = 10
    cases = []
    kinds = ["plain", "plain", "plaindm", "noise", "collapse", "collapsedm", "noisecollapse"]
    for i in range(nhist):
        spec = random_spec(rng, kinds[i % len(kinds)])
        ops = random_history(rng, spec, maxops)
        how = [rng.randrange(3) for _ in ops]
        try:
            full = run_history(spec, ops, support_chooser(rng), perm_chooser(rng), how)
        except Exception as e:  # the real code raised inside a history of valid calls
            ctx.fail("history-raises:%s" % type(e).__name__, f"history {ops} on circuit {spec['gates']} raises {e!r}",
                     replay_history(spec, ops, how, [], []), broken=["C14_corr_histories"])
            continue
        cases.append((spec, ops, how, full))
        ctx.case((json.dumps(spec), tuple(ops)))
        ctx.stat("hist_kind_%s" % ["plain", "repeated-dm", "repeated-sv"][full["kind"]])
        ctx.stat("hist_regs_%d" % len(full["widths"]))
        ctx.stat("hist_results_%d" % sum(1 for o in ops if o[0] == "E"))
        ctx.stat("ops_total", len(ops))
        if i < 3:
            ctx.sample({"circuit": spec, "history": [list(o) for o in ops], "observed": real_line(full)})
    # (a) correspondence with the Lean state machine
    lines = [history_line("H", full, ops, legacy) for _, ops, _, full in cases]
    outs = run_driver(lines, driver=DRIVER)
    bad_corr = 0
    suspects = []
    for (spec, ops, how, full), out in zip(cases, outs):
        if out != real_line(full):
            bad_corr += 1
            suspects.append((spec, ops, how, full, out))
    # (b) direct search: every result against a fresh circuit object
    bad_search = 0
    for spec, ops, how, full in cases:
        nres = sum(1 for o in ops if o[0] == "E")
        for j in range(nres):
            b = check_alone(spec, ops, full, j, how)
            ctx.case(None)
            if b is not None:
                bad_search += 1
                report_history(ctx, spec, ops, how, full, j, b, legacy, ["C14_search_histories", "C14_corr_histories"])
                break
    for spec, ops, how, full, out in suspects[:3]:
        # model and code disagree: if the search above found nothing, report the disagreement itself
        real = real_line(full).split(" | ")
        mod = out.split(" | ")
        t = next((i for i, (a, b) in enumerate(zip(real, mod)) if a != b), 0)
        ctx.log(f"model/code disagreement at op {t} {ops[t] if t < len(ops) else ''}: model {mod[t] if t < len(mod) else '?'} real {real[t] if t < len(real) else '?'} circuit {spec['gates']} history {ops}")
        if not ctx.failures:
            ctx.fail(
                "model-mismatch:%s" % ops[t][0],
                f"operation {t} {ops[t]} of history {ops} on circuit {spec['gates']}: the code answers {real[t]}, the state machine {mod[t]}",
                replay_history(spec, ops, how, [rc["calls"] for rc in full["rec"]], [rc["perms"] for rc in full["rec"]]),
                expected=mod[t], observed=real[t], broken=["C14_corr_histories"],
            )
    ctx.ob("C14_corr_histories", bad_corr == 0, "correspondence", f"{bad_corr} of {len(cases)} histories disagree with the state machine" if bad_corr else "")
    ctx.ob("C14_search_histories", bad_search == 0, "search", f"{bad_search} histories contain a result that does not stand alone" if bad_search else "")
    # the model's own `aloneFrom` against the harness' alone_ops (keeps the theorem's projection honest)
    sub = cases[: 40 if ctx.thorough else 15]
    lines, want = [], []
    for spec, ops, how, full in sub:
        nres = sum(1 for o in ops if o[0] == "E")
        j = rng.randrange(nres)
        lines.append(history_line("A", full, ops, False, j))
        so, pos = alone_ops(ops, j)
        f2 = dict(full)
        f2["rec"] = [full["rec"][t] for t in pos]
        want.append(history_line("H", f2, so, False))
    outs_a = run_driver(lines, driver=DRIVER)
    outs_h = run_driver(want, driver=DRIVER)
    bad = sum(1 for a, b in zip(outs_a, outs_h) if a != b)
    ctx.ob("C14_corr_projection", bad == 0, "correspondence", f"{bad} projections differ" if bad else "")
    # `circuit._final_state` (what Circuit.final_state answers) after every prefix of the history:
    # the model's `St.final` = the result of the LAST execution, whatever was asked in between
    lines, want = [], []
    for spec, ops, how, full in cases[: 400 if ctx.thorough else 120]:
        for cut in sorted({len(ops), rng.randint(1, len(ops))}):
            f2 = dict(full)
            f2["rec"] = full["rec"][:cut]
            lines.append(history_line("L", f2, ops[:cut], legacy))
            fin = full["rec"][cut - 1]["final"]
            want.append("-" if fin is None else str(fin))
            nex = sum(1 for o in ops[:cut] if o[0] == "E")
            if nex and fin != nex - 1 and not ctx.failures:
                ctx.fail("final-state:not-last-execution",
                         f"after the first {cut} operations of history {ops} on circuit {spec['gates']} circuit._final_state is result {fin}, not the result of the last execution ({nex - 1})",
                         replay_history(spec, ops[:cut], how[:cut], [rc["calls"] for rc in f2["rec"]], [rc["perms"] for rc in f2["rec"]])
                         .replace("raise SystemExit(1 if bad else 0)", "import sys\nres = full['results']\nsys.exit(0 if (not res or full['circuit']._final_state is res[-1]) else 1)"),
                         expected=str(nex - 1), observed=str(fin), broken=["C14_corr_final_state"])
    outs_l = run_driver(lines, driver=DRIVER)
    bad = sum(1 for a, b in zip(outs_l, want) if a != b)
    ctx.ob("C14_corr_final_state", bad == 0, "correspondence", f"{bad} of {len(lines)} prefixes: circuit._final_state differs from the state machine's" if bad else "")


def _run_body(body):
    """run a check body (same text as in the replay) in a namespace holding the harness."""
    ns = dict(_HARNESS_NS)
    exec(compile(body, "<C14 body>", "exec"), ns)  # noqa: S102
    return ns


def suite_seed(ctx, legacy):
    """set_seed(s_i) before the i-th execution of ONE circuit object (+ accessor calls in a
    random order) must give what set_seed(s_i) + the same calls give on a fresh circuit."""
    rng = ctx.rng
    bad = 0
    for i in range(60 if ctx.thorough else 20):
        spec = random_spec(rng, ["plain", "plaindm", "noise", "collapse", "collapsedm"][i % 5])
        n = spec["n"]
        runs = []
        for _ in range(rng.randint(2, 4)):
            runs.append((rng.randrange(10 ** 6), rng.randrange(2 ** n + 4), rng.randint(1, 9), rng.random() < 0.5))
        if rng.random() < 0.5:  # the property's own sentence: the same seed again
            runs.append(runs[0])
        body = f'''
spec = {spec!r}
runs = {runs!r}
nb = NumpyBackend()
def go(c, seed, sid, ns, samples_first):
    nb.set_seed(seed)
    r = nb.execute_circuit(c, initial_state=input_state(spec["n"], sid, spec["dm"]), nshots=ns)
    if samples_first:
        s = np.asarray(r.samples()).tolist()
        f = sorted(r.frequencies().items())
    else:
        f = sorted(r.frequencies().items())
        s = np.asarray(r.samples()).tolist()
    return s, f
c = build(spec)
same = [go(c, *run) for run in runs]
fresh = [go(build(spec), *run) for run in runs]
ok = same == fresh
'''
        ns_ = _run_body(body)
        ctx.case(("seed", json.dumps(spec), tuple(runs)))
        ctx.stat("seed_numpy")
        if not ns_["ok"]:
            bad += 1
            ctx.fail(KEY_STALE if legacy else "seed:numpy",
                     f"set_seed + execution + samples/frequencies on a circuit object that was executed before differs from the same on a fresh circuit (circuit {spec['gates']}, runs (seed, input, nshots, samples first) {runs})",
                     HARNESS_SRC + body + "print(same); print(fresh)\nraise SystemExit(0 if ok else 1)\n",
                     expected=str(ns_["fresh"])[:400], observed=str(ns_["same"])[:400], broken=["C14_search_seed"])
    ctx.ob("C14_search_seed", bad == 0, "search", f"{bad} seeded histories not reproduced" if bad else "")

    # Clifford backend
    bad = 0
    for i in range(24 if ctx.thorough else 8):
        n = rng.randint(1, 3)
        gl = []
        for _ in range(rng.randint(1, 5)):
            if n > 1 and rng.random() < 0.4:
                a_, b_ = rng.sample(range(n), 2)
                gl.append([rng.choice(["CNOT", "CZ", "SWAP"]), a_, b_])
            else:
                gl.append([rng.choice(["H", "X", "S", "Y", "Z"]), rng.randrange(n)])
        qs = rng.sample(range(n), rng.randint(1, n))
        gl.append(["M", qs, None])
        spec = {"n": n, "dm": False, "gates": gl}
        shots = rng.sample(range(1, 10), rng.randint(2, 3))
        runs = [(rng.randrange(10 ** 6), m) for m in shots]
        body = f'''
from qibo.backends import CliffordBackend
spec = {spec!r}
runs = {runs!r}
cb = CliffordBackend()
def go(c, seed, ns):
    cb.set_seed(seed)
    r = cb.execute_circuit(c, nshots=ns)
    return np.asarray(r.samples()).tolist(), sorted(r.frequencies().items())
c = build(spec)
same = [go(c, *run) for run in runs]
fresh = [go(build(spec), *run) for run in runs]
ok = same == fresh
'''
        ns_ = _run_body(body)
        ctx.case(("seed-clifford", json.dumps(spec), tuple(runs)))
        ctx.stat("seed_clifford")
        if not ns_["ok"]:
            bad += 1
            ctx.fail(KEY_CLIFFORD, f"Clifford backend: a later execution of the same circuit object returns the rows cached by an earlier one (circuit {gl}, (seed, nshots) {runs})",
                     HARNESS_SRC + body + "print(same); print(fresh)\nraise SystemExit(0 if ok else 1)\n",
                     expected=str(ns_["fresh"])[:400], observed=str(ns_["same"])[:400], broken=["C14_search_seed_clifford"])
    ctx.ob("C14_search_seed_clifford", bad == 0, "search", f"{bad} Clifford re-executions differ from a fresh circuit" if bad else "")


def suite_handles(ctx, legacy):
    """the MeasurementResult handle returned by circuit.add(gates.M(...)) describes the LATEST
    execution (right after it), not an earlier one; collapse handles hold nshots rows."""
    rng = ctx.rng
    bad = 0
    for i in range(40 if ctx.thorough else 12):
        spec = random_spec(rng, ["plain", "collapsedm", "noise", "plaindm", "collapse"][i % 5])
        n = spec["n"]
        runs = [(None if rng.random() < 0.2 else rng.randrange(2 ** n + 4), rng.randint(1, 7), rng.random() < 0.5) for _ in range(rng.randint(2, 3))]
        body = f'''
spec = {spec!r}
runs = {runs!r}
nb = NumpyBackend()
c = build(spec)
finals = [g for g in c.queue if isinstance(g, gates.M) and not g.collapse]
colls = [g for g in c.queue if isinstance(g, gates.M) and g.collapse]
ok, seen = True, []
for sid, ns, touch in runs:
    r = nb.execute_circuit(c, initial_state=input_state(spec["n"], sid, spec["dm"]), nshots=ns)
    hs = [np.asarray(g.result.samples()).tolist() for g in finals]
    hf = [sorted(g.result.frequencies().items()) for g in finals]
    rs = r.samples(registers=True)
    rf = r.frequencies(registers=True)
    want_s = [np.asarray(rs[g.register_name]).tolist() for g in finals]
    want_f = [sorted(rf[g.register_name].items()) for g in finals]
    hc = [len(g.result.samples()) for g in colls]
    seen.append((hs, want_s, hf, want_f, hc, ns))
    ok = ok and hs == want_s and hf == want_f and all(x == ns for x in hc)
    if touch and seen:
        pass
'''
        ns_ = _run_body(body)
        ctx.case(("handles", json.dumps(spec), tuple(runs)))
        ctx.stat("handles")
        if not ns_["ok"]:
            bad += 1
            ctx.fail(KEY_STALE if legacy else "handle:stale-after-reexecution",
                     f"after a re-execution the MeasurementResult of a measurement gate still shows an earlier execution (circuit {spec['gates']}, runs (input, nshots) {runs})",
                     HARNESS_SRC + body + "print(seen)\nraise SystemExit(0 if ok else 1)\n",
                     observed=str(ns_["seen"])[:500], broken=["C14_search_handles"])
    ctx.ob("C14_search_handles", bad == 0, "search", f"{bad} histories with a stale gate handle" if bad else "")


ALIAS_BODY = '''
nb = NumpyBackend()
circuits = [build(sp) for sp in specs]
n, dm = specs[0]["n"], specs[0]["dm"]
shared = np.ascontiguousarray(input_state(n, shared_sid, dm), dtype=np.complex128)
owned = [(shared, shared.copy(), "the caller's reused array")]
results, snaps, why = [], [], None
for step, (ci, src, ns) in enumerate(plan):
    if src[0] == "result" and src[1] < len(results) and hasattr(results[src[1]], "state"):
        arr = results[src[1]].state()          # the very array object the earlier result returns
    elif src[0] == "fresh":
        arr = np.ascontiguousarray(input_state(n, src[1], dm), dtype=np.complex128)
        owned.append((arr, arr.copy(), "the caller's array of step %d" % step))
    else:
        arr = shared
    before = np.array(arr, copy=True)
    r = nb.execute_circuit(circuits[ci], initial_state=arr, nshots=ns)
    want = nb.execute_circuit(build(specs[ci]), initial_state=before.copy(), nshots=ns)
    if why is None and not np.allclose(np.asarray(r.state()), np.asarray(want.state()), atol=1e-12):
        why = ("value", "step %d: executing circuit %d on this input gives another state than a fresh circuit on a copy of the input" % (step, ci))
    for k, (rk, (sk, pk)) in enumerate(zip(results, snaps)):
        if why is None and not (np.array_equal(np.asarray(rk.state()), sk) and np.allclose(np.asarray(rk.probabilities()), pk, atol=1e-12)):
            why = ("earlier", "step %d (circuit %d, input %r): state()/probabilities() of the result of step %d changed" % (step, ci, src, k))
    for a, orig, name in owned:
        if why is None and not np.array_equal(a, orig):
            why = ("input", "step %d (circuit %d, input %r): %s was overwritten" % (step, ci, src, name))
    results.append(r)
    snaps.append((np.array(r.state(), copy=True), np.array(r.probabilities(), copy=True)))
ok = why is None
'''


def suite_aliasing(ctx):
    """initial states that are the array returned by an earlier result's state(), or one
    caller-owned array reused for several executions (same / different circuit objects):
    no execution may change an earlier result or the caller's array."""
    rng = ctx.rng
    bad = 0

    def ctrl_gate(n):
        style = rng.choice(["leading", "single", "nonleading", "any"])
        base = rng.choice(["RY", "RX", "H", "X", "SWAP"] if n >= 3 else ["RY", "RX", "H", "X"])
        nt = 2 if base == "SWAP" else 1
        maxc = n - nt
        if style == "leading":
            nc = rng.randint(1, maxc)
            controls = list(range(nc))
            targets = rng.sample(range(nc, n), nt)
        elif style == "single":
            qs = rng.sample(range(n), nt + 1)
            controls, targets = [qs[0]], qs[1:]
        elif style == "nonleading":
            qs = rng.sample(range(n), nt + rng.randint(1, maxc))
            targets, controls = qs[:nt], sorted(qs[nt:], reverse=True)
        else:
            qs = rng.sample(range(n), nt + rng.randint(1, maxc))
            targets, controls = qs[:nt], qs[nt:]
        return ["CTRL", base, targets, controls, round(rng.uniform(0.4, 2.6), 3) if base in ("RY", "RX") else None]

    def mk_spec(n, dm, first_ctrl):
        gs = []
        if first_ctrl:
            gs.append(ctrl_gate(n))
        for _ in range(rng.randint(0, 3)):
            t = rng.random()
            if t < 0.4:
                gs.append([rng.choice(["H", "X", "S", "T", "SX"]), rng.randrange(n)])
            elif t < 0.6:
                a, b = rng.sample(range(n), 2)
                gs.append([rng.choice(["CNOT", "CZ", "SWAP"]), a, b])
            elif t < 0.8:
                gs.append([rng.choice(["RX", "RY"]), rng.randrange(n), round(rng.uniform(0.3, 2.8), 3)])
            else:
                gs.append(ctrl_gate(n))
        if rng.random() < 0.7:
            gs.append(["M", rng.sample(range(n), rng.randint(1, n)), None])
        return {"n": n, "dm": dm, "gates": gs}

    for i in range(150 if ctx.thorough else 40):
        n = rng.choice([2, 3, 3, 4])
        dm = i % 4 == 3
        specs = [mk_spec(n, dm, rng.random() < 0.8) for _ in range(rng.randint(1, 3))]
        # superposition inputs: every amplitude non-zero, so that an overwritten block shows
        shared_sid = 2 ** n + rng.randrange(4)
        plan = []
        for t in range(rng.randint(2, 5)):
            u = rng.random()
            if t > 0 and u < 0.45:
                src = ("result", rng.randrange(t))
            elif u < 0.8:
                src = ("shared",)
            else:
                src = ("fresh", 2 ** n + rng.randrange(4))
            plan.append((rng.randrange(len(specs)), src, rng.randint(1, 5)))
        body = f"specs = {specs!r}\nshared_sid = {shared_sid}\nplan = {plan!r}\n" + ALIAS_BODY
        ns_ = _run_body(body)
        ctx.case(("aliasing", json.dumps(specs), tuple(plan)))
        ctx.stat("aliasing_dm" if dm else "aliasing_sv")
        if not ns_["ok"]:
            bad += 1
            kind, msg = ns_["why"]
            key = {"earlier": "aliasing:earlier-result-changed", "input": "aliasing:input-modified", "value": "aliasing:result-depends-on-reused-input"}[kind]
            ctx.fail(key, f"{msg}; circuits {[sp['gates'] for sp in specs]} (density_matrix={dm}), plan (circuit, input source, nshots) {plan}",
                     HARNESS_SRC + body + "print(why)\nraise SystemExit(0 if ok else 1)\n", observed=msg, broken=["C14_search_aliasing"])
    ctx.ob("C14_search_aliasing", bad == 0, "search", f"{bad} histories where an execution changed an earlier result or the caller's array" if bad else "")


ORDER_BODY = '''
from qibo.parallel import parallel_circuits_execution, parallel_execution, parallel_parametrized_execution
nb = NumpyBackend()
def mk(i):
    n, seedv = sizes[i], i + 1
    c = Circuit(n)
    for q in range(n):
        c.add(gates.RY(q, theta=0.37 * seedv + 0.11 * q + salt))
    for q in range(n - 1):
        if (seedv + q) % 2:
            c.add(gates.CNOT(q, q + 1))
    c.add(gates.RX(n - 1, theta=0.2 * seedv))
    if measured:
        c.add(gates.M(*range(n)))
    return c
def st(i):
    if states_mode == "none":
        return None
    j = 0 if states_mode == "single" else i
    return input_state(sizes[i], 2 ** sizes[i] + (j % 4), False)
circuits = [mk(i) for i in range(len(sizes))]
if states_mode == "none":
    states = None
elif states_mode == "single":
    states = st(0)
else:
    states = [st(i) for i in range(len(sizes))]
    if states_mode == "tuple":
        states = tuple(states)
if via == "backend":
    res = nb.execute_circuits(circuits, states, nshots=nshots, processes=k)
else:
    res = parallel_circuits_execution(circuits, states, nshots=nshots, processes=k, backend=nb)
seq = [nb.execute_circuit(mk(i), initial_state=st(i), nshots=nshots) for i in range(len(sizes))]
why = None
if len(res) != len(seq):
    why = "%d results for %d circuits" % (len(res), len(seq))
for i, (a, b) in enumerate(zip(res, seq)):
    sa, sb = np.asarray(a.state()), np.asarray(b.state())
    if why is None and not (sa.shape == sb.shape and np.allclose(sa, sb, atol=1e-12)):
        why = "result %d is not the execution of circuit %d (%d qubits): it has %d qubits" % (i, i, sizes[i], a.nqubits)
    if why is None and measured:
        f = a.frequencies()
        if a.nshots != nshots or sum(f.values()) != nshots or any(len(key) != sizes[i] for key in f):
            why = "result %d: frequencies %r do not fit circuit %d (%d qubits, %d shots)" % (i, dict(f), i, sizes[i], nshots)
ok = why is None
'''


def suite_order(ctx):
    """result i of the parallel helpers is the execution of circuit / state / parameter set i,
    for every order pattern of circuit sizes and any number of workers."""
    import itertools

    from qibo import Circuit, gates
    from qibo.backends import NumpyBackend
    from qibo.parallel import parallel_execution, parallel_parametrized_execution

    rng = ctx.rng
    nb = NumpyBackend()
    bad = 0
    patterns = [[1, 2, 3], [3, 2, 1], [2, 3, 1], [3, 1, 2], [2, 1, 3], [1, 3, 2], [2, 4, 1, 3], [3, 1, 4, 2],
                [2, 2, 2], [3, 3, 3, 3], [1, 2, 2, 1], [2, 3, 3, 1, 2]]
    for _ in range(10 if ctx.thorough else 4):
        m = rng.randint(4, 6)
        patterns.append(rng.sample(range(1, 7), m))
    if ctx.thorough:
        patterns += [list(p) for p in itertools.permutations([1, 2, 3, 4])]
    has_backend_api = hasattr(nb, "execute_circuits")
    for pi, sizes in enumerate(patterns):
        same = len(set(sizes)) == 1
        modes = ["none", "list", "tuple"] + (["single"] if same else [])
        ks = [1, 2, 3, 4] if (ctx.thorough or pi < 8) else [rng.randint(1, 4)]
        for k in ks:
            mode = modes[(pi + k) % len(modes)]
            via = "backend" if (has_backend_api and (pi + k) % 3 == 0) else "helper"
            measured = (pi + k) % 2 == 0
            head = f"sizes = {sizes!r}\nk = {k}\nstates_mode = {mode!r}\nvia = {via!r}\nmeasured = {measured}\nnshots = {rng.randint(1, 30)}\nsalt = {round(rng.uniform(0, 1), 3)}\n"
            ns_ = _run_body(head + ORDER_BODY)
            ctx.case(("order", tuple(sizes), k, mode, via, measured))
            ctx.stat("order_%s_k%d" % (via, k))
            if not ns_["ok"]:
                bad += 1
                ctx.fail("parallel:result-order", f"parallel_circuits_execution ({via}, processes={k}, states={mode}) over circuits with qubit counts {sizes}: {ns_['why']}",
                         HARNESS_SRC + head + ORDER_BODY + "print(why)\nraise SystemExit(0 if ok else 1)\n", observed=ns_["why"], broken=["C14_search_order"])
    # parallel_execution: one circuit, states in non-monotone order; parallel_parametrized_execution:
    # parameter sets in non-monotone order
    for i in range(12 if ctx.thorough else 4):
        n = rng.randint(1, 4)
        m = rng.randint(3, 7)
        sids = [rng.randrange(2 ** n + 4) for _ in range(m)]
        thetas = [round(rng.uniform(-3, 3), 3) for _ in range(m)]
        k = rng.randint(1, 4)
        head = f"n = {n}\nsids = {sids!r}\nthetas = {thetas!r}\nk = {k}\n"
        body = head + '''
from qibo.parallel import parallel_execution, parallel_parametrized_execution
nb = NumpyBackend()
def mk(theta=0.0):
    c = Circuit(n)
    for q in range(n):
        c.add(gates.RY(q, theta=theta + 0.1 * q))
    for q in range(n - 1):
        c.add(gates.CZ(q, q + 1))
    c.add(gates.M(*range(n)))
    return c
res = parallel_execution(mk(0.7), [input_state(n, s, False) for s in sids], processes=k, backend=nb)
seq = [nb.execute_circuit(mk(0.7), initial_state=input_state(n, s, False)) for s in sids]
why = None
for i, (a, b) in enumerate(zip(res, seq)):
    if why is None and not np.allclose(a.state(), b.state(), atol=1e-12):
        why = "parallel_execution: result %d is not the execution on state %d" % (i, i)
if len(res) != len(seq):
    why = "parallel_execution: %d results" % len(res)
params = [[t + 0.1 * q for q in range(n)] for t in thetas]
res = parallel_parametrized_execution(mk(), [np.array(p) for p in params], initial_state=input_state(n, sids[0], False), processes=k, backend=nb)
seq = [nb.execute_circuit(mk(t), initial_state=input_state(n, sids[0], False)) for t in thetas]
for i, (a, b) in enumerate(zip(res, seq)):
    if why is None and not np.allclose(a.state(), b.state(), atol=1e-12):
        why = "parallel_parametrized_execution: result %d is not the execution with parameter set %d" % (i, i)
if why is None and len(res) != len(seq):
    why = "parallel_parametrized_execution: %d results" % len(res)
ok = why is None
'''
        ns_ = _run_body(body)
        ctx.case(("order-states-params", n, tuple(sids), tuple(thetas), k))
        ctx.stat("order_states_params")
        if not ns_["ok"]:
            bad += 1
            ctx.fail("parallel:result-order", f"{ns_['why']} (n={n}, states {sids}, angles {thetas}, processes={k})",
                     HARNESS_SRC + body + "print(why)\nraise SystemExit(0 if ok else 1)\n", observed=ns_["why"], broken=["C14_search_order"])
    ctx.ob("C14_search_order", bad == 0, "search", f"{bad} parallel runs return results in the wrong order" if bad else "")


def suite_parallel(ctx, legacy):
    from qibo import Circuit, gates
    from qibo.backends import NumpyBackend
    from qibo.parallel import parallel_circuits_execution, parallel_execution, parallel_parametrized_execution

    rng = ctx.rng
    nb = NumpyBackend()
    bad = 0

    def fail(key, what, py, exp=None, obs=None):
        nonlocal bad
        bad += 1
        ctx.fail(key, what, py, expected=exp, observed=obs, broken=["C14_search_parallel"])

    PRE = HARNESS_SRC + "\nfrom qibo.parallel import parallel_execution, parallel_circuits_execution, parallel_parametrized_execution\nnb = NumpyBackend()\n"
    reps = 10 if ctx.thorough else 4
    for i in range(reps):
        measured = i % 2 == 1
        spec = random_spec(rng, "plain")
        if not measured:
            spec["gates"] = [g for g in spec["gates"] if g[0] != "M"]
        n = spec["n"]
        sids = [rng.randrange(2 ** n + 4) for _ in range(rng.randint(2, 6))]
        for k in ([1, 2, 3, 4] if ctx.thorough or i < 2 else [1, 3]):
            # --- parallel_execution: one circuit object, many states
            c = build(spec)
            states = [input_state(n, s, False) for s in sids]
            keep = [s.copy() for s in states]
            res = parallel_execution(c, states, processes=k, backend=nb)
            seq = [nb.execute_circuit(build(spec), initial_state=s.copy()) for s in keep]
            ctx.case(("parallel_execution", json.dumps(spec), tuple(sids), k))
            ctx.stat("parallel_execution_k%d" % k)
            py = PRE + f'''
spec = {spec!r}; sids = {sids}
states = [input_state(spec["n"], s, False) for s in sids]
res = parallel_execution(build(spec), [s.copy() for s in states], processes={k}, backend=nb)
seq = [nb.execute_circuit(build(spec), initial_state=s.copy()) for s in states]
ok = len(res) == len(seq) and all(np.allclose(a.state(), b.state(), atol=1e-12) for a, b in zip(res, seq))
if ok and {measured}:
    for a, b in zip(res, seq):
        p = np.asarray(b.probabilities(), dtype=float)
        rows = np.asarray(a.samples(binary=False))
        ok = ok and rows.shape == (1000,) and np.allclose(a.probabilities(), p, atol=1e-12)
        f = a.frequencies(binary=False)
        ok = ok and sum(f.values()) == 1000 and all(int(np.sum(rows == key)) == v for key, v in f.items())
        q = [gq for g in spec["gates"] if g[0] == "M" for gq in g[1]]
        pm = np.asarray(b.probabilities(q), dtype=float)
        ok = ok and all(pm[int(x)] > 1e-12 for x in rows)
raise SystemExit(0 if ok else 1)
'''
            ok = len(res) == len(seq) and all(np.allclose(a.state(), b.state(), atol=1e-12) for a, b in zip(res, seq))
            ok = ok and all(np.array_equal(s, t) for s, t in zip(states, keep))
            if ok and measured:
                q = [gq for g in spec["gates"] if g[0] == "M" for gq in g[1]]
                order = list(range(len(res)))
                rng.shuffle(order)
                for idx in order:  # accessors in a random order over the results
                    a, b = res[idx], seq[idx]
                    rows = np.asarray(a.samples(binary=False))
                    f = a.frequencies(binary=False)
                    pm = np.asarray(b.probabilities(q), dtype=float)
                    ok = ok and rows.shape == (1000,) and np.allclose(a.probabilities(), b.probabilities(), atol=1e-12)
                    ok = ok and sum(f.values()) == 1000 and all(int(np.sum(rows == key)) == v for key, v in f.items())
                    ok = ok and all(pm[int(x)] > 1e-12 for x in rows)
            if not ok:
                fail(KEY_STALE if (legacy and measured) else "parallel_execution", f"parallel_execution(processes={k}) over states {sids} of circuit {spec['gates']} differs from sequential execution", py)
            # --- parallel_circuits_execution: the SAME circuit object several times + other circuits
            c = build(spec)
            other = build(spec)
            circuits = [c, other, c, c][: len(sids)] + [c] * max(0, len(sids) - 4)
            res = parallel_circuits_execution(circuits, [s.copy() for s in keep], nshots=rng.randint(1, 20), processes=k, backend=nb)
            ok = len(res) == len(seq) and all(np.allclose(a.state(), b.state(), atol=1e-12) for a, b in zip(res, seq))
            if ok and measured:
                q = [gq for g in spec["gates"] if g[0] == "M" for gq in g[1]]
                for a, b in zip(res, seq):
                    rows = np.asarray(a.samples(binary=False))
                    pm = np.asarray(b.probabilities(q), dtype=float)
                    f = a.frequencies(binary=False)
                    ok = ok and rows.shape == (a.nshots,) and all(pm[int(x)] > 1e-12 for x in rows)
                    ok = ok and sum(f.values()) == a.nshots and all(int(np.sum(rows == key)) == v for key, v in f.items())
            ctx.case(("parallel_circuits_execution", json.dumps(spec), tuple(sids), k))
            ctx.stat("parallel_circuits_execution_k%d" % k)
            if not ok:
                py2 = PRE + f'''
spec = {spec!r}; sids = {sids}
states = [input_state(spec["n"], s, False) for s in sids]
c = build(spec); other = build(spec)
circuits = [c, other, c, c][: len(sids)] + [c] * max(0, len(sids) - 4)
res = parallel_circuits_execution(circuits, [s.copy() for s in states], nshots=7, processes={k}, backend=nb)
seq = [nb.execute_circuit(build(spec), initial_state=s.copy()) for s in states]
ok = all(np.allclose(a.state(), b.state(), atol=1e-12) for a, b in zip(res, seq))
if ok and {measured}:
    q = [gq for g in spec["gates"] if g[0] == "M" for gq in g[1]]
    for a, b in zip(res, seq):
        rows = np.asarray(a.samples(binary=False)); pm = np.asarray(b.probabilities(q), dtype=float)
        ok = ok and rows.shape == (7,) and all(pm[int(x)] > 1e-12 for x in rows)
raise SystemExit(0 if ok else 1)
'''
                fail(KEY_STALE if (legacy and measured) else "parallel_circuits_execution", f"parallel_circuits_execution(processes={k}) with one circuit object listed several times (states {sids}, circuit {spec['gates']}) differs from sequential execution", py2)
        # --- deterministic samples with one worker and a fixed seed
        if measured:
            seed = rng.randrange(10 ** 6)
            c = build(spec)
            nb.set_seed(seed)
            res = parallel_execution(c, [s.copy() for s in keep], processes=1, backend=nb)
            a = [np.asarray(r.samples(binary=False)).tolist() for r in res]
            nb.set_seed(seed)
            seq = [nb.execute_circuit(build(spec), initial_state=s.copy()) for s in keep]
            b = [np.asarray(r.samples(binary=False)).tolist() for r in seq]
            ctx.case(("parallel-seed", json.dumps(spec), tuple(sids), seed))
            if a != b:
                py3 = PRE + f'''
spec = {spec!r}; sids = {sids}
states = [input_state(spec["n"], s, False) for s in sids]
nb.set_seed({seed}); a = [np.asarray(r.samples(binary=False)).tolist() for r in parallel_execution(build(spec), [s.copy() for s in states], processes=1, backend=nb)]
nb.set_seed({seed}); b = [np.asarray(r.samples(binary=False)).tolist() for r in [nb.execute_circuit(build(spec), initial_state=s.copy()) for s in states]]
raise SystemExit(0 if a == b else 1)
'''
                fail(KEY_STALE if legacy else "parallel_execution:seed", f"parallel_execution(processes=1) with a fixed seed gives other samples than sequential execution of fresh circuits (states {sids}, circuit {spec['gates']})", py3, str(b)[:300], str(a)[:300])
    # --- parallel_parametrized_execution
    for i in range(reps):
        n = rng.randint(1, 3)
        layers = rng.randint(1, 2)
        measured = i % 2 == 1

        def mk():
            c = Circuit(n)
            for _ in range(layers):
                for q in range(n):
                    c.add(gates.RY(q, theta=0.0))
                for q in range(n - 1):
                    c.add(gates.CZ(q, q + 1))
                for q in range(n):
                    c.add(gates.RX(q, theta=0.0))
            if measured:
                c.add(gates.M(*range(n)))
            return c

        npar = 2 * n * layers
        params = [[round(rng.uniform(-3, 3), 3) for _ in range(npar)] for _ in range(rng.randint(2, 5))]
        sid = rng.randrange(2 ** n + 4)
        init = input_state(n, sid, False)
        for k in ([1, 2, 3, 4] if ctx.thorough or i < 2 else [2]):
            c = mk()
            before = list(c.get_parameters("flatlist"))
            init0 = init.copy()
            res = parallel_parametrized_execution(c, [np.array(p) for p in params], initial_state=init0, processes=k, backend=nb)
            seq = []
            for p in params:
                cc = mk()
                cc.set_parameters(p)
                seq.append(nb.execute_circuit(cc, initial_state=init.copy()))
            ok = len(res) == len(seq) and all(np.allclose(a.state(), b.state(), atol=1e-12) for a, b in zip(res, seq))
            ok = ok and np.array_equal(init0, init) and list(c.get_parameters("flatlist")) == before
            if ok and measured:
                for a, b in zip(res, seq):
                    rows = np.asarray(a.samples(binary=False))
                    pm = np.asarray(b.probabilities(), dtype=float)
                    ok = ok and rows.shape == (1000,) and all(pm[int(x)] > 1e-12 for x in rows) and np.allclose(a.probabilities(), pm, atol=1e-12)
            ctx.case(("parallel_parametrized_execution", n, layers, tuple(map(tuple, params)), sid, k))
            ctx.stat("parallel_parametrized_execution_k%d" % k)
            if not ok:
                py4 = PRE + f'''
n, layers, measured, params, sid = {n}, {layers}, {measured}, {params}, {sid}
def mk():
    c = Circuit(n)
    for _ in range(layers):
        for q in range(n): c.add(gates.RY(q, theta=0.0))
        for q in range(n - 1): c.add(gates.CZ(q, q + 1))
        for q in range(n): c.add(gates.RX(q, theta=0.0))
    if measured: c.add(gates.M(*range(n)))
    return c
init = input_state(n, sid, False)
c = mk(); init0 = init.copy()
res = parallel_parametrized_execution(c, [np.array(p) for p in params], initial_state=init0, processes={k}, backend=nb)
seq = []
for p in params:
    cc = mk(); cc.set_parameters(p); seq.append(nb.execute_circuit(cc, initial_state=init.copy()))
ok = all(np.allclose(a.state(), b.state(), atol=1e-12) for a, b in zip(res, seq)) and np.array_equal(init0, init)
ok = ok and all(abs(x) < 1e-15 for x in c.get_parameters("flatlist"))
raise SystemExit(0 if ok else 1)
'''
                fail("parallel_parametrized_execution", f"parallel_parametrized_execution(processes={k}) differs from sequential set_parameters + execute (n={n}, parameters {params})", py4)
    ctx.ob("C14_search_parallel", bad == 0, "search", f"{bad} parallel runs differ from sequential execution" if bad else "")


def suite_writes(ctx):
    """which attributes of shared objects an execution writes (statistics), and: an execution
    never writes into a result object returned earlier."""
    from qibo import result as qresult
    from qibo.backends import NumpyBackend
    from qibo.measurements import MeasurementResult
    from qibo.models.circuit import Circuit as QC

    rng = ctx.rng
    nb = NumpyBackend()
    bad = 0
    for i in range(12 if ctx.thorough else 5):
        spec = random_spec(rng, ["plain", "noise", "collapsedm", "plaindm", "collapse"][i % 5])
        c = build(spec)
        n = spec["n"]
        old = nb.execute_circuit(c, initial_state=input_state(n, 1, spec["dm"]), nshots=3)
        old.samples()
        writes = []
        saved = {}

        def tracer(cls):
            orig = cls.__setattr__

            def sa(self, name, value, _o=orig, _c=cls):
                writes.append((_c.__name__, name, self is old))
                _o(self, name, value)
            saved[cls] = orig
            cls.__setattr__ = sa

        classes = [QC, MeasurementResult, qresult.QuantumState, qresult.MeasurementOutcomes]
        try:
            for cls in classes:
                tracer(cls)
            new = nb.execute_circuit(c, initial_state=input_state(n, 2, spec["dm"]), nshots=2)
        finally:
            for cls in classes:
                if cls in saved:
                    if saved[cls] is object.__setattr__:
                        try:
                            del cls.__setattr__
                        except AttributeError:
                            cls.__setattr__ = saved[cls]
                    else:
                        cls.__setattr__ = saved[cls]
        for cn, name, isold in writes:
            if cn in ("Circuit", "MeasurementResult"):
                ctx.stat(f"write_{cn}.{name}")
            if isold:
                bad += 1
                ctx.stat(f"write_into_old_result.{name}")
        ctx.case(("writes", json.dumps(spec)))
        del new
    # informational only: the behavioural consequence is covered by the history search
    ctx.stats["writes_into_old_results"] = bad


# ---------------------------------------------------------------------------

def run(ctx):
    modules, theorems = registry(PROP)
    ctx.theorems = theorems
    build_and_audit(ctx, PROP, modules, theorems)
    ctx.trusted += [
        "np.random.choice / np.random.shuffle / joblib thread scheduling are oracles: the model takes their answers as inputs; real thread schedules are only sampled (parallel suite) or imposed at the granularity of the instrumented steps (parallel-model suite): preemption inside one step (one gate application, one set_parameters call) is not exhibited",
        "the state of a result is identified by comparing it (1e-9) with the snapshot taken when its execution returned",
    ]
    ctx.notes.append("random call histories (<=10 ops) over one circuit object: model correspondence with recorded draws + every result against a fresh circuit object; fixed F8 traces; seeds; parallel helpers 1..4 workers; real helpers under imposed schedules replayed in the scheduler model (objects handed to the workers, per-gate parameter reads, order of random draws)")
    legacy = suite_legacy(ctx)
    suite_histories(ctx, legacy)
    suite_seed(ctx, legacy)
    suite_handles(ctx, legacy)
    suite_aliasing(ctx)
    suite_order(ctx)
    suite_parallel(ctx, legacy)
    from props import C14_parallel
    C14_parallel.run_suites(ctx)
    from props import C14_gates
    C14_gates.run_suites(ctx)
    from props import C14_consistency
    C14_consistency.run_suites(ctx)
    suite_writes(ctx)
