"""Regenerate the `fixed` list of known_findings.json from the `fix:` commits of /repo.
Run by hand by the maintainer of /verif after committing a repair (never at check time).
The map below assigns each repair to the property whose check exposed it."""
import json
import subprocess
from pathlib import Path

VERIF = Path(__file__).resolve().parents[1]
PROP = {
    "PRX.dagger uses": "C05", "DEUTSCH.dagger": "C05", "dagger of a controlled SiSWAP": "C05",
    "U1q.controlled_by": "C05", "Align.init_kwargs": "C05", "default Gate.decompose keeps": "C08",
    "iSWAP.dagger returns": "C05", "decomposition tables leave": "C08",
    "Channel.to_choi no longer": "C04", "ThermalRelaxationChannel applies": "C04",
    "ThermalRelaxationChannel Kraus": "C04", "tree RBS angles": "C20",
    "QuantumChannel.apply contracts": "C17", "U3-native translation of PRX": "C10",
    "translate_gate raises": "C10", "rotation angles are tested": "C12",
    "the QASM importer recognises the iswap": "C13", "ShortestPaths moves a qubit": "C09",
    "StarConnectivityRouter moves gates": "C09", "StarConnectivityRouter look-ahead": "C09",
    "ShortestPaths and Sabre put": "C09", "stabiliser measurement multiplies": "C12",
    "collapsing measurements on the Clifford": "C12", "gates with extra controlled_by": "C12",
    "stim engine keeps": "C12", "Unitary.parameters setter": "C06", "Circuit.unitary includes": "C01",
    "M.on_qubits and the star router re-key": "C03", "expectation_from_circuit adds": "C15", "SymbolicAdiabaticHamiltonian tags private copies": "C16", "Preprocessing, Rearrange and the star router keep the density_matrix flag": "C11", "the stim engine of the Clifford backend runs the acceptance test": "C12", "Rearrange rebuilds measurements": "C11", "Align accepts a NumPy integer": "C06", "FusedGate.decompose returns the decompositions": "C07", "gates whose parameters depend on measurement outcomes stay out of fusion": "C07", "gate-level samples(binary=False), frequencies() and raw": "C03", "M.raw keeps the register name": "C03", "a measurement result shared between circuits": "C03", "the star router also re-keys": "C09", "Circuit.invert re-creates the final measurements": "C05", "a measurement's basis rotation that was absorbed": "C07", "once a measurement's basis rotations are in the queue": "C05", "an execution with a circuit as initial state is recorded": "C14", "the qulacs backend reverses the qubit order": "C02", "binary_encoder with Hopf coordinates refuses": "C20", "collapsing measurements record": "C03", "assert_connectivity ignores": "C11",
    "Circuit.copy(deep=True)": "C06", "associate_gates_with_parameters": "C06",
    "_ParametrizedGates built": "C06", "the fSim returned as dagger": "C06",
    "fusing a circuit that already": "C07", "frequencies(registers=True)": "C03",
    "shallow copies of a circuit": "C07",
    "to_pauli_liouville builds": "C17", "NoiseModel.apply adds": "C19", "FSWAP.decompose goes": "C08",
    "every decompose method accepts": "C08", "execution results own": "C14",
    "expectation_from_samples of a symbolic term": "C15", "a symbolic Hamiltonian without terms": "C15",
    "SymbolicTerm accepts nested": "C15", "the matrix and form setters": "C15",
    "the matrix of GeneralizedfSim": "C13", "bit-flip probabilities given": "C13", "a FusedGate is serialised": "C13",
    "to_qasm raises for circuits": "C13", "MeasurementOutcomes.from_dict and": "C13",
    "Runge-Kutta stages evaluate": "C16", "StarConnectivityPlacer ignores": "C11", "the default transpiler's acceptance": "C11",
    "routers re-attach every final": "C11", "fidelity of two mixed states": "C18", "hamming_distance accepts": "C18",
    "classical Renyi entropy at alpha=0": "C18", "random generators: BCSZ": "C18", "average_gate_fidelity uses": "C18",
    "entanglement_of_formation of a maximally": "C18",
    "Circuit.invert mirrors the trainable": "C06", "Align names its parameter": "C06",
    "SymbolicTerm applies": "C15", "StateEvolution takes": "C16", "von_neumann_entropy of a state vector": "C18",
}


def main():
    log = subprocess.run(["git", "-C", "/repo", "log", "--reverse", "--format=%h %s"], capture_output=True, text=True).stdout
    fixed = []
    for line in log.splitlines():
        h, _, subj = line.partition(" ")
        if not subj.startswith("fix:"):
            continue
        what = subj[4:].strip()
        prop = next((p for k, p in PROP.items() if what.startswith(k)), None)
        if prop is None:
            raise SystemExit(f"no property recorded for fix commit: {line}")
        fixed.append(f"fixed: property={prop} {h} {what}")
    path = VERIF / "known_findings.json"
    data = json.loads(path.read_text())
    data["fixed"] = fixed
    path.write_text(json.dumps(data, indent=1) + "\n")
    print(len(fixed), "fixed entries")


if __name__ == "__main__":
    main()
