"""SPEC: documented matrices of qibo's gate classes, typed by hand from the docstrings
of src/qibo/gates/gates.py (the *documentation*, not the code).  Each entry maps the
gate's parameters (in constructor order) to a nested list; entries are built with the
tracing scalars of vlib.symtrace so they are emitted as Lean `Ex` terms by the same
printer as the traced implementation.

Two docstrings are visibly not what is meant; the unitary reading is used (DESIGN §3 C01):
  * CSX / CSXDG omit the 1/sqrt(2) on e^{±iπ/4};
  * CU2 prints the 1/sqrt(2) in front of the whole 4x4 matrix.
"""
import math

from vlib.symtrace import S

I = 1j
PI = math.pi
SQ2 = math.sqrt(2)


def cos(x):
    return x.cos()


def sin(x):
    return x.sin()


def exp(x):
    return (x if isinstance(x, S) else S(("rat", 0, 1)) + x).exp()


def c(x):
    return S(("rat", 0, 1)) + x


def scale(k, rows):
    return [[c(e) * k if not isinstance(e, S) else e * k for e in r] for r in rows]


def ctrl2(m):
    """4x4 controlled version of a 2x2 block (control = first qubit)."""
    return [[1, 0, 0, 0], [0, 1, 0, 0], [0, 0, m[0][0], m[0][1]], [0, 0, m[1][0], m[1][1]]]


def eye(n):
    return [[1 if i == j else 0 for j in range(n)] for i in range(n)]


def lastblock(n, m):
    out = eye(n)
    k = len(m)
    for i in range(k):
        for j in range(k):
            out[n - k + i][n - k + j] = m[i][j]
    return out


def rx(t):
    return [[cos(t / 2), -I * sin(t / 2)], [-I * sin(t / 2), cos(t / 2)]]


def ry(t):
    return [[cos(t / 2), -sin(t / 2)], [sin(t / 2), cos(t / 2)]]


def rz(t):
    return [[exp(-I * t / 2), 0], [0, exp(I * t / 2)]]


def u2(p, l):
    return [
        [exp(-I * (p + l) / 2) / SQ2, -exp(-I * (p - l) / 2) / SQ2],
        [exp(I * (p - l) / 2) / SQ2, exp(I * (p + l) / 2) / SQ2],
    ]


def u3(t, p, l):
    return [
        [exp(-I * (p + l) / 2) * cos(t / 2), -exp(-I * (p - l) / 2) * sin(t / 2)],
        [exp(I * (p - l) / 2) * sin(t / 2), exp(I * (p + l) / 2) * cos(t / 2)],
    ]


def prx(t, p):
    return [
        [cos(t / 2), -I * exp(-I * p) * sin(t / 2)],
        [-I * exp(I * p) * sin(t / 2), cos(t / 2)],
    ]


E4 = None  # e^{iπ/4} built lazily (needs S)


def e4(sign=1):
    return exp(S(("rat", 0, 1)) + sign * I * PI / 4)


DOCS = {
    "H": lambda: scale(1 / SQ2, [[1, 1], [1, -1]]),
    "X": lambda: [[0, 1], [1, 0]],
    "Y": lambda: [[0, -I], [I, 0]],
    "Z": lambda: [[1, 0], [0, -1]],
    "SX": lambda: scale(0.5, [[1 + I, 1 - I], [1 - I, 1 + I]]),
    "SXDG": lambda: scale(0.5, [[1 - I, 1 + I], [1 + I, 1 - I]]),
    "S": lambda: [[1, 0], [0, I]],
    "SDG": lambda: [[1, 0], [0, -I]],
    "T": lambda: [[1, 0], [0, e4(1)]],
    "TDG": lambda: [[1, 0], [0, e4(-1)]],
    "I": lambda: [[1, 0], [0, 1]],
    "RX": rx,
    "RY": ry,
    "RZ": rz,
    "PRX": prx,
    "GPI": lambda p: [[0, exp(-I * p)], [exp(I * p), 0]],
    "GPI2": lambda p: [[c(1) / SQ2, -I * exp(-I * p) / SQ2], [-I * exp(I * p) / SQ2, c(1) / SQ2]],
    "U1": lambda t: [[1, 0], [0, exp(I * t)]],
    "U2": u2,
    "U3": u3,
    "U1q": prx,
    "CNOT": lambda: ctrl2([[0, 1], [1, 0]]),
    "CY": lambda: ctrl2([[0, -I], [I, 0]]),
    "CZ": lambda: ctrl2([[1, 0], [0, -1]]),
    "CSX": lambda: ctrl2([[e4(1) / SQ2, e4(-1) / SQ2], [e4(-1) / SQ2, e4(1) / SQ2]]),
    "CSXDG": lambda: ctrl2([[e4(-1) / SQ2, e4(1) / SQ2], [e4(1) / SQ2, e4(-1) / SQ2]]),
    "CRX": lambda t: ctrl2(rx(t)),
    "CRY": lambda t: ctrl2(ry(t)),
    "CRZ": lambda t: ctrl2(rz(t)),
    "CU1": lambda t: ctrl2([[1, 0], [0, exp(I * t)]]),
    "CU2": lambda p, l: ctrl2(u2(p, l)),
    "CU3": lambda t, p, l: ctrl2(u3(t, p, l)),
    "SWAP": lambda: [[1, 0, 0, 0], [0, 0, 1, 0], [0, 1, 0, 0], [0, 0, 0, 1]],
    "iSWAP": lambda: [[1, 0, 0, 0], [0, 0, I, 0], [0, I, 0, 0], [0, 0, 0, 1]],
    "SiSWAP": lambda: [
        [1, 0, 0, 0],
        [0, c(1) / SQ2, c(I) / SQ2, 0],
        [0, c(I) / SQ2, c(1) / SQ2, 0],
        [0, 0, 0, 1],
    ],
    "SiSWAPDG": lambda: [
        [1, 0, 0, 0],
        [0, c(1) / SQ2, c(-I) / SQ2, 0],
        [0, c(-I) / SQ2, c(1) / SQ2, 0],
        [0, 0, 0, 1],
    ],
    "FSWAP": lambda: [[1, 0, 0, 0], [0, 0, 1, 0], [0, 1, 0, 0], [0, 0, 0, -1]],
    "fSim": lambda t, p: [
        [1, 0, 0, 0],
        [0, cos(t), -I * sin(t), 0],
        [0, -I * sin(t), cos(t), 0],
        [0, 0, 0, exp(-I * p)],
    ],
    "RXX": lambda t: [
        [cos(t / 2), 0, 0, -I * sin(t / 2)],
        [0, cos(t / 2), -I * sin(t / 2), 0],
        [0, -I * sin(t / 2), cos(t / 2), 0],
        [-I * sin(t / 2), 0, 0, cos(t / 2)],
    ],
    "RYY": lambda t: [
        [cos(t / 2), 0, 0, I * sin(t / 2)],
        [0, cos(t / 2), -I * sin(t / 2), 0],
        [0, -I * sin(t / 2), cos(t / 2), 0],
        [I * sin(t / 2), 0, 0, cos(t / 2)],
    ],
    "RZZ": lambda t: [
        [exp(-I * t / 2), 0, 0, 0],
        [0, exp(I * t / 2), 0, 0],
        [0, 0, exp(I * t / 2), 0],
        [0, 0, 0, exp(-I * t / 2)],
    ],
    "RZX": lambda t: [
        [cos(t / 2), -I * sin(t / 2), 0, 0],
        [-I * sin(t / 2), cos(t / 2), 0, 0],
        [0, 0, cos(t / 2), I * sin(t / 2)],
        [0, 0, I * sin(t / 2), cos(t / 2)],
    ],
    "RXXYY": lambda t: [
        [1, 0, 0, 0],
        [0, cos(t / 2), -I * sin(t / 2), 0],
        [0, -I * sin(t / 2), cos(t / 2), 0],
        [0, 0, 0, 1],
    ],
    "MS": lambda p0, p1, t: [
        [cos(t / 2), 0, 0, -I * exp(-I * (p0 + p1)) * sin(t / 2)],
        [0, cos(t / 2), -I * exp(-I * (p0 - p1)) * sin(t / 2), 0],
        [0, -I * exp(I * (p0 - p1)) * sin(t / 2), cos(t / 2), 0],
        [-I * exp(I * (p0 + p1)) * sin(t / 2), 0, 0, cos(t / 2)],
    ],
    "GIVENS": lambda t: [
        [1, 0, 0, 0],
        [0, cos(t), -sin(t), 0],
        [0, sin(t), cos(t), 0],
        [0, 0, 0, 1],
    ],
    "RBS": lambda t: [
        [1, 0, 0, 0],
        [0, cos(t), sin(t), 0],
        [0, -sin(t), cos(t), 0],
        [0, 0, 0, 1],
    ],
    "ECR": lambda: scale(1 / SQ2, [[0, 0, 1, I], [0, 0, I, 1], [1, -I, 0, 0], [-I, 1, 0, 0]]),
    "TOFFOLI": lambda: lastblock(8, [[0, 1], [1, 0]]),
    "CCZ": lambda: lastblock(8, [[1, 0], [0, -1]]),
    "DEUTSCH": lambda t: lastblock(8, [[I * cos(t), sin(t)], [sin(t), I * cos(t)]]),
}


def generalized_rbs(m_in, m_out, theta, phi):
    """Documented gRBS: a Givens rotation between |1..1>_in|0..0>_out and |0..0>_in|1..1>_out
    (qubits_in first, then qubits_out, first listed qubit most significant):
      [out,out] = e^{-i phi} cos theta   [out,in] = e^{-i phi} sin theta
      [in,out]  = -e^{i phi} sin theta   [in,in]  = e^{i phi} cos theta     identity elsewhere."""
    n = m_in + m_out
    i_in = (2**m_in - 1) << m_out
    i_out = 2**m_out - 1
    mat = [[1 if i == j else 0 for j in range(2**n)] for i in range(2**n)]
    mat[i_out][i_out] = exp(-I * phi) * cos(theta)
    mat[i_out][i_in] = exp(-I * phi) * sin(theta)
    mat[i_in][i_out] = -exp(I * phi) * sin(theta)
    mat[i_in][i_in] = exp(I * phi) * cos(theta)
    return mat
