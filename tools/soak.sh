#!/bin/sh
# maintainer tool: run every registered check's quick tier for a range of seeds on the unchanged
# tree and print one line per run (property seed exit wall).  usage: [TIER=thorough] tools/soak.sh <first> <last> [props...]
cd "$(dirname "$0")/.."
first=$1; last=$2; shift 2
props="$*"
[ -z "$props" ] && props=$(python3 -c "import json;print(' '.join(sorted(json.load(open('tools/checks.json')))))")
for s in $(seq $first $last); do
  for p in $props; do
    t0=$(date +%s)
    out=$(VERIF_SEED=$s ./check $p --tier ${TIER:-quick} 2>&1); rc=$?
    echo "$p seed=$s exit=$rc wall=$(( $(date +%s) - t0 ))s $(echo "$out" | grep -c '^VIOLATION') violations"
    [ $rc -ne 0 ] && echo "$out" | grep '^VIOLATION' | head -5
  done
done
