"""Run the checks on a semantics-preserving change (maintainer tool, counterpart of seedtest.py).

usage: [BENIGNRUN=/tmp/benignrun_k] python3 tools/benigntest.py <dir with patch.diff, equiv.py, meta.json> [Cxx ...]
The change is applied in a scratch worktree of /repo's HEAD; equiv.py must pass there; each check
(default: the properties named in meta.json) runs from a scratch copy of /verif with VERIF_REPO
pointing at the patched tree.  Prints one JSON summary: per check the exit status and, for every
VIOLATION, whether a concrete failing input was reported (that would be a FALSE ALARM, since the
change preserves behaviour) or `no-failing-input-found` (model drift: allowed by the protocol)."""
import json
import os
import subprocess
import sys
from pathlib import Path

VERIF = Path(__file__).resolve().parents[1]
RUN = Path(os.environ.get("BENIGNRUN", "/tmp/benignrun"))


def sh(cmd, **kw):
    return subprocess.run(cmd, shell=True, capture_output=True, text=True, **kw)


def main():
    d = Path(sys.argv[1]).resolve()
    meta = json.loads((d / "meta.json").read_text())
    props = sys.argv[2:] or meta.get("properties", [])
    repo, verif = RUN / "repo", RUN / "verif"
    RUN.mkdir(parents=True, exist_ok=True)
    sh(f"git -C /repo worktree remove --force {repo}")
    assert sh(f"git -C /repo worktree add --detach {repo} HEAD").returncode == 0
    sh(f"rsync -a --delete --exclude .git --exclude replays --exclude evidence {VERIF}/ {verif}/")
    env = dict(os.environ, PYTHONPATH=f"{repo}/src", QIBO_LOG_LEVEL="5", OPENBLAS_NUM_THREADS="1")
    out = {"change": str(d), "checks": {}}
    a = sh(f"git -C {repo} apply {d / 'patch.diff'}")
    if a.returncode != 0:
        a = sh(f"cd {repo} && patch -p1 -F3 --no-backup-if-mismatch < {d / 'patch.diff'}")
        out["applied_with_fuzz"] = a.returncode == 0
    out["patch_applies"] = a.returncode == 0
    if a.returncode == 0:
        out["equiv_exit"] = subprocess.run(["/venv/bin/python", str(d / "equiv.py")], env=env, capture_output=True, cwd=repo).returncode
        for p in props:
            e = dict(os.environ, VERIF_REPO=str(repo), VERIF_SEED=os.environ.get("VERIF_SEED", "0"))
            c = subprocess.run(["./check", p, "--tier", os.environ.get("VERIF_TIER", "quick")], cwd=verif, env=e, capture_output=True, text=True)
            viol = [l for l in c.stdout.splitlines() if l.startswith("VIOLATION")]
            concrete, drift = [], []
            for l in viol:
                path = l.split("replay=")[1].split()[0]
                try:
                    rp = json.loads(Path(path).read_text())
                    item = {"key": rp.get("key"), "kind": rp.get("kind"), "what": str(rp.get("what"))[:260], "broken": rp.get("broken")}
                except Exception:
                    item = {"line": l[:200]}
                (drift if l.rstrip().endswith("no-failing-input-found") else concrete).append(item)
            out["checks"][p] = {"exit": c.returncode, "false_alarms": concrete, "model_drift": drift, "tail": c.stdout.splitlines()[-1:]}
    sh(f"git -C /repo worktree remove --force {repo}")
    sh(f"rm -rf {RUN}")
    print(json.dumps(out, indent=1))


if __name__ == "__main__":
    main()
