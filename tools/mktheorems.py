"""Regenerate tools/theorems.json: the committed registry of property theorems
(name -> module) that every check expects to find, compiled and axiom-clean.
Run by hand after adding theorems to lean/QV/Props/*.lean."""
import json
import re
from pathlib import Path

VERIF = Path(__file__).resolve().parents[1]
out = {}
for f in sorted((VERIF / "lean" / "QV" / "Props").glob("C*.lean")):
    txt = f.read_text()
    prop = f.stem[:3]
    ns = re.search(r"^namespace\s+(\S+)", txt, re.M).group(1)
    names = re.findall(r"^theorem\s+(T\d\d\w*)", txt, re.M)
    d = out.setdefault(prop, {"modules": [], "theorems": []})
    d["modules"].append(f"QV.Props.{f.stem}")
    d["theorems"] += [f"{ns}.{n}" for n in names]
(VERIF / "tools" / "theorems.json").write_text(json.dumps(out, indent=1) + "\n")
print({k: len(v["theorems"]) for k, v in out.items()})
