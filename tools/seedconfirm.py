"""Confirm a seeded change (maintainer tool): in a scratch worktree of /repo's HEAD the
patch applies, the demonstration passes without it and fails with it, and qibo's whole
test-suite shows no stable test failing with it (compared with /root/.vp/BASELINE.json).
usage: python3 tools/seedconfirm.py <seeded/<id> dir>   -> writes <dir>/confirm.json"""
import json
import os
import subprocess
import sys
import xml.etree.ElementTree as ET
from pathlib import Path


def sh(cmd, **kw):
    return subprocess.run(cmd, shell=True, capture_output=True, text=True, **kw)


def main():
    seed = Path(sys.argv[1]).resolve()
    wt = Path("/tmp/seedconfirm") / seed.name
    wt.parent.mkdir(parents=True, exist_ok=True)
    sh(f"git -C /repo worktree remove --force {wt}")
    assert sh(f"git -C /repo worktree add --detach {wt} HEAD").returncode == 0
    env = dict(os.environ, PYTHONPATH=f"{wt}/src", QIBO_LOG_LEVEL="5", OPENBLAS_NUM_THREADS="1", OMP_NUM_THREADS="1")
    out = {"repo_head": sh("git -C /repo rev-parse --short HEAD").stdout.strip()}
    out["demo_clean_exit"] = subprocess.run(["/venv/bin/python", str(seed / "demo.py")], env=env, cwd=wt, capture_output=True).returncode
    a = sh(f"git -C {wt} apply {seed / 'patch.diff'}")
    if a.returncode != 0:
        a = sh(f"cd {wt} && patch -p1 -F3 --no-backup-if-mismatch < {seed / 'patch.diff'}")
        out["applied_with_fuzz"] = True
    out["patch_applies"] = a.returncode == 0
    if a.returncode == 0:
        out["demo_patched_exit"] = subprocess.run(["/venv/bin/python", str(seed / "demo.py")], env=env, cwd=wt, capture_output=True).returncode
        xml = wt / "junit.xml"
        subprocess.run(["/venv/bin/python", "-m", "pytest", "-q", "-p", "no:cacheprovider", "--timeout=900", "--no-cov",
                        "--continue-on-collection-errors", f"--junitxml={xml}", "tests"], env=env, cwd=wt, capture_output=True, text=True)
        base = set(json.load(open("/root/.vp/BASELINE.json"))["stable_pass"])
        res = {}
        for tc in ET.parse(xml).iter("testcase"):
            name = f"{tc.get('classname')}::{tc.get('name')}".replace(str(wt), "/repo")
            res[name] = "fail" if any(c.tag in ("failure", "error") for c in tc) else ("skip" if any(c.tag == "skipped" for c in tc) else "pass")
        broken = sorted(n for n in base if res.get(n) != "pass")
        out["suite"] = {"tests": len(res), "passed": sum(v == "pass" for v in res.values()), "stable_tests_not_passing": broken}
    sh(f"git -C /repo worktree remove --force {wt}")
    out["confirmed"] = bool(out.get("patch_applies") and out["demo_clean_exit"] == 0 and out.get("demo_patched_exit", 0) != 0
                            and not out.get("suite", {}).get("stable_tests_not_passing", ["x"]))
    (seed / "confirm.json").write_text(json.dumps(out, indent=1) + "\n")
    bad = out.get("suite", {}).get("stable_tests_not_passing", [])
    print(seed.name, out["confirmed"], len(bad), [b[-60:] for b in bad[:3]])


if __name__ == "__main__":
    main()
