"""Helpers around qibo's gate library: symbolic backend, class enumeration, generic
constructors (by introspection of the real signatures, so new/changed classes are
picked up from the source on every run)."""
from __future__ import annotations

import importlib
import inspect
import math

import numpy as np

from .symtrace import S, BranchOnSymbol, Untranslatable, matrix_trees, evaluate

REAL_PARAM_NAMES = ("theta", "phi", "lam", "phi0", "phi1")


def gates_module():
    return importlib.import_module("qibo.gates.gates")


_SB = None


def sym_backend():
    """NumpyBackend whose matrix tables are built with dtype=object and whose cast is
    the identity, so `gate.matrix(backend)` runs the real dispatch on symbolic values."""
    global _SB
    if _SB is None:
        from qibo.backends import NumpyBackend
        from qibo.backends.npmatrices import NumpyMatrices

        class SymBackend(NumpyBackend):
            def __init__(self):
                super().__init__()
                self.matrices = NumpyMatrices(object)
                self.name = "numpy"

            def cast(self, x, dtype=None, copy=False):
                return x

        _SB = SymBackend()
    return _SB


_NB = None


def np_backend():
    global _NB
    if _NB is None:
        from qibo.backends import NumpyBackend

        _NB = NumpyBackend()
    return _NB


class GateInfo:
    """constructor recipe of a gate class, read from its signature."""

    def __init__(self, name, cls):
        self.name = name
        self.cls = cls
        sig = inspect.signature(cls.__init__)
        ps = list(sig.parameters.values())[1:]
        self.qnames = []
        self.pnames = []
        self.special = []
        self.varq = False
        for p in ps:
            if p.name == "trainable":
                continue
            if p.kind == inspect.Parameter.VAR_POSITIONAL:
                self.varq = True
            elif p.name == "q" or (p.name.startswith("q") and p.name[1:].isdigit()):
                self.qnames.append(p.name)
            elif p.name in REAL_PARAM_NAMES:
                self.pnames.append(p.name)
            else:
                self.special.append(p.name)
        self.generic = not self.special and not self.varq
        self.nq = len(self.qnames)
        self.np = len(self.pnames)

    def make(self, qubits, params=()):
        return self.cls(*qubits, *params)

    def sym(self, qubits=None):
        qubits = list(range(self.nq)) if qubits is None else qubits
        return self.make(qubits, [S.par(i) for i in range(self.np)])


def gate_infos():
    G = gates_module()
    out = {}
    for name, cls in inspect.getmembers(G, inspect.isclass):
        if cls.__module__ != G.__name__ or name.startswith("_"):
            continue
        try:
            out[name] = GateInfo(name, cls)
        except (TypeError, ValueError):
            continue
    return out


def assume_in_range_plan(kind, a, b):
    """branch plan used when constructors validate a parameter range: comparisons of a
    symbolic value against a constant are answered as for a generic in-range value
    (`x > c`, `x < c`, `x == c` all False)."""
    return False


def traced_matrix(gate):
    """trees of gate.matrix() run on the symbolic backend.  Numeric parameters of the
    gate object (e.g. the `np.pi / 2` a `_dagger` passes to a constructor) are wrapped
    as symbolic constants first, so that cos(pi/2) is read as an exact real instead of
    the float 6.1e-17."""
    from .symtrace import const

    params = getattr(gate, "_parameters", ())
    wrapped = []
    changed = False
    for p in params or ():
        if isinstance(p, (int, float, np.floating, np.integer)) and not isinstance(p, bool):
            wrapped.append(S(const(p)))
            changed = True
        else:
            wrapped.append(p)
    if not changed:
        return matrix_trees(gate.matrix(sym_backend()))
    old = gate._parameters
    try:
        gate._parameters = tuple(wrapped)
        return matrix_trees(gate.matrix(sym_backend()))
    finally:
        gate._parameters = old


def numeric_matrix(trees, params):
    return np.array([[complex(evaluate(e, params)) for e in r] for r in trees])


def embed(n, qubits, m):
    """dense 2^n matrix of local matrix m on ordered qubit list (qubit 0 = MSB)."""
    k = len(qubits)
    N = 2**n
    out = np.zeros((N, N), dtype=complex)
    rest = [q for q in range(n) if q not in qubits]
    for i in range(N):
        bi = [(i >> (n - 1 - q)) & 1 for q in range(n)]
        li = 0
        for q in qubits:
            li = 2 * li + bi[q]
        for lj in range(2**k):
            bj = list(bi)
            for t, q in enumerate(qubits):
                bj[q] = (lj >> (k - 1 - t)) & 1
            j = 0
            for q in range(n):
                j = 2 * j + bj[q]
            out[i, j] = m[li, lj]
    return out


def controlled(n, controls, U):
    N = 2**n
    out = np.eye(N, dtype=complex)
    idx = [i for i in range(N) if all((i >> (n - 1 - c)) & 1 for c in controls)]
    for i in idx:
        for j in idx:
            out[i, j] = U[i, j]
    return out


def gate_full_matrix(gate, n):
    """reference (spec-level) full operator of a gate from its *local* matrix: embed on
    target_qubits and control on control_qubits when created by controlled_by."""
    m = np.asarray(gate.matrix(np_backend()))
    if gate.is_controlled_by:
        U = embed(n, list(gate.target_qubits), m)
        return controlled(n, list(gate.control_qubits), U)
    return embed(n, list(gate.qubits), m)


def phase_equal(a, b, tol=1e-9):
    """a == c*b for a unit complex c ?"""
    a = np.asarray(a)
    b = np.asarray(b)
    if a.shape != b.shape:
        return False
    k = np.argmax(np.abs(b))
    bk = b.flat[k]
    if abs(bk) < 1e-12:
        return np.allclose(a, b, atol=tol)
    c = a.flat[k] / bk
    if abs(abs(c) - 1) > 1e-7:
        return False
    return np.allclose(a, c * b, atol=tol)


def sgate_of(gate, dagger=False):
    """(matrix trees, targets, controls, dagger) of a real gate object as the model sees it:
    created by controlled_by → local matrix on target_qubits + controls; otherwise the
    class matrix acts on gate.qubits (class-level controls first)."""
    trees = traced_matrix(gate)
    if gate.is_controlled_by:
        return (trees, list(gate.target_qubits), list(gate.control_qubits), dagger)
    return (trees, list(gate.qubits), [], dagger)


def gate_descr(g):
    ps = []
    for p in getattr(g, "parameters", ()) or ():
        ps.append(repr(p) if not isinstance(p, S) else "sym")
    return f"{g.__class__.__name__}(t={list(g.target_qubits)},c={list(g.control_qubits)},cb={g.is_controlled_by},p={ps})"
