"""Emission of regenerated Lean tables and their kernel obligations.

For a property P the generator writes (under lean/QV/Gen/, git-ignored):
  P_Defs.lean   the traced tables as Lean definitions (import-free)
  P_Stage1.lean an interpreter program that evaluates every obligation's Bool
  P_Ob.lean     one `theorem <name> : <check> = true := by decide +kernel` for every
                obligation that passed stage 1, plus `proved : List String`
Obligations that evaluate to false (or are outside the fragment) are *not* emitted as
theorems; they are returned as broken and go to the failing-input search.
"""
from __future__ import annotations

from pathlib import Path

from . import leanrun
from .symtrace import lean_matrix, lean, simplify

GEN = leanrun.LEAN_DIR / "QV" / "Gen"


def sgate(mat, targets, controls=(), dagger=False):
    """Lean term for an SGate from a matrix of trees."""
    s = "{ mat := " + lean_matrix(mat) + f", targets := {list(targets)}"
    if controls:
        s += f", controls := {list(controls)}"
    if dagger:
        s += ", dagger := true"
    return s + " }"


class Table:
    def __init__(self, prop):
        self.prop = prop
        self.defs = []  # (name, type, term)
        self.obs = []  # (name, bool-expr, meta)

    def define(self, name, typ, term):
        self.defs.append((name, typ, term))

    def ob(self, name, expr, **meta):
        self.obs.append((name, expr, meta))

    def ob_matrix_unitary(self, name, np_, mat, **meta):
        self.define(f"m_{name}", "List (List Ex)", lean_matrix(mat))
        self.ob(name, f"unitaryCheck {np_} m_{name}", sem=f"QV.unitaryCheck_sound {np_} m_{name} {name}", **meta)

    def ob_matrix_eq(self, name, np_, a, b, **meta):
        self.define(f"a_{name}", "List (List Ex)", lean_matrix(a))
        self.define(f"b_{name}", "List (List Ex)", lean_matrix(b))
        self.ob(name, f"matEqCheck {np_} a_{name} b_{name}", sem=f"QV.matEqCheck_sound {np_} a_{name} b_{name} {name}", **meta)

    def ob_product(self, name, np_, n, lhs, rhs, phase=False, **meta):
        """lhs / rhs: lists of (mat, targets, controls, dagger)."""
        l = "[" + ",\n   ".join(sgate(*g) for g in lhs) + "]"
        r = "[" + ",\n   ".join(sgate(*g) for g in rhs) + "]"
        mode = ".phase" if phase else ".exact"
        self.define(
            f"o_{name}",
            "Ob",
            f"{{ np := {np_}, n := {n},\n      ls := {l},\n      rs := {r},\n      mode := {mode} }}",
        )
        self.ob(name, f"Ob.check o_{name}", supported=f"Ob.supported o_{name}", sem=f"QV.Ob.check_sound o_{name} {name}", **meta)

    # ------------------------------------------------------------------
    def emit(self, extra_imports=()):
        P = self.prop
        head = "import QV.Core.Oblig\n" + "".join(f"import {m}\n" for m in extra_imports)
        body = [head, "set_option maxRecDepth 100000", f"namespace QV.Gen.{P}", "open QV", ""]
        for name, typ, term in self.defs:
            body.append(f"def {name} : {typ} :=\n  {term}\n")
        body.append(f"end QV.Gen.{P}\n")
        leanrun.write_if_changed(GEN / f"{P}_Defs.lean", "\n".join(body))
        # stage 1 program
        s1 = [f"import QV.Gen.{P}_Defs", f"open QV QV.Gen.{P}", "def main : IO Unit := do"]
        if not self.obs:
            s1.append("  pure ()")
        for name, expr, meta in self.obs:
            sup = meta.get("supported")
            if sup:
                s1.append(f'  IO.println s!"{name} {{({expr})}} {{({sup})}}"')
            else:
                s1.append(f'  IO.println s!"{name} {{({expr})}} true"')
        leanrun.write_if_changed(GEN / f"{P}_Stage1.lean", "\n".join(s1) + "\n")
        ok, out = leanrun.lake_build([f"QV.Gen.{P}_Defs"])
        if not ok:
            raise RuntimeError(f"generated definitions for {P} do not compile:\n{out[-3000:]}")
        rc, so, se = leanrun.lean_run(Path("QV") / "Gen" / f"{P}_Stage1.lean")
        if rc != 0:
            raise RuntimeError(f"stage 1 for {P} failed:\n{se[-3000:]}")
        status = {}
        for line in so.splitlines():
            parts = line.split()
            if len(parts) == 3:
                status[parts[0]] = (parts[1] == "true", parts[2] == "true")
        passed = [n for n, _, _ in self.obs if status.get(n, (False, False))[0]]
        exprs = {n: e for n, e, _ in self.obs}
        # kernel obligations are split over several modules so lake checks them in parallel
        nchunks = max(1, min(14, (len(passed) + 9) // 10))
        chunks = [passed[i::nchunks] for i in range(nchunks)]
        for i, chunk in enumerate(chunks):
            ob = [f"import QV.Gen.{P}_Defs", "set_option maxRecDepth 100000", f"namespace QV.Gen.{P}", "open QV", ""]
            for n in chunk:
                ob.append(f"theorem {n} : {exprs[n]} = true := by decide +kernel")
            ob.append(f"end QV.Gen.{P}\n")
            leanrun.write_if_changed(GEN / f"{P}_Ob{i}.lean", "\n".join(ob))
        # remove stale chunk files
        for old in GEN.glob(f"{P}_Ob[0-9]*.lean"):
            try:
                k = int(old.stem.split("_Ob")[1])
            except ValueError:
                continue
            if k >= nchunks:
                old.unlink()
        top = [f"import QV.Gen.{P}_Ob{i}" for i in range(nchunks)]
        top += [f"namespace QV.Gen.{P}", "", "def proved : List String := [" + ", ".join(f'"{n}"' for n in passed) + "]", f"end QV.Gen.{P}\n"]
        leanrun.write_if_changed(GEN / f"{P}_Ob.lean", "\n".join(top))
        # semantic corollaries: the Bool checks lifted to statements about ℂ by the
        # soundness theorems of QV/Proofs/SymSound.lean
        sems = {n: m.get("sem") for n, _, m in self.obs}
        sem = [f"import QV.Gen.{P}_Ob", "import QV.Proofs.SymSound", f"namespace QV.Gen.{P}", "open QV", ""]
        self.sem_names = []
        for n in passed:
            if sems.get(n):
                sem.append(f"theorem {n}_sem : type_of% ({sems[n]}) := {sems[n]}")
                self.sem_names.append(f"QV.Gen.{P}.{n}_sem")
        sem.append(f"end QV.Gen.{P}\n")
        leanrun.write_if_changed(GEN / f"{P}_Sem.lean", "\n".join(sem))
        return status, passed
