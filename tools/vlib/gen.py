"""Emission of regenerated Lean tables and their kernel obligations.

For a property P the generator writes (under lean/QV/Gen/, git-ignored):
  P_Defs.lean   the traced tables as Lean definitions (import-free)
  P_Stage1.lean an interpreter program that evaluates every obligation's Bool
  P_Ob.lean     one `theorem <name> : <check> = true := by decide +kernel` for every
                obligation that passed stage 1, plus `proved : List String`
  P_Sem.lean    for every proved obligation the corollary `<name>_sem` (meaning over ℂ,
                QV/Proofs/SymSound.lean) and, for product obligations, `<name>_run` (meaning
                for the simulator model `runCircuit`, QV/Proofs/Bridge.lean); plus the derived
                corollaries registered with `Table.corollary`
Obligations that evaluate to false (or are outside the fragment) are *not* emitted as
theorems; they are returned as broken and go to the failing-input search.
"""
from __future__ import annotations

from pathlib import Path

from . import leanrun
from .symtrace import lean_matrix, lean, simplify

GEN = leanrun.LEAN_DIR / "QV" / "Gen"


def sgate(mat, targets, controls=(), dagger=False):
    """Lean term for an SGate from a matrix of trees."""
    s = "{ mat := " + lean_matrix(mat) + f", targets := {list(targets)}"
    if controls:
        s += f", controls := {list(controls)}"
    if dagger:
        s += ", dagger := true"
    return s + " }"


def layout_ok(n, g):
    """Python twin of `SGate.wf n` (QV/Proofs/Bridge.lean): targets / controls duplicate-free,
    below n, disjoint.  Only decides whether a `_run` corollary is emitted; the kernel
    re-decides `Ob.wf` inside that corollary."""
    ts = list(g[1])
    cs = list(g[2]) if len(g) > 2 else []
    try:
        qs = [int(q) for q in ts + cs]
    except (TypeError, ValueError):
        return False
    return len(set(qs)) == len(qs) and all(0 <= q < n for q in qs)


class Table:
    def __init__(self, prop):
        self.prop = prop
        self.defs = []  # (name, type, term)
        self.obs = []  # (name, bool-expr, meta)
        self.cors = []  # (kind, name, statement, proof term, names it uses)
        self.sem_imports = []  # extra imports of P_Sem.lean (for the derived corollaries)
        self.emit_single = False  # also emit `<name>_single : QV.Ob.SingleStmt o_<name>` (C08, C10)

    def define(self, name, typ, term):
        self.defs.append((name, typ, term))

    def ob(self, name, expr, **meta):
        self.obs.append((name, expr, meta))

    def corollary(self, name, stmt, proof, needs=(), imports=(), kind="theorem"):
        """a derived `theorem name : stmt := proof` (or `def`) emitted at the end of P_Sem.lean
        when every name in `needs` (proved obligations or earlier corollaries) is available.
        `stmt` / `proof` may be functions of the set of available names."""
        self.cors.append((kind, name, stmt, proof, tuple(needs)))
        for m in imports:
            if m not in self.sem_imports:
                self.sem_imports.append(m)

    def class_table(self, listname, pred, members):
        """`def <listname> : List Ob` = the obligations `o_<ob>` of `members` (pairs
        (ob name, corollary name)) whose corollary was emitted, and
        `theorem <listname>_ok : ∀ o ∈ <listname>, <pred> o` from those corollaries.
        `members` is read at emission time (it may still grow after this call)."""
        def avail(have):
            return [(o, c) for o, c in members if c in have]

        def okproof(have):
            t = "QV.forall_mem_nil _"
            for _, c in reversed(avail(have)):
                t = f"QV.forall_mem_cons_of {c}\n    ({t})"
            return t

        self.corollary(listname, "List Ob", lambda have: "[" + ", ".join(f"o_{o}" for o, _ in avail(have)) + "]", kind="def")
        self.corollary(f"{listname}_ok", f"∀ o ∈ {listname}, {pred} o", okproof, needs=[listname])

    def ob_matrix_unitary(self, name, np_, mat, **meta):
        self.define(f"m_{name}", "List (List Ex)", lean_matrix(mat))
        self.ob(name, f"unitaryCheck {np_} m_{name}", sem=f"QV.unitaryCheck_sound {np_} m_{name} {name}", **meta)

    def ob_matrix_eq(self, name, np_, a, b, **meta):
        self.define(f"a_{name}", "List (List Ex)", lean_matrix(a))
        self.define(f"b_{name}", "List (List Ex)", lean_matrix(b))
        self.ob(name, f"matEqCheck {np_} a_{name} b_{name}", sem=f"QV.matEqCheck_sound {np_} a_{name} b_{name} {name}", **meta)

    def ob_product(self, name, np_, n, lhs, rhs, phase=False, **meta):
        """lhs / rhs: lists of (mat, targets, controls, dagger)."""
        l = "[" + ",\n   ".join(sgate(*g) for g in lhs) + "]"
        r = "[" + ",\n   ".join(sgate(*g) for g in rhs) + "]"
        mode = ".phase" if phase else ".exact"
        self.define(
            f"o_{name}",
            "Ob",
            f"{{ np := {np_}, n := {n},\n      ls := {l},\n      rs := {r},\n      mode := {mode} }}",
        )
        run = None
        if all(layout_ok(n, g) for g in list(lhs) + list(rhs)):
            # simulator-level reading: ∀ θ, ∃ c, ‖c‖ = 1 ∧ (exact → c = 1) ∧ ∀ ψ x,
            #   runCircuit (ls at θ) ψ x = c * runCircuit (rs at θ) ψ x
            run = (f"QV.Ob.RunStmt o_{name}", f"QV.Ob.runStmt_of_check o_{name} (by decide +kernel) {name}")
        self.ob(name, f"Ob.check o_{name}", supported=f"Ob.supported o_{name}", sem=f"QV.Ob.check_sound o_{name} {name}", run=run, **meta)
        if run and len(rhs) == 1 and self.emit_single:
            # right side one gate: "ls implements that gate" — the hypothesis of T08_placement /
            # T08_circuit and of one entry of C10's TablesOK
            self.corollary(f"{name}_single", f"QV.Ob.SingleStmt o_{name}",
                           f"QV.Ob.singleStmt_of_check o_{name} (by decide +kernel) {name}", needs=[name])

    # ------------------------------------------------------------------
    def emit(self, extra_imports=()):
        P = self.prop
        head = "import QV.Core.Oblig\n" + "".join(f"import {m}\n" for m in extra_imports)
        body = [head, "set_option maxRecDepth 100000", f"namespace QV.Gen.{P}", "open QV", ""]
        for name, typ, term in self.defs:
            body.append(f"def {name} : {typ} :=\n  {term}\n")
        body.append(f"end QV.Gen.{P}\n")
        leanrun.write_if_changed(GEN / f"{P}_Defs.lean", "\n".join(body))
        # stage 1 program
        s1 = [f"import QV.Gen.{P}_Defs", f"open QV QV.Gen.{P}", "def main : IO Unit := do"]
        if not self.obs:
            s1.append("  pure ()")
        for name, expr, meta in self.obs:
            sup = meta.get("supported")
            if sup:
                s1.append(f'  IO.println s!"{name} {{({expr})}} {{({sup})}}"')
            else:
                s1.append(f'  IO.println s!"{name} {{({expr})}} true"')
        leanrun.write_if_changed(GEN / f"{P}_Stage1.lean", "\n".join(s1) + "\n")
        ok, out = leanrun.lake_build([f"QV.Gen.{P}_Defs"])
        if not ok:
            raise RuntimeError(f"generated definitions for {P} do not compile:\n{out[-3000:]}")
        rc, so, se = leanrun.lean_run(Path("QV") / "Gen" / f"{P}_Stage1.lean")
        if rc != 0:
            raise RuntimeError(f"stage 1 for {P} failed:\n{se[-3000:]}")
        status = {}
        for line in so.splitlines():
            parts = line.split()
            if len(parts) == 3:
                status[parts[0]] = (parts[1] == "true", parts[2] == "true")
        passed = [n for n, _, _ in self.obs if status.get(n, (False, False))[0]]
        exprs = {n: e for n, e, _ in self.obs}
        # kernel obligations are split over several modules so lake checks them in parallel
        nchunks = max(1, min(14, (len(passed) + 9) // 10))
        chunks = [passed[i::nchunks] for i in range(nchunks)]
        for i, chunk in enumerate(chunks):
            ob = [f"import QV.Gen.{P}_Defs", "set_option maxRecDepth 100000", f"namespace QV.Gen.{P}", "open QV", ""]
            for n in chunk:
                ob.append(f"theorem {n} : {exprs[n]} = true := by decide +kernel")
            ob.append(f"end QV.Gen.{P}\n")
            leanrun.write_if_changed(GEN / f"{P}_Ob{i}.lean", "\n".join(ob))
        # remove stale chunk files
        for old in GEN.glob(f"{P}_Ob[0-9]*.lean"):
            try:
                k = int(old.stem.split("_Ob")[1])
            except ValueError:
                continue
            if k >= nchunks:
                old.unlink()
        top = [f"import QV.Gen.{P}_Ob{i}" for i in range(nchunks)]
        top += [f"namespace QV.Gen.{P}", "", "def proved : List String := [" + ", ".join(f'"{n}"' for n in passed) + "]", f"end QV.Gen.{P}\n"]
        leanrun.write_if_changed(GEN / f"{P}_Ob.lean", "\n".join(top))
        # semantic corollaries: the Bool checks lifted to statements about ℂ by the
        # soundness theorems of QV/Proofs/SymSound.lean
        sems = {n: m.get("sem") for n, _, m in self.obs}
        runs = {n: m.get("run") for n, _, m in self.obs}
        sem = [f"import QV.Gen.{P}_Ob", "import QV.Proofs.SymSound", "import QV.Proofs.Bridge"]
        sem += [f"import {m}" for m in self.sem_imports]
        sem += ["set_option maxRecDepth 100000", f"namespace QV.Gen.{P}", "open QV", ""]
        self.sem_names = []
        for n in passed:
            if sems.get(n):
                sem.append(f"theorem {n}_sem : type_of% ({sems[n]}) := {sems[n]}")
                self.sem_names.append(f"QV.Gen.{P}.{n}_sem")
            if runs.get(n):
                stmt, proof = runs[n]
                sem.append(f"theorem {n}_run : {stmt} := {proof}")
                self.sem_names.append(f"QV.Gen.{P}.{n}_run")
        have = set(passed)
        self.cor_names = []
        for kind, name, stmt, proof, needs in self.cors:
            if all(x in have for x in needs):
                stmt = stmt(have) if callable(stmt) else stmt
                proof = proof(have) if callable(proof) else proof
                sem.append(f"{kind} {name} : {stmt} :=\n  {proof}")
                have.add(name)
                self.cor_names.append(name)
                if kind == "theorem":
                    self.sem_names.append(f"QV.Gen.{P}.{name}")
        sem.append(f"end QV.Gen.{P}\n")
        leanrun.write_if_changed(GEN / f"{P}_Sem.lean", "\n".join(sem))
        return status, passed
