"""Common driver for the per-property checks (see DESIGN.md §2.9).

A property module `props/Cxx.py` exposes `run(ctx)`.  It records
  * obligations (kernel-checked theorems, generated table obligations, correspondence
    suites) through `ctx.ob(...)`;
  * concrete failing inputs found on the real implementation through `ctx.fail(...)`.
`finish()` turns that into KNOWN-FINDING / VIOLATION lines, the replay files and the
evidence file, and returns the exit status.
"""
from __future__ import annotations

import hashlib
import json
import os
import random
import sys
import time
import traceback
from pathlib import Path

VERIF = Path(__file__).resolve().parents[2]
REPLAYS = VERIF / "replays"
# evidence committed under /verif/evidence always describes runs against /repo itself; a run
# pointed at a scratch worktree (VERIF_REPO, seeded-change tools) writes elsewhere
EVIDENCE = (REPLAYS / "evidence_scratch") if os.environ.get("VERIF_REPO") else (VERIF / "evidence")
KNOWN = VERIF / "known_findings.json"

TRUSTED_BASE_COMMON = [
    "Lean 4.33 kernel; axioms propext, Classical.choice, Quot.sound only (audited with #print axioms on every run); no sorry/admit/native_decide/bv_decide/own axioms (grep on every run)",
    "`decide +kernel` = evaluation by the kernel, no extra axiom",
    "Mathlib v4.33 definitions of Matrix, Complex.exp/cos/sin as the meaning of the numpy functions on reals",
    "the tracing translator tools/vlib/symtrace.py (runs the real qibo methods on symbolic parameters; float constants within 4 ulp of r, r*pi, r*sqrt2, r*sqrt2^k*e^{i pi m/24} are read as those reals)",
    "the correspondence harness and its generators (a disagreement outside what they generate is not seen)",
    "IEEE double arithmetic approximates real arithmetic to the tolerance used (1e-9 unless stated)",
]


def load_known():
    try:
        data = json.loads(KNOWN.read_text())
    except (OSError, ValueError):
        return {"findings": [], "fixed": []}
    return data


class Ctx:
    def __init__(self, prop, tier, seed, replay=None):
        self.prop = prop
        self.tier = tier
        self.seed = seed
        self.rng = random.Random(f"{prop}:{seed}")
        self.t0 = time.time()
        self.obligations = []  # dicts name, kind, ok, detail
        self.failures = []  # dicts key, what, python, expected, observed, broken
        self.samples = []
        self.stats = {}
        self.evaluations = 0
        self.distinct = set()
        self.assumptions = []
        self.trusted = list(TRUSTED_BASE_COMMON)
        self.theorems = []
        self.checker_cmd = ""
        self.notes = []
        self.known = load_known()
        self.lines = []
        self.replay = replay

    @property
    def thorough(self):
        return self.tier == "thorough"

    # -- recording -------------------------------------------------------
    def ob(self, name, ok, kind="theorem", detail=""):
        self.obligations.append({"name": name, "kind": kind, "ok": bool(ok), "detail": str(detail)[:600]})
        return ok

    def case(self, key=None, n=1):
        """count evaluated cases; `key` identifies a distinct non-trivial case."""
        self.evaluations += n
        if key is not None:
            self.distinct.add(key if isinstance(key, (str, int, tuple)) else repr(key))

    def sample(self, s, limit=12):
        if len(self.samples) < limit:
            self.samples.append(s)

    def stat(self, key, inc=1):
        self.stats[key] = self.stats.get(key, 0) + inc

    def fail(self, key, what, python, expected=None, observed=None, broken=None):
        """a concrete failing input on the real implementation.
        `key` identifies the call site / input class (matched against known findings)."""
        for f in self.failures:
            if f["key"] == key:
                return
        self.failures.append(
            {
                "key": key,
                "what": what,
                "python": python,
                "expected": _js(expected),
                "observed": _js(observed),
                "broken": broken or [],
            }
        )

    def log(self, msg):
        print(f"[{self.prop}] {msg}", flush=True)

    # -- finishing -------------------------------------------------------
    def finish(self):
        REPLAYS.mkdir(exist_ok=True)
        EVIDENCE.mkdir(parents=True, exist_ok=True)
        known_keys = {f["key"]: f for f in self.known.get("findings", []) if f.get("property") == self.prop}
        violations = 0
        known_seen = []
        explained = set()  # obligation names explained by a failing input
        for f in self.failures:
            for b in f["broken"]:
                explained.add(b)
            if f["key"] in known_keys:
                known_seen.append(f["key"])
                print(f"KNOWN-FINDING: property={self.prop} {known_keys[f['key']].get('id','')} {f['what']}", flush=True)
                continue
            path = self._write_replay("failing-input", f)
            print(f"VIOLATION property={self.prop} replay={path}", flush=True)
            violations += 1
        # obligations broken without a failing input
        unexplained = [o for o in self.obligations if not o["ok"] and o["name"] not in explained]
        # an obligation whose failure is fully explained by known findings is not a violation
        if unexplained:
            f = {
                "key": "broken:" + ",".join(sorted(o["name"] for o in unexplained))[:200],
                "what": "obligations no longer check and no failing input was found",
                "python": "",
                "expected": None,
                "observed": None,
                "broken": [o["name"] + (": " + o["detail"] if o["detail"] else "") for o in unexplained],
            }
            path = self._write_replay("no-failing-input-found", f)
            print(f"VIOLATION property={self.prop} replay={path} no-failing-input-found", flush=True)
            violations += 1
        nob = len(self.obligations)
        # obligations explained only by known findings are excluded from the claim
        known_obs = set()
        for f in self.failures:
            if f["key"] in known_keys:
                known_obs.update(f["broken"])
        claimed = [o for o in self.obligations if o["name"] not in known_obs]
        discharged = [o for o in claimed if o["ok"]]
        ev = {
            "property_id": self.prop,
            "tier": self.tier,
            "seed": self.seed,
            "level": "proof",
            "coverage": {
                "obligations": len(claimed),
                "discharged": len(discharged),
                "checker_cmd": self.checker_cmd or "lake build (Lean 4.33 kernel) + #print axioms audit",
                "trusted_base": self.trusted,
                "theorems": self.theorems,
                "obligation_kinds": _count(o["kind"] for o in claimed),
                "broken": [o["name"] for o in claimed if not o["ok"]],
                "known_findings_seen": known_seen,
                "excluded_by_known_findings": sorted(known_obs),
                "evaluations": max(self.evaluations, 1),
                "distinct_nontrivial": len(self.distinct),
                "rule": "; ".join(self.notes) if self.notes else "see stats",
                "samples": self.samples or ["(none)"],
                "stats": self.stats,
            },
            "assumptions": self.assumptions,
            "wall_s": round(time.time() - self.t0, 2),
            "violations": violations,
        }
        (EVIDENCE / f"{self.prop}.json").write_text(json.dumps(ev, indent=1, default=str))
        self.log(
            f"obligations={len(claimed)} discharged={len(discharged)} evaluations={self.evaluations} "
            f"distinct={len(self.distinct)} known={len(known_seen)} violations={violations} wall={ev['wall_s']}s"
        )
        return 1 if violations else 0

    def _write_replay(self, kind, f):
        h = hashlib.sha1((f["key"] + kind).encode()).hexdigest()[:10]
        path = REPLAYS / f"{self.prop}-{h}.json"
        path.write_text(
            json.dumps(
                {
                    "property": self.prop,
                    "kind": kind,
                    "key": f["key"],
                    "what": f["what"],
                    "broken": f["broken"],
                    "python": f["python"],
                    "expected": f["expected"],
                    "observed": f["observed"],
                    "seed": self.seed,
                    "tier": self.tier,
                },
                indent=1,
                default=str,
            )
        )
        return str(path)


def _count(it):
    d = {}
    for x in it:
        d[x] = d.get(x, 0) + 1
    return d


def _js(x):
    try:
        json.dumps(x)
        return x
    except TypeError:
        return repr(x)


def run_replay(path):
    """re-run the python snippet of a replay file; exit 1 if it still fails."""
    import subprocess

    data = json.loads(Path(path).read_text())
    if not data.get("python"):
        print(f"replay {path}: no concrete input ({data['kind']}); broken: {data['broken']}")
        return 1
    p = subprocess.run([sys.executable, "-c", data["python"]], capture_output=True, text=True)
    print(p.stdout, p.stderr)
    if p.returncode != 0:
        print(f"VIOLATION property={data['property']} replay={path}")
        return 1
    print("replay passes: the failing input no longer fails")
    return 0


def main(argv=None):
    import argparse
    import importlib

    ap = argparse.ArgumentParser()
    ap.add_argument("prop")
    ap.add_argument("--tier", default=os.environ.get("VERIF_TIER", "quick"))
    ap.add_argument("--replay")
    args = ap.parse_args(argv)
    if args.replay:
        return run_replay(args.replay)
    seed = int(os.environ.get("VERIF_SEED", "0") or 0)
    tier = args.tier if args.tier in ("quick", "thorough") else "quick"
    ctx = Ctx(args.prop, tier, seed)
    sys.path.insert(0, str(VERIF / "tools"))
    import subprocess

    try:
        from vlib import corpus
        corpus.run_corpus(ctx)
        mod = importlib.import_module(f"props.{args.prop}")
        mod.run(ctx)
    except (subprocess.TimeoutExpired, OSError, MemoryError, ImportError, SyntaxError):
        # environment trouble (time-out, disk, memory): not a verdict on the property
        traceback.print_exc()
        print(f"[{args.prop}] internal error in the checking machinery", flush=True)
        return 2
    except Exception as e:  # noqa: BLE001
        # The harness itself fell over while driving the code under test.  On the unchanged
        # tree this never happens (every seed is tried), so the run no longer shows that the
        # property holds: by the protocol of DESIGN §2.9 this is a broken obligation — the
        # failing inputs found before the crash (if any) explain it, otherwise the violation
        # is reported with `no-failing-input-found` and the traceback in the replay file.
        tb = traceback.format_exc()
        print(tb, flush=True)
        ctx.ob(f"{args.prop}_harness_completed", False, "correspondence",
               f"the harness raised {type(e).__name__}: {e} — " + tb[-900:])
    return ctx.finish()


if __name__ == "__main__":
    sys.exit(main())
