"""Pipe operation lines to the Lean model driver and return its answer lines."""
from __future__ import annotations

from . import leanrun


def run_driver(lines, driver="Driver.lean", timeout=3000):
    if not lines:
        return []
    text = "\n".join(lines) + "\n"
    rc, out, err = leanrun.lean_run(driver, text, timeout=timeout)
    if rc != 0:
        raise RuntimeError(f"Lean driver failed (rc={rc}):\n{err[-3000:]}")
    res = out.split("\n")
    if res and res[-1] == "":
        res.pop()
    if len(res) != len(lines):
        raise RuntimeError(f"driver returned {len(res)} lines for {len(lines)} inputs\n{err[-2000:]}")
    return res


def gi_tokens(arr):
    """flatten a complex array with integer parts to 're im' tokens."""
    import numpy as np

    a = np.asarray(arr).reshape(-1)
    out = []
    for z in a:
        z = complex(z)
        r, i = round(z.real), round(z.imag)
        if abs(z.real - r) > 1e-9 or abs(z.imag - i) > 1e-9:
            raise ValueError(f"non-integer entry {z}")
        out.append(f"{r} {i}")
    return " ".join(out)


def parse_gi(line):
    import numpy as np

    t = line.split()
    vals = [int(x) for x in t]
    return np.array([complex(vals[2 * k], vals[2 * k + 1]) for k in range(len(vals) // 2)])
