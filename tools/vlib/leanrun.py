"""Running lake / lean for the checks (shared build directory, serialised by flock)."""
from __future__ import annotations

import fcntl
import os
import re
import subprocess
import time
from contextlib import contextmanager
from pathlib import Path

VERIF = Path(__file__).resolve().parents[2]
LEAN_DIR = VERIF / "lean"
LOCK = LEAN_DIR / ".build.lock"

STD_AXIOMS = {"propext", "Classical.choice", "Quot.sound"}


@contextmanager
def build_lock():
    LOCK.parent.mkdir(parents=True, exist_ok=True)
    with open(LOCK, "w") as fh:
        fcntl.flock(fh, fcntl.LOCK_EX)
        try:
            yield
        finally:
            fcntl.flock(fh, fcntl.LOCK_UN)


def _env():
    env = dict(os.environ)
    env.setdefault("LEAN_NUM_THREADS", "16")
    return env


def write_if_changed(path: Path, text: str) -> bool:
    path.parent.mkdir(parents=True, exist_ok=True)
    if path.exists() and path.read_text() == text:
        return False
    tmp = path.with_suffix(path.suffix + ".tmp")
    tmp.write_text(text)
    os.replace(tmp, path)
    return True


def lake_build(targets, timeout=3000):
    """Build module targets. Returns (ok, output)."""
    with build_lock():
        p = subprocess.run(
            ["lake", "build", *targets],
            cwd=LEAN_DIR,
            capture_output=True,
            text=True,
            timeout=timeout,
            env=_env(),
        )
    return p.returncode == 0, p.stdout + p.stderr


def lean_run(relfile, stdin_text="", args=(), timeout=3000):
    """`lake env lean --run <file>` with stdin; returns (rc, stdout, stderr)."""
    p = subprocess.run(
        ["lake", "env", "lean", "--run", str(relfile), *args],
        cwd=LEAN_DIR,
        input=stdin_text,
        capture_output=True,
        text=True,
        timeout=timeout,
        env=_env(),
    )
    return p.returncode, p.stdout, p.stderr


def lean_file(relfile, timeout=3000):
    """elaborate a file (e.g. an audit file with #print axioms); returns (rc, out)."""
    p = subprocess.run(
        ["lake", "env", "lean", str(relfile)],
        cwd=LEAN_DIR,
        capture_output=True,
        text=True,
        timeout=timeout,
        env=_env(),
    )
    return p.returncode, p.stdout + p.stderr


def failing_decls(build_output: str, module_files):
    """Map `error:` positions in lake output back to the enclosing theorem/def names."""
    out = []
    for m in re.finditer(r"error: ([^\s:]+\.lean):(\d+):(\d+)", build_output):
        f, line = m.group(1), int(m.group(2))
        p = Path(f)
        if not p.is_absolute():
            p = LEAN_DIR / f
        name = None
        try:
            lines = p.read_text().splitlines()
            for i in range(min(line, len(lines)) - 1, -1, -1):
                mm = re.match(r"\s*(?:private\s+)?(?:theorem|lemma|def|example|instance)\s+([^\s:(\[{]+)?", lines[i])
                if mm:
                    name = mm.group(1) or f"example@{i+1}"
                    break
        except OSError:
            pass
        out.append((str(p.relative_to(LEAN_DIR)) if p.is_relative_to(LEAN_DIR) else str(p), line, name))
    return out


def audit_axioms(theorems, imports, tag):
    """`#print axioms` for each theorem; returns dict name -> list of axioms (or None)."""
    lines = [f"import {m}" for m in imports]
    for t in theorems:
        lines.append(f"#print axioms {t}")
    rel = Path("QV") / "Gen" / f"Audit_{tag}.lean"
    write_if_changed(LEAN_DIR / rel, "\n".join(lines) + "\n")
    rc, out = lean_file(rel)
    res = {}
    # "'name' depends on axioms: [a, b]" or "'name' does not depend on any axioms"
    for m in re.finditer(r"'([^']+)' depends on axioms: \[([^\]]*)\]", out, re.S):
        res[m.group(1)] = [a.strip() for a in m.group(2).replace("\n", " ").split(",") if a.strip()]
    for m in re.finditer(r"'([^']+)' does not depend on any axioms", out):
        res[m.group(1)] = []
    return rc, res, out


FORBIDDEN = re.compile(r"\b(sorry|admit|native_decide|bv_decide|implemented_by|unsafe)\b|^axiom |maxHeartbeats 0", re.M)


def grep_forbidden(paths):
    """forbidden tokens outside comments in the given lean files."""
    hits = []
    for p in paths:
        try:
            txt = Path(p).read_text()
        except OSError:
            continue
        # strip block comments and line comments
        txt2 = re.sub(r"/-.*?-/", lambda m: "\n" * m.group(0).count("\n"), txt, flags=re.S)
        for i, line in enumerate(txt2.splitlines(), 1):
            code = line.split("--")[0]
            if FORBIDDEN.search(code):
                hits.append((str(p), i, line.strip()))
    return hits


class Timer:
    def __init__(self):
        self.t0 = time.time()

    def s(self):
        return round(time.time() - self.t0, 2)
