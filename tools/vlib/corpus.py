"""Regression corpus: the demonstration programs of the seeded changes (seeded/<id>/demo.py).

Each demo was written by an independent agent from the property text alone, states the property
on concrete inputs through qibo's public API against independently computed expectations, and
exits 0 on the unchanged tree (confirmed by tools/seedconfirm.py, three runs, and on every
behaviour-preserving change under benign/).  A check runs the demos of its own property first:
a demo that fails is a concrete failing input (the demo itself is the replay).  Demos listed in
corpus_exclude.json (unstable, or asserting more than the property states) are skipped."""
import json
import os
import subprocess
from concurrent.futures import ThreadPoolExecutor
from pathlib import Path

VERIF = Path(__file__).resolve().parents[2]
REPO = Path(os.environ.get("VERIF_REPO", "/repo"))


def _run(d):
    env = dict(os.environ, PYTHONPATH=f"{REPO}/src", QIBO_LOG_LEVEL="5", OPENBLAS_NUM_THREADS="1", OMP_NUM_THREADS="1")
    try:
        p = subprocess.run(["/venv/bin/python", "-W", "ignore", str(d / "demo.py")], env=env, cwd=str(REPO), capture_output=True, text=True, timeout=300)
        return d, p.returncode, (p.stdout + p.stderr).strip().splitlines()[-1:] or [""]
    except subprocess.TimeoutExpired:
        return d, None, ["timed out"]


def run_corpus(ctx):
    excl = {}
    f = VERIF / "tools" / "corpus_exclude.json"
    if f.exists():
        excl = json.loads(f.read_text())
    also = json.loads((VERIF / "tools" / "corpus_also.json").read_text()) if (VERIF / "tools" / "corpus_also.json").exists() else {}
    dirs = [d for d in sorted((VERIF / "seeded").iterdir())
            if (d / "demo.py").exists() and (d.name.split("-")[0] == ctx.prop or ctx.prop in also.get(d.name, [])) and d.name not in excl]
    if not dirs:
        return
    ok = True
    with ThreadPoolExecutor(max_workers=4) as ex:
        results = list(ex.map(_run, dirs))
    for d, rc, last in results:
        ctx.case(("corpus", d.name))
        ctx.stat("corpus_demos")
        if rc is None:
            ctx.stat("corpus_timeouts")  # machine load: not a verdict
            continue
        if rc != 0:
            ok = False
            ctx.fail(f"corpus:{d.name}", f"the demonstration program of seeded change {d.name} fails on this tree: {last[0][:300]}",
                     (d / "demo.py").read_text(), broken=[f"{ctx.prop}_corpus"])
    ctx.ob(f"{ctx.prop}_corpus", ok, "search", "" if ok else "a demonstration program of the regression corpus fails")
