"""Kernel step of a check: build the property's Lean modules, audit axioms, grep."""
from __future__ import annotations

import re
import subprocess
from pathlib import Path

from . import leanrun


def module_path(mod):
    return leanrun.LEAN_DIR / (mod.replace(".", "/") + ".lean")


def transitive_local_imports(mods):
    seen, todo = set(), list(mods)
    while todo:
        m = todo.pop()
        if m in seen:
            continue
        p = module_path(m)
        if not p.exists():
            continue
        seen.add(m)
        for mm in re.findall(r"^import\s+(QV[\w.]*)", p.read_text(), re.M):
            todo.append(mm)
    return sorted(seen)


def build_and_audit(ctx, prop, modules, theorems, gen_obs=False, extra_audit=()):
    """records one obligation per hand theorem (and per generated theorem) — ok iff the
    module compiled and the theorem's axioms are within the standard three."""
    targets = list(modules)
    gen_mod = f"QV.Gen.{prop}_Ob"
    if gen_obs:
        targets.append(gen_mod)
        if module_path(f"QV.Gen.{prop}_Sem").exists():
            targets.append(f"QV.Gen.{prop}_Sem")
    ok, out = leanrun.lake_build(targets)
    fails = leanrun.failing_decls(out, targets) if not ok else []
    failed_names = {n for _, _, n in fails if n}
    if not ok:
        ctx.log("lake build failed:\n" + out[-2500:])
    # names to audit
    names = list(theorems) + list(extra_audit)
    gen_names = []
    if gen_obs:
        for p in sorted((leanrun.LEAN_DIR / "QV" / "Gen").glob(f"{prop}_Ob[0-9]*.lean")):
            gen_names += [f"QV.Gen.{prop}.{n}" for n in re.findall(r"^theorem\s+(\S+)", p.read_text(), re.M)]
        p = module_path(f"QV.Gen.{prop}_Sem")
        if p.exists():
            gen_names += [f"QV.Gen.{prop}.{n}" for n in re.findall(r"^theorem\s+(\S+)", p.read_text(), re.M)]
    imports = [m for m in targets]
    rc, axioms, aout = (0, {}, "")
    if ok:
        rc, axioms, aout = leanrun.audit_axioms(names + gen_names, imports, prop)
    for t in theorems:
        short = t.split(".")[-1]
        if not ok and (short in failed_names or not failed_names):
            ctx.ob(t, False, "theorem", "module does not compile: " + "; ".join(f"{f}:{l} {n}" for f, l, n in fails[:5]))
            continue
        ax = axioms.get(t)
        if ax is None:
            ctx.ob(t, False, "theorem", "theorem not found by #print axioms (renamed or removed?)" if ok else "build failed")
        else:
            extra = set(ax) - leanrun.STD_AXIOMS
            ctx.ob(t, not extra, "theorem", f"non-standard axioms: {sorted(extra)}" if extra else "")
    bad_gen = 0
    for t in gen_names:
        ax = axioms.get(t)
        if ax is None or set(ax) - leanrun.STD_AXIOMS:
            bad_gen += 1
    if gen_obs:
        ctx.ob(f"{prop}_generated_axioms", ok and bad_gen == 0, "audit",
               f"{bad_gen} generated theorems missing or with non-standard axioms" if bad_gen else ("" if ok else "build failed"))
    # forbidden tokens in every local module these depend on
    mods = transitive_local_imports(targets)
    hits = leanrun.grep_forbidden([module_path(m) for m in mods])
    ctx.ob(f"{prop}_no_sorry_grep", not hits, "audit", "; ".join(f"{p}:{l}" for p, l, _ in hits[:5]))
    ctx.stats["lean_modules"] = len(mods)
    ctx.stats["generated_theorems"] = len(gen_names)
    ctx.checker_cmd = f"cd lean && lake build {' '.join(targets)} && lake env lean QV/Gen/Audit_{prop}.lean  (#print axioms)"
    if ctx.thorough and ok:
        try:
            p = subprocess.run(["lake", "env", "leanchecker", *targets], cwd=leanrun.LEAN_DIR, capture_output=True, text=True, timeout=3000)
            ctx.ob(f"{prop}_leanchecker", p.returncode == 0, "audit", (p.stdout + p.stderr)[-400:] if p.returncode else "")
            ctx.checker_cmd += f" && lake env leanchecker {' '.join(targets)}"
        except (subprocess.TimeoutExpired, OSError) as e:
            ctx.ob(f"{prop}_leanchecker", False, "audit", str(e))
    return ok


def registry(prop):
    """(modules, theorems) expected for a property, from the committed registry."""
    import json

    data = json.loads((leanrun.VERIF / "tools" / "theorems.json").read_text())
    d = data.get(prop, {"modules": [], "theorems": []})
    return list(d["modules"]), list(d["theorems"])
