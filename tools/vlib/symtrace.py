"""Symbolic tracing of qibo's *real* gate code.

The translator of this project does not re-parse Python syntax: it runs the real
methods (``gate.matrix``, ``gate.dagger``, ``gate.decompose``, decomposition tables,
``NumpyMatrices.*``) on symbolic parameter objects (class ``S``) that record the
arithmetic performed on them as an expression tree.  The tree is printed as a Lean
term of type ``QV.Ex`` (see lean/QV/Core/Sym.lean), so the Lean obligations are
regenerated from what the source does *now*.

Fail-closed rules:
  * any operation not in the fragment raises ``Untranslatable``;
  * a comparison / truth test on a symbolic value raises ``BranchOnSymbol`` unless a
    branch plan is installed (the caller then enumerates the branches);
  * float constants are read back as exact reals only if they are within 4 ulp of
    ``r``, ``r*pi``, ``r*sqrt2`` (r rational, denominator <= 96) or, for complex
    constants, of ``r * sqrt2^k * exp(i*pi*m/24)``; anything else is Untranslatable.
"""
from __future__ import annotations

import cmath
import math
from fractions import Fraction


class Untranslatable(Exception):
    pass


class BranchOnSymbol(Exception):
    pass


# ---------------------------------------------------------------------------
# constants

_DENS = [1, 2, 3, 4, 5, 6, 8, 10, 12, 16, 24, 32, 48, 64, 96]


def _close(a, b):
    return abs(a - b) <= 4 * max(abs(a), abs(b), 1e-300) * 2.3e-16


def _as_fraction(x: float, scale: float):
    """x ≈ r*scale with small denominator → r, else None."""
    if x == 0:
        return Fraction(0)
    q = x / scale
    for d in _DENS:
        n = round(q * d)
        if n != 0 and _close(n / d * scale, x):
            return Fraction(n, d)
    return None


def real_const(x):
    """tree for a python real constant."""
    if isinstance(x, bool):
        x = int(x)
    if isinstance(x, int):
        return ("rat", x, 1)
    if isinstance(x, Fraction):
        return ("rat", x.numerator, x.denominator)
    x = float(x)
    if x != x or x in (float("inf"), float("-inf")):
        raise Untranslatable(f"non-finite constant {x}")
    f = Fraction(x)
    if f.denominator <= 1024 and abs(f.numerator) < 10**9:
        return ("rat", f.numerator, f.denominator)
    r = _as_fraction(x, math.pi)
    if r is not None:
        return ("mul", ("rat", r.numerator, r.denominator), ("pi",))
    r = _as_fraction(x, math.sqrt(2))
    if r is not None:
        return ("mul", ("rat", r.numerator, r.denominator), ("sqrt2",))
    r = _as_fraction(x, 1.0)
    if r is not None:
        return ("rat", r.numerator, r.denominator)
    raise Untranslatable(f"unrecognised real constant {x!r}")


def const(x):
    """tree for a python numeric constant (int / float / complex / numpy scalar)."""
    try:
        import numpy as np

        if isinstance(x, np.generic):
            x = x.item()
    except ImportError:  # pragma: no cover
        pass
    if isinstance(x, (bool, int, float, Fraction)):
        return real_const(x)
    if isinstance(x, complex):
        if x.imag == 0:
            return real_const(x.real)
        if x.real == 0:
            return ("mul", real_const(x.imag), ("I",))
        # simple a+bi with both parts dyadic rationals
        fr, fi = Fraction(x.real), Fraction(x.imag)
        if fr.denominator <= 1024 and fi.denominator <= 1024:
            return ("add", real_const(x.real), ("mul", real_const(x.imag), ("I",)))
        # r * sqrt2^k * exp(i*pi*m/24)
        mod, arg = abs(x), cmath.phase(x)
        m = round(arg / math.pi * 24)
        if _close(m * math.pi / 24, arg) or abs(m * math.pi / 24 - arg) < 1e-15:
            for k, scale in ((0, 1.0), (1, math.sqrt(2))):
                r = _as_fraction(mod, scale)
                if r is not None:
                    t = ("exp", ("mul", ("I",), ("mul", ("rat", m, 24), ("pi",))))
                    t = ("mul", ("rat", r.numerator, r.denominator), t)
                    if k:
                        t = ("mul", ("sqrt2",), t)
                    # double check numerically
                    if abs(evaluate(t, []) - x) < 1e-14:
                        return t
        # fall back: parts separately
        return ("add", real_const(x.real), ("mul", real_const(x.imag), ("I",)))
    raise Untranslatable(f"constant of type {type(x).__name__}")


# ---------------------------------------------------------------------------
# symbolic scalar


def tree(x):
    if isinstance(x, S):
        return x.t
    return const(x)


class S:
    """symbolic scalar recording arithmetic."""

    __array_priority__ = 1000
    __slots__ = ("t",)
    plan = None  # optional branch plan: callable(kind, tree_a, tree_b) -> bool

    def __init__(self, t):
        self.t = t

    @staticmethod
    def par(i):
        return S(("par", i))

    # arithmetic
    def __add__(self, o):
        return S(("add", self.t, tree(o)))

    def __radd__(self, o):
        return S(("add", tree(o), self.t))

    def __sub__(self, o):
        return S(("sub", self.t, tree(o)))

    def __rsub__(self, o):
        return S(("sub", tree(o), self.t))

    def __mul__(self, o):
        return S(("mul", self.t, tree(o)))

    def __rmul__(self, o):
        return S(("mul", tree(o), self.t))

    def __truediv__(self, o):
        return S(("div", self.t, tree(o)))

    def __rtruediv__(self, o):
        return S(("div", tree(o), self.t))

    def __neg__(self):
        return S(("neg", self.t))

    def __pos__(self):
        return self

    # numpy ufunc hooks for object arrays / scalars
    def cos(self):
        return S(("cos", self.t))

    def sin(self):
        return S(("sin", self.t))

    def exp(self):
        return S(("exp", self.t))

    def conjugate(self):
        return S(("conj", self.t))

    def conj(self):
        return S(("conj", self.t))

    def sqrt(self):
        raise Untranslatable("sqrt of symbolic value")

    def __array_ufunc__(self, ufunc, method, *inputs, **kwargs):
        import numpy as np

        if method != "__call__":
            raise Untranslatable(f"ufunc method {method}")
        table = {
            np.cos: lambda a: a.cos(),
            np.sin: lambda a: a.sin(),
            np.exp: lambda a: a.exp(),
            np.conjugate: lambda a: a.conjugate(),
            np.negative: lambda a: -a,
            np.add: lambda a, b: a + b,
            np.subtract: lambda a, b: a - b,
            np.multiply: lambda a, b: a * b,
            np.true_divide: lambda a, b: a / b,
        }
        if ufunc not in table:
            raise Untranslatable(f"ufunc {ufunc.__name__} on symbolic value")
        args = [a if isinstance(a, S) else S(tree(a)) for a in inputs]
        return table[ufunc](*args)

    # value-dependent control flow is not allowed without a plan
    def _branch(self, kind, o):
        if S.plan is None:
            raise BranchOnSymbol(f"{kind} on symbolic value")
        return S.plan(kind, self.t, None if o is None else tree(o))

    def __bool__(self):
        return self._branch("bool", None)

    def __eq__(self, o):
        return self._branch("eq", o)

    def __ne__(self, o):
        return not self._branch("eq", o)

    def __lt__(self, o):
        return self._branch("lt", o)

    def __le__(self, o):
        return self._branch("le", o)

    def __gt__(self, o):
        return self._branch("gt", o)

    def __ge__(self, o):
        return self._branch("ge", o)

    __hash__ = None

    def __float__(self):
        raise Untranslatable("float() of symbolic value")

    def __complex__(self):
        raise Untranslatable("complex() of symbolic value")

    def __int__(self):
        raise Untranslatable("int() of symbolic value")

    def __mod__(self, o):
        raise Untranslatable("% on symbolic value")

    def __rmod__(self, o):
        raise Untranslatable("% on symbolic value")

    def __pow__(self, o):
        if isinstance(o, int) and 0 <= o <= 4:
            r = S(("rat", 1, 1))
            for _ in range(o):
                r = r * self
            return r
        raise Untranslatable("** on symbolic value")

    def __abs__(self):
        raise Untranslatable("abs of symbolic value")

    def __repr__(self):
        return f"S{self.t!r}"


# ---------------------------------------------------------------------------
# evaluation (python floats) — used to self-check the tracer against the real code


def evaluate(t, params):
    k = t[0]
    if k == "rat":
        return t[1] / t[2]
    if k == "I":
        return 1j
    if k == "pi":
        return math.pi
    if k == "sqrt2":
        return math.sqrt(2)
    if k == "par":
        return params[t[1]]
    if k == "add":
        return evaluate(t[1], params) + evaluate(t[2], params)
    if k == "sub":
        return evaluate(t[1], params) - evaluate(t[2], params)
    if k == "mul":
        return evaluate(t[1], params) * evaluate(t[2], params)
    if k == "div":
        return evaluate(t[1], params) / evaluate(t[2], params)
    if k == "neg":
        return -evaluate(t[1], params)
    if k == "cos":
        return cmath.cos(evaluate(t[1], params))
    if k == "sin":
        return cmath.sin(evaluate(t[1], params))
    if k == "exp":
        return cmath.exp(evaluate(t[1], params))
    if k == "conj":
        return complex(evaluate(t[1], params)).conjugate()
    raise ValueError(k)


def substitute(t, args):
    """replace ("par", i) by args[i] (trees)."""
    k = t[0]
    if k == "par":
        return args[t[1]]
    if k in ("rat", "I", "pi", "sqrt2"):
        return t
    return (k,) + tuple(substitute(a, args) for a in t[1:])


def simplify(t):
    """light, semantics-preserving clean-up to keep emitted terms small."""
    k = t[0]
    if k in ("rat", "I", "pi", "sqrt2", "par"):
        return t
    a = [simplify(x) for x in t[1:]]
    zero = lambda x: x[0] == "rat" and x[1] == 0
    one = lambda x: x[0] == "rat" and x[1] == x[2]
    if k == "add":
        if zero(a[0]):
            return a[1]
        if zero(a[1]):
            return a[0]
    if k == "sub" and zero(a[1]):
        return a[0]
    if k == "mul":
        if one(a[0]):
            return a[1]
        if one(a[1]):
            return a[0]
        if zero(a[0]) or zero(a[1]):
            return ("rat", 0, 1)
    if k == "div" and one(a[1]):
        return a[0]
    return (k,) + tuple(a)


# ---------------------------------------------------------------------------
# Lean printing


def lean(t):
    k = t[0]
    if k == "rat":
        n, d = t[1], t[2]
        ns = f"({n})" if n < 0 else str(n)
        return f"(.rat {ns} {d})"
    if k in ("I", "pi", "sqrt2"):
        return f".{k}"
    if k == "par":
        return f"(.par {t[1]})"
    if k in ("add", "sub", "mul", "div"):
        return f"(.{k} {lean(t[1])} {lean(t[2])})"
    if k in ("neg", "cos", "sin", "exp", "conj"):
        return f"(.{k} {lean(t[1])})"
    raise ValueError(k)


def lean_matrix(rows):
    return "[" + ",\n    ".join("[" + ", ".join(lean(simplify(e)) for e in r) + "]" for r in rows) + "]"


def matrix_trees(arr):
    """numpy object/complex array or nested list → list of list of trees."""
    import numpy as np

    a = np.asarray(arr, dtype=object) if not isinstance(arr, np.ndarray) else arr
    if a.ndim != 2 or a.shape[0] != a.shape[1]:
        raise Untranslatable(f"matrix of shape {a.shape}")
    return [[tree(a[i, j]) for j in range(a.shape[1])] for i in range(a.shape[0])]
