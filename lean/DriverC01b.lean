/-
  Line-protocol driver of the PIPELINE model QV/Model/Einsum.lean (C01/C02 deepening): string and
  axis-order generators of einsum_utils.py and the transliterated NumpyBackend.apply_gate /
  apply_gate_density_matrix.  Run with `lake env lean --run DriverC01b.lean`.
-/
import QV.Core.GI
import QV.Model.Table
import QV.Model.Sim
import QV.Model.Einsum
open QV QV.Einsum

structure Rd where
  toks : Array String
  pos : Nat := 0

abbrev P := StateM Rd

def nextTok : P String := do
  let s ← get
  set { s with pos := s.pos + 1 }
  pure (s.toks.getD s.pos "")

def nextInt : P Int := do
  let t ← nextTok
  pure (t.toInt?.getD 0)

def nextNat : P Nat := do
  let t ← nextInt
  pure t.toNat

def nextNats (k : Nat) : P (List Nat) := do
  let mut out := []
  for _ in [0:k] do
    out := (← nextNat) :: out
  pure out.reverse

def nextGI : P GI := do
  let a ← nextInt
  let b ← nextInt
  pure ⟨a, b⟩

def nextGIs (k : Nat) : P (Array GI) := do
  let mut out := Array.mkEmpty k
  for _ in [0:k] do
    out := out.push (← nextGI)
  pure out

/-- gate: k nc t1..tk c1..cnc then 2^k*2^k entries (row major). -/
def nextGate : P (MGate GI) := do
  let k ← nextNat
  let nc ← nextNat
  let ts ← nextNats k
  let cs ← nextNats nc
  let d := 2 ^ k
  let m ← nextGIs (d * d)
  pure { mat := fun i j => m.getD (i * d + j) 0, targets := ts, controls := cs }

def showGIs (a : Array GI) : String :=
  " ".intercalate (a.toList.map GI.toStr)

def showNats (l : List Nat) : String := " ".intercalate (l.map toString)

def showSpec (s : Spec) : String := s!"{showNats s.a} , {showNats s.b} -> {showNats s.out}"

/-- the pipeline, one gate at a time, materialising after each gate. -/
def runSVp (n : Nat) (gs : List (MGate GI)) (ψ : Array GI) : Option (Array GI) :=
  gs.foldl (fun s g => s.bind fun a => (applyGateSV n g (ofTable n a)).map (tableOf n)) (some ψ)

def runDMp (n : Nat) (gs : List (MGate GI)) (ρ : Array GI) : Option (Array GI) :=
  gs.foldl (fun s g => s.bind fun a =>
    (applyGateDMT GI.conj n g (ofTable2 n a)).map (tableOf2 n)) (some ρ)

def handle : P String := do
  let cmd ← nextTok
  match cmd with
  | "PREP" =>
    let n ← nextNat
    let k ← nextNat
    let qs ← nextNats k
    match prepareStrings qs n with
    | none => pure "RAISE"
    | some s => pure s!"{showNats s.inp} | {showNats s.out} | {showNats s.trans} | {showNats s.rest}"
  | "GSTR" =>
    let n ← nextNat
    let k ← nextNat
    let qs ← nextNats k
    match applyGateString qs n with
    | none => pure "RAISE"
    | some s => pure (showSpec s)
  | "DSTR" =>
    let n ← nextNat
    let k ← nextNat
    let qs ← nextNats k
    match applyGateDMString qs n with
    | none => pure "RAISE"
    | some (l, r) => pure s!"{showSpec l} ; {showSpec r}"
  | "CSTR" =>
    let n ← nextNat
    let k ← nextNat
    let qs ← nextNats k
    match applyGateDMControlledString qs n with
    | none => pure "RAISE"
    | some (l, r) => pure s!"{showSpec l} ; {showSpec r}"
  | "ORD" =>
    let n ← nextNat
    let nc ← nextNat
    let k ← nextNat
    let cs ← nextNats nc
    let ts ← nextNats k
    let (o, t) := controlOrder cs ts n
    pure s!"{showNats o} | {showNats t}"
  | "ORDDM" =>
    let n ← nextNat
    let nc ← nextNat
    let k ← nextNat
    let cs ← nextNats nc
    let ts ← nextNats k
    let (o, t) := controlOrderDM cs ts n
    pure s!"{showNats o} | {showNats t}"
  | "REV" =>
    let m ← nextNat
    let o ← nextNats m
    pure (showNats (reverseOrder o))
  | "PSV" =>
    let n ← nextNat
    let ng ← nextNat
    let mut gs := []
    for _ in [0:ng] do
      gs := (← nextGate) :: gs
    let ψ ← nextGIs (2 ^ n)
    match runSVp n gs.reverse ψ with
    | none => pure "RAISE"
    | some a => pure (showGIs a)
  | "PDM" =>
    let n ← nextNat
    let ng ← nextNat
    let mut gs := []
    for _ in [0:ng] do
      gs := (← nextGate) :: gs
    let ρ ← nextGIs (2 ^ n * 2 ^ n)
    match runDMp n gs.reverse ρ with
    | none => pure "RAISE"
    | some a => pure (showGIs a)
  | "" => pure ""
  | c => pure s!"bad-op {c}"

partial def loop (h : IO.FS.Stream) : IO Unit := do
  let line ← h.getLine
  if line.isEmpty then return ()
  let toks := (line.splitOn " ").filter (· ≠ "") |>.map (fun s => s.trimAscii.toString) |>.filter (· ≠ "")
  let (out, _) := handle.run { toks := toks.toArray }
  IO.println out
  loop h

def main : IO Unit := do
  loop (← IO.getStdin)
