/-
  Line-protocol driver for C18 (quantum-information measures).  One case per input line,
  one canonical answer line.  Run with `lake env lean --run DriverC18.lean`.

    PTDM  n t T1..Tt  <4^n GI>        partial_trace, density-matrix branch  -> (2^k)^2 GI | ERR
    PTSV  n t T1..Tt  <2^n GI>        partial_trace, state-vector branch    -> (2^k)^2 GI | ERR
    PTSPEC n t T1..Tt <4^n GI>        the order-free SPEC (`ptrace`) read on the kept qubits
    PTR   n p P1..Pp  <4^n GI>        partial_transpose of a matrix          -> 4^n GI | ERR
    PTRV  n p P1..Pp  <2^n GI>        partial_transpose of a state vector    -> 4^n GI | ERR
    SCH   n p P1..Pp  <2^n GI>        schmidt_decomposition's matrix         -> 2^n GI | ERR
    PUR   d <d^2 GI>                  trace(rho @ rho)
    NSQ   d <d GI>                    sum psi conj psi
    TRP   d <d^2 GI> <d^2 GI>         trace(rho @ sigma)
    OVL   d <d GI> <d GI>             conj(psi) @ phi
    HSI   d <d^2 GI> <d^2 GI>         trace(conj(A.T) @ B)
    HWB   k b1..bk                    hamming_weight of a bit list          -> weight ; indexes
    HWN   m                           hamming_weight of an int              -> weight
    HDB   k a1..ak l b1..bl           hamming_distance of two bit lists     -> distance ; indexes
    HDN   a b                         hamming_distance of two ints          -> distance
    TVD   k p1..pk q1..qk             2 * D * total_variation_distance on integer numerators
-/
import QV.Core.GI
import QV.Model.Table
import QV.Model.Sim
import QV.Model.Fusion
import QV.Model.Linalg
import QV.Model.ClassicalDist
open QV QV.Linalg

structure Rd where
  toks : Array String
  pos : Nat := 0

abbrev P := StateM Rd

def nextTok : P String := do
  let s ← get
  set { s with pos := s.pos + 1 }
  pure (s.toks.getD s.pos "")

def nextInt : P Int := do
  let t ← nextTok
  pure (t.toInt?.getD 0)

def nextNat : P Nat := do
  let t ← nextInt
  pure t.toNat

def nextNats (k : Nat) : P (List Nat) := do
  let mut out := []
  for _ in [0:k] do
    out := (← nextNat) :: out
  pure out.reverse

def nextInts (k : Nat) : P (List Int) := do
  let mut out := []
  for _ in [0:k] do
    out := (← nextInt) :: out
  pure out.reverse

def nextGI : P GI := do
  let a ← nextInt
  let b ← nextInt
  pure ⟨a, b⟩

def nextGIs (k : Nat) : P (Array GI) := do
  let mut out := Array.mkEmpty k
  for _ in [0:k] do
    out := out.push (← nextGI)
  pure out

def showGIs (a : Array GI) : String :=
  " ".intercalate (a.toList.map GI.toStr)

def showNats (l : List Nat) : String := ",".intercalate (l.map toString)

def matOut (r c : Nat) (m : Nat → Nat → GI) : String :=
  showGIs (Array.ofFn (n := r * c) (fun i => m (i.val / c) (i.val % c)))

def nodupB : List Nat → Bool
  | [] => true
  | q :: qs => !qs.contains q && nodupB qs

/-- admissible qubit list: duplicate-free, all below n. -/
def validQ (n : Nat) (T : List Nat) : Bool := nodupB T && T.all (· < n)

def matFn (d : Nat) (a : Array GI) : Nat → Nat → GI := fun i j => a.getD (i * d + j) 0
def vecFn (a : Array GI) : Nat → GI := fun i => a.getD i 0

def handle : P String := do
  let cmd ← nextTok
  match cmd with
  | "PTDM" =>
    let n ← nextNat
    let t ← nextNat
    let T ← nextNats t
    let a ← nextGIs (2 ^ n * 2 ^ n)
    if !validQ n T then pure "ERR" else
    let d := keptDim n T
    pure (matOut d d (partialTraceDM n T (ofTable2 n a)))
  | "PTSV" =>
    let n ← nextNat
    let t ← nextNat
    let T ← nextNats t
    let a ← nextGIs (2 ^ n)
    if !validQ n T then pure "ERR" else
    let d := keptDim n T
    pure (matOut d d (partialTraceSV GI.conj n T (ofTable n a)))
  | "PTSPEC" =>
    let n ← nextNat
    let t ← nextNat
    let T ← nextNats t
    let a ← nextGIs (2 ^ n * 2 ^ n)
    if !validQ n T then pure "ERR" else
    let ks := kept n T
    let d := 2 ^ ks.length
    let red := ptrace T (ofTable2 n a)
    pure (matOut d d (fun b c => red (Lab.withIdx zeroLab ks b) (Lab.withIdx zeroLab ks c)))
  | "PTR" =>
    let n ← nextNat
    let p ← nextNat
    let Pq ← nextNats p
    let a ← nextGIs (2 ^ n * 2 ^ n)
    if !Pq.all (· < n) then pure "ERR" else
    pure (showGIs (tableOf2 n (partialTranspose n Pq (ofTable2 n a))))
  | "PTRV" =>
    let n ← nextNat
    let p ← nextNat
    let Pq ← nextNats p
    let a ← nextGIs (2 ^ n)
    if !Pq.all (· < n) then pure "ERR" else
    let f := ofTable n a
    let ρ : DM GI := fun x y => f x * GI.conj (f y)
    pure (showGIs (tableOf2 n (partialTranspose n Pq ρ)))
  | "SCH" =>
    let n ← nextNat
    let p ← nextNat
    let Pq ← nextNats p
    let a ← nextGIs (2 ^ n)
    if !validQ n Pq then pure "ERR" else
    pure (matOut (2 ^ p) (2 ^ (n - p)) (schmidtMat n Pq (ofTable n a)))
  | "PUR" =>
    let d ← nextNat
    let a ← nextGIs (d * d)
    pure (purityDM d (matFn d a)).toStr
  | "NSQ" =>
    let d ← nextNat
    let a ← nextGIs d
    pure (normSq GI.conj d (vecFn a)).toStr
  | "TRP" =>
    let d ← nextNat
    let a ← nextGIs (d * d)
    let b ← nextGIs (d * d)
    pure (traceProd d (matFn d a) (matFn d b)).toStr
  | "OVL" =>
    let d ← nextNat
    let a ← nextGIs d
    let b ← nextGIs d
    pure (overlap GI.conj d (vecFn a) (vecFn b)).toStr
  | "HSI" =>
    let d ← nextNat
    let a ← nextGIs (d * d)
    let b ← nextGIs (d * d)
    pure (hsInner GI.conj d (matFn d a) (matFn d b)).toStr
  | "HWB" =>
    let k ← nextNat
    let bs ← nextNats k
    let l := bs.map (· == 1)
    pure s!"{CD.hammingWeightBits l} ; {showNats (CD.onesIdx l)}"
  | "HWN" =>
    let m ← nextNat
    pure s!"{CD.hammingWeightNat m}"
  | "HDB" =>
    let k ← nextNat
    let a ← nextNats k
    let l ← nextNat
    let b ← nextNats l
    let la := a.map (· == 1)
    let lb := b.map (· == 1)
    pure s!"{CD.hammingDistanceBits la lb} ; {showNats (CD.hammingDistanceIdx la lb)}"
  | "HDN" =>
    let a ← nextNat
    let b ← nextNat
    pure s!"{CD.hammingDistanceNat a b}"
  | "HDNI" =>
    let a ← nextNat
    let b ← nextNat
    pure s!"{CD.hammingDistanceNat a b} ; {showNats (CD.hammingDistanceNatIdx a b)}"
  | "TVD" =>
    let k ← nextNat
    let p ← nextInts k
    let q ← nextInts k
    pure s!"{CD.sumAbsDiff p q}"
  | "" => pure ""
  | c => pure s!"bad-op {c}"

partial def loop (h : IO.FS.Stream) : IO Unit := do
  let line ← h.getLine
  if line.isEmpty then return ()
  let toks := (line.splitOn " ").filter (· ≠ "") |>.map (fun s => s.trimAscii.toString) |>.filter (· ≠ "")
  let (out, _) := handle.run { toks := toks.toArray }
  IO.println out
  loop h

def main : IO Unit := do
  loop (← IO.getStdin)
