/- Gaussian integers: the exact scalar type used by the correspondence driver. -/
namespace QV
structure GI where
  re : Int
  im : Int
  deriving DecidableEq, Repr, Inhabited

namespace GI
instance : Zero GI := ⟨⟨0, 0⟩⟩
instance : One GI := ⟨⟨1, 0⟩⟩
instance : Add GI := ⟨fun a b => ⟨a.re + b.re, a.im + b.im⟩⟩
instance : Sub GI := ⟨fun a b => ⟨a.re - b.re, a.im - b.im⟩⟩
instance : Neg GI := ⟨fun a => ⟨-a.re, -a.im⟩⟩
instance : Mul GI := ⟨fun a b => ⟨a.re * b.re - a.im * b.im, a.re * b.im + a.im * b.re⟩⟩
def conj (a : GI) : GI := ⟨a.re, -a.im⟩
def abs2 (a : GI) : Int := a.re * a.re + a.im * a.im
def toStr (a : GI) : String := s!"{a.re} {a.im}"
end GI
end QV
