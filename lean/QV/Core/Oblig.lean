/-
  QV.Core.Oblig — shape of the table obligations regenerated from qibo's source.

  An `SGate` is what the tracer observed of a real gate object: the local matrix
  returned by `gate.matrix(backend)` (as expressions in the symbolic parameters), its
  target qubits (in the order qibo stores them) and its `controlled_by` controls.
  An `Ob` says "applying `ls` in list order equals applying `rs` in list order"
  exactly or up to a global phase, on `n` template qubits with `np` real parameters.
-/
import QV.Core.Sym
namespace QV

structure SGate where
  mat      : List (List Ex)
  targets  : List Nat
  controls : List Nat := []
  dagger   : Bool := false      -- use the conjugate transpose of `mat`
  deriving Repr, Inhabited

inductive Mode where
  | exact | phase
  deriving Repr, DecidableEq, Inhabited

structure Ob where
  np   : Nat
  n    : Nat
  ls   : List SGate
  rs   : List SGate
  mode : Mode := .exact
  deriving Repr, Inhabited

/-- full `2^n` matrix of one traced gate. -/
def SGate.smat (np n : Nat) (g : SGate) : Option SMat := do
  let m0 ← normMat np g.mat
  let m := if g.dagger then SMat.dagger m0 else m0
  let e := SMat.embed n g.targets m
  pure (if g.controls.isEmpty then e else SMat.ctrl np n g.controls e)

def prodOf (np n : Nat) : List SGate → SMat → Option SMat
  | [], acc => some acc
  | g :: gs, acc => do
      let m ← g.smat np n
      prodOf np n gs (SMat.mul m acc)

def Ob.sides (o : Ob) : Option (SMat × SMat) := do
  let a ← prodOf o.np o.n o.ls (SMat.one o.np (2 ^ o.n))
  let b ← prodOf o.np o.n o.rs (SMat.one o.np (2 ^ o.n))
  pure (a, b)

/-- the decision procedure run in the kernel for every generated obligation. -/
def Ob.check (o : Ob) : Bool :=
  match o.sides with
  | none => false
  | some (a, b) =>
    match o.mode with
    | .exact => SMat.eq a b
    | .phase => SMat.isUnitary o.np a && SMat.isUnitary o.np b && SMat.propTo a b

/-- is the expression fragment supported (used by stage 1 to separate
    "outside the fragment" from "identity is false")? -/
def Ob.supported (o : Ob) : Bool := o.sides.isSome

/-- unitarity of one traced matrix. -/
def unitaryCheck (np : Nat) (m : List (List Ex)) : Bool :=
  match normMat np m with
  | none => false
  | some a => SMat.isUnitary np a

/-- entrywise equality of two traced matrices. -/
def matEqCheck (np : Nat) (m d : List (List Ex)) : Bool :=
  match normMat np m, normMat np d with
  | some a, some b => SMat.eq a b
  | _, _ => false

end QV
