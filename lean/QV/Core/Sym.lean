/-
  QV.Core.Sym — import-free symbolic engine for "for all angles" matrix identities.

  * `Ex`      deep embedding of the numeric sub-language used by qibo's gate tables
              (`npmatrices.py`, `decompositions.py`): rationals, `1j`, `math.pi`,
              `math.sqrt(2)`, real parameters, `+ - * /`, `cos sin exp conj`.
  * `Poly`    Laurent polynomials with rational coefficients in the unit variables
                v 0 = ζ = exp(iπ/8)      (ζ^8 = -1)
                v (j+1) = exp(i θ_j / 8) (θ_j the j-th real parameter)
  * `Ex.norm` normaliser `Ex → Option Poly`; `none` = outside the supported fragment
              (the obligation is then reported as broken, never silently accepted).
  * `SMat`    matrices of polynomials with `mul`, `dagger`, `kron`, `embed`, and the
              decision procedures `isZero`, `isUnitary`, `propTo` (proportional).

  Soundness (eval of the normal form = real/complex meaning of the expression) is
  proved in `QV/Proofs/SymSound.lean` over Mathlib's ℂ.  Completeness is not needed:
  a check that returns `false` is a broken obligation, not a refutation.
-/
namespace QV

/-! ## Expressions -/

inductive Ex where
  | rat (n : Int) (d : Nat)          -- n / d   (d ≠ 0 by construction of the translator)
  | I                                -- 1j
  | pi                               -- math.pi / np.pi
  | sqrt2                            -- math.sqrt(2) / np.sqrt(2)
  | par (i : Nat)                    -- i-th real parameter of the gate
  | add (a b : Ex)
  | sub (a b : Ex)
  | mul (a b : Ex)
  | div (a b : Ex)
  | neg (a : Ex)
  | cos (a : Ex)
  | sin (a : Ex)
  | exp (a : Ex)
  | conj (a : Ex)
  deriving Repr, DecidableEq, Inhabited

/-! ## Monomials: exponent vectors (index 0 = ζ, index j+1 = parameter j) -/

abbrev Mono := List Int

def Mono.mul : Mono → Mono → Mono
  | [], m => m
  | m, [] => m
  | a :: as, b :: bs => (a + b) :: Mono.mul as bs

def Mono.inv (m : Mono) : Mono := m.map (fun e => -e)

/-- reduce the ζ exponent into `[0,8)`; returns `(negate?, reduced monomial)` using
    ζ^16 = 1 and ζ^8 = -1. -/
def Mono.reduce : Mono → Bool × Mono
  | [] => (false, [])
  | e :: es =>
    let r := e % 16
    if r < 8 then (false, r :: es) else (true, (r - 8) :: es)

/-! ## Polynomials -/

abbrev Poly := List (Mono × Rat)

namespace Poly

def const (np : Nat) (c : Rat) : Poly := [(List.replicate (np + 1) 0, c)]

def add (p q : Poly) : Poly := p ++ q

def neg (p : Poly) : Poly := p.map (fun (m, c) => (m, -c))

def smul (k : Rat) (p : Poly) : Poly := p.map (fun (m, c) => (m, k * c))

def mulMono (m : Mono) (c : Rat) (q : Poly) : Poly :=
  q.map (fun (m', c') => (Mono.mul m m', c * c'))

def mulRaw : Poly → Poly → Poly
  | [], _ => []
  | (m, c) :: p, q => mulMono m c q ++ mulRaw p q

def conj (p : Poly) : Poly := p.map (fun (m, c) => (Mono.inv m, c))

/-- add `c·m` to an (unordered) list of distinct monomials. -/
def insert (m : Mono) (c : Rat) : Poly → Poly
  | [] => [(m, c)]
  | (m', c') :: p => if m = m' then (m', c' + c) :: p else (m', c') :: insert m c p

def insertRed (acc : Poly) (t : Mono × Rat) : Poly :=
  let (s, m) := Mono.reduce t.1
  insert m (if s then -t.2 else t.2) acc

def dropZeros (p : Poly) : Poly := p.filter (fun t => t.2 != 0)

def normalize (p : Poly) : Poly := dropZeros (p.foldl insertRed [])

def mul (p q : Poly) : Poly := normalize (mulRaw p q)

def sub (p q : Poly) : Poly := add p (neg q)

def isZero (p : Poly) : Bool := (normalize p).isEmpty

end Poly

/-! ## Linear forms in the parameters (arguments of cos / sin / exp) -/

/-- `Σ_j coef_j · θ_j + piC · π + c0` with rational coefficients. -/
structure Lin where
  coef : List Rat
  piC  : Rat
  c0   : Rat
  deriving Repr, DecidableEq, Inhabited

namespace Lin

def zipAdd : List Rat → List Rat → List Rat
  | [], l => l
  | l, [] => l
  | a :: as, b :: bs => (a + b) :: zipAdd as bs

def zero : Lin := ⟨[], 0, 0⟩
def add (a b : Lin) : Lin := ⟨zipAdd a.coef b.coef, a.piC + b.piC, a.c0 + b.c0⟩
def smul (k : Rat) (a : Lin) : Lin := ⟨a.coef.map (k * ·), k * a.piC, k * a.c0⟩
def neg (a : Lin) : Lin := smul (-1) a
def isConst (a : Lin) : Bool := a.coef.all (· == 0) && a.piC == 0
def isZero (a : Lin) : Bool := a.isConst && a.c0 == 0
def unitVec : Nat → List Rat
  | 0 => [1]
  | n + 1 => 0 :: unitVec n

end Lin

/-- complex-linear form: `re + i·im`. -/
structure CLin where
  re : Lin
  im : Lin
  deriving Repr, DecidableEq, Inhabited

def ratOf (n : Int) (d : Nat) : Rat := (n : Rat) / (d : Rat)

/-- read an expression as a complex-linear form in (θ, π); products and quotients need
    one constant factor. -/
def Ex.clin : Ex → Option CLin
  | .rat n d => some ⟨⟨[], 0, ratOf n d⟩, Lin.zero⟩
  | .I => some ⟨Lin.zero, ⟨[], 0, 1⟩⟩
  | .pi => some ⟨⟨[], 1, 0⟩, Lin.zero⟩
  | .par i => some ⟨⟨Lin.unitVec i, 0, 0⟩, Lin.zero⟩
  | .add a b => do
      let x ← a.clin; let y ← b.clin
      pure ⟨x.re.add y.re, x.im.add y.im⟩
  | .sub a b => do
      let x ← a.clin; let y ← b.clin
      pure ⟨x.re.add y.re.neg, x.im.add y.im.neg⟩
  | .neg a => do
      let x ← a.clin
      pure ⟨x.re.neg, x.im.neg⟩
  | .mul a b => do
      let x ← a.clin; let y ← b.clin
      if x.re.isConst && x.im.isConst then
        -- (p + iq)(re + i im) = (p re - q im) + i (p im + q re)
        pure ⟨(y.re.smul x.re.c0).add (y.im.smul (-x.im.c0)),
              (y.im.smul x.re.c0).add (y.re.smul x.im.c0)⟩
      else if y.re.isConst && y.im.isConst then
        pure ⟨(x.re.smul y.re.c0).add (x.im.smul (-y.im.c0)),
              (x.im.smul y.re.c0).add (x.re.smul y.im.c0)⟩
      else none
  | .div a b => do
      let x ← a.clin; let y ← b.clin
      if y.re.isConst && y.im.isZero && y.re.c0 != 0 then
        let k := 1 / y.re.c0
        pure ⟨x.re.smul k, x.im.smul k⟩
      else none
  | _ => none

/-- `8·q` as an integer, if it is one. -/
def eighths (q : Rat) : Option Int :=
  let r := q * 8
  if r.den = 1 then some r.num else none

def eighthsList : List Rat → Option (List Int)
  | [] => some []
  | q :: qs => do
      let a ← eighths q
      let as ← eighthsList qs
      pure (a :: as)

def padTo (n : Nat) (l : List Int) : List Int := l ++ List.replicate (n - l.length) 0

/-- the monomial `exp(i·L)` for a real-linear form with no constant term whose
    coefficients are multiples of 1/8. -/
def Lin.toMono (np : Nat) (l : Lin) : Option Mono := do
  if l.c0 != 0 then none
  if l.coef.length > np then none
  let z ← eighths l.piC
  let es ← eighthsList l.coef
  pure (z :: padTo np es)

namespace Poly
/-- `i` as a polynomial: ζ^4. -/
def I (np : Nat) : Poly := [(4 :: List.replicate np 0, 1)]
/-- `√2 = ζ² + ζ⁻² = ζ² − ζ⁶`. -/
def sqrt2 (np : Nat) : Poly := [(2 :: List.replicate np 0, 1), (6 :: List.replicate np 0, -1)]
end Poly

/-- normalise an expression with `np` parameters to a Laurent polynomial. -/
def Ex.norm (np : Nat) : Ex → Option Poly
  | .rat n d => some (Poly.const np (ratOf n d))
  | .I => some (Poly.I np)
  | .pi => none
  | .sqrt2 => some (Poly.sqrt2 np)
  | .par _ => none
  | .add a b => do
      let p ← a.norm np; let q ← b.norm np
      pure (Poly.normalize (Poly.add p q))
  | .sub a b => do
      let p ← a.norm np; let q ← b.norm np
      pure (Poly.normalize (Poly.sub p q))
  | .mul a b => do
      let p ← a.norm np; let q ← b.norm np
      pure (Poly.mul p q)
  | .neg a => do
      let p ← a.norm np
      pure (Poly.neg p)
  | .div a b =>
      match b with
      | .rat n d =>
          if n = 0 then none else do
            let p ← a.norm np
            pure (Poly.smul (1 / ratOf n d) p)
      | .sqrt2 => do
            let p ← a.norm np
            pure (Poly.mul p (Poly.smul (1/2) (Poly.sqrt2 np)))
      | _ => none
  | .conj a => do
      let p ← a.norm np
      pure (Poly.conj p)
  | .exp a => do
      let l ← a.clin
      -- argument must be purely imaginary: exp(i·im)
      if !(l.re.isZero) then none
      let m ← l.im.toMono np
      pure [(m, 1)]
  | .cos a => do
      let l ← a.clin
      if !(l.im.isZero) then none
      let m ← l.re.toMono np
      pure (Poly.normalize [(m, 1/2), (Mono.inv m, 1/2)])
  | .sin a => do
      let l ← a.clin
      if !(l.im.isZero) then none
      let m ← l.re.toMono np
      -- sin x = (e^{ix} - e^{-ix}) / (2i) = -i/2 (e^{ix} - e^{-ix})
      pure (Poly.mul (Poly.smul (-1/2) (Poly.I np)) [(m, 1), (Mono.inv m, -1)])

/-! ## Matrices of polynomials -/

abbrev SMat := List (List Poly)

namespace SMat

def zeroP : Poly := []

def get (A : SMat) (i j : Nat) : Poly := (A.getD i []).getD j zeroP

def dim (A : SMat) : Nat := A.length

def ofFn (n : Nat) (f : Nat → Nat → Poly) : SMat :=
  (List.range n).map (fun i => (List.range n).map (fun j => f i j))

def one (np n : Nat) : SMat := ofFn n (fun i j => if i = j then Poly.const np 1 else zeroP)

def sumRange (n : Nat) (f : Nat → Poly) : Poly :=
  (List.range n).foldl (fun acc k => Poly.add acc (f k)) zeroP

def mul (A B : SMat) : SMat :=
  let n := A.dim
  ofFn n (fun i j => Poly.normalize (sumRange n (fun k => Poly.mulRaw (A.get i k) (B.get k j))))

def sub (A B : SMat) : SMat :=
  ofFn A.dim (fun i j => Poly.normalize (Poly.sub (A.get i j) (B.get i j)))

def dagger (A : SMat) : SMat := ofFn A.dim (fun i j => Poly.conj (A.get j i))

def isZero (A : SMat) : Bool := A.all (fun r => r.all Poly.isZero)

def isUnitary (np : Nat) (A : SMat) : Bool :=
  isZero (sub (mul (dagger A) A) (one np A.dim))

def eq (A B : SMat) : Bool := A.dim == B.dim && isZero (sub A B)

/-- `A i j * B k l = A k l * B i j` for all indices: A and B are proportional. -/
def propTo (A B : SMat) : Bool :=
  let n := A.dim
  n == B.dim &&
  (List.range n).all fun i => (List.range n).all fun j =>
  (List.range n).all fun k => (List.range n).all fun l =>
    Poly.isZero (Poly.sub (Poly.mulRaw (A.get i j) (B.get k l)) (Poly.mulRaw (A.get k l) (B.get i j)))

/-- bit `q` (qubit 0 = most significant) of index `i` in an `n`-qubit register. -/
def bit (n q i : Nat) : Nat := (i >>> (n - 1 - q)) % 2

/-- local index of `i` restricted to the qubit list `qs` (first listed = most significant). -/
def sub_index (n : Nat) (qs : List Nat) (i : Nat) : Nat :=
  qs.foldl (fun acc q => 2 * acc + bit n q i) 0

/-- do `i` and `j` agree on all qubits outside `qs`? -/
def agreeOff (n : Nat) (qs : List Nat) (i j : Nat) : Bool :=
  (List.range n).all fun q => qs.contains q || bit n q i == bit n q j

/-- embed a `2^k` matrix acting on the ordered qubit list `qs` into `n` qubits. -/
def embed (n : Nat) (qs : List Nat) (M : SMat) : SMat :=
  ofFn (2 ^ n) fun i j =>
    if agreeOff n qs i j then M.get (sub_index n qs i) (sub_index n qs j) else zeroP

/-- controlled version: identity unless all `cs` bits are 1. -/
def ctrl (np n : Nat) (cs : List Nat) (U : SMat) : SMat :=
  ofFn (2 ^ n) fun i j =>
    if cs.all (fun c => bit n c i == 1) then
      (if cs.all (fun c => bit n c j == 1) then U.get i j else zeroP)
    else if i = j then Poly.const np 1 else zeroP

/-- product of a list of matrices applied in list order (first element acts first). -/
def prodApplied (np n : Nat) (gs : List SMat) : SMat :=
  gs.foldl (fun acc g => mul g acc) (one np (2 ^ n))

end SMat

/-- normalise a matrix of expressions. -/
def normMat (np : Nat) (m : List (List Ex)) : Option SMat :=
  m.mapM (fun r => r.mapM (fun e => (e.norm np).map Poly.normalize))

end QV
