/-
  QV.Core.Bits — computational-basis labels and sums over qubit assignments (import-free).

  A basis label is a total function `Nat → Bool` (qubit q ↦ its bit); only the bits of
  the qubits a circuit names matter, so no register size appears in the model or in its
  theorems.  The driver materialises functions on labels as arrays of length 2^n with
  qubit 0 as the most significant bit (qibo's convention).
-/
namespace QV

abbrev Lab := Nat → Bool

namespace Lab

def set (x : Lab) (q : Nat) (b : Bool) : Lab := fun r => if r = q then b else x r

/-- overwrite the bits at `qs` by those of `y`. -/
def setMany (x : Lab) (qs : List Nat) (y : Lab) : Lab :=
  fun r => if qs.contains r then y r else x r

/-- index of `x` restricted to the ordered qubit list (first listed = most significant). -/
def idx (qs : List Nat) (x : Lab) : Nat :=
  qs.foldl (fun acc q => 2 * acc + (if x q then 1 else 0)) 0

/-- all listed qubits are 1. -/
def allOne (qs : List Nat) (x : Lab) : Bool := qs.all x

/-- label of array index `i` in an `n`-qubit register (qubit 0 = most significant bit). -/
def ofIndex (n i : Nat) : Lab := fun q => q < n && (i >>> (n - 1 - q)) % 2 == 1

/-- array index of a label in an `n`-qubit register. -/
def toIndex (n : Nat) (x : Lab) : Nat := idx (List.range n) x

/-- label from a local index on the ordered list `qs`, other bits from `x`. -/
def withIdx (x : Lab) (qs : List Nat) (a : Nat) : Lab :=
  fun r =>
    match qs.idxOf? r with
    | some p => (a >>> (qs.length - 1 - p)) % 2 == 1
    | none => x r

end Lab

/-- sum of `f` over all assignments of the listed qubits (other bits taken from `x`). -/
def sumOver {α : Type} [Zero α] [Add α] : List Nat → (Lab → α) → Lab → α
  | [], f, x => f x
  | q :: qs, f, x => sumOver qs f (x.set q false) + sumOver qs f (x.set q true)

end QV
