/-
  QV.Core.CFloat — complex double arithmetic and the executable twin `Ex.evalF` of the
  real/complex meaning of `Ex` (used only by the correspondence driver, never in proofs).
-/
import QV.Core.Sym
namespace QV

structure CF where
  re : Float
  im : Float
  deriving Inhabited

namespace CF
def ofFloat (x : Float) : CF := ⟨x, 0.0⟩
def zero : CF := ⟨0.0, 0.0⟩
def one : CF := ⟨1.0, 0.0⟩
def add (a b : CF) : CF := ⟨a.re + b.re, a.im + b.im⟩
def sub (a b : CF) : CF := ⟨a.re - b.re, a.im - b.im⟩
def mul (a b : CF) : CF := ⟨a.re * b.re - a.im * b.im, a.re * b.im + a.im * b.re⟩
def neg (a : CF) : CF := ⟨-a.re, -a.im⟩
def conj (a : CF) : CF := ⟨a.re, -a.im⟩
def div (a b : CF) : CF :=
  let d := b.re * b.re + b.im * b.im
  ⟨(a.re * b.re + a.im * b.im) / d, (a.im * b.re - a.re * b.im) / d⟩
def exp (a : CF) : CF :=
  let r := Float.exp a.re
  ⟨r * Float.cos a.im, r * Float.sin a.im⟩
/-- cos(x+iy) = cos x cosh y − i sin x sinh y -/
def cos (a : CF) : CF := ⟨Float.cos a.re * Float.cosh a.im, -(Float.sin a.re * Float.sinh a.im)⟩
/-- sin(x+iy) = sin x cosh y + i cos x sinh y -/
def sin (a : CF) : CF := ⟨Float.sin a.re * Float.cosh a.im, Float.cos a.re * Float.sinh a.im⟩
def abs2 (a : CF) : Float := a.re * a.re + a.im * a.im
def toStr (a : CF) : String := s!"{a.re} {a.im}"
instance : Add CF := ⟨add⟩
instance : Sub CF := ⟨sub⟩
instance : Mul CF := ⟨mul⟩
instance : Neg CF := ⟨neg⟩
end CF

def piF : Float := 3.141592653589793

def Ex.evalF (θ : Array Float) : Ex → CF
  | .rat n d => CF.ofFloat (Float.ofInt n / Float.ofNat d)
  | .I => ⟨0.0, 1.0⟩
  | .pi => CF.ofFloat piF
  | .sqrt2 => CF.ofFloat (Float.sqrt 2.0)
  | .par i => CF.ofFloat (θ.getD i 0.0)
  | .add a b => a.evalF θ + b.evalF θ
  | .sub a b => a.evalF θ - b.evalF θ
  | .mul a b => a.evalF θ * b.evalF θ
  | .div a b => CF.div (a.evalF θ) (b.evalF θ)
  | .neg a => -(a.evalF θ)
  | .cos a => CF.cos (a.evalF θ)
  | .sin a => CF.sin (a.evalF θ)
  | .exp a => CF.exp (a.evalF θ)
  | .conj a => CF.conj (a.evalF θ)

end QV
