/-
  C14 — Every execution result stands alone, whatever was run before, after or beside it.
  Property theorems only (proofs are thin wrappers of QV/Proofs/ResultSM.lean).
  Model: QV/Model/ResultSM.lean — ONE circuit object, the `MeasurementResult` caches of its
  measurement gates (shared), the list of all result objects its executions returned (each with
  its own `_probs/_samples/_frequencies/_repeated_execution_frequencies`) and
  `circuit._final_state`; operations = execute / samples / frequencies / probabilities / state
  on any result, in any order.  Tied to /repo by the correspondence suites of
  tools/props/C14.py through lean/DriverC14.lean (same recorded random draws on both sides).

  Conventions.  A history `h : List Op` is arbitrary (any length, any interleaving, accessor
  calls on results that do not exist yet answer `invalid`).  Randomness is an input: every
  operation carries the answers of `sample_shots` / `shuffle` it may consume, and every
  observable `Obs = Out × Nat` says how many answers it consumed — so "same seed" is "same
  answers offered" and statements about observables include the consumption of the generator.
  `obsOnFrom c j 0 (St.init c) h` = what the history shows on the `j`-th result;
  `aloneFrom j 0 h` = the sub-history of the `j`-th result (its execution and the accessor calls
  on it) addressed to a FRESH circuit object.
  `Cfg.legacy = false` is the code after the repair "results own their samples"
  (result.py `_from_measurement_gates`, per-register views computed from the result's own
  data, executions reset the gates' caches); `legacy = true` is the logic before it.
-/
import QV.Proofs.ResultSM
namespace QV.Props.C14
open QV.RSM

/-- THE PROPERTY (full statement): whatever else was executed or asked on the same circuit
object — before, after, in between — every result shows exactly what its own execution and
its own accessor calls show on a fresh circuit object given the same random answers,
including how many random answers are consumed. -/
def C14_independent (c : Cfg) : Prop :=
  ∀ (h : List Op) (j : Nat), obsOnFrom c j 0 (St.init c) h = run c (aloneFrom j 0 h)

/-- the repaired accessor logic satisfies the full property: all histories, all circuits
kinds (single execution, repeated execution with state vectors or density matrices), any
number of registers and of results. -/
theorem T14_independent (c : Cfg) (hc : c.legacy = false) : C14_independent c :=
  fun h j => obsOn_eq_alone c hc j h 0 (St.init c) (St.init c) (match_init c j)

/-- non-vacuity: a four-step history on a repaired two-register circuit where the second
result really shows its own rows. -/
example :
    obsOnFrom { kind := .plain, widths := [1, 1] } 1 0 (St.init { kind := .plain, widths := [1, 1] })
      [.exec 0 5 [], .samples 0 false [0, 0, 0, 0, 0] [], .exec 3 7 [],
       .samples 1 false [3, 3, 3, 3, 3, 3, 3] []]
      = [(Out.created, 0), (Out.table [3, 3, 3, 3, 3, 3, 3], 1)] := by decide

/-- the accessor logic BEFORE the repair violates the property (DESIGN §4 F8):
`r1 = c(|00⟩, nshots=5); r1.samples(); r2 = c(|11⟩, nshots=7); r2.samples()` answers r1's five
rows and draws nothing.  Kernel-evaluated on the model; replayed on the implementation by the
check (key `stale-cache:samples-after-reexecution`). -/
theorem T14_legacy_not_independent :
    ¬ C14_independent { kind := .plain, widths := [1, 1], legacy := true } := by
  intro h
  have := h [.exec 0 5 [], .samples 0 false [0, 0, 0, 0, 0] [], .exec 3 7 [],
             .samples 1 false [3, 3, 3, 3, 3, 3, 3] []] 1
  revert this
  decide

/-- the same for repeated execution before the repair: the first shot of a second execution is
the first cached row of the previous execution instead of a fresh draw. -/
theorem T14_legacy_repeated_not_independent :
    ¬ C14_independent { kind := .repSV, widths := [1, 1], pre := 1, legacy := true } := by
  intro h
  have := h [.exec 0 2 [0, 0, 0, 0], .exec 3 2 [1, 3, 1, 3], .samples 1 false [] []] 1
  revert this
  decide

/-- and for per-register frequencies before the repair: `r1.frequencies(registers=True)` after
`r2.frequencies(registers=True)` answers r2's counters. -/
theorem T14_legacy_registers_not_independent :
    ¬ C14_independent { kind := .plain, widths := [1, 1], legacy := true } := by
  intro h
  have := h [.exec 0 2 [], .exec 3 3 [], .freqs 0 true [0, 0], .freqs 1 true [3, 3, 3],
             .freqs 0 true []] 0
  revert this
  decide

/-- interleaving (the parallel helpers as interleaved atomic steps of the same executions):
two histories that contain the same per-result sub-histories — in whatever order the
executions and accessor calls of different results are interleaved — show the same
observables on every result. -/
theorem T14_interleave (c : Cfg) (hc : c.legacy = false) (h₁ h₂ : List Op)
    (hsame : ∀ j, aloneFrom j 0 h₁ = aloneFrom j 0 h₂) (j : Nat) :
    obsOnFrom c j 0 (St.init c) h₁ = obsOnFrom c j 0 (St.init c) h₂ := by
  rw [T14_independent c hc h₁ j, T14_independent c hc h₂ j, hsame j]

example : ∀ j, aloneFrom j 0 [Op.exec 0 1 [], .exec 1 1 [], .state 0, .state 1]
    = aloneFrom j 0 [Op.exec 0 1 [], .state 0, .exec 1 1 [], .state 1] := by
  intro j
  match j with
  | 0 => decide
  | 1 => decide
  | j + 2 => simp [aloneFrom, Op.isExec, Op.target]

/-- seed reproducibility: re-running an execution and its accessor calls with the same input,
shot count and the same random answers on offer (same seed) — as the `j₂`-th result of ANY
other history, whatever ran before or in between — reproduces the same samples, frequencies
and consumption of the generator. -/
theorem T14_seed_reproducible (c : Cfg) (hc : c.legacy = false) (h₁ h₂ : List Op) (j₁ j₂ : Nat)
    (hsame : aloneFrom j₁ 0 h₁ = aloneFrom j₂ 0 h₂) :
    obsOnFrom c j₁ 0 (St.init c) h₁ = obsOnFrom c j₂ 0 (St.init c) h₂ := by
  rw [T14_independent c hc h₁ j₁, T14_independent c hc h₂ j₂, hsame]

example : aloneFrom 0 0 [Op.exec 2 3 [], .samples 0 false [1, 2, 2] []]
    = aloneFrom 1 0 [Op.exec 1 7 [], .freqs 0 true [0], .exec 2 3 [], .samples 1 false [1, 2, 2] []] := by
  decide

/-- frame property, ALL accessor logics (legacy included): after any history, `state()` and
(for `CircuitResult`s) `probabilities()` of the `j`-th result are those of the state computed by
its own execution — the one that was given the `j`-th input — and consume no randomness.
They never touch the shared caches. -/
theorem T14_state_probs (c : Cfg) (hk : c.kind ≠ .repSV) (h : List Op) (j inp : Nat)
    (hj : (inputs h)[j]? = some inp) :
    (step c (stateAfter c (St.init c) h) (.state j)).2 = (Out.owner inp, 0) ∧
    (step c (stateAfter c (St.init c) h) (.probs j)).2 = (Out.owner inp, 0) := by
  have hin := stateAfter_inps c h (St.init c)
  simp only [St.init, List.map_nil, List.nil_append] at hin
  have hj' : ((stateAfter c (St.init c) h).results.map (·.inp))[j]? = some inp := by
    simp only [St.init]; rw [hin]; exact hj
  rw [List.getElem?_map] at hj'
  cases hr : (stateAfter c (St.init c) h).results[j]? with
  | none => simp [hr] at hj'
  | some r =>
    simp [hr] at hj'
    constructor
    · show (onResult _ j _).2 = _
      rw [onResult_some _ j _ r hr]
      cases hkk : c.kind <;> simp_all [accState]
    · show (onResult _ j _).2 = _
      rw [onResult_some _ j _ r hr]
      cases hkk : c.kind <;> simp_all [accProbs]

example : (inputs [Op.exec 4 2 [], .samples 0 true [1, 1] [], .exec 9 1 []])[1]? = some 9 := by
  decide

/-- invariant behind the repair, all histories: a result produced by an execution always has
a source of its own (probabilities of its state, or the rows recorded by the shot loop), so the
one branch of `samples()` / `has_samples()` that still reads the gates' shared
`MeasurementResult` (kept for objects built from measurement gates alone) is dead for it. -/
theorem T14_results_own_source (c : Cfg) (h : List Op) :
    ∀ r ∈ (stateAfter c (St.init c) h).results, fromGates r = false :=
  stateAfter_owns c h (St.init c) (by simp [St.init])

/-- second and later calls, ALL accessor logics: once a result holds samples (drawn by
`samples()`, or recorded by a repeated execution), then after ANY further history on the circuit
object — new executions, accessor calls on any result — `samples()` of that result answers the
same rows and consumes no randomness. -/
theorem T14_samples_stable (c : Cfg) (σ : St) (h : List Op) (j : Nat) (r : Res) (t d p : List Nat)
    (hr : σ.results[j]? = some r) (ht : r.samples = some t) :
    (step c (stateAfter c σ h) (.samples j false d p)).2 = (Out.table t, 0) := by
  obtain ⟨r', h1, h2⟩ := stateAfter_stable c h σ j r t hr ht
  show (onResult _ j _).2 = _
  rw [onResult_some _ j _ r' h1]
  simp [accSamples, ensureSamples_stable c _ r' d p t h2, h2]

example : ((stateAfter { kind := .plain, widths := [2] } (St.init { kind := .plain, widths := [2] })
    [.exec 0 2 [], .samples 0 false [1, 3] []]).results[0]?).map (·.samples) = some (some [1, 3]) := by
  decide

end QV.Props.C14
