/-
  C20 (part e) — `binary_encoder(data, parametrization="hopf")` loads the data, for every number
  of qubits.  Property theorems only; proofs in QV/Proofs/EncodingsHopf.lean.
  Model: QV/Model/EncodingsB.lean (`hopf n`: for every level `l < n` and every `l`-bit prefix `j`
  the block `X(anticontrols) · RY(l) controlled on all other qubits · X(anticontrols)` that
  `_binary_encoder_hopf` emits, RY gates numbered in queue order), executed by the simulator model
  QV/Model/Sim.lean over an arbitrary commutative ring (`P.c e`/`P.s e` = cos/sin of HALF the
  e-th circuit parameter, i.e. of the e-th angle of `_generate_rbs_angles(data, "tree", 2^n)`).

  Heap numbering of the binary tree: node `e` has the children `2e+1` (target bit 0) and `2e+2`
  (target bit 1); the inner nodes `e < 2^n-1` are the RY gates in queue order, the leaves
  `e = 2^n-1+p` are the data entries `p < 2^n`; `val n y` is the array index of the basis label `y`.
-/
import QV.Props.C20c
import QV.Proofs.EncodingsHopf
namespace QV.Props.C20
open QV QV.Enc Finset

variable {α : Type} [CommRing α]

/-- the cos / sin part of a parameter pack. -/
def toPar (P : Par2 α) : Par α := { h := 0, w := fun _ => 0, c := P.c, s := P.s }

/-- **Binary encoder, Hopf parametrisation, every `n`.**  Let `R e` play the role of the norm of
the data below heap node `e` (leaves: `R (2^n-1+p) = x p`), and let the angles satisfy
`R e · cos θ_e = R (2e+1)`, `R e · sin θ_e = R (2e+2)` for every inner node — which is what
`_generate_rbs_angles(data, "tree", 2^n)` computes (checked on the real angle function to 1e-9 on
every run, together with `parameter e = 2θ_e` in queue order).  Then `‖x‖ · ⟨y|state⟩ = x_{val y}`
for every basis label `y` of the register and 0 outside: the amplitude on the basis state with
array index `j` is `x_j / ‖x‖`. -/
theorem T20_binary_hopf (P : Par2 α) (n : Nat) (x R : Nat → α)
    (hleaf : ∀ p, p < 2 ^ n → R (2 ^ n - 1 + p) = x p)
    (hc : ∀ e, e < 2 ^ n - 1 → R e * P.c e = R (2 * e + 1))
    (hs : ∀ e, e < 2 ^ n - 1 → R e * P.s e = R (2 * e + 2)) (y : Lab) :
    R 0 * runCircuit ((hopf n).map (BG.sem P)) (ket zeroLab) y
      = ind (∀ q, n ≤ q → y q = false) * x (val n y) :=
  hopf_loader P n x R hleaf hc hs y

/-- state prepared by the Hopf circuit for arbitrary angles: the amplitude of `|y⟩` is the
product of the cosines (bit 0) and sines (bit 1) along the path from the root to leaf `val n y`
of the tree of multiplexed rotations. -/
theorem T20_binary_hopf_state (P : Par2 α) (n : Nat) (y : Lab) :
    runCircuit ((hopf n).map (BG.sem P)) (ket zeroLab) y
      = ind (∀ q, n ≤ q → y q = false) * pathAmp (toPar P) (2 ^ n - 1 + val n y) := by
  have h := T20_binary_hopf P n (fun k => pathAmp (toPar P) (2 ^ n - 1 + k)) (pathAmp (toPar P))
    (fun _ _ => rfl) (fun e _ => (pathAmp_left (toPar P) e).symm)
    (fun e _ => (pathAmp_right (toPar P) e).symm) y
  have h0 : pathAmp (toPar P) 0 = 1 := by rw [pathAmp]
  rw [h0, one_mul] at h
  exact h

/-- one uniformly controlled rotation, as the circuit implements it: the block of prefix `j` at
level `l` rotates qubit `l` exactly on the labels whose first `l` bits spell `j` and whose bits
`l+1 … n-1` are 0, and is the identity on every other label. -/
theorem T20_hopf_block (P : Par2 α) {n l : Nat} (hl : l < n) (j : Nat) (ψ : Lab → α) (x : Lab)
    [Decidable (hopfCond n l j x)] :
    runCircuit ((hopfBlock n l j).map (BG.sem P)) ψ x
      = if hopfCond n l j x then
          matRY (P.c (2 ^ l - 1 + j)) (P.s (2 ^ l - 1 + j)) (b2n (x l)) 0 * ψ (x.set l false)
            + matRY (P.c (2 ^ l - 1 + j)) (P.s (2 ^ l - 1 + j)) (b2n (x l)) 1 * ψ (x.set l true)
        else ψ x :=
  hopfBlock_apply P hl j ψ x

/-! ### non-vacuity -/

private def exParH : Par2 ℚ :=
  { c := fun _ => 3 / 5, s := fun _ => 4 / 5, p := fun _ => 1, m := fun _ => 1, i := 0,
    lp0 := 1, lm0 := 1, lp1 := 1, lm1 := 1 }
private def exXH : Nat → ℚ := fun k => if k = 0 then 3 else 4
private def exRH : Nat → ℚ := fun e => if e = 0 then 5 else if e = 1 then 3 else 4

/-- hypotheses of `T20_binary_hopf` are satisfiable, `n = 1`: data `(3, 4)`, `‖x‖ = 5`. -/
example (y : Lab) :
    exRH 0 * runCircuit ((hopf 1).map (BG.sem exParH)) (ket zeroLab) y
      = ind (∀ q, 1 ≤ q → y q = false) * exXH (val 1 y) :=
  T20_binary_hopf exParH 1 exXH exRH
    (by intro p hp
        have hp' : p < 2 := by simpa using hp
        interval_cases p <;> norm_num [exXH, exRH])
    (by intro e he
        have he' : e < 1 := by simpa using he
        interval_cases e; norm_num [exRH, exParH])
    (by intro e he
        have he' : e < 1 := by simpa using he
        interval_cases e; norm_num [exRH, exParH]) y

example : (hopf 2).map BG.show = ["x 1", "ry 0 0 c 1", "x 1", "x 0", "ry 1 1 c 0", "x 0", "ry 1 2 c 0"] := by
  decide

end QV.Props.C20
