/-
  C15 (continued) — expectation values from measurement frequencies (diagonal observables).
-/
import QV.Proofs.Hamil
import Mathlib.Algebra.BigOperators.Group.List.Basic
import Mathlib.Algebra.BigOperators.Ring.List
namespace QV.Props.C15
open QV

variable {α : Type} [CommRing α]

/-- the value ±1 of a Z string on a basis label: one sign per factor. -/
def zval (x : Lab) (fs : List (PSym α)) : α := (fs.map (fun f => if x f.q then (-1 : α) else 1)).prod

/-- the eigenvalue of a Z-string Hamiltonian (term form) on a basis label. -/
def eigZ (h : TermHam α) (x : Lab) : α := (h.terms.map (fun t => t.coef * zval x t.factors)).sum + h.constant

theorem zSign_eq (qm : List Nat) (key : List Bool) (fs : List (PSym α)) :
    zSign qm key fs = zval (keyLabel qm key) fs := by
  have key' : ∀ (a : α), fs.foldl (fun acc f => if keyBit qm key f.q then -acc else acc) a
      = a * (fs.map (fun f => if keyLabel qm key f.q then (-1 : α) else 1)).prod := by
    induction fs with
    | nil => intro a; simp
    | cons f fs ih =>
      intro a
      simp only [List.foldl_cons, List.map_cons, List.prod_cons, ih, keyLabel]
      by_cases hb : keyBit qm key f.q = true <;> simp [hb]
  unfold zSign zval
  rw [key', one_mul]

theorem foldl_add_eq_sum' {β : Type} (g : β → α) (l : List β) (acc : α) :
    l.foldl (fun a t => a + g t) acc = acc + (l.map g).sum := by
  induction l generalizing acc with
  | nil => simp
  | cons t l ih => simp only [List.foldl_cons, ih, List.map_cons, List.sum_cons, add_assoc]

theorem sum_sum_comm {β γ : Type} (F : β → γ → α) (l : List β) (m : List γ) :
    (l.map (fun t => (m.map (fun k => F t k)).sum)).sum
      = (m.map (fun k => (l.map (fun t => F t k)).sum)).sum := by
  induction l with
  | nil => simp
  | cons t l ih => simp only [List.map_cons, List.sum_cons, ih, List.sum_map_add]

/-- **Expectation from samples** (symbolic class, scaled by the number of shots): the
model of `SymbolicHamiltonian.expectation_from_samples` equals the count-weighted
eigenvalues, the label of a key being read through the qubit map — for every frequency
table (induction over the list), every qubit map, every number of Z factors per qubit. -/
theorem T15_samples_symbolic (h : TermHam α) (qm : List Nat) (freq : List (List Bool × α)) :
    samplesSymbolicScaled h qm freq
      = (freq.map (fun kc => eigZ h (keyLabel qm kc.1) * kc.2)).sum := by
  unfold samplesSymbolicScaled
  have e1 := foldl_add_eq_sum' (fun kc : List Bool × α => kc.2) freq 0
  rw [e1, zero_add]
  have e2 : ∀ t : STerm α, freq.foldl (fun a kc => a + t.coef * zSign qm kc.1 t.factors * kc.2) 0
      = (freq.map (fun kc => t.coef * zval (keyLabel qm kc.1) t.factors * kc.2)).sum := by
    intro t
    rw [foldl_add_eq_sum' (fun kc : List Bool × α => t.coef * zSign qm kc.1 t.factors * kc.2) freq 0, zero_add]
    congr 1
    apply List.map_congr_left
    intro kc _
    rw [zSign_eq]
  simp only [e2]
  rw [foldl_add_eq_sum' (fun t : STerm α =>
    (freq.map (fun kc => t.coef * zval (keyLabel qm kc.1) t.factors * kc.2)).sum) h.terms 0, zero_add,
    sum_sum_comm (fun (t : STerm α) (kc : List Bool × α) => t.coef * zval (keyLabel qm kc.1) t.factors * kc.2),
    ← List.sum_map_mul_left, ← List.sum_map_add]
  congr 1
  apply List.map_congr_left
  intro kc _
  unfold eigZ
  rw [add_mul, List.sum_map_mul_right]

/-- a Z symbol multiplies the amplitude of a basis label by ±1. -/
theorem applyGate_symZ (q : Nat) (ψ : Lab → α) (x : Lab) :
    applyGate (symZ q : PSym α).gate ψ x = (if x q then (-1 : α) else 1) * ψ x := by
  cases hx : x q <;>
    simp [applyGate, PSym.gate, symZ, pauliZ, Lab.allOne, sumOver, Lab.idx, hx]
  · rw [← hx, Lab.set_self]
  · rw [← hx, Lab.set_self]

/-- **Z strings are diagonal with eigenvalue `zval`** (so `eigZ` is the diagonal of the
operator): a word of Z symbols multiplies the amplitude at `x` by one sign per factor. -/
theorem T15_zstring_diagonal (qs : List Nat) (ψ : Lab → α) (x : Lab) :
    wordApply (qs.map (fun q => (symZ q : PSym α))) ψ x
      = zval x (qs.map (fun q => (symZ q : PSym α))) * ψ x := by
  induction qs generalizing ψ with
  | nil => simp [wordApply, zval]
  | cons q qs ih =>
    simp only [List.map_cons, wordApply_cons, applyGate_symZ, zval, List.prod_cons]
    rw [ih]
    simp only [zval, symZ]
    by_cases hb : x q = true <;> simp [hb, mul_comm, mul_left_comm]

/-- non-vacuity: Z₀·Z₁·Z₀ on the label 10 has value +1 (it is Z₁), not −1. -/
example : zval (α := Int) (fun q => q == 0) [symZ 0, symZ 1, symZ 0] = 1 := by decide

/-- dense class, full statement (proved: `T15_samples_dense_index_full_proved`, C15d.lean): for a
qubit map that is a permutation of `0 … n-1` the index computed by
`Hamiltonian.expectation_from_samples` is the array index of the label of the key. -/
def T15_samples_dense_index_full : Prop :=
  ∀ (n : Nat) (qm : List Nat) (key : List Bool), qm.Perm (List.range n) → key.length = n →
    denseIndex qm key = Lab.toIndex n (keyLabel qm key)

end QV.Props.C15
