/-
  C05 — Dagger, control and relabelling are exact operations on gates and circuits.
  Circuit-level theorems over the simulator model; the per-class facts
  (⟦dagger g⟧ = ⟦g⟧ᴴ, ⟦g.controlled_by c⟧ = ctrl c ⟦g⟧, on_qubits, current parameter
  values) are kernel-checked table obligations regenerated from the source
  (QV/Gen/C05_Ob.lean).
-/
import QV.Model.CircuitOps
set_option linter.unusedSectionVars false
set_option linter.unusedSimpArgs false
namespace QV.Props.C05
open QV

variable {α : Type} [Zero α] [Add α] [Mul α]

theorem T05_invert_nil (dag : MGate α → MGate α) : invertWith dag [] = [] := rfl

/-- inverse of a concatenation = concatenation of inverses in the opposite order. -/
theorem T05_invert_append (dag : MGate α → MGate α) (gs hs : List (MGate α)) :
    invertWith dag (gs ++ hs) = invertWith dag hs ++ invertWith dag gs := by
  simp [invertWith]

/-- `invert` keeps the number of gates and reverses the order of their images. -/
theorem T05_invert_involutive_shape (dag : MGate α → MGate α) (gs : List (MGate α)) :
    (invertWith dag gs).length = gs.length ∧
    invertWith dag (invertWith dag gs) = gs.map (dag ∘ dag) := by
  simp [invertWith, List.map_reverse]

/-- if every gate's dagger undoes it, a circuit followed by its inverse is the identity
    — for every circuit length and every state. -/
theorem T05_invert_run (dag : MGate α → MGate α)
    (hdag : ∀ (g : MGate α) (ψ : Lab → α), applyGate (dag g) (applyGate g ψ) = ψ)
    (gs : List (MGate α)) (ψ : Lab → α) :
    runCircuit (gs ++ invertWith dag gs) ψ = ψ := by
  induction gs generalizing ψ with
  | nil => rfl
  | cons g gs ih =>
    have : g :: gs ++ invertWith dag (g :: gs) = g :: ((gs ++ invertWith dag gs) ++ [dag g]) := by
      simp [invertWith]
    rw [this]
    show runCircuit ((gs ++ invertWith dag gs) ++ [dag g]) (applyGate g ψ) = ψ
    simp only [runCircuit, List.foldl_append, List.foldl_cons, List.foldl_nil]
    have h2 := ih (applyGate g ψ)
    simp only [runCircuit, List.foldl_append] at h2
    rw [h2]
    exact hdag g ψ

/-- concatenation of circuits composes their actions. -/
theorem T05_add_run (gs hs : List (MGate α)) (ψ : Lab → α) :
    runCircuit (gs ++ hs) ψ = runCircuit hs (runCircuit gs ψ) := by
  simp [runCircuit, List.foldl_append]

/-! ### relabelling -/

/-- pull a label back along a qubit map. -/
def pull (σ : Nat → Nat) (x : Lab) : Lab := fun r => x (σ r)

theorem set_comp_inj (σ : Nat → Nat) (hσ : Function.Injective σ) (x : Lab) (q : Nat) (b : Bool) :
    pull σ (x.set (σ q) b) = (pull σ x).set q b := by
  funext r
  simp only [Lab.set, pull]
  by_cases h : r = q
  · simp [h]
  · have : σ r ≠ σ q := fun e => h (hσ e)
    simp [h, this]

theorem idx_map (σ : Nat → Nat) (qs : List Nat) (y : Lab) :
    Lab.idx (qs.map σ) y = Lab.idx qs (pull σ y) := by
  simp only [Lab.idx, List.foldl_map, pull]
  rfl

theorem allOne_map (σ : Nat → Nat) (qs : List Nat) (y : Lab) :
    Lab.allOne (qs.map σ) y = Lab.allOne qs (pull σ y) := by
  simp only [Lab.allOne, List.all_map, pull]
  rfl

theorem sumOver_map (σ : Nat → Nat) (hσ : Function.Injective σ) (qs : List Nat)
    (F : Lab → α) (x : Lab) :
    sumOver (qs.map σ) (fun y => F (pull σ y)) x = sumOver qs F (pull σ x) := by
  induction qs generalizing x with
  | nil => rfl
  | cons q qs ih =>
    simp only [List.map_cons, sumOver]
    rw [ih, ih, set_comp_inj σ hσ, set_comp_inj σ hσ]

/-- moving a gate with an injective qubit map moves its action and changes nothing else. -/
theorem T05_relabel_apply (σ : Nat → Nat) (hσ : Function.Injective σ) (g : MGate α)
    (ψ : Lab → α) (x : Lab) :
    applyGate (g.relabel σ) (fun y => ψ (pull σ y)) x = applyGate g ψ (pull σ x) := by
  simp only [applyGate, MGate.relabel, allOne_map, idx_map]
  split
  · exact sumOver_map σ hσ g.targets
      (fun y => g.mat (Lab.idx g.targets (pull σ x)) (Lab.idx g.targets y) * ψ y) x
  · rfl

/-- `Circuit.on_qubits`: running the relabelled circuit on the pulled-back state is the
    pull-back of running the original circuit — all circuits, all injective maps. -/
theorem T05_relabel_run (σ : Nat → Nat) (hσ : Function.Injective σ) (gs : List (MGate α))
    (ψ : Lab → α) :
    runCircuit (relabelCircuit σ gs) (fun y => ψ (pull σ y))
      = fun x => runCircuit gs ψ (pull σ x) := by
  induction gs generalizing ψ with
  | nil => rfl
  | cons g gs ih =>
    simp only [relabelCircuit, List.map_cons, runCircuit, List.foldl_cons]
    have h1 : applyGate (g.relabel σ) (fun y => ψ (pull σ y))
        = fun y => applyGate g ψ (pull σ y) := by
      funext x; exact T05_relabel_apply σ hσ g ψ x
    rw [h1]
    exact ih (applyGate g ψ)

/-- non-vacuity: an X on qubit 0 moved to qubit 2 by the injective map q ↦ q + 2. -/
example : Function.Injective (fun q : Nat => q + 2) := fun a b h => by simpa using h

end QV.Props.C05
