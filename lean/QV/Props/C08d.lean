/-
  C08d — `controlled_by` gates and decompositions: the PHASE LEMMA.

  qibo's tables (`standard_decompositions`) describe a gate WITHOUT its `controlled_by` controls and
  hold up to a global phase only.  What happens when the bare gate is decomposed and the controls
  are attached to every returned gate?

    * `T08_ctrl_list`             : a list of gates each controlled on `cs` acts like the list on
                                    the block "all of `cs` are 1" and like the identity elsewhere
    * `T08_phase_lemma`           : base = c · Π parts  ⇒
                                    Π controlled(parts) = (phase gate `diag(1,…,1,c)` on the controls) ·
                                    controlled(base) — the global phase becomes a RELATIVE phase
    * `T08_attach_controls_exact` : phase exactly 1 ⇒ attaching the controls is exact
    * `T08_attach_controls_iff`   : with ≥ 1 control: Π controlled(parts) is controlled(base) up to a
                                    global scalar IFF c = 1
    * `T08_attach_of_exact_obligation`
                                  : a kernel-checked obligation in EXACT mode gives, for all
                                    parameter values, placements and control lists, that the
                                    attach-controls route is right for that class
                                    (generated: `C08_attach_controls_exact` over the classes whose
                                    traced decomposition has phase 1)
    * `T08_controlled_sx_relative_phase`
                                  : witness (seeded change C08-9): `SX = e^{iπ/4} RX(π/2)`; the
                                    controlled RX(π/2) is NOT the controlled SX up to any global
                                    phase — for every number ≥ 1 of controls.
  The real dispatch (`GateDecompositions.__call__`, `Gate.decompose`) never attaches controls: it
  returns a `controlled_by` gate unchanged (model + theorems: QV/Props/C08f.lean).
-/
import Mathlib.Data.Complex.Basic
import QV.Proofs.Controlled
import QV.Proofs.XDecomposeOp
import QV.Props.C08c
set_option linter.unusedSectionVars false
set_option linter.unusedSimpArgs false
set_option linter.unusedVariables false
namespace QV.Props.C08
open QV

section Generic
variable {α : Type} [CommSemiring α]

/-- **a list of gates each controlled on `cs`** (no gate of the list acts on a qubit of `cs`)
    acts like the list where all of `cs` are 1 and like the identity elsewhere; every list length,
    every state, every register. -/
theorem T08_ctrl_list (cs : List Nat) (gs : List (MGate α))
    (hd : ∀ g ∈ gs, ∀ q, q ∈ cs → q ∉ g.targets) (ψ : Lab → α) (x : Lab) :
    runCircuit (gs.map (MGate.ctrl cs)) ψ x
      = if Lab.allOne cs x then runCircuit gs ψ x else ψ x :=
  runCircuit_map_ctrl cs gs hd ψ x

/-- **PHASE LEMMA**: if the bare decomposition equals the bare gate up to the scalar `c`, then
    the decomposition with the controls attached to every part equals the controlled gate followed
    by the phase gate `MGate.phaseOn cs c` on the controls (it multiplies the labels on which all
    controls are 1 by `c`). -/
theorem T08_phase_lemma (cs : List Nat) (base : MGate α) (parts : List (MGate α)) (c : α)
    (hd : ∀ g ∈ parts, ∀ q, q ∈ cs → q ∉ g.targets)
    (h : ∀ (ψ : Lab → α) (x : Lab), runCircuit parts ψ x = c * applyGate base ψ x)
    (ψ : Lab → α) (x : Lab) :
    runCircuit (parts.map (MGate.ctrl cs)) ψ x
      = applyGate (MGate.phaseOn cs c) (applyGate (base.ctrl cs) ψ) x :=
  runCircuit_ctrl_of_phase cs base parts c hd h ψ x

/-- the same pointwise: the factor is `c` where the controls are on and `1` where they are off. -/
theorem T08_phase_lemma_pointwise (cs : List Nat) (base : MGate α) (parts : List (MGate α)) (c : α)
    (hd : ∀ g ∈ parts, ∀ q, q ∈ cs → q ∉ g.targets)
    (h : ∀ (ψ : Lab → α) (x : Lab), runCircuit parts ψ x = c * applyGate base ψ x)
    (ψ : Lab → α) (x : Lab) :
    runCircuit (parts.map (MGate.ctrl cs)) ψ x
      = (if Lab.allOne cs x then c else 1) * applyGate (base.ctrl cs) ψ x :=
  runCircuit_ctrl_of_phase' cs base parts c hd h ψ x

/-- phase exactly 1 ⇒ "decompose the bare gate, attach the controls" is exact. -/
theorem T08_attach_controls_exact (cs : List Nat) (base : MGate α) (parts : List (MGate α))
    (hd : ∀ g ∈ parts, ∀ q, q ∈ cs → q ∉ g.targets)
    (h : ∀ (ψ : Lab → α) (x : Lab), runCircuit parts ψ x = applyGate base ψ x)
    (ψ : Lab → α) (x : Lab) :
    runCircuit (parts.map (MGate.ctrl cs)) ψ x = applyGate (base.ctrl cs) ψ x :=
  runCircuit_ctrl_of_exact cs base parts hd h ψ x

/-- non-vacuity: the hypotheses hold for the one-element decomposition of a gate into itself. -/
example (cs : List Nat) (g : MGate α) (hd : ∀ q, q ∈ cs → q ∉ g.targets) (ψ : Lab → α) (x : Lab) :
    runCircuit ([g].map (MGate.ctrl cs)) ψ x = applyGate (g.ctrl cs) ψ x :=
  T08_attach_controls_exact cs g [g] (fun g' hg' q hq => by
    rw [List.mem_singleton.mp hg']; exact hd q hq) (fun ψ x => rfl) ψ x

end Generic

/-- **attach-controls is right IFF the phase is exactly 1** (over a field, at least one control,
    base gate not the zero operator on the block where the controls are on). -/
theorem T08_attach_controls_iff {α : Type} [Field α] (cs : List Nat) (hcs : cs ≠ []) (base : MGate α)
    (parts : List (MGate α)) (c : α)
    (hd : ∀ g ∈ parts, ∀ q, q ∈ cs → q ∉ g.targets)
    (h : ∀ (ψ : Lab → α) (x : Lab), runCircuit parts ψ x = c * applyGate base ψ x)
    (hne : ∃ (ψ : Lab → α) (x : Lab), Lab.allOne cs x = true ∧ applyGate base ψ x ≠ 0) :
    (∃ c' : α, ∀ (ψ : Lab → α) (x : Lab),
        runCircuit (parts.map (MGate.ctrl cs)) ψ x = c' * applyGate (base.ctrl cs) ψ x)
      ↔ c = 1 :=
  ctrl_parts_global_iff cs hcs base parts c hd h hne

/-! ### from the kernel obligations -/

/-- the qubits of `cs` are off the (relabelled) template qubits. -/
def ControlsOff (cs : List Nat) (gs : List (MGate ℂ)) : Prop :=
  ∀ g ∈ gs, ∀ q, q ∈ cs → q ∉ g.targets

/-- **classes whose traced decomposition has phase exactly 1**: if the obligation of a class
    (`ls` = traced `decompose()`, `rs` = the gate) is in EXACT mode and holds in the simulator
    reading, then for all parameter values `θ`, every placement `σ` and every list of controls
    `cs` off the gate's qubits, the decomposition with the controls attached to every part acts
    on every state exactly like the controlled gate. -/
theorem T08_attach_of_exact_obligation (o : Ob) (ho : o.SingleStmt) (hm : o.mode = .exact)
    (θ : Nat → ℝ) (σ τ : Nat → Nat) (hστ : ∀ q, σ (τ q) = q) (hτσ : ∀ q, τ (σ q) = q)
    (cs : List Nat) (hd : ControlsOff cs (relabelCircuit σ (o.lsRun θ)))
    (ψ : Lab → ℂ) (x : Lab) :
    runCircuit ((relabelCircuit σ (o.lsRun θ)).map (MGate.ctrl cs)) ψ x
      = applyGate (((o.refGate.toMGate θ).relabel σ).ctrl cs) ψ x := by
  obtain ⟨c, _, h1, he⟩ := T08_placement_of_obligation o ho θ σ τ hστ hτσ
  have hc : c = 1 := h1 hm
  subst hc
  exact T08_attach_controls_exact cs _ _ hd (fun ψ x => by rw [he, one_mul]) ψ x

/-- … and for a class in PHASE mode the same route gives the controlled gate followed by the
    phase gate on the controls, with the scalar `c` of the bare decomposition. -/
theorem T08_attach_of_phase_obligation (o : Ob) (ho : o.SingleStmt)
    (θ : Nat → ℝ) (σ τ : Nat → Nat) (hστ : ∀ q, σ (τ q) = q) (hτσ : ∀ q, τ (σ q) = q)
    (cs : List Nat) (hd : ControlsOff cs (relabelCircuit σ (o.lsRun θ))) :
    ∃ c : ℂ, ‖c‖ = 1 ∧ ∀ (ψ : Lab → ℂ) (x : Lab),
      runCircuit ((relabelCircuit σ (o.lsRun θ)).map (MGate.ctrl cs)) ψ x
        = applyGate (MGate.phaseOn cs c) (applyGate (((o.refGate.toMGate θ).relabel σ).ctrl cs) ψ) x := by
  obtain ⟨c, hc, _, he⟩ := T08_placement_of_obligation o ho θ σ τ hστ hτσ
  exact ⟨c, hc, fun ψ x => T08_phase_lemma cs _ _ c hd he ψ x⟩

/-- a class whose traced decomposition equals the gate with phase exactly 1 (kernel-checked
    obligation in exact mode). -/
@[reducible] def ExactClass (o : Ob) : Prop := o.SingleStmt ∧ o.mode = .exact

/-- over a table of classes (generated instance: `C08_attach_controls_exact`). -/
theorem T08_attach_of_exact_classes (classes : List Ob)
    (hcl : ∀ o ∈ classes, o.SingleStmt ∧ o.mode = .exact)
    (o : Ob) (hmem : o ∈ classes)
    (θ : Nat → ℝ) (σ τ : Nat → Nat) (hστ : ∀ q, σ (τ q) = q) (hτσ : ∀ q, τ (σ q) = q)
    (cs : List Nat) (hd : ControlsOff cs (relabelCircuit σ (o.lsRun θ)))
    (ψ : Lab → ℂ) (x : Lab) :
    runCircuit ((relabelCircuit σ (o.lsRun θ)).map (MGate.ctrl cs)) ψ x
      = applyGate (((o.refGate.toMGate θ).relabel σ).ctrl cs) ψ x :=
  T08_attach_of_exact_obligation o (hcl o hmem).1 (hcl o hmem).2 θ σ τ hστ hτσ cs hd ψ x

/-- non-vacuity: `demoZ` (Z = S·S, exact mode) satisfies the hypotheses. -/
example : demoZ.SingleStmt ∧ demoZ.mode = .exact :=
  ⟨Ob.singleStmt_of_check demoZ demoZ_shape demoZ_check, rfl⟩

/-! ### witness: controlled SX (seeded change C08-9) -/

open Complex in
/-- the matrix of `SX`: `½ [[1+i, 1−i], [1−i, 1+i]]`. -/
noncomputable def sxMat : Nat → Nat → ℂ := fun i j => if i = j then (1 + I) / 2 else (1 - I) / 2

open Complex in
/-- the matrix `[[r, −i r], [−i r, r]]`; `RX(π/2)` is the instance `r = cos(π/4)`, `RX(−π/2)`
    its conjugate; all that is used is `r · r = ½`. -/
noncomputable def rxhMat (r : ℂ) : Nat → Nat → ℂ := fun i j => if i = j then r else -I * r

noncomputable def sxGate (t : Nat) : MGate ℂ := { mat := sxMat, targets := [t], controls := [] }
noncomputable def rxhGate (r : ℂ) (t : Nat) : MGate ℂ := { mat := rxhMat r, targets := [t], controls := [] }

open Complex in
/-- `RX(π/2) = r(1−i) · SX` — the table entry of SX holds up to the phase `r(1−i) = e^{−iπ/4}`. -/
theorem T08_sx_table_phase (r : ℂ) (hr : r * r = 1 / 2) (t : Nat) (ψ : Lab → ℂ) (x : Lab) :
    runCircuit [rxhGate r t] ψ x = (r * (1 - I)) * applyGate (sxGate t) ψ x := by
  show applyGate (rxhGate r t) ψ x = _
  unfold rxhGate sxGate
  rw [applyGate_oneTarget, applyGate_oneTarget]
  have hI : I * I = -1 := Complex.I_mul_I
  simp only [Lab.allOne, List.all_nil, if_true]
  cases hx : x t
  · simp only [Bool.false_eq_true, if_false, rxhMat, sxMat, if_true, zero_ne_one]
    linear_combination (r * ψ (x.set t false) / 2 - r * ψ (x.set t true) / 2) * hI
  · simp only [if_true, rxhMat, sxMat, one_ne_zero, if_false]
    linear_combination (r * ψ (x.set t true) / 2 - r * ψ (x.set t false) / 2) * hI

open Complex in
/-- the phase `r(1−i)` is not 1: its square is `−i`. -/
theorem T08_sx_phase_ne_one (r : ℂ) (hr : r * r = 1 / 2) : r * (1 - I) ≠ 1 := by
  intro h
  have hI : I * I = -1 := Complex.I_mul_I
  have h2 : (r * (1 - I)) * (r * (1 - I)) = -I := by
    linear_combination (1 - I) * (1 - I) * hr + (1 / 2 : ℂ) * hI
  rw [h, one_mul] at h2
  have := congrArg Complex.im h2
  simp at this

/-- **witness for the attach-controls route (seeded change C08-9)**: for every non-empty list of
    controls off the target, the controlled `RX(π/2)` — what "decompose the bare SX, attach the
    controls" returns — is NOT the controlled SX up to any global scalar. -/
theorem T08_controlled_sx_relative_phase (r : ℂ) (hr : r * r = 1 / 2) (cs : List Nat)
    (hcs : cs ≠ []) (t : Nat) (ht : t ∉ cs) :
    ¬ ∃ c' : ℂ, ∀ (ψ : Lab → ℂ) (x : Lab),
        runCircuit ([rxhGate r t].map (MGate.ctrl cs)) ψ x
          = c' * applyGate ((sxGate t).ctrl cs) ψ x := by
  intro hex
  have hd : ∀ g ∈ [rxhGate r t], ∀ q, q ∈ cs → q ∉ g.targets := by
    intro g hg q hq hm
    rw [List.mem_singleton.mp hg] at hm
    have : q = t := by simpa [rxhGate] using hm
    exact ht (this ▸ hq)
  have hne : ∃ (ψ : Lab → ℂ) (x : Lab), Lab.allOne cs x = true ∧ applyGate (sxGate t) ψ x ≠ 0 := by
    refine ⟨fun _ => 1, fun _ => true, by simp [Lab.allOne], ?_⟩
    unfold sxGate
    rw [applyGate_oneTarget]
    simp only [Lab.allOne, List.all_nil, if_true, sxMat, one_ne_zero, if_false, mul_one]
    have : (1 - Complex.I) / 2 + (1 + Complex.I) / 2 = (1 : ℂ) := by ring
    rw [this]; exact one_ne_zero
  exact T08_sx_phase_ne_one r hr
    ((T08_attach_controls_iff cs hcs (sxGate t) [rxhGate r t] _ hd (T08_sx_table_phase r hr t) hne).mp hex)

/-- … and what it is instead: the controlled SX followed by the phase gate `diag(1,…,1,e^{−iπ/4})`
    on the controls. -/
theorem T08_controlled_sx_is_phase_gate (r : ℂ) (hr : r * r = 1 / 2) (cs : List Nat)
    (t : Nat) (ht : t ∉ cs) (ψ : Lab → ℂ) (x : Lab) :
    runCircuit ([rxhGate r t].map (MGate.ctrl cs)) ψ x
      = applyGate (MGate.phaseOn cs (r * (1 - Complex.I))) (applyGate ((sxGate t).ctrl cs) ψ) x := by
  have hd : ∀ g ∈ [rxhGate r t], ∀ q, q ∈ cs → q ∉ g.targets := by
    intro g hg q hq hm
    rw [List.mem_singleton.mp hg] at hm
    have : q = t := by simpa [rxhGate] using hm
    exact ht (this ▸ hq)
  exact T08_phase_lemma cs (sxGate t) [rxhGate r t] _ hd (T08_sx_table_phase r hr t) ψ x

/-- non-vacuity of `r · r = ½`: `r = √2 / 2 = cos(π/4)`. -/
example : ∃ r : ℂ, r * r = 1 / 2 :=
  ⟨((Real.sqrt 2 : ℝ) : ℂ) / 2, by
    have := sqrt2_mul_self_complex
    linear_combination (1 / 4 : ℂ) * this⟩

end QV.Props.C08
