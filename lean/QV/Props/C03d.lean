/-
  C03 (deepening, part 3) — `MeasurementOutcomes.probabilities(qubits)` on results without a
  final state (shot-by-shot execution): the answer is the EMPIRICAL marginal of the shot table in
  the order the qubits were requested, for every history of accessor calls.
  Model: QV/Model/MeasureProbs.lean (tied to result.py by the `PROBH` correspondence suite of
  tools/props/C03.py through lean/DriverC03.lean).  Proofs: QV/Proofs/MeasureProbs.lean.

  Tables are counts (`nshots ·` probability).  `c.glob` is the ordered list of measured qubits,
  `T` the shot table (decimal value of every reported row), `positions c.glob qs` the columns of
  the requested qubits.
-/
import QV.Proofs.MeasureProbs
namespace QV.Props.C03
open QV Finset

/-- **probabilities from frequencies = empirical marginal, in the requested order**:
`calculate_probabilities` applied to the frequency table of the shots `T`, for ANY ordered
duplicate-free list of columns `pos`, gives at outcome `j` the number of shots whose bits on
`pos`, read in that order, spell `j`. -/
theorem T03_probs_empirical {k : Nat} (T : List Nat) (hT : ∀ s ∈ T, s < 2 ^ k) {pos : List Nat}
    (hn : pos.Nodup) (hpos : ∀ p ∈ pos, p < k) :
    probsTable k pos (hist T) = (List.range (2 ^ pos.length)).map (hist (T.map (projDec k pos))) :=
  probsTable_hist T hT hn hpos

/-- the marginal of a single shot is the indicator of the shot's register value. -/
theorem T03_probs_single_shot {k a : Nat} (ha : a < 2 ^ k) {pos : List Nat} (hn : pos.Nodup)
    (hpos : ∀ p ∈ pos, p < k) {j : Nat} (hj : j < 2 ^ pos.length) :
    calculateProbabilities k pos (shotWeight k a) j = if projDec k pos a = j then 1 else 0 := by
  rw [calculateProbabilities_eq_born k pos hpos]
  exact born_shotWeight ha hn hpos hj

/-- the counts of any requested order sum to the number of shots. -/
theorem T03_probs_sum {k : Nat} (T : List Nat) (hT : ∀ s ∈ T, s < 2 ^ k) {pos : List Nat}
    (hn : pos.Nodup) (hpos : ∀ p ∈ pos, p < k) : (probsTable k pos (hist T)).sum = T.length := by
  rw [T03_probs_empirical T hT hn hpos]
  have h := hist_sum (N := 2 ^ pos.length) (T.map (projDec k pos)) (by
    intro s hs
    obtain ⟨a, ha, rfl⟩ := List.mem_map.mp hs
    rw [projDec_eq_idx (hT a ha) pos hpos]
    exact Lab.idx_lt pos _)
  rw [List.length_map] at h
  rw [← h]
  generalize 2 ^ pos.length = n
  induction n with
  | zero => simp
  | succ n ih => rw [List.range_succ, List.map_append, List.sum_append, ih, Finset.sum_range_succ]; simp

/-- consistency with `T03_probabilities_permuted`: requesting the same qubits in another order
permutes the empirical table — the count of outcome `j` of the order `pos` is the count, in the
table of `pos'`, of the outcome that gives every qubit the same bit. -/
theorem T03_probs_permuted {k : Nat} (T : List Nat) (hT : ∀ s ∈ T, s < 2 ^ k) {pos pos' : List Nat}
    (hn : pos.Nodup) (hn' : pos'.Nodup) (hpos : ∀ p ∈ pos, p < k) (h : ∀ r, r ∈ pos ↔ r ∈ pos')
    {j : Nat} (hj : j < 2 ^ pos.length) :
    hist (T.map (projDec k pos')) (Lab.idx pos' (Lab.withIdx zeroLab pos j))
      = hist (T.map (projDec k pos)) j := by
  have hpos' : ∀ p ∈ pos', p < k := fun p hp => hpos p ((h p).mpr hp)
  have h1 := born_perm k h (weightOf k (hist T)) j
  rw [born_hist T hT hn' hpos' (Lab.idx_lt pos' _), born_hist T hT hn hpos hj] at h1
  exact h1

/-- **every history.**  On the result of a shot-by-shot execution with reported table `T`, for
every sequence of `samples(binary, registers)`, `frequencies(binary, registers)`, per-gate
accessors and `probabilities(qs)` calls (each `qs` a duplicate-free list of measured qubits in
ANY order), every answer is the view of `T` — `probabilities(qs)` being the empirical marginal
in the order of `qs` — whatever was asked before: the `_probs` cache never changes an answer. -/
theorem T03_probs_history (c : RCfg) (o : Oracle) (T : List Nat) (hT : ∀ x ∈ T, x < 2 ^ c.k)
    (ops : List POp) (hok : ∀ op ∈ ops, op.ok c) :
    prun c o (PState.repeated c T) ops = ops.map (pview c T) :=
  prun_of_inv (pinv_repeated c o T) hT ops hok

/-! ### non-vacuity and the seeded defect -/

private def c1 : RCfg := { nregs := 1, reg := fun _ => [0, 1] }
private def o1 : Oracle := { shots := [], batches := [], perm := [] }

/-- `X(0)`, qubits 0 and 1 measured, 2 shots: every row is `10` = 2. -/
private def T1 : List Nat := [2, 2]

private def tables : List PAns → List (List Nat)
  | [] => []
  | .table t :: r => t :: tables r
  | _ :: r => tables r

example : (∀ x ∈ T1, x < 2 ^ c1.k) ∧ POp.ok c1 (.probs [1, 0]) := by
  refine ⟨by decide, by decide, ?_⟩
  intro q hq; simp only [List.mem_cons, List.not_mem_nil, or_false] at hq
  rcases hq with rfl | rfl <;> decide

/-- `probabilities([1, 0])` then `probabilities([0, 1])`: `01` twice, then `10` twice. -/
example : tables (prun c1 o1 (PState.repeated c1 T1) [.probs [1, 0], .probs [0, 1]])
    = [[0, 2, 0, 0], [0, 0, 2, 0]] := by decide

private def prunPoisoned (c : RCfg) (o : Oracle) : PState → List (List Nat) → List (List Nat)
  | _, [] => []
  | s, qs :: r => (pProbsPoisoned c o s qs).2 :: prunPoisoned c o (pProbsPoisoned c o s qs).1 r

/-- the seeded cache defect (table cached in the REQUESTED order): the second answer is wrong, so
it violates `T03_probs_history`. -/
theorem T03_probs_poisoned_cache_differs :
    prunPoisoned c1 o1 (PState.repeated c1 T1) [[1, 0], [0, 1]] = [[0, 2, 0, 0], [0, 2, 0, 0]] ∧
      empirical c1 T1 [0, 1] = [0, 0, 2, 0] := by decide

end QV.Props.C03
