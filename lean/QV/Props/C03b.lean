/-
  C03 (deepening, part 1) — measurement bookkeeping of `Circuit.add`.
  Model: QV/Model/CircuitAdd.lean (a fold over the items handed to `Circuit.add`, tied to
  models/circuit.py by the `ADD` correspondence suite of tools/props/C03.py through
  lean/DriverC03.lean).  Proofs: QV/Proofs/CircuitAdd.lean.

  Everything is for ALL item lists `l` (any number of gates and measurements, any qubits, any
  register names of any type `ν` with decidable equality, any default-name function `dflt`).
  `flat l` is `l` with every measurement in a rotated basis replaced by its rotation gates
  followed by the measurement; positions `i` below refer to `flat l`, which is what the queue
  holds.  `run dflt l = some st` means that no `add` raised (duplicate register name).
-/
import QV.Proofs.CircuitAdd
namespace QV.Props.C03
open QV QV.CAdd

variable {ν : Type} [DecidableEq ν]

/-- adding a measurement in a rotated basis is adding its rotation gates, then the measurement:
the whole bookkeeping is the fold over the flat item list. -/
theorem T03_add_basis_rotations (dflt : Nat → ν) (l : List (Item ν)) :
    run dflt l = run dflt (flat l) :=
  (runFrom_flat dflt {} l).symm

/-- **every gate and every measurement is kept, once, in the order of the calls.** -/
theorem T03_add_queue_kept (dflt : Nat → ν) (l : List (Item ν)) {st : St ν}
    (hr : run dflt l = some st) :
    st.queue.map (fun e => (e.isM, e.qubits)) = (flat l).map (fun x => (x.isMeas, x.qubits)) := by
  rw [T03_add_basis_rotations] at hr
  exact queue_shape (inv_run (noB_flat l) hr) (noB_flat l)

/-- the `collapse` attribute of every queued gate after all the calls: a measurement is
collapsing iff it was built with `collapse=True` or some LATER ordinary gate shares a qubit with
it (`collSpec`); nothing else is ever flagged. -/
theorem T03_add_collapse_flags (dflt : Nat → ν) (l : List (Item ν)) {st : St ν}
    (hr : run dflt l = some st) (i : Nat) : st.coll i = collSpec (flat l) i := by
  rw [T03_add_basis_rotations] at hr
  exact (inv_run (noB_flat l) hr).coll i

/-- **`circuit.measurements` is exactly the list of terminal measurements, in queue order**:
the positions `i` with `isFinal (flat l) i`, ascending — so terminal measurements keep their
relative order and none is lost or kept wrongly (the skipping loop of the seeded defect
violates this, see `T03_add_skipping_loop_differs`). -/
theorem T03_add_measurements (dflt : Nat → ν) (l : List (Item ν)) {st : St ν}
    (hr : run dflt l = some st) :
    st.meas = (List.range (flat l).length).filter (isFinal (flat l)) := by
  rw [T03_add_basis_rotations] at hr
  exact (inv_run (noB_flat l) hr).meas

/-- the same with the quantifiers spelled out: position `i` is in `circuit.measurements` iff it
holds a measurement built with `collapse=False` and NO later ordinary gate acts on ANY of its
qubits. -/
theorem T03_add_final_iff (dflt : Nat → ν) (l : List (Item ν)) {st : St ν}
    (hr : run dflt l = some st) (i : Nat) :
    i ∈ st.meas ↔
      ∃ ts nm, (flat l)[i]? = some (Item.meas ts nm false) ∧
        ∀ j qs, i < j → (flat l)[j]? = some (Item.gate qs) → ∀ q ∈ ts, q ∉ qs := by
  rw [T03_add_measurements dflt l hr, List.mem_filter, List.mem_range, isFinal_iff]
  constructor
  · exact fun h => h.2
  · rintro ⟨ts, nm, hi, hall⟩
    refine ⟨?_, ts, nm, hi, hall⟩
    by_contra hc
    rw [List.getElem?_eq_none (by omega)] at hi
    cases hi

/-- terminal measurements keep their relative order (positions strictly increase). -/
theorem T03_add_measurements_ordered (dflt : Nat → ν) (l : List (Item ν)) {st : St ν}
    (hr : run dflt l = some st) : st.meas.Pairwise (· < ·) := by
  rw [T03_add_measurements dflt l hr]
  exact List.Pairwise.filter _ List.pairwise_lt_range

/-- `has_collapse` is set iff some queued measurement is collapsing. -/
theorem T03_add_has_collapse (dflt : Nat → ν) (l : List (Item ν)) {st : St ν}
    (hr : run dflt l = some st) :
    st.hasCollapse = (List.range (flat l).length).any (collSpec (flat l)) := by
  rw [T03_add_basis_rotations] at hr
  exact (inv_run (noB_flat l) hr).hc

/-- register names: the explicit name, else `register<k>` with `k` the number of measurement
gates added before (collapsing ones included). -/
theorem T03_add_register_names (dflt : Nat → ν) (l : List (Item ν)) {st : St ν}
    (hr : run dflt l = some st) {p : Nat} (hp : p < (flat l).length) :
    nameAt st.queue p = nameSpec dflt (flat l) p := by
  rw [T03_add_basis_rotations] at hr
  exact nameAt_eq_nameSpec (inv_run (noB_flat l) hr) hp

/-- a measurement with an explicit name is rejected iff a measurement that is still terminal
carries that name; a measurement without a name is never rejected. -/
theorem T03_add_duplicate_rejected (dflt : Nat → ν) (s : St ν) (ts : List Nat) (x : ν) (c : Bool) :
    addMeas dflt s ts (some x) c = none ↔ ∃ p ∈ s.meas, nameAt s.queue p = some x :=
  addMeas_none_iff dflt s ts x c

theorem T03_add_default_accepted (dflt : Nat → ν) (s : St ν) (ts : List Nat) (c : Bool) :
    (addMeas dflt s ts none c).isSome = true :=
  addMeas_default_isSome dflt s ts c

/-- **register names of the terminal measurements are pairwise different**, provided default
names are injective in `k` and no explicit name equals the default name of a LATER measurement
(`NoClash`: the default name is not checked against existing registers by `Circuit.add`; when
the hypothesis fails an earlier register is silently lost — reported by the search of
tools/props/C03.py under the key `circuit-add:default-name-clash`). -/
theorem T03_add_names_unique (dflt : Nat → ν) (hinj : Function.Injective dflt) (l : List (Item ν))
    (hc : NoClash dflt (flat l)) {st : St ν} (hr : run dflt l = some st) :
    (st.meas.map (nameAt st.queue)).Nodup := by
  have hm := T03_add_measurements dflt l hr
  have hr' := hr
  rw [T03_add_basis_rotations] at hr'
  have hn := finalNames_nodup hinj (flat l) (noB_flat l) hc hr'
  unfold finalNames at hn
  rw [hm]
  rw [List.map_congr_left (g := nameSpec dflt (flat l))]
  · exact hn
  · intro p hp
    exact T03_add_register_names dflt l hr (List.mem_range.mp (List.mem_filter.mp hp).1)

/-- qibo's default names `register<k>` are injective in `k`. -/
theorem T03_add_default_names_injective :
    Function.Injective fun k : Nat => "register" ++ toString k :=
  registerName_injective

/-- `circuit.measurement_tuples` is then the list of (name, target qubits) of the terminal
measurements in queue order (the dict comprehension loses nothing). -/
theorem T03_add_measurement_tuples (dflt : Nat → ν) (hinj : Function.Injective dflt)
    (l : List (Item ν)) (hc : NoClash dflt (flat l)) {st : St ν} (hr : run dflt l = some st) :
    measurementTuples st = st.meas.map fun p => (nameAt st.queue p, qubitsAt st.queue p) := by
  unfold measurementTuples
  apply dictOf_of_nodup
  rw [List.map_map]
  exact T03_add_names_unique dflt hinj l hc hr

/-! ### non-vacuity and the seeded defect -/

private def d : Nat → String := fun k => "register" ++ toString k

/-- `M(0); M(1); CNOT(0,1)`. -/
private def lSeed : List (Item String) := [.meas [0] none false, .meas [1] none false, .gate [0, 1]]

private def runSkipping (l : List (Item String)) : St String :=
  l.foldl (fun s x => match x with
    | .gate qs => addGateSkipping s qs
    | .meas ts nm c => (addMeas d s ts nm c).getD s
    | .measB ts nm c _ => (addMeas d s ts nm c).getD s) {}

/-- the correct loop leaves no terminal measurement … -/
example : (run d lSeed).map (·.meas) = some [] := by decide

/-- … the loop that iterates over the list it shrinks keeps `M(1)` terminal: it violates
`T03_add_measurements` (whose right-hand side is `[]` here). -/
theorem T03_add_skipping_loop_differs :
    (runSkipping lSeed).meas = [1] ∧
      (List.range (flat lSeed).length).filter (isFinal (flat lSeed)) = [] := by decide

/-- hypotheses are satisfiable: a run with explicit and default names, a collapsing measurement
and a later gate; two registers stay terminal, with different names. -/
private def lOk : List (Item String) :=
  [.meas [2, 0] (some "a") false, .gate [1], .meas [1] none false, .measB [3] none false [3],
   .gate [0], .meas [0] none true]

example : (run d lOk).map (fun st => (st.meas, st.meas.map (nameAt st.queue)))
    = some ([2, 4], [some "register1", some "register2"]) := by decide

example : (run d lOk).isSome = true ∧ (flat lOk).length = 7 := by decide

/-- the hypotheses of `T03_add_names_unique` are satisfiable: `lOk` has no clash (its only
explicit name is "a"), and `d` is injective. -/
private theorem lOk_noClash : NoClash d (flat lOk) := by
  intro i j ts y c ts' c' hij hi hj
  have hj' : j < 7 := by
    by_contra hc
    have : (flat lOk)[j]? = none := List.getElem?_eq_none (by show (flat lOk).length ≤ j; simp [lOk, flat]; omega)
    rw [this] at hj; cases hj
  have hi0 : i = 0 := by
    by_contra hne
    have : i = 1 ∨ i = 2 ∨ i = 3 ∨ i = 4 ∨ i = 5 := by omega
    rcases this with rfl | rfl | rfl | rfl | rfl <;> simp [lOk, flat] at hi
  subst hi0
  have hy : y = "a" := by
    simp [lOk, flat] at hi; exact hi.2.1.symm
  subst hy
  intro he
  have : ("a" : String).toList = (d (mIndex (flat lOk) j)).toList := by rw [he]
  simp only [d, String.toList_append] at this
  cases this

example {st : St String} (h : run d lOk = some st) : (st.meas.map (nameAt st.queue)).Nodup :=
  T03_add_names_unique d T03_add_default_names_injective lOk lOk_noClash h

/-- the `NoClash` hypothesis cannot be dropped: an explicit "register1" followed by a measurement
that gets the default name "register1" is accepted and both terminal registers carry that name;
`measurement_tuples` keeps one entry only. -/
example : (run d [.meas [0] (some "register1") false, .meas [1] none false]).map
    (fun st => (st.meas.map (nameAt st.queue), (measurementTuples st).length))
    = some ([some "register1", some "register1"], 1) := by decide

/-- a duplicate explicit name among terminal measurements is rejected … -/
example : run d [.meas [0] (some "a") false, .meas [1] (some "a") false] = none := by decide

/-- … but not once the first holder has become collapsing. -/
example : (run d [.meas [0] (some "a") false, .gate [0], .meas [1] (some "a") false]).isSome = true := by
  decide

end QV.Props.C03
