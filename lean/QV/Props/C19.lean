/-
  C19 (part 1) — noise attachment is faithful.
  Model: QV/Model/Noise.lean (`attachNoise` = `NoiseModel.apply`, `withPauliNoise` =
  `Circuit.with_pauli_noise`), tied to the real code by the correspondence suites of
  tools/props/C19.py.  All statements hold for every rule list (any keys, qubit filters,
  conditions — arbitrary predicates —, error kinds) and every queue (any length, any qubits).
-/
import QV.Proofs.Noise
namespace QV.Props.C19
open QV QV.Noise

/-- number of channels rule `p` creates for gate `g`. -/
def nChannels (g : NGate) (p : Nat × Rule) : Nat := (ruleChannels p.1 p.2 g).length

/-! ### `NoiseModel.apply` -/

/-- **the original gates, in their original order**: erasing the inserted channels from
`apply(circuit).queue` gives back exactly `circuit.queue`. -/
theorem T19_preserve (rules : List Rule) (q : List NGate) :
    eraseChannels (attachNoise rules q) = q := by
  rw [attachNoise_eq]
  unfold eraseChannels
  induction q with
  | nil => rfl
  | cons g q ih =>
    rw [List.flatMap_cons, List.filterMap_append, ih]
    unfold block
    rw [List.filterMap_append, beforeOf_gate?, List.filterMap_cons, afterOf_gate?]
    rfl

/-- **exactly the prescribed channels (count)**: the number of inserted channels is the sum,
over the gates and over the rules looked up for each gate, of the channels the rule creates. -/
theorem T19_count (rules : List Rule) (q : List NGate) :
    ((attachNoise rules q).filter Item.isChan).length
      = (q.map fun g => ((errorsList rules g).map (nChannels g)).sum).sum := by
  rw [attachNoise_eq]
  induction q with
  | nil => rfl
  | cons g q ih =>
    rw [List.flatMap_cons, List.filter_append, List.length_append, ih, List.map_cons, List.sum_cons]
    congr 1
    unfold block
    rw [List.filter_append, List.filter_cons]
    simp only [Item.isChan, Bool.false_eq_true, if_false, List.length_append]
    rw [List.filter_eq_self.mpr (beforeOf_all_chan rules g), List.filter_eq_self.mpr (afterOf_all_chan rules g)]
    unfold beforeOf afterOf nChannels
    generalize errorsList rules g = l
    induction l with
    | nil => rfl
    | cons p l ihl =>
      simp only [List.filter_cons]
      cases h : p.2.kind.isReadout <;>
        simp only [h, Bool.not_false, Bool.not_true, if_true, Bool.false_eq_true, if_false,
          List.flatMap_cons, List.length_append, List.map_cons, List.sum_cons] <;> omega

/-- **an empty model changes nothing**. -/
theorem T19_no_rules (q : List NGate) : attachNoise [] q = q.map Item.gate := by
  rw [attachNoise_eq]
  induction q with
  | nil => rfl
  | cons g q ih =>
    rw [List.flatMap_cons, ih]
    simp [block, beforeOf, afterOf, errorsList]

/-- more generally: if for every gate every rule looked up for it is switched off by a
condition or by its qubit filter, the queue is unchanged. -/
theorem T19_no_matching_rule (rules : List Rule) (q : List NGate)
    (h : ∀ g ∈ q, ∀ p ∈ errorsList rules g, condsHold p.2 g = false ∨ ruleQubits p.2 g = []) :
    attachNoise rules q = q.map Item.gate := by
  rw [attachNoise_eq]
  induction q with
  | nil => rfl
  | cons g q ih =>
    rw [List.flatMap_cons, ih (fun g' hg' => h g' (List.mem_cons_of_mem _ hg')), List.map_cons]
    have hnil : ∀ p ∈ errorsList rules g, ruleChannels p.1 p.2 g = [] := by
      intro p hp
      rcases h g (List.mem_cons_self ..) p hp with hc | hq
      · simp [ruleChannels, hc]
      · simp [ruleChannels, hq]
    have hb : beforeOf rules g = [] := by
      unfold beforeOf
      rw [List.flatMap_eq_nil_iff]
      intro p hp; exact hnil p (List.mem_filter.mp hp).1
    have ha : afterOf rules g = [] := by
      unfold afterOf
      rw [List.flatMap_eq_nil_iff]
      intro p hp; exact hnil p (List.mem_filter.mp hp).1
    simp [block, hb, ha]

/-- **placement of the ordinary channels**: wherever a non-readout channel created by rule
number `i` occurs in the noisy queue, the nearest input gate before it (only inserted
channels in between) is a gate `g` for which rule `i` is looked up (its key is `g`'s class, or
`None` and `g` is neither a channel nor a measurement), whose conditions all hold on `g`, and
the channel's qubits are one of the tuples the error kind builds from `g.qubits` (∩ the rule's
qubits). -/
theorem T19_placement_after (rules : List Rule) (q : List NGate) (l1 l2 : List Item)
    (i : Nat) (kind : ErrKind) (qs : List Nat) (hk : kind.isReadout = false)
    (h : attachNoise rules q = l1 ++ Item.chan i kind qs :: l2) :
    ∃ g, lastGate l1 = some g ∧ Triggered rules g i kind qs := by
  rw [attachNoise_eq] at h
  rcases placement_aux rules i kind qs q l1 l2 h with ⟨_, hg⟩ | ⟨hr, _⟩
  · exact hg
  · rw [hk] at hr; cases hr

/-- **placement of the readout channels**: directly before their measurement (only inserted
channels in between). -/
theorem T19_placement_before (rules : List Rule) (q : List NGate) (l1 l2 : List Item)
    (i : Nat) (qs : List Nat)
    (h : attachNoise rules q = l1 ++ Item.chan i ErrKind.readout qs :: l2) :
    ∃ g, firstGate l2 = some g ∧ Triggered rules g i ErrKind.readout qs := by
  rw [attachNoise_eq] at h
  rcases placement_aux rules i ErrKind.readout qs q l1 l2 h with ⟨hr, _⟩ | ⟨_, hg⟩
  · cases hr
  · exact hg

/-- **on the gate's qubits**: a prescribed channel (other than a user-supplied `CustomError`
channel) acts on qubits of its trigger gate. -/
theorem T19_channel_qubits (rules : List Rule) (g : NGate) (i : Nat) (kind : ErrKind) (qs : List Nat)
    (hk : ∀ cq, kind ≠ ErrKind.custom cq) (ht : Triggered rules g i kind qs) :
    ∀ x ∈ qs, x ∈ g.qubits := by
  obtain ⟨rule, _, _, _, _, hqs, _⟩ := ht
  intro x hx
  exact ruleQubits_subset rule g x ((channelQubits_sublist kind hk _ _ hqs).subset hx)

/-- for a rule without qubit filter the channel's qubits come in the gate's order (no
repetition if the gate's qubits are distinct): a sub-list of `gate.qubits`. -/
theorem T19_channel_qubits_order (rules : List Rule) (g : NGate) (i : Nat) (kind : ErrKind)
    (qs : List Nat) (hk : ∀ cq, kind ≠ ErrKind.custom cq) (ht : Triggered rules g i kind qs)
    (hf : ∀ rule, rules[i]? = some rule → rule.qubits = none) : qs.Sublist g.qubits := by
  obtain ⟨rule, hat, _, _, _, hqs, _⟩ := ht
  have := channelQubits_sublist kind hk _ _ hqs
  simpa [ruleQubits, hf rule hat] using this

/-- with a qubit filter the channel acts only on qubits of the filter. -/
theorem T19_channel_qubits_filter (rules : List Rule) (g : NGate) (i : Nat) (kind : ErrKind)
    (qs : List Nat) (hk : ∀ cq, kind ≠ ErrKind.custom cq) (ht : Triggered rules g i kind qs)
    (f : List Nat) (hf : ∀ rule, rules[i]? = some rule → rule.qubits = some f) :
    ∀ x ∈ qs, x ∈ f := by
  obtain ⟨rule, hat, _, _, _, hqs, _⟩ := ht
  intro x hx
  have hx' := (channelQubits_sublist kind hk _ _ hqs).subset hx
  simp only [ruleQubits, hf rule hat] at hx'
  exact (mem_setInter.mp hx').2

/-! ### `Circuit.with_pauli_noise` -/

/-- the original gates in their original order. -/
theorem T19_pauli_preserve (pm : Nat → Bool) (q : List NGate) :
    eraseChannels (withPauliNoise pm q) = q := by
  rw [withPauliNoise_eq]
  unfold eraseChannels
  induction q with
  | nil => rfl
  | cons g q ih =>
    rw [List.flatMap_cons, List.filterMap_append, ih, List.filterMap_cons]
    have : (pauliNoiseGates pm g).filterMap Item.gate? = [] := by
      rw [List.filterMap_eq_nil_iff]
      intro it hit
      unfold pauliNoiseGates at hit
      split at hit
      · simp at hit
      · simp only [List.mem_map] at hit
        obtain ⟨x, _, rfl⟩ := hit; rfl
    simp [Item.gate?, this]

/-- the noisy queue is, gate by gate: the gate, then one single-qubit Pauli channel for each
of its qubits that has a positive-strength entry in the map, in the gate's qubit order;
nothing after a measurement. -/
theorem T19_pauli_blocks (pm : Nat → Bool) (q : List NGate) :
    withPauliNoise pm q = q.flatMap fun g =>
      Item.gate g :: (if g.isM then [] else (g.qubits.filter pm).map fun x => Item.chan x ErrKind.pauli [x]) := by
  rw [withPauliNoise_eq]; rfl

/-- a map without positive-strength entry (zero probabilities) changes nothing. -/
theorem T19_pauli_zero (q : List NGate) : withPauliNoise (fun _ => false) q = q.map Item.gate := by
  rw [withPauliNoise_eq]
  induction q with
  | nil => rfl
  | cons g q ih =>
    rw [List.flatMap_cons, ih]
    simp [pauliNoiseGates]

/-! ### non-vacuity: a concrete model on a concrete queue -/

private def gH : NGate := { tag := 0, cls := 0, qubits := [0] }
private def gCX : NGate := { tag := 1, cls := 10, qubits := [2, 0] }
private def gM : NGate := { tag := 2, cls := 17, qubits := [0, 2], isM := true }
private def rules₀ : List Rule :=
  [ { key := none, kind := .pauli, qubits := none, conds := [] },
    { key := some 17, kind := .readout, qubits := some [2], conds := [] },
    { key := some 10, kind := .unitary 1, qubits := some [0, 1], conds := [fun g => g.qubits.length == 2] },
    { key := some 17, kind := .readout, qubits := some [0], conds := [] } ]

/-- Pauli noise after every gate (rule 0), a filtered unitary error after CNOT (rule 2), two
readout rules on one two-qubit measurement (the input class of DESIGN §4 F23): both readout
channels come before the single measurement gate. -/
example : attachNoise rules₀ [gH, gCX, gM]
    = [.gate gH, .chan 0 .pauli [0],
       .gate gCX, .chan 2 (.unitary 1) [0], .chan 0 .pauli [2], .chan 0 .pauli [0],
       .chan 1 .readout [2], .chan 3 .readout [0], .gate gM] := by decide

example : Triggered rules₀ gM 3 ErrKind.readout [0] :=
  ⟨_, rfl, rfl, Or.inl rfl, rfl, by decide, by decide⟩

example : withPauliNoise (fun x => x == 0) [gH, gCX, gM]
    = [.gate gH, .chan 0 .pauli [0], .gate gCX, .chan 0 .pauli [0], .gate gM] := by decide

end QV.Props.C19
