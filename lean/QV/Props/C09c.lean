/-
  C09 (third part) — `transpiler/blocks.py` inside the model.

  Model: QV/Model/Blocks.lean, a transliteration of `block_decomposition` (with `fuse`),
  `_initial_block_decomposition`, `_find_previous_gates`, `_find_successive_gates`,
  `_gates_on_qubit`, `_remove_gates` (removal of OBJECTS: gates and blocks carry identities),
  `_split_multi_qubit_measurements`, `Block.qubits / fuse / commute`; compared with the real
  functions on every run (block contents object by object, tools/props/C09.py).

  Theorems, for EVERY number of qubits and EVERY queue of measurements and gates on one
  qubit or two different qubits, with and without fusion:
    * `T09_blocks_accepted` : the flattened block list is accepted by the proved order checker
                              against the (measurement-split) queue — it is a reordering that
                              only commutes gates on disjoint qubits, nothing lost or added;
    * `T09_blocks_operator` : hence it has the queue's operator, for every gate meaning;
    * `T09_blocks_inside`   : every gate of a block acts inside the block's qubits;
    * `T09_blocks_total`    : the decomposition does not raise on such queues;
    * `T09_blocks_dag_operator` : blocks + ANY linear extension of the `_create_dag` edges of
                              their qubit pairs = the queue's operator (the order in which
                              ShortestPaths / Sabre may execute blocks is immaterial).
-/
import QV.Proofs.Blocks
import QV.Props.C09b

set_option linter.unusedSectionVars false
set_option linter.unusedVariables false

namespace QV.Props.C09
open QV QV.Router QV.Blocks QV.Props.C05

variable {α : Type} [CommSemiring α]

/-- **Block decomposition is a commuting reordering**: for all circuits of measurements and
    1- and 2-qubit gates, `fuse` on or off, the flattened blocks are accepted by `pickCheck`
    against the queue (after the split of multi-qubit measurements). -/
theorem T09_blocks_accepted (n : Nat) (fuse : Bool) (queue : List RGate) (bs : List Block)
    (hq : ∀ g ∈ queue, Supported g) (h : blockDecomposition n fuse queue = some bs) :
    pickCheck (splitMeas queue) (flatGates bs) = true := by
  obtain ⟨hp, hmem, _⟩ := blockDecomposition_proj n fuse queue bs hq h
  have hne : ∀ g ∈ splitMeas queue, g.qs ≠ [] := by
    intro g hg
    rcases splitMeas_ok hq g hg with ⟨x, hx⟩ | ⟨a, b, _, hx⟩ <;> rw [hx] <;> simp
  exact T09_pick_complete _ _ hne (fun g hg => hne g (hmem g hg)) hp

/-- … hence the blocks, executed in list order, have the operator of the queue. -/
theorem T09_blocks_operator (mats : Nat → Nat → Nat → α) (n : Nat) (fuse : Bool)
    (queue : List RGate) (bs : List Block)
    (hq : ∀ g ∈ queue, Supported g) (h : blockDecomposition n fuse queue = some bs) (ψ : Lab → α) :
    runCircuit ((splitMeas queue).map (den mats)) ψ = runCircuit ((flatGates bs).map (den mats)) ψ := by
  refine (T09_order_sound mats _ _ (T09_blocks_accepted n fuse queue bs hq h) ?_).2 ψ
  intro g hg
  rcases splitMeas_ok hq g hg with ⟨x, hx⟩ | ⟨a, b, hab, hx⟩
  · rw [hx]; simp
  · rw [hx]; simp [hab]

/-- every gate of a block acts on qubits of the block (`Block.add_gate`'s requirement). -/
theorem T09_blocks_inside (n : Nat) (fuse : Bool) (queue : List RGate) (bs : List Block)
    (hq : ∀ g ∈ queue, Supported g) (h : blockDecomposition n fuse queue = some bs) :
    ∀ b ∈ bs, ∀ g ∈ b.gates, ∀ q ∈ g.2.qs, q ∈ b.sortedQubits :=
  (blockDecomposition_proj n fuse queue bs hq h).2.2

/-- the decomposition never raises on a register of at least two qubits and a queue of
    measurements and 1- and 2-qubit gates (qibo raises BlockingError only for fewer than two
    qubits or a gate on more than two qubits; the known register clash of the measurement
    split, K09-1, is outside the model). -/
theorem T09_blocks_total (n : Nat) (fuse : Bool) (queue : List RGate) (hn : 2 ≤ n)
    (hq : ∀ g ∈ queue, Supported g) : ∃ bs, blockDecomposition n fuse queue = some bs :=
  blockDecomposition_some n fuse queue hn hq

/-- blocks, then any topological order of the DAG of their qubit pairs: still the queue's
    operator.  (`hp`: every block sits on two different qubits — checked on every real
    decomposition by the harness.) -/
theorem T09_blocks_dag_operator (mats : Nat → Nat → Nat → α) (n : Nat) (fuse : Bool)
    (queue : List RGate) (bs : List Block) (ord : List Nat)
    (hq : ∀ g ∈ queue, Supported g) (h : blockDecomposition n fuse queue = some bs)
    (hp : ∀ p ∈ bs.map Block.sortedQubits, ∃ a b, a ≠ b ∧ p = [a, b])
    (hperm : ord.Perm (List.range bs.length))
    (hres : Respects (dagEdges 0 (bs.map Block.sortedQubits)) ord) (ψ : Lab → α) :
    runCircuit ((splitMeas queue).map (den mats)) ψ
      = runCircuit ((execOrder (bs.map fun b => b.gates.map Prod.snd) ord).map (den mats)) ψ := by
  obtain ⟨_, hmem, hin⟩ := blockDecomposition_proj n fuse queue bs hq h
  rw [T09_blocks_operator mats n fuse queue bs hq h ψ]
  have hshape : ∀ g ∈ flatGates bs, g.qs ≠ [] ∧ g.qs.Nodup := by
    intro g hg
    rcases splitMeas_ok hq g (hmem g hg) with ⟨x, hx⟩ | ⟨a, b, hab, hx⟩
    · rw [hx]; simp
    · rw [hx]; simp [hab]
  have hlen : (bs.map fun b => b.gates.map Prod.snd).length = bs.length := by simp
  have := T09_dag_order_operator mats (bs.map fun b => b.gates.map Prod.snd)
    (bs.map Block.sortedQubits) ord hp (by simp) ?_ ?_ (hlen ▸ hperm) hres ψ
  · exact this
  · intro i g hg q hqg
    by_cases hi : i < bs.length
    · simp only [List.getD_eq_getElem?_getD, List.getElem?_map, List.getElem?_eq_getElem hi,
        Option.map_some, Option.getD_some] at hg ⊢
      obtain ⟨x, hx, rfl⟩ := List.mem_map.1 hg
      exact hin bs[i] (List.getElem_mem hi) x hx q hqg
    · simp [List.getD_eq_getElem?_getD, Nat.not_lt.1 hi] at hg
  · intro b hb g hg
    obtain ⟨blk, hblk, rfl⟩ := List.mem_map.1 hb
    apply hshape
    unfold flatGates
    exact List.mem_flatten.2 ⟨_, List.mem_map.2 ⟨blk, hblk, rfl⟩, hg⟩

/-! ### non-vacuity -/

/-- X(0) CNOT(0,1) X(2) X(0) CNOT(1,2) CNOT(0,1): X(2) joins the block of CNOT(1,2); the last
    CNOT(0,1) is not fused into the first block because the block on (1,2) lies between. -/
example : (blockDecomposition 3 true
      [⟨5, false, [0]⟩, ⟨6, false, [0, 1]⟩, ⟨5, false, [2]⟩, ⟨5, false, [0]⟩, ⟨6, false, [1, 2]⟩,
       ⟨6, false, [0, 1]⟩]).map (fun bs => bs.map fun b => (b.sortedQubits, b.gates.map Prod.fst))
    = some [([0, 1], [0, 1, 3]), ([1, 2], [2, 4]), ([0, 1], [5])] := by decide

/-- fusion across a block on other qubits. -/
example : (blockDecomposition 4 true
      [⟨6, false, [0, 1]⟩, ⟨6, false, [2, 3]⟩, ⟨6, false, [1, 0]⟩]).map
        (fun bs => bs.map fun b => (b.sortedQubits, b.gates.map Prod.fst))
    = some [([0, 1], [0, 2]), ([2, 3], [1])] := by decide

example : (blockDecomposition 4 false
      [⟨6, false, [0, 1]⟩, ⟨6, false, [2, 3]⟩, ⟨6, false, [1, 0]⟩]).map
        (fun bs => bs.map fun b => (b.sortedQubits, b.gates.map Prod.fst))
    = some [([0, 1], [0]), ([2, 3], [1]), ([0, 1], [2])] := by decide

/-- the hypotheses are satisfiable and refusals exist: a three-qubit gate is refused. -/
example : blockDecomposition 3 true [⟨9, false, [0, 1, 2]⟩] = none := by decide

example : Supported ⟨1, true, [0, 1, 2]⟩ ∧ Supported ⟨6, false, [2, 0]⟩ ∧ ¬ Supported ⟨9, false, [0, 1, 2]⟩ := by
  refine ⟨Or.inl ⟨rfl, by simp⟩, Or.inr (Or.inr ⟨2, 0, by decide, rfl⟩), ?_⟩
  rintro (⟨h, _⟩ | ⟨x, h⟩ | ⟨a, b, _, h⟩) <;> simp at h

end QV.Props.C09
