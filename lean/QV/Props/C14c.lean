/-
  C14 (continued) — `Circuit.final_state` (`circuit._final_state`) in the result state machine.
-/
import QV.Proofs.ResultSMFinal
namespace QV.Props.C14
open QV.RSM

/-- `circuit._final_state` = the LAST result only: after ANY history on one circuit object
(executions interleaved with accessor calls on old and new results; every accessor logic, every
execution path) it designates the result of the last execution — accessor calls never move it,
and no earlier result is reachable through it. -/
theorem T14_final_state_last (c : Cfg) (h : List Op) :
    (stateAfter c (St.init c) h).final = lastIdx (inputs h).length := by
  have := stateAfter_final c h (St.init c) (by simp [FinalInv, St.init, lastIdx])
  rw [← stateAfter_length c h]; exact this

example : (stateAfter { kind := .repSV, widths := [1], pre := 1 } (St.init { kind := .repSV, widths := [1], pre := 1 })
    [.exec 0 1 [0, 1], .freqs 0 false [], .exec 5 2 [1, 1, 0, 0], .samples 0 true [] []]).final = some 1 := by
  decide

end QV.Props.C14
