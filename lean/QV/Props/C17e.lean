/-
  C17 (part e) — Stinespring dilation: `kraus_to_stinespring` / `stinespring_to_kraus`
  (index models in QV/Model/Superop.lean, compared exactly with the real functions on every run;
  SPEC of the dilation's action in QV/Model/Dilation.lean).

  For every system dimension `d`, every Kraus rank `e` (= dimension of the environment, as the
  function sets it) and every environment state `v`; scalars: a commutative semiring with an
  involutive conjugation homomorphism (`ConjRing`).
-/
import QV.Proofs.Dilation
namespace QV.Props.C17
open QV QV.Superop

variable {α : Type} [CommSemiring α]

/-- for EVERY `(d·e) × (d·e)` matrix `S` and environment state `v`: the operators returned by
`stinespring_to_kraus(S, e, v)` are a Kraus family of `ρ ↦ Tr_E [S (ρ ⊗ |v⟩⟨v|) S†]`. -/
theorem T17_stinespring_to_kraus_action {conj : α → α} (hc : ConjRing conj) (d e : Nat)
    (S : Mat α) (v : Nat → α) (ρ : Mat α) (i i' : Nat) :
    applyStinespring conj d e S v ρ i i'
      = applyKraus conj d (stinespringKrausList e S v) ρ i i' :=
  applyStinespring_eq_kraus hc d e S v ρ i i'

/-- the dilation `U = Σ_α K_α ⊗ |α⟩⟨v|` built by `kraus_to_stinespring` acts as the channel after
tracing out the environment: `Tr_E [U (ρ ⊗ |v⟩⟨v|) U†] = ⟨v|v⟩² · Σ K ρ K†`. -/
theorem T17_stinespring_dilation_action {conj : α → α} (hc : ConjRing conj) (d : Nat)
    (Ks : List (Mat α)) (v : Nat → α) (ρ : Mat α) (i i' : Nat) :
    applyStinespring conj d Ks.length (krausToStinespring conj Ks.length Ks v) v ρ i i'
      = applyKraus conj d Ks ρ i i'
        * (sumRange Ks.length (fun b => conj (v b) * v b)
            * sumRange Ks.length (fun b => conj (v b) * v b)) :=
  applyStinespring_krausToStinespring hc d Ks v ρ i i'

/-- … exactly the channel for a normalised environment state. -/
theorem T17_stinespring_dilation_action_normalised {conj : α → α} (hc : ConjRing conj) (d : Nat)
    (Ks : List (Mat α)) (v : Nat → α)
    (hv : sumRange Ks.length (fun b => conj (v b) * v b) = 1) (ρ : Mat α) (i i' : Nat) :
    applyStinespring conj d Ks.length (krausToStinespring conj Ks.length Ks v) v ρ i i'
      = applyKraus conj d Ks ρ i i' := by
  rw [applyStinespring_krausToStinespring hc, hv, mul_one, mul_one]

/-- the default environment state `|0⟩` is normalised for every Kraus rank `e ≥ 1`. -/
theorem T17_env0_normalised {conj : α → α} (hc : ConjRing conj) {e : Nat} (he : 0 < e) :
    sumRange e (fun b => conj ((env0 : Nat → α) b) * env0 b) = 1 := by
  rw [sumRange_eq_sum, Finset.sum_eq_single 0]
  · simp [env0, hc.one]
  · intro b _ hb; simp [env0, hb]
  · intro h; exact absurd (Finset.mem_range.mpr he) h

/-- `stinespring_to_kraus ∘ kraus_to_stinespring = id` with the documented default environment
(`|0⟩`, dimension `len(kraus_ops)`), every operator `α < e`, every entry. -/
theorem T17_stinespring_roundtrip_default {conj : α → α} (hc : ConjRing conj) (Ks : List (Mat α))
    {a : Nat} (ha : a < Ks.length) (i j : Nat) :
    stinespringToKraus Ks.length (krausToStinespring conj Ks.length Ks env0) env0 a i j
      = (Ks.getD a (fun _ _ => 0)) i j := by
  rw [stinespring_roundtrip conj ha Ks env0 i j, T17_env0_normalised hc (by omega), mul_one]

/-- … and the default dilation acts as the channel. -/
theorem T17_stinespring_dilation_action_default {conj : α → α} (hc : ConjRing conj) (d : Nat)
    (Ks : List (Mat α)) (hK : 0 < Ks.length) (ρ : Mat α) (i i' : Nat) :
    applyStinespring conj d Ks.length (krausToStinespring conj Ks.length Ks env0) env0 ρ i i'
      = applyKraus conj d Ks ρ i i' :=
  T17_stinespring_dilation_action_normalised hc d Ks env0 (T17_env0_normalised hc hK) ρ i i'

/-- entries of the dilation: `U[(i,α),(j,b)] = K_α[i,j] · conj v_b`. -/
theorem T17_stinespring_entries (conj : α → α) {e a b : Nat} (ha : a < e) (hb : b < e)
    (Ks : List (Mat α)) (v : Nat → α) (i j : Nat) :
    krausToStinespring conj e Ks v (i * e + a) (j * e + b)
      = (Ks.getD a (fun _ _ => 0)) i j * conj (v b) :=
  krausToStinespring_at conj ha hb Ks v i j

/-- the partial-isometry block: `U†U = (Σ K†K) ⊗ |v⟩⟨v|`; for a trace-preserving family
(`Σ K†K = 1`) and a normalised `v` this is the projector onto `H ⊗ |v⟩`. -/
theorem T17_stinespring_partial_isometry {conj : α → α} (hc : ConjRing conj) (d : Nat)
    (Ks : List (Mat α)) (v : Nat → α) {b b' : Nat} (hb : b < Ks.length) (hb' : b' < Ks.length)
    (j j' : Nat) :
    matMul (d * Ks.length) (conjT conj (krausToStinespring conj Ks.length Ks v))
        (krausToStinespring conj Ks.length Ks v) (j * Ks.length + b) (j' * Ks.length + b')
      = krausGram conj d Ks j j' * (v b * conj (v b')) :=
  krausToStinespring_gram hc d Ks v hb hb' j j'

/-- the other round trip: `kraus_to_stinespring(stinespring_to_kraus(S, v), v) = S (1 ⊗ |v⟩⟨v|)`
(only the block of `S` seen by the environment state survives). -/
theorem T17_stinespring_reverse_roundtrip (conj : α → α) {e a c : Nat} (ha : a < e) (hc' : c < e)
    (S : Mat α) (v : Nat → α) (i j : Nat) :
    krausToStinespring conj e (stinespringKrausList e S v) v (i * e + a) (j * e + c)
      = sumRange e (fun b => S (i * e + a) (j * e + b) * v b) * conj (v c) :=
  krausToStinespring_stinespringToKraus conj ha hc' S v i j

/-! ### non-vacuity -/

example : ConjRing (id : Int → Int) := ⟨rfl, rfl, fun _ _ => rfl, fun _ _ => rfl, fun _ => rfl⟩

/-- two Kraus operators over ℤ on dimension 2, environment state `v = (1, 2)` (`⟨v|v⟩ = 5`):
the dilation's action is `25 · Σ K ρ Kᵀ` (entry (0,1): `Σ K ρ Kᵀ = 15 + 0 = 15`). -/
example :
    let K1 : Mat Int := fun i j => if i = 0 ∧ j = 0 then 1 else if i = 0 ∧ j = 1 then 2
      else if i = 1 ∧ j = 1 then 3 else 0
    let K2 : Mat Int := fun i j => if i = 1 - j then 1 else 0
    let ρ : Mat Int := fun i j => if i = 0 then 1 else if j = 1 then 2 else 0
    let v : Nat → Int := fun b => if b = 0 then 1 else 2
    applyKraus id 2 [K1, K2] ρ 0 1 = 15
      ∧ applyStinespring id 2 2 (krausToStinespring id 2 [K1, K2] v) v ρ 0 1 = 25 * 15 := by
  decide

end QV.Props.C17
