/-
  C20 (part h) — `QFT(n, accelerators=…)` (`models/qft.py :: _DistributedQFT`) is the same
  transformation as `QFT(n)`, for every n.  Property theorems only; proofs in
  QV/Proofs/EncodingsQFTD.lean.  Model: QV/Model/EncodingsB.lean :: `qftDist` (first half of the
  register: the ladders of the plain QFT; second half: `SWAP(i, n-1-i)` and then the ladder on the
  partner qubit with the same angles and controls; no final swaps), compared verbatim with the
  queues of the real constructor on every run.
-/
import QV.Props.C20
import QV.Proofs.EncodingsQFTD
namespace QV.Props.C20
open QV QV.Enc Finset

variable {α : Type} [CommRing α]

/-- the distributed gate order prepares, on every basis input, the state of the plain QFT with its
final swaps. -/
theorem T20_qft_distributed_eq (P : Par α) (hw0 : P.w 0 = -1) (n : Nat) (b : Lab) :
    runCircuit ((qftDist n).map (GD.sem P)) (ket b) = runCircuit ((qft n true).map (GD.sem P)) (ket b) :=
  qftDist_eq_qft P hw0 n b

/-- **`QFT(n, accelerators=…)` = DFT_{2^n} for every n**: `⟨y|·|b⟩ = (1/√2)^n · ω^(val b · val y)`. -/
theorem T20_qft_distributed_dft (P : Par α) (hw0 : P.w 0 = -1) (hw : ∀ k, P.w (k + 1) ^ 2 = P.w k)
    {n : Nat} (hn : 1 ≤ n) (b y : Lab) :
    runCircuit ((qftDist n).map (GD.sem P)) (ket b) y
      = ind (∀ q, n ≤ q → y q = b q) * (P.h ^ n * P.w (n - 1) ^ (val n b * val n y)) := by
  rw [T20_qft_distributed_eq P hw0 n b]
  exact T20_qft_dft P hw0 hw hn b y

/-- in the first half of the register the steps are the ladders of the plain QFT; in the second
half a step is `SWAP(i, n-1-i)`, `H(n-1-i)` and the controlled phases on `n-1-i`. -/
theorem T20_qft_distributed_steps (n m : Nat) :
    (m < n / 2 + n % 2 → qftDistStep n m = qftLadder n m) ∧
    (n / 2 + n % 2 ≤ m → qftDistStep n m
      = ({ kind := .SWAP, q0 := m, q1 := n - m - 1 } : GD) :: ({ kind := .H, q0 := n - m - 1 } : GD)
          :: cu1sOn m (n - m - 1) (n - m - 1)) :=
  ⟨fun h => qftDistStep_lo h, fun h => qftDistStep_hi h⟩

example : (qftDist 4).map GD.show = ["h 0", "cu1 1 0 1", "cu1 2 0 2", "cu1 3 0 3", "h 1", "cu1 2 1 1",
    "cu1 3 1 2", "swap 2 1", "h 1", "cu1 3 1 1", "swap 3 0", "h 0"] := by decide

/-- the theorem at the complex numbers of the implementation. -/
example (θ : Nat → ℝ) {n : Nat} (hn : 1 ≤ n) (b y : Lab) :
    runCircuit ((qftDist n).map (GD.sem (stdPar θ))) (ket b) y
      = ind (∀ q, n ≤ q → y q = b q) *
          ((stdPar θ).h ^ n * (stdPar θ).w (n - 1) ^ (val n b * val n y)) :=
  T20_qft_distributed_dft (stdPar θ) (stdPar_w0 θ) (stdPar_w θ) hn b y

end QV.Props.C20
