/-
  C05c — the CIRCUIT-LEVEL glue of `Circuit.invert / copy / __add__ / on_qubits` and of the
  measurement branch of `Circuit.add`, on the entry-list model QV/Model/CircuitQueue.lean
  (tied to the real methods by exact comparison of entry lists, tools/props/C05_queue.py).

  Queues are lists of entries (gate with kernel/targets/controls/is_controlled_by/trainable flags,
  measurement with constructor arguments, register name, collapse, rotation OBJECTS, fused group);
  every statement is for all queues / all start states / all maps.

    * gate level: `on_qubits` moves targets AND controls and composes; what `invert` appends for
      a gate keeps targets, controls, `is_controlled_by`, mirrors the `trainable` flag and is an
      involution when the class dagger is; the dagger of a fused gate keeps the members' controls
      and is an involution;
    * `Circuit.add`: steps that bring no rotation along append exactly themselves (no insertion);
      after ANY history of adds every queued measurement names a rotation-free basis in its
      constructor arguments (`Materialised`, the repaired behaviour befd9e6df) — hence every
      transformation that re-adds entries built from constructor arguments (deep copy, on_qubits,
      invert, …) inserts nothing: entrywise equal queues, equal number of gate entries per qubit;
      kernel witness that WITHOUT the rewrite of `init_kwargs["basis"]` the rotation doubles;
    * `copy(deep=True)`: entrywise equal, shares no object; `copy()` and `c1 + c2`: exactly the
      same objects, `c1.queue ++ c2.queue`; `on_qubits`: every entry relabelled, composition;
    * `invert`: the loop with `skip_measurements` = reversed body daggered, final measurements
      re-created at the end; the gate part of invert∘invert is the gate part of the circuit;
      kernel witness that before fix 82c92086c (final measurements re-added as the same objects)
      invert∘invert inserted the basis rotation twice more.
-/
import QV.Proofs.CircuitQueue
import QV.Proofs.CircuitInvert
set_option linter.unusedSectionVars false
set_option linter.unusedVariables false
namespace QV.Props.C05
open QV QV.CQ

variable {ν : Type} [DecidableEq ν]

/-! ### gate level -/

/-- `sorted` after a relabelling does not depend on the order in which the controls were stored. -/
theorem T05_sorted_map_sorted (f : Nat → Nat) (l : List Nat) :
    isort ((isort l).map f) = isort (l.map f) := isort_map_isort f l

/-- `Gate.on_qubits` moves the targets AND the controls (whether or not a target moved), the
    result's controls are ascending, kernel and `is_controlled_by` are kept. -/
theorem T05_gate_on_qubits_moves_all (σ : Nat → Nat) (g : Gt) :
    (g.onQubits σ).targets = g.targets.map σ ∧
    (∀ q, q ∈ (g.onQubits σ).controls ↔ ∃ c ∈ g.controls, σ c = q) ∧
    Asc (g.onQubits σ).controls ∧ (g.onQubits σ).ker = g.ker ∧ (g.onQubits σ).cb = g.cb := by
  refine ⟨rfl, fun q => ?_, asc_isort _, rfl, rfl⟩
  simp [Gt.onQubits, mem_isort]

/-- `on_qubits(σ) ∘ on_qubits(τ) = on_qubits(σ ∘ τ)` on gates. -/
theorem T05_gate_on_qubits_comp (σ τ : Nat → Nat) (g : Gt) :
    (g.onQubits τ).onQubits σ = g.onQubits (σ ∘ τ) := Gt.onQubits_comp σ τ g

/-- the identity map gives back the gate (as a new object whose `trainable` attribute is the
    constructor's), provided its controls were stored ascending. -/
theorem T05_gate_on_qubits_id (g : Gt) (h : Asc g.controls) :
    g.onQubits id = { g with uid := 0, train := g.train.map fun _ => g.kwTrain.getD true } := by
  cases g with
  | mk uid ker targets controls cb train kwTrain =>
    simp only [Gt.onQubits, List.map_id, Gt.mk.injEq, true_and, and_true]
    exact isort_of_asc controls h

/-- what `invert` appends for a gate: same targets, same controls, same `is_controlled_by`; the
    flag of a parametrized gate is mirrored into attribute and constructor argument. -/
theorem T05_invert_gate_keeps_qubits (dg : Nat → Nat) (dfl : Nat → Option Bool × Option Bool)
    (g : Gt) :
    (g.invertOf dg dfl).targets = g.targets ∧ (g.invertOf dg dfl).controls = g.controls ∧
    (g.invertOf dg dfl).cb = g.cb ∧ (g.invertOf dg dfl).ker = dg g.ker ∧
    (∀ t, g.train = some t → (g.invertOf dg dfl).train = some t ∧
      ((g.invertOf dg dfl).kwTrain = none ∨ (g.invertOf dg dfl).kwTrain = some t)) := by
  cases g with
  | mk uid ker targets controls cb train kwTrain =>
    cases train with
    | none => simp [Gt.invertOf]
    | some t =>
      simp only [Gt.invertOf, true_and, Option.some.injEq]
      intro t' ht
      subst ht
      cases kwTrain <;> simp

/-- inverting twice gives the gate back (flags made coherent) when the class dagger is an
    involution on its kernel. -/
theorem T05_invert_gate_involutive (dg : Nat → Nat) (dfl : Nat → Option Bool × Option Bool)
    (g : Gt) (t : Bool) (ht : g.train = some t) (hk : dg (dg g.ker) = g.ker) :
    (g.invertOf dg dfl).invertOf dg dfl = { g with uid := 0, kwTrain := g.kwTrain.map fun _ => t } := by
  cases g with
  | mk uid ker targets controls cb train kwTrain =>
    simp only at ht hk
    subst ht
    simp only [Gt.invertOf, hk, Gt.mk.injEq, true_and]
    cases kwTrain <;> simp

/-- example for the hypothesis: RX(θ) ↦ RX(-θ) as kernels 2k ↔ 2k+1. -/
example : (fun k : Nat => if k % 2 = 0 then k + 1 else k - 1) ((fun k : Nat => if k % 2 = 0 then k + 1 else k - 1) 6) = 6 := by
  decide

/-- `FusedGate._dagger`: members reversed, each daggered with its targets, controls and
    `is_controlled_by` kept; twice = the members (as new objects) when the class daggers are
    involutions. -/
theorem T05_fused_dagger (dg : Nat → Nat) (ms : List Gt) :
    (∀ m ∈ ms.reverse.map (Gt.daggerMember dg), ∃ m₀ ∈ ms, m.targets = m₀.targets ∧
      m.controls = m₀.controls ∧ m.cb = m₀.cb ∧ m.ker = dg m₀.ker) ∧
    ((∀ m ∈ ms, dg (dg m.ker) = m.ker) →
      ((ms.reverse.map (Gt.daggerMember dg)).reverse.map (Gt.daggerMember dg))
        = ms.map fun m => { m with uid := 0 }) := by
  constructor
  · intro m hm
    simp only [List.mem_map, List.mem_reverse] at hm
    obtain ⟨m₀, h0, rfl⟩ := hm
    exact ⟨m₀, h0, rfl, rfl, rfl, rfl⟩
  · intro h
    simp only [List.map_reverse, List.reverse_reverse, List.map_map]
    apply List.map_congr_left
    intro m hm
    simp [Gt.daggerMember, h m hm]

/-! ### `Circuit.add` -/

/-- **no insertion**: steps that bring no rotation along (gates; measurement objects with empty
    `.basis`; measurements constructed from arguments that name a rotation-free basis) append
    exactly one queue element each — constructor-level content, all start states, all lists. -/
theorem T05_add_no_insertion (rw : Bool) (dflt : Nat → ν) (rotOf : Nat → Option Tmpl)
    (steps : List (Step ν)) (s s' : St ν) (hq : ∀ x ∈ steps, x.Quiet rotOf)
    (h : addSteps rw dflt rotOf s steps = some s') :
    s'.queue.map Entry.erase = s.queue.map Entry.erase ++ steps.map Step.erase := by
  rw [addSteps_quiet Entry.erase nameBlind_erase rw dflt rotOf steps s s' hq h]
  simp [step_entry_erase]

/-- **the invariant of the repaired `add`**: after any history of adds (ordinary gates, existing
    measurement objects, measurements constructed in any basis) every queued measurement's
    constructor arguments name a rotation-free basis. -/
theorem T05_add_materialises (rotOf : Nat → Option Tmpl) (h0 : rotOf 0 = none) (dflt : Nat → ν)
    (steps : List (Step ν)) (s' : St ν) (hx : ∀ x ∈ steps, x.WF rotOf)
    (h : addSteps true dflt rotOf {} steps = some s') : Materialised rotOf s'.queue :=
  addSteps_materialised rotOf h0 dflt steps {} s' (fun m hm => by simp at hm) hx h

/-- a measurement rebuilt from the constructor arguments of a queued one — on the same or on
    relabelled qubits — brings no rotation along. -/
theorem T05_rebuilt_quiet (rotOf : Nat → Option Tmpl) (q : List (Entry ν))
    (hq : Materialised rotOf q) (m : Ms ν) (hm : Entry.meas m ∈ q) (σ : Nat → Nat) :
    (Step.rebuilt m (m.targets.map σ)).Quiet rotOf ∧ (Step.rebuilt m m.targets).Quiet rotOf := by
  refine ⟨?_, hq m hm⟩
  simp only [Step.rebuilt, Step.Quiet, rotCount_map]
  exact hq m hm

/-- number of ordinary gate entries on a qubit only depends on the constructor-level content. -/
theorem gatesOn_erase (q : List (Entry ν)) (k : Nat) : gatesOn (q.map Entry.erase) k = gatesOn q k := by
  simp only [gatesOn, List.countP_map]
  congr 1
  funext e
  cases e <;> rfl

/-! ### `copy(deep=True)` -/

theorem deepStep_spec (rotOf : Nat → Option Tmpl) (q : List (Entry ν)) (steps : List (Step ν))
    (hq : Materialised rotOf q) (h : mapM' deepStep q = some steps) :
    steps.map Step.erase = q.map Entry.erase ∧ (∀ x ∈ steps, x.Quiet rotOf) ∧
    (∀ x ∈ steps, ∀ u ∈ x.entry.uids, u = 0) := by
  refine ⟨(mapM'_map (g := Entry.erase) (h := Step.erase) ?_ q steps h).symm, ?_, ?_⟩
  · intro a b hab
    cases a <;> simp [deepStep] at hab <;> subst hab <;> rfl
  · refine mapM'_all (P := fun e => e ∈ q) (Q := fun x => x.Quiet rotOf) ?_ q steps h (fun a ha => ha)
    intro a b hab ha
    cases a with
    | gate g => simp [deepStep] at hab; subst hab; rfl
    | meas m => simp [deepStep] at hab; subst hab; exact hq m ha
    | fused qs ms => simp [deepStep] at hab
  · refine mapM'_all (P := fun _ => True) (Q := fun x => ∀ u ∈ x.entry.uids, u = 0) ?_ q steps h
      (fun _ _ => trivial)
    intro a b hab _
    cases a with
    | gate g => simp [deepStep] at hab; subst hab; simp [Step.entry, Entry.uids]
    | meas m => simp [deepStep] at hab; subst hab; simp [Step.rebuilt, Step.entry, Entry.uids]
    | fused qs ms => simp [deepStep] at hab

/-- **deep copy**: entrywise equal (constructor-level content, in order, nothing inserted — in
    particular no basis rotation a second time) and it shares no object with the original: every
    object identity in the copy is new. -/
theorem T05_deepcopy (rw : Bool) (dflt : Nat → ν) (rotOf : Nat → Option Tmpl)
    (q : List (Entry ν)) (hq : Materialised rotOf q) (s : St ν)
    (h : copyDeep rw dflt rotOf q = some s) :
    s.queue.map Entry.erase = q.map Entry.erase ∧ (∀ e ∈ s.queue, ∀ u ∈ e.uids, u = 0) ∧
    ∀ k, gatesOn s.queue k = gatesOn q k := by
  simp only [copyDeep] at h
  cases hs : mapM' deepStep q with
  | none => simp [hs] at h
  | some steps =>
    simp only [hs] at h
    obtain ⟨h1, h2, h3⟩ := deepStep_spec rotOf q steps hq hs
    have he := T05_add_no_insertion rw dflt rotOf steps {} s h2 h
    have hu := addSteps_quiet Entry.uids nameBlind_uids rw dflt rotOf steps {} s h2 h
    simp only [List.map_nil, List.nil_append] at he hu
    refine ⟨he.trans h1, ?_, fun k => ?_⟩
    · intro e he' u hu'
      have : e.uids ∈ s.queue.map Entry.uids := List.mem_map_of_mem he'
      rw [hu] at this
      obtain ⟨x, hx, hxe⟩ := List.mem_map.1 this
      exact h3 x hx u (hxe ▸ hu')
    · rw [← gatesOn_erase s.queue, he, h1, gatesOn_erase]

/-! ### `on_qubits` -/

/-- **`big.add(c.on_qubits(*qubits))`**: the big circuit's queue followed by EVERY entry of `c`
    relabelled (targets and controls), nothing inserted. -/
theorem T05_on_qubits_queue (rw : Bool) (dflt : Nat → ν) (rotOf : Nat → Option Tmpl)
    (big s : St ν) (σ : Nat → Nat) (q : List (Entry ν)) (hq : Materialised rotOf q)
    (h : onQubitsInto rw dflt rotOf big σ q = some s) :
    s.queue.map Entry.erase = big.queue.map Entry.erase ++ q.map (Entry.relabel σ) := by
  simp only [onQubitsInto] at h
  cases hs : mapM' (onqStep σ) q with
  | none => simp [hs] at h
  | some steps =>
    simp only [hs] at h
    have h1 : q.map (Entry.relabel σ) = steps.map Step.erase := by
      refine mapM'_map (g := Entry.relabel σ) (h := Step.erase) ?_ q steps hs
      intro a b hab
      cases a <;> simp [onqStep] at hab <;> subst hab <;> rfl
    have h2 : ∀ x ∈ steps, x.Quiet rotOf := by
      refine mapM'_all (P := fun e => e ∈ q) (Q := fun x => x.Quiet rotOf) ?_ q steps hs (fun a ha => ha)
      intro a b hab ha
      cases a with
      | gate g => simp [onqStep] at hab; subst hab; rfl
      | meas m => simp [onqStep] at hab; subst hab; exact (T05_rebuilt_quiet rotOf q hq m ha σ).1
      | fused qs ms => simp [onqStep] at hab
    rw [T05_add_no_insertion rw dflt rotOf steps big s h2 h, h1]

/-- `on_qubits(σ) ∘ on_qubits(τ) = on_qubits(σ ∘ τ)` on queues. -/
theorem T05_on_qubits_comp (σ τ : Nat → Nat) (q : List (Entry ν)) :
    (q.map (Entry.relabel τ)).map (Entry.relabel σ) = q.map (Entry.relabel (σ ∘ τ)) := by
  simp [List.map_map, Function.comp_def, Entry.relabel_comp]

/-! ### `copy()` and `c1 + c2` -/

/-- **`c1 + c2`**: when the measurements of both queues were added by `Circuit.add` (register name
    set, rotation objects earlier in the queue, constructor basis Z) the sum's queue is exactly
    `c1.queue ++ c2.queue` — the same objects, nothing inserted. -/
theorem T05_concat_queue (rw : Bool) (dflt : Nat → ν) (rotOf : Nat → Option Tmpl)
    (q1 q2 : List (Entry ν)) (hq : SettledFrom [] (q1 ++ q2)) (s : St ν)
    (h : concat rw dflt rotOf q1 q2 = some s) : s.queue = q1 ++ q2 := by
  have := addSteps_settled rw dflt rotOf (q1 ++ q2) {} s hq h
  simpa using this

/-- `copy(deep=False)`: the same objects in the same order. -/
theorem T05_copy_shallow (rw : Bool) (dflt : Nat → ν) (rotOf : Nat → Option Tmpl)
    (q : List (Entry ν)) (hq : SettledFrom [] q) (s : St ν)
    (h : copyShallow rw dflt rotOf q = some s) : s.queue = q := by
  have := addSteps_settled rw dflt rotOf q {} s hq h
  simpa using this

/-- `Circuit.__add__` refuses circuits with different constructor arguments and builds the sum
    with the common ones. -/
theorem T05_circ_add_kwargs {κ : Type} [DecidableEq κ] (rw : Bool) (dflt : Nat → ν)
    (rotOf : Nat → Option Tmpl) (c1 c2 c : Circ κ ν) (h : Circ.add rw dflt rotOf c1 c2 = some c) :
    c1.kw = c2.kw ∧ c.kw = c1.kw := by
  simp only [Circ.add] at h
  split at h
  · rename_i hk
    cases hc : concat rw dflt rotOf c1.st.queue c2.st.queue with
    | none => simp [hc] at h
    | some s =>
      simp only [hc, Option.map_some, Option.some.injEq] at h
      subst h
      exact ⟨hk, rfl⟩
  · exact absurd h (by simp)

/-! ### `invert` -/

/-- **the loop of `Circuit.invert`** (`skip_measurements`, `measurements`) in closed form: the
    queue without its FINAL measurements reversed, each entry daggered (a mid-circuit measurement
    re-created from its constructor arguments), then the final measurements re-created in their
    original order. -/
theorem T05_invert_plan (dg : Nat → Nat) (dfl : Nat → Option Bool × Option Bool)
    (q : List (Entry ν)) :
    invertPlan true dg dfl q
      = (q.reverse.dropWhile Entry.isMeas).map (invE dg dfl) ++
        (((q.reverse.takeWhile Entry.isMeas).filterMap Entry.ms?).reverse.map
          fun m => Step.rebuilt m m.targets) := invertPlan_eq dg dfl q

/-- **`invert`, entry by entry**: nothing is inserted (no basis rotation a second time) and
    nothing dropped — all queues whose measurements were added by the repaired `add`. -/
theorem T05_invert_queue (rw : Bool) (dflt : Nat → ν) (rotOf : Nat → Option Tmpl) (dg : Nat → Nat)
    (dfl : Nat → Option Bool × Option Bool) (q : List (Entry ν)) (hq : Materialised rotOf q)
    (s : St ν) (h : invert true rw dflt rotOf dg dfl q = some s) :
    s.queue.map Entry.erase
      = (q.reverse.dropWhile Entry.isMeas).map (fun e => (e.inv dg dfl).erase) ++
        (q.reverse.takeWhile Entry.isMeas).reverse.map Entry.erase :=
  invert_queue rw dflt rotOf dg dfl q hq s h

/-- **the gate part of the inverse** is the gate part of the circuit reversed with every entry
    daggered (controls kept: `T05_invert_gate_keeps_qubits`, `T05_fused_dagger`). -/
theorem T05_invert_gate_part (rw : Bool) (dflt : Nat → ν) (rotOf : Nat → Option Tmpl)
    (dg : Nat → Nat) (dfl : Nat → Option Bool × Option Bool) (q : List (Entry ν))
    (hq : Materialised rotOf q) (s : St ν) (h : invert true rw dflt rotOf dg dfl q = some s) :
    (gatePart s.queue).map Entry.erase
      = (gatePart q).reverse.map fun e => (e.inv dg dfl).erase :=
  invert_gatePart rw dflt rotOf dg dfl q hq s h

theorem invertPlan_wf (rotOf : Nat → Option Tmpl) (dg : Nat → Nat)
    (dfl : Nat → Option Bool × Option Bool) (q : List (Entry ν)) :
    ∀ x ∈ invertPlan true dg dfl q, x.WF rotOf := by
  intro x hx
  rw [invertPlan_eq] at hx
  simp only [List.mem_append, List.mem_map] at hx
  rcases hx with ⟨e, _, rfl⟩ | ⟨m, _, rfl⟩
  · cases e <;> simp [invE, Step.WF, Step.rebuilt, Entry.isMeas]
  · simp [Step.WF, Step.rebuilt]

/-- **invert ∘ invert on the gate part**: for every queue built by the repaired `add`, if the
    class daggers of the occurring gates are involutions (entry level), the gate part of
    `c.invert().invert()` is the gate part of `c` — nothing inserted, order restored. -/
theorem T05_invert_involutive_gate_part (dflt : Nat → ν) (rotOf : Nat → Option Tmpl)
    (h0 : rotOf 0 = none) (dg : Nat → Nat) (dfl : Nat → Option Bool × Option Bool)
    (q : List (Entry ν)) (hq : Materialised rotOf q) (s1 s2 : St ν)
    (h1 : invert true true dflt rotOf dg dfl q = some s1)
    (h2 : invert true true dflt rotOf dg dfl s1.queue = some s2)
    (hinv : ∀ e ∈ gatePart q, ((e.inv dg dfl).inv dg dfl).erase = e.erase) :
    (gatePart s2.queue).map Entry.erase = (gatePart q).map Entry.erase := by
  have hs1 : Materialised rotOf s1.queue :=
    addSteps_materialised rotOf h0 dflt _ {} s1 (fun m hm => by simp at hm)
      (invertPlan_wf rotOf dg dfl q) h1
  have e1 := invert_gatePart true dflt rotOf dg dfl q hq s1 h1
  have e2 := invert_gatePart true dflt rotOf dg dfl s1.queue hs1 s2 h2
  have hL : ∀ e ∈ gatePart s1.queue, e.isMeas = false := by
    intro e he
    simpa [gatePart] using (List.mem_filter.1 he).2
  have hA : ∀ e ∈ gatePart q, e.isMeas = false := by
    intro e he
    simpa [gatePart] using (List.mem_filter.1 he).2
  have e3 : (gatePart s1.queue).reverse.map (fun e => (e.inv dg dfl).erase)
      = ((gatePart s1.queue).map Entry.erase).reverse.map (fun e => (e.inv dg dfl).erase) := by
    rw [← List.map_reverse, List.map_map]
    apply List.map_congr_left
    intro e he
    exact (inv_erase dg dfl e (hL e (List.mem_reverse.1 he))).symm
  rw [e2, e3, e1]
  simp only [List.map_reverse, List.reverse_reverse, List.map_map]
  apply List.map_congr_left
  intro e he
  show ((e.inv dg dfl).erase.inv dg dfl).erase = e.erase
  rw [inv_erase dg dfl (e.inv dg dfl) (by rw [isMeas_inv]; exact hA e he)]
  exact hinv e he

/-- the entry-level hypothesis of the previous theorem for a parametrized gate whose flags are
    coherent and whose class dagger is an involution on its kernel. -/
theorem T05_invert_entry_involutive (dg : Nat → Nat) (dfl : Nat → Option Bool × Option Bool)
    (g : Gt) (t : Bool) (ht : g.train = some t) (hkw : g.kwTrain = none ∨ g.kwTrain = some t)
    (hk : dg (dg g.ker) = g.ker) :
    (((Entry.gate g : Entry ν).inv dg dfl).inv dg dfl).erase = (Entry.gate g : Entry ν).erase := by
  simp only [Entry.inv, Entry.erase, T05_invert_gate_involutive dg dfl g t ht hk]
  rcases hkw with h | h <;> simp [h]

/-! ### kernel witnesses -/

/-- basis codes: 1 = X (rotation kernel 7), everything else no rotation. -/
def demoRot : Nat → Option Tmpl := fun c => if c = 1 then some { ker := 7 } else none

/-- `c.add(M(0, basis=X))` on an empty circuit. -/
def demoSteps : List (Step Nat) := [.build [0] none false [1]]

/-- queue lengths after `add` and after a following deep copy. -/
def demoLens (rw : Bool) : Option (Nat × Option Nat) :=
  (addSteps rw id demoRot {} demoSteps).map fun s =>
    (s.queue.length, (copyDeep rw id demoRot s.queue).map fun s' => s'.queue.length)

/-- **WITHOUT the rewrite of `init_kwargs["basis"]` the rotation doubles** in a deep copy
    ([H, M] becomes [H, H, M]); with it the copy has the two entries of the original. -/
theorem T05_rebuild_doubles_without_rewrite :
    demoLens false = some (2, some 3) ∧ demoLens true = some (2, some 2) := by
  decide +kernel

/-- the hypotheses of `T05_deepcopy` / `T05_add_materialises` are satisfiable, and the invariant
    is what fails without the rewrite. -/
example : demoRot 0 = none ∧ (∀ x ∈ demoSteps, x.WF demoRot) :=
  ⟨rfl, fun x hx => by simp [demoSteps] at hx; subst hx; trivial⟩

/-- RX-like gate, then `M(0, basis=X)`; queue lengths of `invert()` and of `invert().invert()`. -/
def demoInv (repaired : Bool) : Option (Nat × Option Nat) :=
  (addSteps true id demoRot {} (.plain (.gate { ker := 3, targets := [0] }) :: demoSteps)).bind fun s =>
    (invert repaired true id demoRot id (fun _ => (none, none)) s.queue).map fun s1 =>
      (s1.queue.length,
        (invert repaired true id demoRot id (fun _ => (none, none)) s1.queue).map fun s2 => s2.queue.length)

/-- **before fix 82c92086c** (final measurements re-added as the same objects) the inverse of the
    three-entry queue [RX, H, M] had 4 entries and its inverse 5: each `invert` added the basis
    rotation once more; re-creating the final measurements gives 3 and 3. -/
theorem T05_invert_old_not_involutive :
    demoInv false = some (4, some 5) ∧ demoInv true = some (3, some 3) := by
  decide +kernel

/-- non-vacuity of `T05_invert_involutive_gate_part`: the queue [RX, H, M] above is materialised,
    both inversions succeed, and the identity kernel dagger is an involution. -/
example : ∃ s, addSteps true id demoRot {} (.plain (.gate { ker := 3, targets := [0] }) :: demoSteps) = some s ∧
    Materialised demoRot s.queue :=
  match h : addSteps true id demoRot {} (.plain (.gate { ker := 3, targets := [0] }) :: demoSteps) with
  | some s => ⟨s, rfl, T05_add_materialises demoRot rfl id _ s
      (fun x hx => by
        simp only [demoSteps, List.mem_cons, List.not_mem_nil, or_false] at hx
        rcases hx with rfl | rfl <;> simp [Step.WF, Entry.isMeas]) h⟩
  | none => absurd h (by decide +kernel)

end QV.Props.C05
