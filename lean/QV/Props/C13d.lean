/-
  C13 (registers) — `_merge_measurements` and the layout of several quantum registers in
  the reader model `QV.Model.Qasm` (compared with `Circuit.from_qasm` on foreign statement
  lists on every run: driver command IMP).
-/
import QV.Proofs.QasmMerge

namespace QV.Props.C13
open QV.Qasm

/-- `_merge_measurements` keeps every gate, in order, whatever the registers and wherever
the measure statements stand -/
theorem T13_merge_keeps_gates (D : List (String × List Nat)) (items : List Item) :
    (merge D items).filterMap QItem.gate? = items.filterMap Item.gate? :=
  merge_gates_preserved D items

/-- it emits at most one measurement per classical register, and only for declared
registers (the `Circuit.add` loop then never sees a repeated register name) -/
theorem T13_merge_one_per_register (D : List (String × List Nat)) (hD : (D.map Prod.fst).Nodup)
    (items : List Item) :
    (((merge D items).filterMap QItem.reg?).map (·.name)).Nodup
      ∧ ∀ r ∈ (merge D items).filterMap QItem.reg?, r.name ∈ D.map Prod.fst :=
  ⟨merge_names_nodup D hD items, merge_names_sub D items⟩

/-- merging is idempotent: a merged queue, read again as statements with the registers it
describes, is returned unchanged (for every register table and statement list) -/
theorem T13_merge_idempotent (D : List (String × List Nat)) (items : List Item) :
    merge (regsOf (merge D items)) ((merge D items).map QItem.toItem) = merge D items :=
  merge_fixed _

/-- several `qreg` declarations (any number, any sizes, distinct names): the reader lays
them out one after the other — `nqubits` is the total size and qubit `i` of a register is
the global index (sizes of the registers declared before it) + `i` -/
theorem T13_qreg_layout (before : List (String × Nat)) (nm : String) (sz : Nat)
    (after : List (String × Nat))
    (hnd : ((before ++ (nm, sz) :: after).map Prod.fst).Nodup) (i : Nat) (hi : i < sz) :
    ∃ s, parse {} ((before ++ (nm, sz) :: after).map fun r => Line.qreg r.1 r.2) = some s
      ∧ s.nq = totalSize (before ++ (nm, sz) :: after)
      ∧ resolve s.qregs ⟨nm, i⟩ = some (totalSize before + i) := by
  refine ⟨_, parse_qregs _ {} hnd (by intro nm' _; simp), by simp, ?_⟩
  have hb : nm ∉ before.map Prod.fst := by
    intro hmem
    simp only [List.map_append, List.map_cons] at hnd
    exact (List.nodup_append.1 hnd).2.2 nm hmem nm (by simp) rfl
  have := resolve_qregEntries [] 0 before nm sz after (by simp) hb i hi
  simpa using this

/-- non-vacuity, and measure statements in any order / interleaved with gates: register
`c` is merged at its FIRST statement (before `h`), so `h` on its qubit 1 turns it into a
collapsing measurement and only `d` remains in `measurement_tuples` -/
example : ((["a", "q", "r"].map fun n => (n, 2)).map Prod.fst).Nodup := by decide
example : importLines [.qreg "a" 2, .qreg "q" 1, .creg "c" 2, .creg "d" 1,
      .measure ⟨"q", 0⟩ "c" 1, .gate "h" [] [⟨"a", 1⟩], .measure ⟨"a", 0⟩ "d" 0,
      .measure ⟨"a", 1⟩ "c" 0]
    = some ⟨3, [⟨"h", [1], []⟩], [⟨"d", [0]⟩]⟩ := by decide

/-- what the model (and the reader) does with a classical register that is only partly
written: the unwritten bit keeps its initial value `range(size)[i]`, which is then taken
for a qubit — `measure q[2] -> c[1]` alone measures qubits 0 and 2 (observation
`measure-partial` of the harness; outside export → import, the writer writes every bit) -/
theorem T13_partial_creg_witness :
    importLines [.qreg "q" 3, .creg "c" 2, .measure ⟨"q", 2⟩ "c" 1] = some ⟨3, [], [⟨"c", [0, 2]⟩]⟩ := by
  decide

end QV.Props.C13
