/-
  C03 (deepening, part 6) — classical use of collapsed outcomes: gates whose parameters are
  expressions in measurement symbols (`gates.M(..., collapse=True).symbols`), substituted shot by
  shot in `execute_circuit_repeated` (`gate.substitute_symbols()`).
  Model: `QOp.pgate` of QV/Model/Repeated.lean (tied to backends/numpy.py, gates/abstract.py and
  measurements.py by the `symbols` suite of tools/props/C03_bitflip.py through the `REP` command
  of lean/DriverC03.lean).  Proofs: QV/Proofs/RepeatedSym.lean.
-/
import QV.Proofs.RepeatedSym

set_option linter.unusedSectionVars false
set_option linter.unusedVariables false

namespace QV.Props.C03
open QV QV.Rep

variable {σ G : Type}

/-- **per shot, the later gate receives exactly that shot's outcome of the named measurements.**
The gate built by `substitute_symbols()` for the symbols `uses` is `f` applied to `symVal`: for
the symbol `(m, j)` bit `j` — in the order of the measurement's targets — of the row that the
`m`-th measurement gate recorded from ITS OWN draw of THIS shot.  It does not depend on the rows
`H` that any number of earlier shots left in the measurement results, on later shots' draws
(`rest`), or on the draws of other measurements.  Any queue before the gate, any number of
measurements, any number of uses. -/
theorem T03_sym_receives_own_outcome (S : Sem σ G) (pre : List (QOp G)) (f : List Nat → G)
    (uses : List (Nat × Nat))
    (hwf : wellFormed (pre ++ [.pgate f uses]) 0 (fun _ => false) = true)
    (H : Nat → List (List Nat)) (d rest : List Nat) (hd : ncoll pre ≤ d.length) (ψ0 : σ) :
    (passQueue S (pre ++ [.pgate f uses]) 0
        { caches := fun i => ofHist (H i), tape := d ++ rest, state := ψ0 }).state
      = S.gate (f (uses.map (symVal pre d))) (oneShot S pre ψ0 d).state :=
  pgate_receives S pre f uses hwf H d rest hd ψ0

/-- no cross-talk between shots: two different accumulated histories give the same gate. -/
theorem T03_sym_history_independent (S : Sem σ G) (pre : List (QOp G)) (f : List Nat → G)
    (uses : List (Nat × Nat))
    (hwf : wellFormed (pre ++ [.pgate f uses]) 0 (fun _ => false) = true)
    (H H' : Nat → List (List Nat)) (d rest rest' : List Nat) (hd : ncoll pre ≤ d.length) (ψ0 : σ) :
    (passQueue S (pre ++ [.pgate f uses]) 0
        { caches := fun i => ofHist (H i), tape := d ++ rest, state := ψ0 }).state
      = (passQueue S (pre ++ [.pgate f uses]) 0
        { caches := fun i => ofHist (H' i), tape := d ++ rest', state := ψ0 }).state := by
  rw [pgate_receives S pre f uses hwf H d rest hd ψ0, pgate_receives S pre f uses hwf H' d rest' hd ψ0]

/-- the value of a symbol is a function of ONE draw of the shot: the draw of the measurement it
names. -/
theorem T03_sym_value_own_draw (pre : List (QOp G)) (d d' : List Nat) (m j k : Nat) (ts : List Nat)
    (hk : drawIdx pre 0 0 m = some (k, ts)) (h : d.getD k 0 = d'.getD k 0) :
    symVal pre d (m, j) = symVal pre d' (m, j) := by
  unfold symVal
  simp only [hk, h]

/-- the rest of the queue runs from the state that gate produced: the pass of one shot over
`pre ++ gate :: post`, hence (by `T03_rep_states`, `T03_rep_samples_table`) every state and row
the repeated execution reports. -/
theorem T03_sym_shot (S : Sem σ G) (pre post : List (QOp G)) (f : List Nat → G)
    (uses : List (Nat × Nat))
    (hwf : wellFormed (pre ++ .pgate f uses :: post) 0 (fun _ => false) = true)
    (d : List Nat) (hd : ncoll pre ≤ d.length) (ψ0 : σ) :
    oneShot S (pre ++ .pgate f uses :: post) ψ0 d
      = passQueue S post (nmeas pre)
          { oneShot S pre ψ0 d with
            state := S.gate (f (uses.map (symVal pre d))) (oneShot S pre ψ0 d).state } :=
  oneShot_pgate S pre post f uses hwf d hd ψ0

/-! ### non-vacuity -/

/-- a simulator that logs the gates it applies. -/
private def SL : Sem (List (List Nat)) (List Nat) :=
  { gate := fun g s => s ++ [g], coll := fun _ _ s => s }

/-- `M(1, 0, collapse); M(2, collapse); U(theta = g(m0[1], m1[0], m0[0]))`. -/
private def preL : List (QOp (List Nat)) := [.meas [1, 0] true, .meas [2] true]
private def usesL : List (Nat × Nat) := [(0, 1), (1, 0), (0, 0)]

example : wellFormed (preL ++ [.pgate id usesL]) 0 (fun _ => false) = true ∧ ncoll preL = 2 := by decide

/-- three shots on one tape: in every shot the gate gets that shot's bits (m0 drawn over the
sorted targets [0, 1], recorded in the order (1, 0)). -/
example : (execRepeated SL (preL ++ [.pgate id usesL, .meas [0] false]) 3 [1, 0, 0, 2, 1, 1, 3, 1, 0] []).states
    = [[[0, 0, 1]], [[1, 1, 0]], [[1, 1, 1]]] := by decide

end QV.Props.C03
