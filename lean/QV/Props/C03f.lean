/-
  C03 (deepening, part 5) — results that hold FREQUENCIES ONLY, and the key conversions.
  `MeasurementOutcomes._frequencies` given (hardware backends, error mitigation), no samples, no
  probabilities: `samples()` expands the counter (`np.repeat` per key, keys in counter order)
  and shuffles it.  Model: `RState.withFreq` over the accessor state machine of
  QV/Model/Measure.lean; `binKey` = key of `frequencies_to_binary` (QV/Model/Bitflip.lean).
  Tied to result.py / measurements.py by the `freqonly` and `binkey` suites of
  tools/props/C03_bitflip.py.  The shuffle is an input (`o.perm`).
-/
import QV.Proofs.BitflipSM
import Mathlib.Algebra.BigOperators.Group.List.Basic

set_option linter.unusedSectionVars false
set_option linter.unusedVariables false

namespace QV.Props.C03
open QV QV.BF

/-- **frequencies(samples(F)) = F**: the table obtained by expanding a counter `F` (supported on
the `2^k` outcomes) and shuffling it with any permutation has exactly the histogram `F`. -/
theorem T03_freqonly_roundtrip {k : Nat} {F : Freq} {perm : List Nat}
    (hsupp : ∀ v, 2 ^ k ≤ v → F v = 0)
    (hperm : perm.Perm (List.range (repeatFreq k F).length)) :
    hist (applyPerm perm (repeatFreq k F)) = F :=
  hist_shuffle_repeat hsupp hperm

/-- the expansion has one row per counted shot (`nshots = sum(frequencies.values())`), and
without a shuffle it lists the outcomes in ascending order, each `F v` times. -/
theorem T03_freqonly_nshots (k : Nat) (F : Freq) {perm : List Nat}
    (hperm : perm.Perm (List.range (repeatFreq k F).length)) :
    (applyPerm perm (repeatFreq k F)).length = ((List.range (2 ^ k)).map F).sum := by
  have h1 : (applyPerm perm (repeatFreq k F)).length = perm.length := by
    unfold applyPerm; rw [List.length_map]
  rw [h1, hperm.length_eq, List.length_range]
  unfold repeatFreq
  rw [List.length_flatMap]
  simp

/-- **a result built from frequencies only**: for every history of `samples` / `frequencies` ×
binary × registers and per-gate accessor calls, every answer is the view of the single table
`applyPerm perm (repeatFreq k F)` — the reported frequencies stay `F`, the samples drawn lazily
agree with them, the registers are its columns. -/
theorem T03_freqonly_views {c : RCfg} {o : Oracle} {F : Freq} (hreg : c.nregs ≠ 0)
    (hsupp : ∀ v, 2 ^ c.k ≤ v → F v = 0)
    (hperm : o.perm.Perm (List.range (repeatFreq c.k F).length)) (ops : List ROp) :
    rrun c o (RState.withFreq F) ops
      = ops.map (rview c (applyPerm o.perm (repeatFreq c.k F))) :=
  rrun_withFreq hreg hsupp hperm ops

/-- the per-register counter derived from the given global counter (`_register_frequencies`) is
the histogram of the register's columns of the expanded table. -/
theorem T03_freqonly_registers {k : Nat} {F : Freq} {perm : List Nat} (pos : List Nat)
    (hsupp : ∀ v, 2 ^ k ≤ v → F v = 0)
    (hperm : perm.Perm (List.range (repeatFreq k F).length)) :
    regFreqOfGlobal k pos F = hist ((applyPerm perm (repeatFreq k F)).map (projDec k pos)) := by
  have hT := hist_shuffle_repeat hsupp hperm
  have hlt : ∀ x ∈ applyPerm perm (repeatFreq k F), x < 2 ^ k := by
    intro x hx
    exact mem_repeatFreq ((applyPerm_perm hperm).mem_iff.mp hx)
  rw [← regFreqOfGlobal_hist k pos _ hlt, hT]

/-- binary keys: for an outcome of `k ≥ 1` measured qubits the key `"{:b}".format(v).zfill(k)`
is the binary row of the outcome (bit `j` = qubit `j` of the measurement) … -/
theorem T03_binkey_is_row {k v : Nat} (hk : 0 < k) (h : v < 2 ^ k) :
    binKey k v = samplesToBinary k v :=
  binKey_of_lt hk h

/-- … and reading a binary key back (`int(key, 2)`) returns the decimal key, for every value
(also one that does not fit in `k` digits: `zfill` never truncates). -/
theorem T03_binkey_decimal (k v : Nat) : samplesToDecimal (binKey k v) = v :=
  decimal_binKey k v

/-! ### non-vacuity -/

private def cF : RCfg := { nregs := 2, reg := fun i => if i = 0 then [2, 0] else [1] }
private def FF : Freq := fun v => if v = 1 then 2 else if v = 6 then 1 else 0
private def oF : Oracle := { shots := [], batches := [], perm := [2, 0, 1] }

example : cF.nregs ≠ 0 ∧ (∀ v, 2 ^ cF.k ≤ v → FF v = 0) ∧
    oF.perm.Perm (List.range (repeatFreq cF.k FF).length) := by
  refine ⟨by decide, ?_, by decide⟩
  intro v hv
  have : 8 ≤ v := hv
  unfold FF
  rw [if_neg (by omega), if_neg (by omega)]

example : applyPerm oF.perm (repeatFreq cF.k FF) = [6, 1, 1] := by decide
example : binKey 3 1 = [0, 0, 1] ∧ binKey 1 6 = [1, 1, 0] := by decide

end QV.Props.C03
