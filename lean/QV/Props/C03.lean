/-
  C03 — Measurements follow the Born rule and are reported consistently.
  Property theorems only (proofs are thin wrappers of QV/Proofs/Measure.lean).
  Model: QV/Model/Measure.lean (tied to /repo by the correspondence suites of
  tools/props/C03.py through lean/DriverC03.lean).

  Conventions.  `w : Lab → β` is the weight of a basis label — `|ψ x|²` for a state vector,
  `ρ x x` for a density matrix; `β` is any additive commutative monoid (ℝ, ℕ, ℤ, …).  `n` is the
  register size, `qs` the ordered list of qubits given to the measurement; index `k` of a table
  over `qs` assigns bit `j` (most significant first) to `qs[j]`.  Nothing is bounded: `n`, the
  lists, the number of shots, the number and order of accessor calls are arbitrary.
  Randomness is an input (`Oracle`); the only facts assumed about it are stated as hypotheses
  (`Oracle.Valid`: drawn indices are in range, the shuffle is a permutation).
-/
import QV.Proofs.Measure
namespace QV.Props.C03
open QV Finset

/-! ### Born rule -/

/-- `calculate_probabilities` (sum over the unmeasured axes, then `_order_probabilities`
through the ascending table) returns the Born marginal **in the order the qubits were given**,
for every ordered qubit list (no sortedness, no adjacency). -/
theorem T03_probabilities_born {β : Type} [Zero β] [Add β] (n : Nat) (qs : List Nat)
    (hlt : ∀ q ∈ qs, q < n) (w : Lab → β) (k : Nat) :
    calculateProbabilities n qs w k = born n qs w k :=
  calculateProbabilities_eq_born n qs hlt w k

/-- the density-matrix version reads the diagonal of `ρ` and is the same marginal. -/
theorem T03_probabilities_born_dm {α : Type} [Zero α] [Add α] (n : Nat) (qs : List Nat)
    (hlt : ∀ q ∈ qs, q < n) (ρ : DM α) (k : Nat) :
    calculateProbabilitiesDM n qs ρ k = born n qs (fun x => ρ x x) k :=
  calculateProbabilities_eq_born n qs hlt (diagOf ρ) k

/-- the reported probabilities of any ordered duplicate-free qubit list sum to the total
weight of the state (`‖ψ‖²`, resp. `tr ρ`). -/
theorem T03_marginal_total {β : Type} [AddCommMonoid β] (n : Nat) (qs : List Nat) (hn : qs.Nodup)
    (hlt : ∀ q ∈ qs, q < n) (w : Lab → β) :
    ∑ k ∈ range (2 ^ qs.length), calculateProbabilities n qs w k = totalWeight n w := by
  simp only [calculateProbabilities_eq_born n qs hlt w]
  exact born_sum_total n qs hn hlt w

/-- asking for the same qubits in another order permutes the table accordingly: the entry for
outcome `k` of `qs` is the entry of the table of `qs'` that assigns the same bit to every
qubit. -/
theorem T03_probabilities_permuted {β : Type} [Zero β] [Add β] (n : Nat) {qs qs' : List Nat}
    (hlt : ∀ q ∈ qs, q < n) (h : ∀ r, r ∈ qs ↔ r ∈ qs') (w : Lab → β) (k : Nat) :
    calculateProbabilities n qs' w (Lab.idx qs' (Lab.withIdx zeroLab qs k))
      = calculateProbabilities n qs w k := by
  rw [calculateProbabilities_eq_born n qs hlt,
    calculateProbabilities_eq_born n qs' (fun q hq => hlt q ((h q).mpr hq))]
  exact born_perm n h w k

/-- an outcome with non-zero reported probability is carried by a basis label of non-zero
weight whose bits on `qs`, in the given order, spell the outcome.  Together with the contract of
the sampler (`np.random.choice` returns indices of non-zero probability) every reported shot is
compatible with the final state. -/
theorem T03_support {β : Type} [AddMonoid β] (n : Nat) {qs : List Nat} (hn : qs.Nodup)
    (hlt : ∀ q ∈ qs, q < n) (w : Lab → β) {k : Nat} (hk : k < 2 ^ qs.length)
    (h : calculateProbabilities n qs w k ≠ 0) :
    ∃ x : Lab, w x ≠ 0 ∧ Lab.idx qs x = k := by
  rw [calculateProbabilities_eq_born n qs hlt] at h
  exact born_support n hn w hk h

/-! ### samples: binary ↔ decimal -/

theorem T03_binary_decimal {k s : Nat} (h : s < 2 ^ k) :
    samplesToDecimal (samplesToBinary k s) = s :=
  samplesToDecimal_samplesToBinary h

theorem T03_decimal_binary (bits : List Nat) (hb : ∀ b ∈ bits, b ≤ 1) :
    samplesToBinary bits.length (samplesToDecimal bits) = bits :=
  samplesToBinary_samplesToDecimal bits hb

/-- column `j` of the binary row of a shot is the bit of qubit `qs[j]`: the row of the index of
a label is the list of the label's bits in the order of `qs`. -/
theorem T03_binary_row_bits (qs : List Nat) (x : Lab) :
    samplesToBinary qs.length (Lab.idx qs x) = qs.map fun q => if x q then 1 else 0 := by
  have h := samplesToBinary_samplesToDecimal (qs.map fun q => if x q then 1 else 0)
    (by intro b hb; simp only [List.mem_map] at hb; obtain ⟨q, _, rfl⟩ := hb; split <;> omega)
  rw [samplesToDecimal_bits, List.length_map] at h
  exact h

/-! ### frequencies -/

/-- frequencies computed from samples sum to the number of shots. -/
theorem T03_frequencies_sum {k : Nat} (T : List Nat) (h : ∀ s ∈ T, s < 2 ^ k) :
    ∑ v ∈ range (2 ^ k), hist T v = T.length :=
  hist_sum T h

/-- `sample_frequencies` splits the shots into batches of `B`; the result is the histogram of
all the drawn samples … -/
theorem T03_batching_invisible (batches : List (List Nat)) :
    sampleFrequencies batches = hist batches.flatten :=
  sampleFrequencies_eq_hist batches

/-- … and sums to `nshots` for every batch size, as `(nshots / B)·B + nshots % B = nshots`. -/
theorem T03_sample_frequencies_sum {k : Nat} (batches : List (List Nat)) (nshots B : Nat)
    (hlen : batches.map List.length = batchSizes nshots B)
    (hlt : ∀ b ∈ batches, ∀ s ∈ b, s < 2 ^ k) :
    ∑ v ∈ range (2 ^ k), sampleFrequencies batches v = nshots :=
  sampleFrequencies_sum batches nshots B hlen hlt

/-- projecting shots on a register commutes with histogramming: the per-register counter that
`MeasurementOutcomes.frequencies` derives from the global counter (frequencies-first path) is the
histogram of the register's decimal samples. -/
theorem T03_register_histogram_commute (k : Nat) (pos : List Nat) (T : List Nat)
    (hT : ∀ s ∈ T, s < 2 ^ k) :
    regFreqOfGlobal k pos (hist T) = hist (T.map (projDec k pos)) :=
  regFreqOfGlobal_hist k pos T hT

/-- repeat-and-shuffle (how samples are produced when frequencies were drawn first) yields a
shot table whose histogram is exactly the frequencies already reported. -/
theorem T03_shuffle_respects_frequencies {c : RCfg} {o : Oracle} (hv : o.Valid c) :
    hist (applyPerm o.perm (repeatFreq c.k (sampleFrequencies o.batches)))
      = sampleFrequencies o.batches :=
  freqTable_hist hv

/-! ### one shot table, many views -/

/-- **all accessors are views of one shot table, for every history of calls.**  On a fresh
result, whatever the sequence of `samples(binary, registers)`, `frequencies(binary, registers)`,
per-gate `result.samples(binary)` / `result.frequencies(binary)` calls — including
frequencies first and samples later — every answer is the corresponding view (`rview`) of the
single table `theTable`: global rows, decimal values, per-register columns in the order the
register's qubits were given, histograms of those. -/
theorem T03_views_fresh (c : RCfg) (o : Oracle) (hv : o.Valid c) (ops : List ROp) :
    rrun c o {} ops = ops.map (rview c (theTable c o ops)) := by
  cases ops with
  | nil => rfl
  | cons op rest =>
    obtain ⟨h1, h2⟩ := rstep_fresh hv op rest
    rw [rrun, List.map_cons, h2, rrun_of_inv h1 (theTable_lt hv (op :: rest))]

/-- the same for a result constructed from given samples (repeated execution, collapse). -/
theorem T03_views_given_samples (c : RCfg) (o : Oracle) (T : List Nat)
    (hT : ∀ x ∈ T, x < 2 ^ c.k) (ops : List ROp) :
    rrun c o (RState.withSamples c T) ops = ops.map (rview c T) :=
  rrun_of_inv (rinv_withSamples c o T) hT ops

/-- corollary: an answer does not depend on what was asked before it (same first call). -/
theorem T03_views_history_independent (c : RCfg) (o : Oracle) (hv : o.Valid c) (first : ROp)
    (mid mid' : List ROp) (op : ROp) :
    (rrun c o {} (first :: mid ++ [op])).getLast? = (rrun c o {} (first :: mid' ++ [op])).getLast? := by
  rw [T03_views_fresh c o hv, T03_views_fresh c o hv]
  have e : ∀ m : List ROp, theTable c o (first :: m ++ [op]) = theTable c o [first] := by
    intro m; cases first <;> rfl
  rw [e, e]
  simp only [List.map_cons, List.map_append, List.map_nil]
  rw [List.getLast?_concat, List.getLast?_concat]

/-! ### collapse -/

/-- the projection is idempotent … -/
theorem T03_collapse_idempotent {α : Type} [Zero α] (qs : List Nat) (shot : Nat) (ψ : Lab → α) :
    collapseState qs shot (collapseState qs shot ψ) = collapseState qs shot ψ :=
  collapseState_idem qs shot ψ

/-- … so measuring the same qubits again reports the recorded outcome with all the weight and
every other outcome with none. -/
theorem T03_collapse_remeasure {α β : Type} [Zero α] [AddMonoid β] (w : α → β) (hw : w 0 = 0)
    (n : Nat) {qs : List Nat} (hn : qs.Nodup) (hlt : ∀ q ∈ qs, q < n) (shot : Nat) (ψ : Lab → α)
    {k : Nat} (hk : k < 2 ^ qs.length) :
    calculateProbabilities n qs (fun x => w (collapseState qs shot ψ x)) k
      = if k = shot then calculateProbabilities n qs (fun x => w (ψ x)) shot else 0 := by
  rw [calculateProbabilities_eq_born n qs hlt, calculateProbabilities_eq_born n qs hlt,
    weight_collapse w hw]
  exact born_collapse n hn (fun x => w (ψ x)) shot hk

/-- the squared norm of the un-normalised projection is the probability of the outcome — the
factor `collapse_state(normalize=True)` divides by. -/
theorem T03_collapse_norm {α β : Type} [Zero α] [AddCommMonoid β] (w : α → β) (hw : w 0 = 0)
    (n : Nat) {qs : List Nat} (hn : qs.Nodup) (hlt : ∀ q ∈ qs, q < n) {shot : Nat}
    (hs : shot < 2 ^ qs.length) (ψ : Lab → α) :
    totalWeight n (fun x => w (collapseState qs shot ψ x))
      = calculateProbabilities n qs (fun x => w (ψ x)) shot := by
  rw [calculateProbabilities_eq_born n qs hlt, weight_collapse w hw]
  exact totalWeight_collapse n hn hlt (fun x => w (ψ x)) hs

/-- **bits are recorded in the order the qubits were given**: `M.apply` draws and projects on
the ascending qubit list; the state it leaves is the projection onto the recorded bits read in
the order of `targets`. -/
theorem T03_collapse_order {α : Type} [Zero α] (targets : List Nat) (hn : targets.Nodup)
    {shotAsc : Nat} (hs : shotAsc < 2 ^ targets.length) (ψ : Lab → α) :
    (mApply targets shotAsc ψ).2
      = collapseState targets (samplesToDecimal (mApply targets shotAsc ψ).1) ψ :=
  collapse_order targets hn hs ψ

/-- every basis label that keeps a non-zero amplitude carries recorded bit `j` on qubit
`targets[j]`: later gates (also those conditioned on the outcome) and later measurements of the
same shot see the recorded outcome. -/
theorem T03_collapse_recorded_bits {α : Type} [Zero α] (targets : List Nat) (hn : targets.Nodup)
    {shotAsc : Nat} (hs : shotAsc < 2 ^ targets.length) (ψ : Lab → α) (x : Lab)
    (hx : (mApply targets shotAsc ψ).2 x ≠ 0) :
    (targets.map fun t => if x t then 1 else 0) = (mApply targets shotAsc ψ).1 :=
  collapse_support_bits targets hn hs ψ x hx

/-- density-matrix collapse of a pure state is the projector onto the collapsed vector. -/
theorem T03_collapse_dm_pure {α : Type} [MulZeroClass α] (conj : α → α) (h0 : conj 0 = 0)
    (qs : List Nat) (shot : Nat) (ψ : Lab → α) :
    collapseDM qs shot (fun x y => ψ x * conj (ψ y))
      = fun x y => collapseState qs shot ψ x * conj (collapseState qs shot ψ y) :=
  collapseDM_outer conj h0 qs shot ψ

/-- a later gate on other qubits commutes with the collapse. -/
theorem T03_collapse_commutes_disjoint_gate {α : Type} [NonUnitalNonAssocSemiring α]
    (qs : List Nat) (shot : Nat) (g : MGate α) (hd : ∀ r, r ∈ g.targets → r ∉ qs)
    (ψ : Lab → α) :
    collapseState qs shot (applyGate g ψ) = applyGate g (collapseState qs shot ψ) :=
  collapseState_applyGate_comm qs shot g hd ψ

/-! ### non-vacuity -/

/-- a 3-qubit integer state with pairwise different weights. -/
private def w3 : Lab → Nat := fun x => 1 + Lab.idx [0, 1, 2] x

/-- unsorted, non-adjacent list: table of qubits [2, 0] of the 3-qubit weight `1..8`. -/
example : (List.range 4).map (calculateProbabilities 3 [2, 0] w3) = [4, 12, 6, 14] := by decide

/-- the hypotheses of `T03_marginal_total` hold for it, and the total is 36. -/
example : ∑ k ∈ range (2 ^ [2, 0].length), calculateProbabilities 3 [2, 0] w3 k = totalWeight 3 w3 :=
  T03_marginal_total 3 [2, 0] (by decide) (by decide) w3

private def c2 : RCfg := { nregs := 2, reg := fun i => if i = 0 then [3, 1] else [2] }
private def o2 : Oracle := { shots := [5, 1, 6, 5], batches := [[5, 1], [6, 5]], perm := [2, 0, 3, 1] }

private theorem o2_valid : o2.Valid c2 := by
  refine ⟨by decide, by decide, ?_⟩
  show List.Perm [2, 0, 3, 1] (List.range (repeatFreq 3 (sampleFrequencies o2.batches)).length)
  decide

/-- frequencies first, then samples per register: the register columns come out in the order
the qubits were given, and agree with the frequencies reported before. -/
example : rrun c2 o2 {} [.freqs false false, .samples false true]
    = [.freqs false false, .samples false true].map
        (rview c2 (theTable c2 o2 [.freqs false false, .samples false true])) :=
  T03_views_fresh c2 o2 o2_valid _

/-- `X(1); M(1, 0, collapse=True)` on |00⟩: the state is |01⟩, the shot over the ascending list
[0, 1] is 1, and the recorded bits — first listed qubit first — are [1, 0]. -/
example : recordedBits [1, 0] 1 = [1, 0] := by decide

example : (1 : Nat) < 2 ^ [1, 0].length ∧ [1, 0].Nodup := by decide

end QV.Props.C03
