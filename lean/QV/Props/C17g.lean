/-
  C17 (continued) — channels built from Gate OBJECTS: which qubits the operators act on.

  Every representation of a channel (`to_choi`, `to_liouville`, `to_pauli_liouville`, Kraus form) is
  computed from `channel.gates`; `KrausChannel.__init__` moves the given gates onto the requested
  qubits first.  Model: QV/Model/KrausInit.lean (run against the real constructor by
  tools/props/C17_relabel.py through DriverC17c.lean on every check: int / tuple / list / empty
  forms, controlled gates, descending and non-adjacent declarations, the raising inputs).

  PROVED for every gate and every requested tuple: the move is positional in the gate's DECLARED
  qubit order (`T17_kraus_relabel_positional`) — so `gates.Unitary(m, 1, 0)` requested on `(2, 0)`
  acts with its first tensor factor on qubit 2 — a gate keeps its control/target split
  (`T17_kraus_move_keeps_arity`; the moved gate reports its controls sorted again), an empty `qubits` list keeps every gate where it was declared
  (`T17_kraus_empty_keeps_gates`), and int / tuple forms hand the same tuple to every operator
  (`T17_kraus_tuple_broadcast`).  The variant that pairs the i-th SMALLEST declared qubit with the
  i-th requested one (seeded change C17-21) differs on a descending declaration
  (`T17_kraus_sorted_variant_differs`, kernel-evaluated).
-/
import QV.Proofs.KrausInit
namespace QV.Props.C17
open QV.KrausInit

theorem T17_kraus_relabel_positional (declared requested : List Nat) (hn : declared.Nodup)
    (hl : declared.length ≤ requested.length) :
    relabelGate declared requested = requested.take declared.length :=
  relabelGate_positional declared requested hn hl

/-- a moved gate has its TARGETS on the requested qubits that correspond positionally to its declared
targets, and its controls on those that correspond to its controls (reported sorted again). -/
theorem T17_kraus_move_keeps_arity (g g' : G) (requested : List Nat) (hn : g.qubits.Nodup)
    (h : moveGate g requested = some g') :
    g'.targets = (requested.take g.qubits.length).drop g.controls.length ∧
    g'.controls = sortedSet ((requested.take g.qubits.length).take g.controls.length) := by
  unfold moveGate at h
  split at h
  · cases h
  · rename_i hlen
    simp only [] at h
    split at h
    · cases h
    · cases h
      have hq := relabelGate_positional g.qubits requested hn (by omega)
      exact ⟨by simp [hq], by simp [hq]⟩

theorem T17_kraus_empty_keeps_gates (ops : List G) :
    (build (.list []) ops).map Built.gates = some ops := by
  simp [build, normalise]

theorem T17_kraus_tuple_broadcast (qs : List Nat) (q nops : Nat) :
    normalise (.tuple qs) nops = List.replicate nops qs ∧
    normalise (.int q) nops = List.replicate nops [q] := ⟨rfl, rfl⟩

/-- the channel's `target_qubits`: strictly increasing, and exactly the target qubits of the moved
gates (every form of `qubits`, every operator list the constructor accepts). -/
theorem T17_kraus_target_qubits_spec (a : QArg) (ops : List G) (b : Built) (h : build a ops = some b) :
    b.targetQubits.Pairwise (· < ·) ∧
    ∀ q : Nat, q ∈ b.targetQubits ↔ ∃ g ∈ b.gates, q ∈ g.targets := by
  unfold build at h
  simp only [Option.map_eq_some_iff] at h
  obtain ⟨gs, _, rfl⟩ := h
  refine ⟨pairwise_sortedSet _, fun q => ?_⟩
  simp only [mem_sortedSet, List.mem_flatMap]

/-- `Unitary(m, 1, 0)` requested on `(2, 0)`: positional gives `(2, 0)`, the sorted pairing `(0, 2)`. -/
theorem T17_kraus_sorted_variant_differs :
    relabelGate [1, 0] [2, 0] = [2, 0] ∧ relabelGateSorted [1, 0] [2, 0] = [0, 2] := by decide

/-- non-vacuity: a controlled gate declared on descending qubits is moved as stated. -/
example : build (.list [[4, 1, 3], [0]]) [⟨[2], [1, 0]⟩, ⟨[], [3]⟩] =
    some { gates := [⟨[4], [1, 3]⟩, ⟨[], [0]⟩], targetQubits := [0, 1, 3] } := by decide

/-- two controls declared (1, 3), target 0, requested (2, 1, 0): controls {2, 1} are reported sorted. -/
example : moveGate ⟨[1, 3], [0]⟩ [2, 1, 0] = some ⟨[1, 2], [0]⟩ := by decide

end QV.Props.C17
