/-
  C04 — Noise channels act as the completely positive trace-preserving map they declare.
  Property theorems only (proofs are thin wrappers of QV/Proofs/Channels.lean).
  Model: QV/Model/Channels.lean (`applyChannelDM`/`krausFold` = generic path of
  `apply_channel_density_matrix`; `resetFast`, `depolFast`, `thermalFastHi`, `thermalFastLo` =
  the closed-form fast paths; `resetChan`, `thermalChanHi`, `thermalChanLo`, `ampDampChan`,
  `phaseDampChan`, `depolChan` = the constructors of the Kraus operators; `Chan.query` = the
  representation queries).

  Scalars: an arbitrary commutative ring `α` with a ring endomorphism `conj` (complex
  conjugation on ℂ).  Square roots are inputs with their defining equation (`a*a = p0`) and are
  real (`conj a = a`).  No register size appears except in the thermal fast path of the regime
  `t_1 < t_2`, which the code applies on the flattened state of `2n` qubits: every statement holds
  for every target position `q`, every register `qs ∋ q`, every (not necessarily Hermitian) `ρ`.
-/
import Mathlib.Data.Complex.Basic
import QV.Proofs.Channels
namespace QV.Props.C04
open QV Finset

variable {α : Type} [CommRing α]

/-! ### generic path -/

/-- `apply_channel_density_matrix` computes `(1 - coefficient_sum)·ρ + Σ_k c_k · G_k ρ G_k†`
over the channel's own coefficients and gates, in any order of accumulation. -/
theorem T04_generic_sum_form (conj : α → α) (ch : Chan α) (ρ : DM α) (x y : Lab) :
    applyChannelDM conj ch ρ x y
      = (1 - ch.csum) * ρ x y
        + ((ch.coeffs.zip ch.gates).map (fun t => t.1 * applyGateDM conj t.2 ρ x y)).sum :=
  krausFold_eq conj (1 - ch.csum) (ch.coeffs.zip ch.gates) ρ x y

/-- the executed map is additive … -/
theorem T04_generic_linear_add (conj : α → α) (ch : Chan α) (ρ σ : DM α) :
    applyChannelDM conj ch (fun x y => ρ x y + σ x y)
      = fun x y => applyChannelDM conj ch ρ x y + applyChannelDM conj ch σ x y :=
  krausFold_add conj _ _ ρ σ

/-- … and homogeneous. -/
theorem T04_generic_linear_smul (conj : α → α) (ch : Chan α) (c : α) (ρ : DM α) :
    applyChannelDM conj ch (fun x y => c * ρ x y)
      = fun x y => c * applyChannelDM conj ch ρ x y :=
  krausFold_smul conj _ c _ ρ

/-- probabilistic mixtures of unitaries (UnitaryChannel, PauliNoiseChannel, DepolarizingChannel
through the generic path) preserve the trace over every register containing the targets, for
any number of terms on any target tuples, provided `coefficient_sum` is the sum of the
coefficients — the invariant the defective `to_choi` broke. -/
theorem T04_unitary_mixture_trace_preserved (conj : α → α) (qs : List Nat) (ch : Chan α)
    (hgs : ∀ t ∈ ch.coeffs.zip ch.gates, t.2.targets.Nodup ∧
      (∀ c, c ∈ t.2.controls → c ∉ t.2.targets) ∧ (∀ q, q ∈ t.2.targets → q ∈ qs) ∧
      ∀ i j, i < 2 ^ t.2.targets.length → j < 2 ^ t.2.targets.length →
        ∑ k ∈ range (2 ^ t.2.targets.length), conj (t.2.mat k i) * t.2.mat k j
          = if i = j then 1 else 0)
    (hsum : ch.csum = ((ch.coeffs.zip ch.gates).map (·.1)).sum) (ρ : DM α) (z : Lab) :
    trN qs (applyChannelDM conj ch ρ) z = trN qs ρ z :=
  trN_krausFold_unitary conj qs _ _ hgs (by rw [hsum]; ring) ρ z

/-! ### reset channel: fast path = Kraus map = closed form, trace preserving -/

/-- `reset_error_density_matrix` on qubit `q` applies exactly the Kraus map of the operators
that `ResetChannel.__init__` builds (`p0 + p1 < 1`: five operators). -/
theorem T04_reset_fast_eq_kraus (conj : α →+* α) (a b c c0 p0 p1 : α) (ha : a * a = p0)
    (hb : b * b = p1) (hc : c * c = c0) (hca : conj a = a) (hcb : conj b = b) (hcc : conj c = c)
    (q : Nat) (ρ : DM α) :
    resetFast conj c0 p0 p1 q ρ = applyChannelDM conj (resetChan a b c true q) ρ := by
  rw [resetFast_eq_spec, resetKraus_eq_spec conj a b c c0 p0 p1 ha hb hc hca hcb hcc]

/-- the boundary `p0 + p1 = 1` (no identity operator is appended). -/
theorem T04_reset_fast_eq_kraus_boundary (conj : α →+* α) (a b c p0 p1 : α) (ha : a * a = p0)
    (hb : b * b = p1) (hca : conj a = a) (hcb : conj b = b) (q : Nat) (ρ : DM α) :
    resetFast conj 0 p0 p1 q ρ = applyChannelDM conj (resetChan a b c false q) ρ := by
  rw [resetFast_eq_spec, resetKraus_noId_eq_spec conj a b c p0 p1 ha hb hca hcb]

theorem T04_reset_trace_preserved (conj : α →+* α) (c0 p0 p1 : α) (h1 : c0 + p0 + p1 = 1)
    (q : Nat) (qs : List Nat) (hq : q ∈ qs) (ρ : DM α) (x : Lab) :
    trN qs (resetFast conj c0 p0 p1 q ρ) x = trN qs ρ x := by
  rw [resetFast_eq_spec]
  exact trN_congr_of_targets [q] qs (List.nodup_singleton q) (by simpa using hq) _ _
    (trN_resetSpec c0 p0 p1 h1 q ρ) x

/-! ### thermal relaxation, regime t₁ ≥ t₂ -/

/-- `ThermalRelaxationChannel.apply_density_matrix` (dephasing on the channel's own qubit)
applies the Kraus map of its six operators; `c0 = 1 - p0 - p1`. -/
theorem T04_thermal_hi_fast_eq_kraus (conj : α →+* α) (a b z c c0 p0 p1 pz : α)
    (ha : a * a = p0) (hb : b * b = p1) (hz : z * z = pz) (hc : c * c + pz = c0)
    (hca : conj a = a) (hcb : conj b = b) (hcz : conj z = z) (hcc : conj c = c)
    (q : Nat) (ρ : DM α) :
    thermalFastHi conj c0 p0 p1 pz q ρ = applyChannelDM conj (thermalChanHi a b z c q) ρ := by
  rw [thermalFastHi_eq_spec,
    thermalKrausHi_eq_spec conj a b z c c0 p0 p1 pz ha hb hz hc hca hcb hcz hcc]

theorem T04_thermal_hi_trace_preserved (conj : α →+* α) (c0 p0 p1 pz : α)
    (h1 : c0 + p0 + p1 = 1) (q : Nat) (qs : List Nat) (hq : q ∈ qs) (ρ : DM α) (x : Lab) :
    trN qs (thermalFastHi conj c0 p0 p1 pz q ρ) x = trN qs ρ x := by
  rw [thermalFastHi_eq_spec]
  exact trN_congr_of_targets [q] qs (List.nodup_singleton q) (by simpa using hq) _ _
    (trN_thermalHiSpec c0 p0 p1 pz h1 q ρ) x

/-! ### thermal relaxation, regime t₁ < t₂ -/

/-- the 4×4 matrix applied on qubits `(q, q+n)` of the flattened state is the Kraus map of the
four operators of the constructor, whenever the two diagonal operators decompose the block
`[[1-p1, e],[e, 1-p0]]` (which the normalised eigen-decomposition does); every `q < n`. -/
theorem T04_thermal_lo_fast_eq_kraus (conj : α →+* α) (n q : Nat) (hq : q < n)
    (a b x1 y1 x2 y2 p0 p1 e : α) (ha : a * a = p0) (hb : b * b = p1)
    (hxx : x1 * x1 + x2 * x2 = 1 - p1) (hyy : y1 * y1 + y2 * y2 = 1 - p0)
    (hxy : x1 * y1 + x2 * y2 = e)
    (hca : conj a = a) (hcb : conj b = b) (hx1 : conj x1 = x1) (hy1 : conj y1 = y1)
    (hx2 : conj x2 = x2) (hy2 : conj y2 = y2) (ρ : DM α) (hρ : DM.OnRegister n ρ) :
    thermalFastLo n (thermalMat p0 p1 e) q ρ
      = applyChannelDM conj (thermalChanLo a b x1 y1 x2 y2 q) ρ := by
  rw [thermalFastLo_eq_spec n q hq p0 p1 e ρ hρ,
    thermalKrausLo_eq_spec conj a b x1 y1 x2 y2 p0 p1 e ha hb hxx hyy hxy hca hcb hx1 hy1 hx2 hy2]

/-- the closed form of this regime preserves the trace for all parameter values. -/
theorem T04_thermal_lo_trace_preserved (n q : Nat) (hq : q < n) (p0 p1 e : α) (qs : List Nat)
    (hqs : q ∈ qs) (ρ : DM α) (hρ : DM.OnRegister n ρ) (x : Lab) :
    trN qs (thermalFastLo n (thermalMat p0 p1 e) q ρ) x = trN qs ρ x := by
  rw [thermalFastLo_eq_spec n q hq p0 p1 e ρ hρ]
  exact trN_congr_of_targets [q] qs (List.nodup_singleton q) (by simpa using hqs) _ _
    (trN_thermalLoSpec p0 p1 e q ρ) x

/-! ### depolarizing channel -/

/-- full statement: on every duplicate-free ordered tuple `qs` the partial-trace fast path
(`c0 = 1 - lam`, `w = lam / 2^k` with `lam = 4^k u`) equals the Pauli-twirl Kraus map.
Proved in part b (QV/Props/C04b.lean, `T04_depolarizing_fast_eq_kraus_full_proved`). -/
def T04_depolarizing_fast_eq_kraus_full : Prop :=
  ∀ (α : Type) [CommRing α] (conj : α →+* α) (I u : α), I * I = -1 → conj I = -I →
    ∀ (qs : List Nat), qs.Nodup → ∀ ρ : DM α,
      depolFast (1 - 4 ^ qs.length * u) (2 ^ qs.length * u) qs ρ
        = applyChannelDM conj (depolChan I u qs) ρ

/-- the one-qubit case at any position (every `k`: `T04_depolarizing_fast_eq_kraus_full_proved` in
part b). -/
theorem T04_depolarizing_fast_eq_kraus_partial (conj : α →+* α) (I u : α) (hI : I * I = -1)
    (hcI : conj I = -I) (q : Nat) (ρ : DM α) :
    depolFast (1 - 4 * u) (2 * u) [q] ρ = applyChannelDM conj (depolChan I u [q]) ρ := by
  rw [depolFast_single_eq_spec, depolKraus_single_eq_spec conj I u hI hcI]

theorem T04_depolarizing_single_trace_preserved (c0 w : α) (h1 : c0 + 2 * w = 1) (q : Nat)
    (qs : List Nat) (hq : q ∈ qs) (ρ : DM α) (x : Lab) :
    trN qs (depolFast c0 w [q] ρ) x = trN qs ρ x := by
  rw [depolFast_single_eq_spec]
  exact trN_congr_of_targets [q] qs (List.nodup_singleton q) (by simpa using hq) _ _
    (trN_depolSpec c0 w h1 q ρ) x

/-! ### amplitude and phase damping -/

/-- the two Kraus operators of `AmplitudeDampingChannel(q, γ)` realise the documented map
`ρ₀₀ + γρ₁₁, √(1-γ)ρ₀₁, √(1-γ)ρ₁₀, (1-γ)ρ₁₁` and preserve the trace. -/
theorem T04_amplitude_damping_trace_preserved (conj : α →+* α) (s a γ : α) (hs : s * s = 1 - γ)
    (ha : a * a = γ) (hcs : conj s = s) (hca : conj a = a) (q : Nat) (qs : List Nat)
    (hq : q ∈ qs) (ρ : DM α) (x : Lab) :
    trN qs (applyChannelDM conj (ampDampChan s a q) ρ) x = trN qs ρ x := by
  rw [ampDampKraus_eq_spec conj s a γ hs ha hcs hca]
  exact trN_congr_of_targets [q] qs (List.nodup_singleton q) (by simpa using hq) _ _
    (trN_ampDampSpec γ s q ρ) x

theorem T04_phase_damping_trace_preserved (conj : α →+* α) (s a γ : α) (hs : s * s = 1 - γ)
    (ha : a * a = γ) (hcs : conj s = s) (hca : conj a = a) (q : Nat) (qs : List Nat)
    (hq : q ∈ qs) (ρ : DM α) (x : Lab) :
    trN qs (applyChannelDM conj (phaseDampChan s a q) ρ) x = trN qs ρ x := by
  rw [phaseDampKraus_eq_spec conj s a γ hs ha hcs hca]
  exact trN_congr_of_targets [q] qs (List.nodup_singleton q) (by simpa using hq) _ _
    (trN_phaseDampSpec s q ρ) x

/-! ### representation queries -/

/-- after any sequence of `to_choi / to_liouville / to_pauli_liouville` calls the channel
object executes the same map (repaired `to_choi`: local copies only). -/
theorem T04_query_invariant (conj : α → α) (ch : Chan α) (qs : List Query) (ρ : DM α) :
    applyChannelDM conj (qs.foldl Chan.query ch) ρ = applyChannelDM conj ch ρ := by
  rw [Chan.run_queries]

/-- the original `to_choi` (identity term appended to the object, `coefficient_sum` untouched)
made every later execution add `c0·ρ`: the defect F7, characterised on the model. -/
theorem T04_query_mutating_defect (conj : α →+* α) (ch : Chan α) (idq : List Nat)
    (hn : idq.Nodup) (hlen : ch.coeffs.length = ch.gates.length) (c0 : α) (Q : Query) (ρ : DM α) :
    applyChannelDM conj (ch.queryMutating idq true c0 Q) ρ
      = fun x y => applyChannelDM conj ch ρ x y + c0 * ρ x y :=
  applyChannelDM_queryMutating conj ch idq hn hlen c0 Q ρ

/-! ### non-vacuity -/

/-- complex conjugation satisfies the hypotheses on `conj`, `Complex.I` those on `I`: the
Pauli-twirl identity over ℂ. -/
example (u : ℂ) (q : Nat) (ρ : DM ℂ) :
    depolFast (1 - 4 * u) (2 * u) [q] ρ
      = applyChannelDM (starRingEnd ℂ) (depolChan Complex.I u [q]) ρ :=
  T04_depolarizing_fast_eq_kraus_partial (starRingEnd ℂ) Complex.I u Complex.I_mul_I
    Complex.conj_I q ρ

/-- reset to |0⟩ with certainty over ℤ (`a = 1, b = 0`, boundary `p0 + p1 = 1`). -/
example (q : Nat) (ρ : DM ℤ) :
    resetFast (RingHom.id ℤ) 0 1 0 q ρ = applyChannelDM (RingHom.id ℤ) (resetChan 1 0 7 false q) ρ :=
  T04_reset_fast_eq_kraus_boundary (RingHom.id ℤ) 1 0 7 1 0 (by norm_num) (by norm_num) rfl rfl q ρ

/-- rational parameters with rational square roots: `p0 = 1/9, p1 = 4/9, c0 = 4/9 = 1 - p0 - p1`
(`a = 1/3, b = c = 2/3`). -/
example (q : Nat) (ρ : DM ℚ) :
    resetFast (RingHom.id ℚ) (4 / 9) (1 / 9) (4 / 9) q ρ
      = applyChannelDM (RingHom.id ℚ) (resetChan (1 / 3) (2 / 3) (2 / 3) true q) ρ :=
  T04_reset_fast_eq_kraus (RingHom.id ℚ) _ _ _ _ _ _ (by norm_num) (by norm_num) (by norm_num)
    rfl rfl rfl q ρ

/-- thermal `t_1 < t_2` with a Pythagorean decomposition: `p0 = p1 = 0`, `x = (3/5, 4/5)`,
`y = (4/5, 3/5)`, `e = 24/25`. -/
example (n q : Nat) (hq : q < n) (ρ : DM ℚ) (hρ : DM.OnRegister n ρ) :
    thermalFastLo n (thermalMat 0 0 (24 / 25)) q ρ
      = applyChannelDM (RingHom.id ℚ) (thermalChanLo 0 0 (3 / 5) (4 / 5) (4 / 5) (3 / 5) q) ρ :=
  T04_thermal_lo_fast_eq_kraus (RingHom.id ℚ) n q hq 0 0 (3 / 5) (4 / 5) (4 / 5) (3 / 5) 0 0 (24 / 25)
    (by norm_num) (by norm_num) (by norm_num) (by norm_num) (by norm_num) rfl rfl rfl rfl rfl rfl ρ hρ

/-- amplitude damping with `γ = 9/25`. -/
example (q : Nat) (ρ : DM ℚ) (x : Lab) :
    trN [0, q, 5] (applyChannelDM (RingHom.id ℚ) (ampDampChan (4 / 5) (3 / 5) q) ρ) x
      = trN [0, q, 5] ρ x :=
  T04_amplitude_damping_trace_preserved (RingHom.id ℚ) (4 / 5) (3 / 5) (9 / 25) (by norm_num)
    (by norm_num) rfl rfl q _ (by simp) ρ x

/-- concrete evaluation of the model: full reset of qubit 1 of |11⟩⟨11| gives |10⟩⟨10|. -/
example :
    resetFast (α := ℤ) id 0 1 0 1 (fun x y => if x 0 && x 1 && y 0 && y 1 then 1 else 0)
      (fun r => r == 0) (fun r => r == 0) = 1 := by decide

end QV.Props.C04
