/-
  C12 — Clifford simulation agrees with state-vector simulation or refuses the circuit.
  Property theorems about the tableau model QV/Model/Clifford.lean (transliteration of
  `backends/_clifford_operations.py`, tied to the real functions bit for bit on every run by
  tools/props/C12.py) and the gate matrices QV/Model/CliffordMat.lean (compared with
  `gate.matrix()` on every run).

  A tableau row `(x, z, r)` denotes the signed Pauli string `(-1)^r ⊗_k σ(x k, z k)`.

  * `T12_conj_*`  : for EVERY local Pauli (4 resp. 16 of them) the row update of each operation,
    read on the gate's qubits, is conjugation by the gate's matrix: `U·P = ±P'·U` over ℤ[i] with
    the sign the update writes into `r` — all fixed gates, all residues of the rotation angle
    (`∀ k : ℤ`), the composite operations FSWAP / ECR / CRX / CRY / CRZ included.  (The local
    statement is complete: the domain is finite.  Its lift to `n` qubits is the tensor structure
    `U_q ⊗ 1`: `T12_locality` proves that the update touches no other qubit; the assembled
    operator identity described in `ConjugationAllQubits_statement` is proved in C12b.lean:
    `T12_conjugation_all_qubits`, lifted to circuits and to "stabiliser state = state vector"
    there; measurement outcomes against the Born rule are in C12c.lean.)
  * `T12_exponent_*` : `_exponent` is the power of `i` in the product of two Paulis, its parity is
    the commutation bit, hence `_rowsum`'s `… % 4 == 0` test is well defined on commuting rows.
  * `T12_symp_*`, `T12_valid_*` : for every register size, every gate on valid qubits and every
    pair of rows the update preserves commutation; `rowsum` is bilinear; so every circuit keeps
    the Aaronson–Gottesman invariant (rows commute except destabiliser i / stabiliser i) that
    the measurement routine relies on, starting from `zero_state`.
-/
import QV.Proofs.Clifford
namespace QV.Props.C12
open QV QV.Cliff

set_option maxRecDepth 100000

/-! ### the operations conjugate by the gate matrices -/

/-- fixed one-qubit gates. -/
theorem T12_conj_fixed1 :
    Conj1 (mat1 "I" 0) (opI 0) ∧ Conj1 (mat1 "H" 0) (opH 0) ∧ Conj1 (mat1 "X" 0) (opX 0) ∧
    Conj1 (mat1 "Y" 0) (opY 0) ∧ Conj1 (mat1 "Z" 0) (opZ 0) ∧ Conj1 (mat1 "S" 0) (opS 0) ∧
    Conj1 (mat1 "SDG" 0) (opSDG 0) ∧ Conj1 (mat1 "SX" 0) (opSX 0) ∧
    Conj1 (mat1 "SXDG" 0) (opSXDG 0) := by decide +kernel

/-- rotations by `k·π/2`, every integer `k` (the dispatch on `k mod 4` included). -/
theorem T12_conj_rot1 (k : Int) :
    Conj1 (mat1 "RX" k) (opRX 0 k) ∧ Conj1 (mat1 "RY" k) (opRY 0 k) ∧
    Conj1 (mat1 "RZ" k) (opRZ 0 k) := by
  unfold mat1 opRX opRY opRZ
  rcases res4_cases k with h | h | h | h <;> rw [h] <;> decide +kernel

/-- fixed two-qubit gates on (first, second) listed qubit, FSWAP and ECR composites included. -/
theorem T12_conj_fixed2 :
    Conj2 (mat2 "CNOT" 0) (opCNOT 0 1) ∧ Conj2 (mat2 "CZ" 0) (opCZ 0 1) ∧
    Conj2 (mat2 "CY" 0) (opCY 0 1) ∧ Conj2 (mat2 "SWAP" 0) (opSWAP 0 1) ∧
    Conj2 (mat2 "iSWAP" 0) (opiSWAP 0 1) ∧ Conj2 (mat2 "FSWAP" 0) (opFSWAP 0 1) ∧
    Conj2 (mat2 "ECR" 0) (opECR 0 1) := by decide +kernel

/-- controlled rotations by `k·π`, every integer `k`. -/
theorem T12_conj_crot (k : Int) :
    Conj2 (mat2 "CRX" k) (opCRX 0 1 k) ∧ Conj2 (mat2 "CRY" k) (opCRY 0 1 k) ∧
    Conj2 (mat2 "CRZ" k) (opCRZ 0 1 k) := by
  unfold mat2 opCRX opCRY opCRZ
  rcases res4_cases k with h | h | h | h <;> rw [h] <;> decide +kernel

/-- the statement has teeth: CNOT's update with control and target exchanged is NOT conjugation
by the CNOT matrix, and the S update is not conjugation by S†. -/
theorem T12_conj_detects :
    ¬ Conj2 (mat2 "CNOT" 0) (opCNOT 1 0) ∧ ¬ Conj1 (mat1 "SDG" 0) (opS 0) := by decide +kernel

/-- row locality, every register size: a gate update leaves the bits of all qubits it does not
name untouched (so the string changes only in the tensor factor the gate acts on, and the
local statements above describe the whole update). -/
theorem T12_locality (g : Gate) (w : Row) (k : Nat) (hk : k ∉ g.qubits) :
    (g.act w).x k = w.x k ∧ (g.act w).z k = w.z k := off_gate g w k hk

/-- full operator statement for `n` qubits: with `P(w)` the operator `(-1)^r ⊗_k σ(x k, z k)` on the
`2^n`-dimensional space and `U_g` the embedded gate matrix, `U_g · P(w) = P(g.act w) · U_g`.  It is
the tensor product of the local statement `T12_conj_*` on the gate's qubits with the identity on
the others (`T12_locality`).  Formal version: `ConjugationAllQubits` in C12b.lean (operators on
state vectors of the simulator model), PROVED there as `T12_conjugation_all_qubits`. -/
def ConjugationAllQubits_statement : String :=
  "∀ n g (ok : g.ok n) w, embed n g.qubits (mat g) * pauliOp n w = pauliOp n (g.act w) * embed n g.qubits (mat g)"

/-! ### phase arithmetic of `_rowsum` -/

/-- `_exponent` is the power of `i` in the product of two single-qubit Paulis. -/
theorem T12_exponent_pauli : ∀ x1 z1 x2 z2 : Bool, ∀ i j : Fin 2,
    mul2 (sigma x1 z1) (sigma x2 z2) i j
      = ipow (exponent x1 z1 x2 z2) * sigma (x1 ^^ x2) (z1 ^^ z2) i j := by decide +kernel

/-- for every register size: the exponent sum is odd exactly when the two strings anticommute. -/
theorem T12_exponent_parity (n : Nat) (a b : Row) : expSum n a b % 2 = b2i (symp n a b) :=
  expSum_parity n a b

/-- so for commuting rows the quantity tested by `_rowsum` is `0` or `2` modulo 4. -/
theorem T12_rowsum_phase_welldefined (n : Nat) (a b : Row) (h : symp n a b = false) :
    (2 * b2i b.r + 2 * b2i a.r + expSum n a b) % 4 = 0 ∨
    (2 * b2i b.r + 2 * b2i a.r + expSum n a b) % 4 = 2 := by
  have hp := expSum_parity n a b
  rw [h] at hp
  have hp' : expSum n a b % 2 = 0 := by simpa [b2i] using hp
  have ha : b2i a.r = 0 ∨ b2i a.r = 1 := by cases a.r <;> simp [b2i]
  have hb : b2i b.r = 0 ∨ b2i b.r = 1 := by cases b.r <;> simp [b2i]
  omega

/-- `rowsum` preserves the commutation structure: the product commutes with `c` iff an even
number of its factors anticommute with `c`. -/
theorem T12_symp_rowsum (n m : Nat) (a b c : Row) :
    symp n (rowsum m a b) c = (symp n a c ^^ symp n b c) ∧
    symp n c (rowsum m a b) = (symp n c a ^^ symp n c b) :=
  ⟨symp_rowsum_left n m a b c, symp_rowsum_right n m a b c⟩

/-! ### commutation structure under gates: any register size, any circuit -/

/-- every gate update on valid qubits preserves commutation / anticommutation of any two rows. -/
theorem T12_symp_gate (n : Nat) (g : Gate) (hg : g.ok n) (a b : Row) :
    symp n (g.act a) (g.act b) = symp n a b := sympInv_gate n g hg a b

/-- the zero state satisfies the tableau invariant … -/
theorem T12_valid_zero_state (n : Nat) : Valid n (zeroState n) := valid_zeroState n

/-- … and every circuit of gates on valid qubits keeps it, from any valid tableau. -/
theorem T12_valid_circuit (n : Nat) (gs : List Gate) (hg : ∀ g ∈ gs, g.ok n) (T : Tableau)
    (h : Valid n T) : Valid n (runGates gs T) := valid_runGates n gs hg T h

/-- in particular for every executed circuit: stabilisers pairwise commute and destabiliser `i`
anticommutes with stabiliser `i` only. -/
theorem T12_valid_execution (n : Nat) (gs : List Gate) (hg : ∀ g ∈ gs, g.ok n) (i j : Nat)
    (hi : i < 2 * n) (hj : j < 2 * n) :
    symp n (getRow (runGates gs (zeroState n)) i) (getRow (runGates gs (zeroState n)) j)
      = decide (i + n = j ∨ j + n = i) :=
  (valid_runGates n gs hg _ (valid_zeroState n)).2 i j hi hj

/-! ### non-vacuity -/

/-- hypotheses of `T12_valid_circuit` are satisfiable by a circuit using every kind of gate. -/
example : ∀ g ∈ [Gate.H 0, .CNOT 0 2, .RX 1 (-37), .CRY 2 1 5, .FSWAP 1 0, .ECR 2 0, .iSWAP 0 1],
    g.ok 3 := by
  intro g hg
  simp only [List.mem_cons, List.mem_nil_iff, or_false] at hg
  rcases hg with rfl | rfl | rfl | rfl | rfl | rfl | rfl <;> simp [Gate.ok]

/-- a concrete execution: Bell pair; stabilisers are XX and ZZ with sign +. -/
example :
    let T := runGates [Gate.H 0, Gate.CNOT 0 1] (zeroState 2)
    ((getRow T 2).x 0, (getRow T 2).x 1, (getRow T 2).z 0, (getRow T 2).z 1, (getRow T 2).r)
        = (true, true, false, false, false) ∧
    ((getRow T 3).x 0, (getRow T 3).x 1, (getRow T 3).z 0, (getRow T 3).z 1, (getRow T 3).r)
        = (false, false, true, true, false) := by decide

/-- commuting rows exist (hypothesis of `T12_rowsum_phase_welldefined`): XX and ZZ. -/
example : symp 2 (row2 true false true false) (row2 false true false true) = false := by decide

/-- measuring qubit 1 of the Bell pair after qubit 0 gave `1` is determined and gives `1`. -/
example :
    let T := runGates [Gate.H 0, Gate.CNOT 0 1] (zeroState 2)
    (measure 2 T [0, 1] [true, false]).2 = [(true, true), (true, false)] := by decide

end QV.Props.C12
