/-
  C08f — the glue of `gate.decompose`: dispatch and freshness of the returned gates
  (model: QV/Model/DecomposeDispatch.lean, compared with the real code on every run).

    * `T08_controlled_returned_unchanged` : a `controlled_by` gate of a class without decomposition
                                     or with a table decomposition is returned unchanged (a rebuilt
                                     copy) — the real dispatch NEVER decomposes the bare gate and
                                     attaches the controls (cf. the phase lemma, C08d)
    * `T08_route_controlled`       : the route of a controlled gate is `unchanged` or `mcx`
    * `T08_attach_variant_differs` : the attach-controls variant (C08-9) is a different function
    * `T08_controlledBy_sem`       : `controlled_by` in the object model is `MGate.ctrl` in the
                                     simulator model
    * `T08_dispatch_fresh`         : FRESHNESS — every gate object returned by `decompose`, for every
                                     class table, template table, input object and free list, is
                                     described by its own constructor arguments
    * `T08_fresh_rebuild_eq`       : for such an object the gate its constructor arguments describe
                                     (`rebuild`: what `Gate.decompose`, `dagger`, deep copies read)
                                     IS the object
    * `T08_level2_described`       : hence the second decomposition level of every returned gate is
                                     the decomposition of the gate it describes
    * `T08_inplace_variant_stale`  : witness (C08-8): relabelling template gates in place returns
                                     objects whose second level lands on the template qubits
-/
import QV.Model.DecomposeDispatch
import QV.Proofs.XDecompose
import QV.Proofs.Controlled
set_option linter.unusedSectionVars false
set_option linter.unusedSimpArgs false
set_option linter.unusedVariables false
namespace QV.Props.C08
open QV QV.Dec

/-! ### sorted control lists -/

theorem insSorted_of_le_all (x : Nat) (l : List Nat) (h : ∀ y ∈ l, x ≤ y) : insSorted x l = x :: l := by
  cases l with
  | nil => rfl
  | cons y ys => simp [insSorted, h y List.mem_cons_self]

theorem mem_insSorted (x : Nat) (l : List Nat) (z : Nat) : z ∈ insSorted x l ↔ z = x ∨ z ∈ l :=
  by rw [(insSorted_perm x l).mem_iff, List.mem_cons]

theorem pairwise_insSorted (x : Nat) (l : List Nat) (h : l.Pairwise (· ≤ ·)) :
    (insSorted x l).Pairwise (· ≤ ·) := by
  induction l with
  | nil => simp [insSorted]
  | cons y ys ih =>
    rw [List.pairwise_cons] at h
    unfold insSorted
    split
    · rename_i hxy
      rw [List.pairwise_cons]
      refine ⟨?_, List.pairwise_cons.mpr h⟩
      intro z hz
      rcases List.mem_cons.mp hz with rfl | hz
      · exact hxy
      · exact Nat.le_trans hxy (h.1 z hz)
    · rename_i hxy
      rw [List.pairwise_cons]
      refine ⟨?_, ih h.2⟩
      intro z hz
      rcases (mem_insSorted x ys z).mp hz with rfl | hz
      · omega
      · exact h.1 z hz

theorem pairwise_srt (l : List Nat) : (srt l).Pairwise (· ≤ ·) := by
  induction l with
  | nil => simp [srt]
  | cons x xs ih => exact pairwise_insSorted x _ ih

theorem srt_of_pairwise (l : List Nat) (h : l.Pairwise (· ≤ ·)) : srt l = l := by
  induction l with
  | nil => rfl
  | cons x xs ih =>
    rw [List.pairwise_cons] at h
    show insSorted x (srt xs) = _
    rw [ih h.2, insSorted_of_le_all x xs h.1]

/-- `sorted(sorted(l)) = sorted(l)`. -/
theorem srt_idem (l : List Nat) : srt (srt l) = srt l := srt_of_pairwise _ (pairwise_srt l)

/-! ### dispatch -/

/-- **controlled gates are returned unchanged**: for a class without decomposition or with a table
    decomposition, `decompose` of a `controlled_by` gate is the one-element list holding the gate
    rebuilt from its constructor arguments with its controls — for every class table, template
    table, `use_toffolis` and free list. -/
theorem T08_controlled_returned_unchanged (K : Classes) (T : Templates) (ut : Bool) (free : List Nat)
    (o : GObj) (hcb : o.cb = true) (hf : (K o.cls).fam = .plain ∨ (K o.cls).fam = .table) :
    decompose K T ut free o = .ok [rebuild K o] := by
  rcases hf with hf | hf <;> simp [decompose, hf, tableCall, hcb]

/-- the route of a `controlled_by` gate is never the table. -/
theorem T08_route_controlled (K : Classes) (o : GObj) (hcb : o.cb = true) :
    route K o ≠ .table := by
  unfold route
  cases (K o.cls).fam <;> simp [hcb]

/-- the table route is taken exactly by uncontrolled gates of table classes. -/
theorem T08_route_table_iff (K : Classes) (o : GObj) :
    route K o = .table ↔ (K o.cls).fam = .table ∧ o.cb = false := by
  unfold route
  cases hf : (K o.cls).fam <;> cases hcb : o.cb <;> simp

/-- a small class table for the witnesses: 0 X, 1 CNOT, 2 TOFFOLI, 3 RY, 4 SX (table), 5 RX,
    6 CRY (table, one built-in control). -/
def demoK : Classes := fun c =>
  match c with
  | 0 => ⟨.xgate, 0, some 1, some 2⟩ | 1 => ⟨.selfret, 1, none, none⟩ | 2 => ⟨.selfret, 2, none, none⟩
  | 3 => ⟨.plain, 0, some 6, none⟩ | 4 => ⟨.table, 0, none, none⟩ | 6 => ⟨.table, 1, none, none⟩
  | _ => ⟨.plain, 0, none, none⟩

/-- templates: SX ↦ [RX(π/2)], CRY ↦ [RY(1), CNOT(0,1), RY(1), CNOT(0,1), RY(1)]. -/
def demoT : Templates := fun c _ =>
  match c with
  | 4 => [construct demoK 5 2 [0]]
  | 6 => [construct demoK 3 7 [1], construct demoK 1 0 [0, 1], construct demoK 3 8 [1],
          construct demoK 1 0 [0, 1], construct demoK 3 7 [1]]
  | _ => []

/-- the real dispatch keeps `SX(3).controlled_by(1)`; the attach-controls variant (C08-9) returns a
    controlled RX — a different gate list (and by `T08_controlled_sx_relative_phase` a different
    operator). -/
theorem T08_attach_variant_differs :
    decompose demoK demoT true [] (controlledBy demoK [1] (construct demoK 4 0 [3]))
      = .ok [controlledBy demoK [1] (construct demoK 4 0 [3])] ∧
    tableCallAttach demoK demoT (controlledBy demoK [1] (construct demoK 4 0 [3]))
      = [controlledBy demoK [1] (construct demoK 5 2 [3])] := by
  decide

/-! ### `controlled_by` in the object model and in the simulator model -/

end QV.Props.C08
namespace QV.Dec
/-- a gate object as a simulator gate, for an interpretation `I` of (class, parameters) as a local
    matrix on the target qubits. -/
def GObj.toM {α : Type} (I : Nat → Int → Nat → Nat → α) (o : GObj) : MGate α :=
  { mat := I o.cls o.par, targets := o.tgt, controls := o.ctl }

/-- what holds of every real gate object: `controlled_by` controls only on classes without
    built-in controls, at least one of them, not a number of them at which the class falls back to
    another class (X with 1 or 2, RY with 1, …); controls reported sorted. -/
structure GObj.Ok (K : Classes) (o : GObj) : Prop where
  nctl : o.cb = true → (K o.cls).nctl = 0
  nonempty : o.cb = true → o.ctl ≠ []
  nofb : o.cb = true → fallback K o.cls o.ctl.length = none
  sorted : srt o.ctl = o.ctl
end QV.Dec
namespace QV.Props.C08
open QV QV.Dec

/-- `controlled_by` on an uncontrolled object (outside the fall-backs X → CNOT / TOFFOLI, …) is
    `MGate.ctrl` with the sorted controls. -/
theorem T08_controlledBy_sem {α : Type} (I : Nat → Int → Nat → Nat → α) (K : Classes) (cs : List Nat)
    (g : GObj) (hne : cs ≠ []) (hx : fallback K g.cls cs.length = none) (hc : g.ctl = []) :
    (controlledBy K cs g).toM I = (g.toM I).ctrl (srt cs) := by
  have h0 : cs.isEmpty = false := by cases cs <;> simp_all
  simp [controlledBy, h0, hx, GObj.toM, MGate.ctrl, hc]

/-! ### freshness -/

theorem fresh_construct (K : Classes) (cls : Nat) (par : Int) (qs : List Nat) :
    (construct K cls par qs).fresh K = true := by
  simp [construct, GObj.fresh]

theorem ok_construct (K : Classes) (cls : Nat) (par : Int) (qs : List Nat) :
    (construct K cls par qs).Ok K :=
  ⟨by simp [construct], by simp [construct], by simp [construct], by simp [construct, srt_idem]⟩

theorem fresh_ok_controlledBy (K : Classes) (cs : List Nat) (g : GObj)
    (hf : g.fresh K = true) (hok : g.Ok K) (hcb : g.cb = false) (hn : (K g.cls).nctl = 0) :
    (controlledBy K cs g).fresh K = true ∧ (controlledBy K cs g).Ok K := by
  unfold controlledBy
  split
  · exact ⟨hf, hok⟩
  · split
    · exact ⟨fresh_construct .., ok_construct ..⟩
    · rename_i h0 h1
      have htgt : g.tgt = g.init := by
        simp only [GObj.fresh, hcb, Bool.false_eq_true, if_false, hn, List.take_zero,
          List.drop_zero, Bool.and_eq_true, beq_iff_eq] at hf
        exact hf.2
      refine ⟨by simp [GObj.fresh, htgt], ⟨fun _ => hn, ?_, ?_, by simp [srt_idem]⟩⟩
      · intro _ h
        simp only at h
        have : (srt cs).length = cs.length := length_srt cs
        rw [h] at this
        cases cs <;> simp_all
      · intro _
        simp only
        rw [length_srt]
        exact h1

theorem fresh_ok_rebuild (K : Classes) (o : GObj) (hok : o.Ok K) :
    (rebuild K o).fresh K = true ∧ (rebuild K o).Ok K := by
  unfold rebuild
  simp only
  split
  · rename_i hcb
    exact fresh_ok_controlledBy K o.ctl _ (fresh_construct ..) (ok_construct ..) (by simp [construct])
      (by simpa [construct] using hok.nctl hcb)
  · exact ⟨fresh_construct .., ok_construct ..⟩

theorem fresh_ok_onQubits (K : Classes) (m : Nat → Nat) (o : GObj) (hok : o.Ok K) :
    (onQubits K m o).fresh K = true ∧ (onQubits K m o).Ok K := by
  unfold onQubits
  split
  · rename_i hcb
    exact fresh_ok_controlledBy K _ _ (fresh_construct ..) (ok_construct ..) (by simp [construct])
      (by simpa [construct] using hok.nctl hcb)
  · exact ⟨fresh_construct .., ok_construct ..⟩

theorem fresh_ok_ofCGate (K : Classes) (g : CGate) :
    ∀ r ∈ ofCGate K g, r.fresh K = true ∧ r.Ok K := by
  intro r hr
  cases g <;> simp only [ofCGate, List.mem_cons, List.not_mem_nil, or_false] at hr
  all_goals
    first
    | (rw [hr]; exact ⟨fresh_construct .., ok_construct ..⟩)
    | (rcases hr with rfl | rfl | rfl | rfl | rfl | rfl | rfl <;>
        exact ⟨fresh_construct .., ok_construct ..⟩)

/-- **FRESHNESS of the returned gates.**  For every class table (X without built-in controls),
    every template table of well-formed objects, every well-formed input object — fresh or not —,
    both `use_toffolis` values and every free list: each gate object `decompose` returns is
    described by its own constructor arguments (`init_args` = the qubits it acts on) and is
    well formed. -/
theorem T08_dispatch_fresh (K : Classes) (hX : (K clsX).nctl = 0) (T : Templates)
    (hT : ∀ c p, ∀ g ∈ T c p, g.Ok K) (ut : Bool) (free : List Nat) (o : GObj) (hok : o.Ok K)
    (rs : List GObj) (h : decompose K T ut free o = .ok rs) :
    ∀ r ∈ rs, r.fresh K = true ∧ r.Ok K := by
  unfold decompose at h
  split at h
  · injection h with h; subst h
    intro r hr; rw [List.mem_singleton.mp hr]; exact fresh_ok_rebuild K o hok
  · injection h with h; subst h
    intro r hr; rw [List.mem_singleton.mp hr]; exact ⟨fresh_construct .., ok_construct ..⟩
  · injection h with h; subst h
    intro r hr
    unfold tableCall at hr
    split at hr
    · rw [List.mem_singleton.mp hr]; exact fresh_ok_rebuild K o hok
    · obtain ⟨g, hg, rfl⟩ := List.mem_map.mp hr
      exact fresh_ok_onQubits K _ g (hT _ _ g hg)
  · simp only at h
    split_ifs at h with h1 h2
    · injection h with h; subst h
      intro r hr; rw [List.mem_singleton.mp hr]
      exact fresh_ok_controlledBy K _ _ (fresh_construct ..) (ok_construct ..) (by simp [construct])
        (by simpa [construct] using hX)
    · split at h
      · injection h with h; subst h
        intro r hr
        obtain ⟨g, _, hr⟩ := List.mem_flatMap.mp hr
        exact fresh_ok_ofCGate K g r hr
      all_goals simp at h

/-- **for a fresh object the described gate IS the object**: rebuilding it from its constructor
    arguments (what `Gate.decompose`, `dagger`, deep copies, `raw` do) changes nothing. -/
theorem T08_fresh_rebuild_eq (K : Classes) (o : GObj) (hf : o.fresh K = true) (hok : o.Ok K) :
    rebuild K o = o := by
  obtain ⟨cls, par, init, ctl, tgt, cb⟩ := o
  cases cb
  · simp only [GObj.fresh, Bool.false_eq_true, if_false, Bool.and_eq_true, beq_iff_eq] at hf
    simp [rebuild, construct, hf.1, hf.2]
  · simp only [GObj.fresh, if_true, beq_iff_eq] at hf
    have hn := hok.nctl rfl
    have hne := hok.nonempty rfl
    have hx := hok.nofb rfl
    have hs := hok.sorted
    simp only at hn hne hx hs hf
    have h0 : ctl.isEmpty = false := by cases ctl <;> simp_all
    subst hf
    simp [rebuild, construct, controlledBy, h0, hn, hs, hx]

/-- **second decomposition level**: for every gate object returned by `decompose`, decomposing
    it again is decomposing the gate its constructor arguments describe. -/
theorem T08_level2_described (K : Classes) (hX : (K clsX).nctl = 0) (T : Templates)
    (hT : ∀ c p, ∀ g ∈ T c p, g.Ok K) (ut : Bool) (free : List Nat) (o : GObj) (hok : o.Ok K)
    (rs : List GObj) (h : decompose K T ut free o = .ok rs) (r : GObj) (hr : r ∈ rs)
    (ut' : Bool) (free' : List Nat) :
    decompose K T ut' free' r = decompose K T ut' free' (rebuild K r) := by
  obtain ⟨hf, hk⟩ := T08_dispatch_fresh K hX T hT ut free o hok rs h r hr
  rw [T08_fresh_rebuild_eq K r hf hk]

/-- non-vacuity: the demo tables satisfy the hypotheses and `CRY(3,2)` decomposes. -/
example : (demoK clsX).nctl = 0 ∧ (∀ c p, ∀ g ∈ demoT c p, g.Ok demoK) ∧
    (construct demoK 6 9 [3, 2]).Ok demoK ∧
    ∃ rs, decompose demoK demoT true [] (construct demoK 6 9 [3, 2]) = .ok rs := by
  refine ⟨rfl, ?_, ok_construct .., _, rfl⟩
  intro c p g hg
  unfold demoT at hg
  split at hg
  · rw [List.mem_singleton.mp hg]; exact ok_construct ..
  · simp only [List.mem_cons, List.not_mem_nil, or_false] at hg
    rcases hg with rfl | rfl | rfl | rfl | rfl <;> exact ok_construct ..
  · simp at hg

/-- **witness (seeded change C08-8)**: with the template gates relabelled in place,
    `CRY(3,2).decompose()` returns an RY that acts on qubit 2 but whose constructor arguments say
    qubit 1; it is not fresh, and its second level (`Gate.decompose` = rebuild) acts on the
    template qubit 1 — whereas the real route returns a fresh RY on qubit 2. -/
theorem T08_inplace_variant_stale :
    (tableCallInPlace demoK demoT (construct demoK 6 9 [3, 2])).head?.map (fun r => (r.tgt, r.init, r.fresh demoK))
      = some ([2], [1], false) ∧
    (tableCallInPlace demoK demoT (construct demoK 6 9 [3, 2])).head?.map (fun r => (rebuild demoK r).tgt)
      = some [1] ∧
    (tableCall demoK demoT (construct demoK 6 9 [3, 2])).head?.map (fun r => (r.tgt, r.init, (rebuild demoK r).tgt))
      = some ([2], [2], [2]) := by
  decide

end QV.Props.C08
