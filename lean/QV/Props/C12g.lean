/-
  C12 (part g) — the second tableau → circuit algorithm, `Clifford.to_circuit("BM20")`
  (Bravyi–Maslov, `nqubits ≤ 3`): whenever it returns a circuit, the circuit reproduces the
  tableau, hence the state.

  Model: `toCircuitBM20` in QV/Model/CliffordSynth.lean (transliteration of
  `_decomposition_BM20`, `_cnot_cost`, `_cnot_cost2`, `_cnot_cost3`, `_rank_2`, `_reduce_cost`); on
  every run its gate list is compared with the real one (exhaustively for `n = 2` in the thorough
  tier).  `none` stands for an exception (`ValueError` for `n > 3`, `RuntimeError("Failed to reduce
  CNOT cost.")`).

  The proof does not need the cost functions to be the true CNOT cost: it uses only that
  (a) every pass of `_reduce_cost` applies to the copy what it records in `inverse_circuit`
  (`T12_bm20_reduce_step`, `T12_bm20_loop`; the recorded `H, S` equals the applied
  `SDG, H, SDG, H` as a tableau update), (b) the loop ends with cost 0 and cost 0 implies that rows
  `q`, `n + q` live on qubit `q` (`T12_bm20_cost_zero_local`, proved for `_cnot_cost2` from the
  Aaronson–Gottesman invariant and for `_cnot_cost3` from its decision list), (c) the single-qubit
  decompositions rebuild such a tableau (`T12_bm20_local_part`).  What is NOT proved is that the
  loop always finds a reducing candidate (exactness of the cost functions, the content of the
  Bravyi–Maslov paper): `BM20Total` below, checked on the real code on every run.
-/
import QV.Props.C12f
import QV.Proofs.CliffordSynthBM
namespace QV.Props.C12
open QV QV.Cliff

/-- one successful `_reduce_cost`: the reduced tableau is the current one conjugated by the gates
appended to `inverse_circuit` (valid qubits), and its cost is one less. -/
theorem T12_bm20_reduce_step (cost : Tableau → Nat) (n : Nat) (T : Tableau) (c : Nat) (R : Tableau)
    (gs : List Gate) (h : reduceCost cost n T c = some (R, gs)) :
    R = runGates gs T ∧ (∀ g ∈ gs, g.ok n ∧ g.isAG = true) ∧ cost R + 1 = c :=
  reduceCost_spec cost n T c R gs h

/-- the `while cnot_cost > 0` loop. -/
theorem T12_bm20_loop (cost : Tableau → Nat) (n : Nat) (T : Tableau) (F : Tableau) (inv : List Gate)
    (h : bmLoop cost n (cost T) T [] = some (F, inv)) :
    F = runGates inv T ∧ (∀ g ∈ inv, g.ok n ∧ g.isAG = true) ∧ cost F = 0 := by
  obtain ⟨gs, e1, e2, e3, e4⟩ := bmLoop_spec cost n (cost T) T [] F inv rfl h
  rw [List.nil_append] at e1
  subst e1
  exact ⟨e2, e3, e4⟩

/-- cost 0 (qibo's `_cnot_cost2` / `_cnot_cost3`) ⟹ the tableau is a product of one-qubit ones. -/
theorem T12_bm20_cost_zero_local (n : Nat) (hn : n = 2 ∨ n = 3) (F : Tableau) (hv : Valid n F)
    (h : cnotCost n F = 0) : Local n F := cnotCost_zero_local n hn F hv h

/-- the re-targeted single-qubit decompositions rebuild a valid local tableau (any `n`). -/
theorem T12_bm20_local_part (n : Nat) (F : Tableau) (hv : Valid n F) (hl : Local n F) :
    TabEq n (runGates (bmLocalPart n F) (zeroState n)) F := (localPart_spec n F hv hl).2

/-- the algorithm with ANY cost function for which cost 0 implies locality. -/
theorem T12_bm20_any_cost (cost : Tableau → Nat) (n : Nat)
    (hcost : ∀ F, Valid n F → cost F = 0 → Local n F) (T : Tableau) (hv : Valid n T)
    (gs : List Gate) (h : bm20With cost n T = some gs) :
    (∀ g ∈ gs, g.ok n) ∧ TabEq n (runGates gs (zeroState n)) T :=
  bm20With_spec cost n hcost T hv gs h

/-- **`to_circuit("BM20")` either raises or reproduces the tableau** (every `n`, every valid
tableau): the returned circuit names valid qubits and, executed on the zero state, gives back all
`2n` rows, signs included. -/
theorem T12_bm20_reproduces_tableau (n : Nat) (T : Tableau) (hv : Valid n T) (gs : List Gate)
    (h : toCircuitBM20 n T = some gs) :
    (∀ g ∈ gs, g.ok n) ∧ TabEq n (runGates gs (zeroState n)) T := toCircuitBM20_spec n T hv gs h

/-- … hence the state: every stabiliser row of the tableau fixes the state vector of the circuit. -/
theorem T12_bm20_reproduces_state (n : Nat) (T : Tableau) (hv : Valid n T) (gs : List Gate)
    (h : toCircuitBM20 n T = some gs) (i : Nat) (hi : i < n) :
    pauliOp n (getRow T (n + i)) (runSV n gs) = runSV n gs := by
  obtain ⟨hok, hE⟩ := toCircuitBM20_spec n T hv gs h
  rw [← pauliOp_congr n (hE (n + i) (by omega))]
  exact T12_stabilizer_state n _ hok i hi

/-- both algorithms agree on the tableau they prepare (whenever BM20 returns). -/
theorem T12_to_circuit_algorithms_agree (n : Nat) (T : Tableau) (hv : Valid n T) (gs : List Gate)
    (h : toCircuitBM20 n T = some gs) :
    TabEq n (runGates gs (zeroState n)) (runGates (toCircuitAG04 n T) (zeroState n)) := fun m hm =>
  ((toCircuitBM20_spec n T hv gs h).2 m hm).trans ((toCircuit_spec n T hv).2 m hm).symm

/-- NOT proved: the loop always finds a candidate that lowers the cost, i.e. BM20 never raises for
`n = 2, 3` (exactness of the cost functions).  Compared with the real code on every run. -/
def BM20Total : Prop :=
  ∀ (n : Nat), n = 2 ∨ n = 3 → ∀ T : Tableau, Valid n T → ∃ gs, toCircuitBM20 n T = some gs

/-! ### non-vacuity / instances -/

/-- the hypothesis "BM20 returns" is satisfiable: the tableau of `H(0) · CNOT(0,1) · S(1)` has
cost 1 and is synthesised with one CNOT (fifth gate) … -/
example :
    let T := runGates [Gate.H 0, Gate.CNOT 0 1, Gate.S 1] (zeroState 2)
    cnotCost 2 T = 1 ∧
      (toCircuitBM20 2 T).map (fun gs => gs.map Gate.qubits) = some [[0], [1], [1], [1], [0, 1], [1], [1]] := by decide

/-- … and a 3-qubit tableau of cost 2. -/
example :
    let T := runGates [Gate.H 0, Gate.CNOT 0 1, Gate.CNOT 1 2] (zeroState 3)
    cnotCost 3 T = 2 ∧ (toCircuitBM20 3 T).isSome = true := by decide

/-- `n > 3` is refused. -/
example : toCircuitBM20 4 (zeroState 4) = none := rfl

/-- `Local` is satisfiable and is what cost 0 says: the tableau of `H(0) · S(1)`. -/
example : cnotCost 2 (runGates [Gate.H 0, Gate.S 1] (zeroState 2)) = 0 := by decide

/-- teeth of `T12_bm20_any_cost`: with the cost function "always 0" (cost 0 does NOT imply
locality) the algorithm returns a circuit that does not reproduce the Bell tableau. -/
example :
    let T := runGates [Gate.H 0, Gate.CNOT 0 1] (zeroState 2)
    let T' := runGates ((bm20With (fun _ => 0) 2 T).getD []) (zeroState 2)
    (bm20With (fun _ => 0) 2 T).isSome = true ∧
    ((getRow T' 2).x 0, (getRow T' 2).x 1, (getRow T' 2).z 0, (getRow T' 2).z 1)
      ≠ ((getRow T 2).x 0, (getRow T 2).x 1, (getRow T 2).z 0, (getRow T 2).z 1) := by decide

end QV.Props.C12
