/-
  C10c — semantic preservation of the unroller, instantiated with the generated table facts.

  `T10_circuit_phase` (QV/Props/C10.lean) needs `TablesOK`, which quantifies over ALL `UGate`s
  (also ill-formed ones) and over an abstract `sem`.  Here the chain is restated over the
  relativised hypothesis `TablesOKOn K` (QV/Proofs/UnrollerOn.lean) with
  `K = WellPlaced ar` (no `controlled_by` controls, duplicate-free qubits, as many as the class's
  arity), `K` is shown to be closed under the tables' outputs, and the per-entry hypothesis is
  exactly what the generated corollaries `C10_entry_*_single` / `C10_entries_phaseEq`
  (QV/Gen/C10_Sem.lean) provide.

    * `T10_gate_phase_on`, `T10_circuit_phase_on`  : the chain over `TablesOKOn K` + `KClosed K`
    * `T10_wellPlaced_placed`                       : well-placed ⇒ `Placed Template` (C10b)
    * `semCls cm ρ`                                 : CONCRETE semantics: class ↦ traced class matrix
                                                      `cm cls`, tag ↦ parameter values `ρ tag`
    * `Faithful rows ar cm ρ T`                     : every row of `T` is an instance of a traced row
                                                      (the shape `T10_entry_of_obligation` asks for)
    * `T10_hg_generic`                              : for the generic (no special-value branch) traced
                                                      rows the key-gate half of `Faithful` is automatic
    * `T10_kclosed_of_faithful`, `T10_tablesOKOn_of_rows`
    * `T10_circuit_phase_placed`                    : every well-formed circuit, native set, fuel:
                                                      unrolled = unit-modulus scalar · input
    * `T10_unroll_circuit_of_rows`                  : … and only native gates (what the generated
                                                      `C10_unroll_circuit` instantiates)
-/
import QV.Props.C10b
import QV.Proofs.UnrollerOn
set_option linter.unusedSectionVars false
namespace QV.Props.C10
open QV QV.Unroll

/-! ### the relativised chain -/

section On
variable {α : Type} [CommSemiring α]

/-- `T10_gate_phase` with the table hypothesis asked only of the gates of `K` (closed under the
    tables' outputs): re-translation and the iSWAP recursion never leave `K`. -/
theorem T10_gate_phase_on (P : Submonoid α) (sem : UGate → MGate α) (T : Tables) (nat : Natives)
    (K : UGate → Prop) (hT : TablesOKOn P sem T K) (hK : KClosed T K) (fuel : Nat) (g : UGate)
    (hg : passThrough g.cls = true ∨ K g) (out : List UGate)
    (h : translate T nat fuel g = some out) : PhaseEq P (out.map sem) [sem g] :=
  translateAux_phase_on hT hK fuel false g out hg h

/-- what `translate_gate` returns for a `K` gate are `K` gates. -/
theorem T10_gate_stays_in (T : Tables) (nat : Natives) (K : UGate → Prop) (hK : KClosed T K)
    (fuel : Nat) (g : UGate) (hg : K g) (out : List UGate)
    (h : translate T nat fuel g = some out) : ∀ y ∈ out, K y :=
  translateAux_K hK fuel false g out hg h

/-- `T10_circuit_phase` relativised. -/
theorem T10_circuit_phase_on (P : Submonoid α) (sem : UGate → MGate α) (T : Tables)
    (nat : Natives) (K : UGate → Prop) (hT : TablesOKOn P sem T K) (hK : KClosed T K) (fuel : Nat)
    (gs out : List UGate) (hgs : ∀ g ∈ gs, passThrough g.cls = true ∨ K g)
    (h : unroll T nat fuel gs = some out) : PhaseEq P (out.map sem) (gs.map sem) :=
  unroll_phase_on hT hK fuel gs out hgs h

/-- the old theorem is the case `K = everything`. -/
theorem T10_circuit_phase_of_on (P : Submonoid α) (sem : UGate → MGate α) (T : Tables)
    (nat : Natives) (hT : TablesOK P sem T) (fuel : Nat) (gs out : List UGate)
    (h : unroll T nat fuel gs = some out) : PhaseEq P (out.map sem) (gs.map sem) :=
  T10_circuit_phase_on P sem T nat (fun _ => True) ((tablesOK_iff_on_all P sem T).mp hT)
    (fun _ _ _ _ _ _ _ _ => trivial) fuel gs out (fun _ _ => Or.inr trivial) h

/-- a well-placed gate is a placed template gate in the sense of C10b. -/
theorem T10_wellPlaced_placed (ar : Nat → Option Nat) (g : UGate) (hg : WellPlaced ar g) :
    Placed (Template ar) g := by
  obtain ⟨g0, σ, τ, h0, h1, h2, e⟩ := wellPlaced_is_relabelled_template hg
  exact Or.inr ⟨g0, σ, τ, h0, h1, h2, e⟩

/-- correctness of the table calls on the TEMPLATE gates (qubits `0 … k-1`) gives
    `TablesOKOn (WellPlaced ar)`: every well-placed gate is a relabelled template. -/
theorem T10_tablesOKOn_of_templates (P : Submonoid α) (sem : UGate → MGate α)
    (hsem : ∀ (σ : Nat → Nat) (x : UGate), sem (x.relabel σ) = (sem x).relabel σ)
    (T : Tables) (ar : Nat → Option Nat)
    (h0 : ∀ t ∈ [T.gpi2, T.u3, T.cz, T.iswap, T.opt, T.cnot], ∀ g0, Template ar g0 → ∀ d0,
      Table.call t g0 = some d0 → PhaseEq P (d0.map sem) [sem g0]) :
    TablesOKOn P sem T (WellPlaced ar) :=
  fun t ht g hg d hd =>
    T10_tablesOK_on_placed P sem hsem T (Template ar) h0 t ht g (T10_wellPlaced_placed ar g hg) d hd

end On

/-! ### concrete semantics and the instance hypothesis -/

/-- class matrices from a generated association list `(class id, traced matrix)`. -/
def cmOf (l : List (Nat × List (List Ex))) (c : Nat) : List (List Ex) :=
  ((l.find? fun p => p.1 == c).map (·.2)).getD []

/-- arities from a generated association list `(class id, number of qubits)`. -/
def arOf (l : List (Nat × Nat)) (c : Nat) : Option Nat :=
  (l.find? fun p => p.1 == c).map (·.2)

/-- CONCRETE semantics of dispatch-level gates: the local matrix is the traced class matrix
    `cm cls` evaluated at the parameter values `ρ tag` the tag stands for; the gate's qubits are
    its ordered targets. -/
noncomputable def semCls (cm : Nat → List (List Ex)) (ρ : Nat → Nat → ℝ) : UGate → MGate ℂ :=
  semOf fun c t => denoteEntry (ρ t) (cm c)

theorem T10_semCls_natural (cm : Nat → List (List Ex)) (ρ : Nat → Nat → ℝ) (σ : Nat → Nat)
    (x : UGate) : semCls cm ρ (x.relabel σ) = (semCls cm ρ x).relabel σ :=
  T10_semOf_natural _ σ x

/-- a traced row: table index (`gpi2, u3, cz, iswap, opt, cnot` = `0 … 5`), class id, the entry
    obligation. -/
abbrev Row := Nat × Nat × Ob

/-- kernel-decided shape of a traced row: well-formed layout, one gate on the right, arity. -/
def rowShape (ar : Nat → Option Nat) (r : Row) : Bool :=
  r.2.2.singleShape && (ar r.2.1 == some r.2.2.n)

/-- what the generated file proves of every traced row (`C10_rows_ok`). -/
def RowOK (ar : Nat → Option Nat) (r : Row) : Prop :=
  r.2.2.SingleStmt ∧ rowShape ar r = true

/-- kernel-decided: the right-hand gate of a generic traced row is the class matrix on the
    template qubits `0 … n-1` (no controls, no dagger flag). -/
def rowGeneric (cm : Nat → List (List Ex)) (r : Row) : Bool :=
  (r.2.2.refGate.mat == cm r.2.1) && (r.2.2.refGate.targets == List.range r.2.2.n) &&
    (r.2.2.refGate.controls == []) && !r.2.2.refGate.dagger

/-- **instance hypothesis** (modelling assumption, stated once): every row of every table of `T`
    is an instance of a traced row of the same table and class at some parameter values `θ`
    (`θ = ρ tag` in the intended reading): the emitted gates and the key gate on the template
    qubits are read by `semCls` as the traced matrices at `θ` — the hypotheses `hd`, `hg` of
    `T10_entry_of_obligation` — and the emitted gates carry no `controlled_by` controls and have
    the arity of their class. -/
def Faithful (rows : List Row) (ar : Nat → Option Nat) (cm : Nat → List (List Ex))
    (ρ : Nat → Nat → ℝ) (T : Tables) : Prop :=
  ∀ (i : Nat) (t : Table), [T.gpi2, T.u3, T.cz, T.iswap, T.opt, T.cnot][i]? = some t →
    ∀ c tag d, t.has c = true → t.entry c tag = some d →
      ∃ (o : Ob) (θ : Nat → ℝ), (i, c, o) ∈ rows ∧
        d.map (semCls cm ρ) = o.ls.map (SGate.toMGate θ) ∧
        semCls cm ρ ⟨c, List.range o.n, tag, false⟩ = o.refGate.toMGate θ ∧
        ∀ x ∈ d, x.cb = false ∧ ar x.cls = some x.qubits.length

/-- for a generic traced row the key-gate half of `Faithful` holds by construction of `semCls`,
    with `θ = ρ tag`. -/
theorem T10_hg_generic (cm : Nat → List (List Ex)) (ρ : Nat → Nat → ℝ) (r : Row)
    (h : rowGeneric cm r = true) (tag : Nat) :
    semCls cm ρ ⟨r.2.1, List.range r.2.2.n, tag, false⟩ = r.2.2.refGate.toMGate (ρ tag) := by
  simp only [rowGeneric, Bool.and_eq_true, beq_iff_eq, Bool.not_eq_true'] at h
  obtain ⟨⟨⟨h1, h2⟩, h3⟩, h4⟩ := h
  simp only [semCls, semOf, SGate.toMGate, SGate.locMat, h4, h1, h2, h3]
  rfl

/-- `Faithful` without its key-gate half, at `θ = ρ tag`: what remains to be assumed of a table
    whose rows are instances of GENERIC traced rows. -/
def FaithfulGeneric (rows : List Row) (ar : Nat → Option Nat) (cm : Nat → List (List Ex))
    (ρ : Nat → Nat → ℝ) (T : Tables) : Prop :=
  ∀ (i : Nat) (t : Table), [T.gpi2, T.u3, T.cz, T.iswap, T.opt, T.cnot][i]? = some t →
    ∀ c tag d, t.has c = true → t.entry c tag = some d →
      ∃ o : Ob, (i, c, o) ∈ rows ∧
        d.map (semCls cm ρ) = o.ls.map (SGate.toMGate (ρ tag)) ∧
        ∀ x ∈ d, x.cb = false ∧ ar x.cls = some x.qubits.length

/-- for rows that pass the kernel check `rowGeneric` (generated: `C10_rowsGeneric_ok`) the key-gate
    half of `Faithful` need not be assumed. -/
theorem T10_faithful_of_generic (rows : List Row) (ar : Nat → Option Nat)
    (cm : Nat → List (List Ex)) (ρ : Nat → Nat → ℝ) (T : Tables)
    (hgen : rows.all (rowGeneric cm) = true) (hF : FaithfulGeneric rows ar cm ρ T) :
    Faithful rows ar cm ρ T := by
  intro i t hi c tag d hh he
  obtain ⟨o, hm, hd, hx⟩ := hF i t hi c tag d hh he
  have hg := T10_hg_generic cm ρ (i, c, o) (List.all_eq_true.mp hgen _ hm) tag
  exact ⟨o, ρ tag, hm, hd, hg, hx⟩

theorem rows_wf {rows : List Row} {ar : Nat → Option Nat} (hrows : ∀ r ∈ rows, RowOK ar r)
    {i c : Nat} {o : Ob} (hm : (i, c, o) ∈ rows) :
    o.SingleStmt ∧ ar c = some o.n ∧ ∀ s ∈ o.ls, s.WF o.n := by
  obtain ⟨h1, h2⟩ := hrows _ hm
  simp only [rowShape, Ob.singleShape, Bool.and_eq_true, beq_iff_eq] at h2
  exact ⟨h1, h2.2, (Ob.wf_sound h2.1.1).1⟩

/-- the emitted gates of a faithful row sit on the traced template qubits. -/
theorem faithful_qubits {cm : Nat → List (List Ex)} {ρ : Nat → Nat → ℝ} {d : List UGate} {o : Ob}
    {θ : Nat → ℝ} (hd : d.map (semCls cm ρ) = o.ls.map (SGate.toMGate θ)) {x : UGate}
    (hx : x ∈ d) : ∃ s ∈ o.ls, s.targets = x.qubits := by
  have h := congrArg (List.map (fun m : MGate ℂ => m.targets)) hd
  simp only [List.map_map] at h
  have hx' : x.qubits ∈ d.map ((fun m : MGate ℂ => m.targets) ∘ semCls cm ρ) :=
    List.mem_map.mpr ⟨x, hx, rfl⟩
  rw [h] at hx'
  obtain ⟨s, hs, e⟩ := List.mem_map.mp hx'
  exact ⟨s, hs, e⟩

/-- `WellPlaced` is closed under the outputs of faithful tables. -/
theorem T10_kclosed_of_faithful (rows : List Row) (ar : Nat → Option Nat)
    (cm : Nat → List (List Ex)) (ρ : Nat → Nat → ℝ) (T : Tables)
    (hrows : ∀ r ∈ rows, RowOK ar r) (hF : Faithful rows ar cm ρ T) :
    KClosed T (WellPlaced ar) := by
  intro t ht g hg out hc
  obtain ⟨i, hi⟩ := List.getElem?_of_mem ht
  refine call_wellPlaced (fun c tag d hh he x hx => ?_) hg hc
  obtain ⟨o, θ, hm, hd, _, hx2⟩ := hF i t hi c tag d hh he
  obtain ⟨_, _, hwf⟩ := rows_wf hrows hm
  obtain ⟨s, hs, e⟩ := faithful_qubits hd hx
  exact ⟨(hx2 x hx).1, e ▸ (hwf s hs).tn, (hx2 x hx).2⟩

/-- the generated per-entry facts give `TablesOKOn` for the well-placed gates. -/
theorem T10_tablesOKOn_of_rows (rows : List Row) (ar : Nat → Option Nat)
    (cm : Nat → List (List Ex)) (ρ : Nat → Nat → ℝ) (T : Tables)
    (hrows : ∀ r ∈ rows, RowOK ar r) (hF : Faithful rows ar cm ρ T) :
    TablesOKOn unitPhases (semCls cm ρ) T (WellPlaced ar) := by
  refine T10_tablesOKOn_of_templates unitPhases (semCls cm ρ) (T10_semCls_natural cm ρ) T ar ?_
  intro t ht g0 hg0 d0 hc
  obtain ⟨i, hi⟩ := List.getElem?_of_mem ht
  obtain ⟨hcb, k, hk, hq⟩ := hg0
  obtain ⟨d, hh, he, hm⟩ := call_some' hcb hc
  obtain ⟨o, θ, hmem, hd, hg, _⟩ := hF i t hi g0.cls g0.tag d hh he
  obtain ⟨hs, hn, hwf⟩ := rows_wf hrows hmem
  have hkn : k = o.n := by rw [hk] at hn; exact Option.some.inj hn
  have hdd : d0 = d := by
    rw [hq, hkn, mapM_place_range o.n d (fun x hx q hq' => by
      obtain ⟨s, hs', e⟩ := faithful_qubits hd hx
      exact (hwf s hs').tlt q (e ▸ hq'))] at hm
    exact (Option.some.inj hm).symm
  have hg0e : g0 = ⟨g0.cls, List.range o.n, g0.tag, false⟩ := by
    cases g0
    simp only at hq hcb ⊢
    rw [hq, hkn, hcb]
  rw [hdd, hg0e]
  exact T10_entry_of_obligation o (T10_entryPhaseEq_of_single o hs) θ _ _ d hd hg

/-! ### end to end -/

/-- **semantic preservation on well-formed circuits**: for every table set whose rows are
    instances of the traced rows, every circuit of pass-through gates and well-placed gates,
    every native set and recursion depth, the unrolled circuit acts as the input up to ONE
    unit-modulus scalar, on every state of every register.  The per-entry hypothesis `hrows` is
    what `C10_rows_ok` (generated, from `C10_entry_*_single`) states. -/
theorem T10_circuit_phase_placed (rows : List Row) (ar : Nat → Option Nat)
    (cm : Nat → List (List Ex)) (hrows : ∀ r ∈ rows, RowOK ar r) (T : Tables)
    (ρ : Nat → Nat → ℝ) (hF : Faithful rows ar cm ρ T) (nat : Natives) (fuel : Nat)
    (gs out : List UGate) (hgs : ∀ g ∈ gs, passThrough g.cls = true ∨ WellPlaced ar g)
    (h : unroll T nat fuel gs = some out) :
    PhaseEq unitPhases (out.map (semCls cm ρ)) (gs.map (semCls cm ρ)) :=
  T10_circuit_phase_on unitPhases (semCls cm ρ) T nat (WellPlaced ar)
    (T10_tablesOKOn_of_rows rows ar cm ρ T hrows hF)
    (T10_kclosed_of_faithful rows ar cm ρ T hrows hF) fuel gs out hgs h

/-- spelled out, with the "only native gates" half (closure of the tables under `nat`). -/
theorem T10_unroll_circuit_of_rows (rows : List Row) (ar : Nat → Option Nat)
    (cm : Nat → List (List Ex)) (hrows : ∀ r ∈ rows, RowOK ar r) (T : Tables)
    (ρ : Nat → Nat → ℝ) (hF : Faithful rows ar cm ρ T) (nat : Natives) (hC : Closed T nat)
    (fuel : Nat) (gs out : List UGate)
    (hgs : ∀ g ∈ gs, passThrough g.cls = true ∨ WellPlaced ar g)
    (h : unroll T nat fuel gs = some out) :
    (∃ c : ℂ, ‖c‖ = 1 ∧ ∀ (ψ : Lab → ℂ) (x : Lab),
      runCircuit (out.map (semCls cm ρ)) ψ x = c * runCircuit (gs.map (semCls cm ρ)) ψ x) ∧
    (∀ y ∈ out, isNative nat y.cls = true ∨ (y ∈ gs ∧ passThrough y.cls = true)) ∧
    (∀ y ∈ out, passThrough y.cls = true ∨ WellPlaced ar y) := by
  refine ⟨?_, T10_unroll_only_native T nat hC fuel gs out h, ?_⟩
  · obtain ⟨c, hc, e⟩ := T10_circuit_phase_placed rows ar cm hrows T ρ hF nat fuel gs out hgs h
    exact ⟨c, hc, e⟩
  · have hK := T10_kclosed_of_faithful rows ar cm ρ T hrows hF
    refine flatMapM_forall (fun y => passThrough y.cls = true ∨ WellPlaced ar y)
      (fun g hg p hp y hy => ?_) h
    rcases hgs g hg with hp' | hk
    · cases fuel with
      | zero => simp [translate, translateAux] at hp
      | succ f =>
        simp [translate, translateAux, hp'] at hp
        subst hp
        simp at hy
        subst hy
        exact Or.inl hp'
    · exact Or.inr (T10_gate_stays_in T nat (WellPlaced ar) hK fuel g hk p hp y hy)

/-! ### non-vacuity -/

/-- the hand-written entry of C10b (`Z ↦ [U3(0, 0, π)]`) as a traced row of the `u3` table. -/
def demoRows : List Row := [(1, 1, demoEntry)]
def demoAr : Nat → Option Nat := arOf [(1, 1), (5, 1)]
def demoCm : Nat → List (List Ex) :=
  cmOf [(1, demoEntry.refGate.mat), (5, (demoEntry.ls.headD default).mat)]
/-- the one-row table set: `u3_dec = {Z ↦ [U3 (tag 7)]}`, every other table empty. -/
def demoT : Tables :=
  ⟨⟨fun _ => false, fun _ _ => none⟩,
   ⟨fun c => c == 1, fun _ _ => some [⟨5, [0], 7, false⟩]⟩,
   ⟨fun _ => false, fun _ _ => none⟩, ⟨fun _ => false, fun _ _ => none⟩,
   ⟨fun _ => false, fun _ _ => none⟩, ⟨fun _ => false, fun _ _ => none⟩⟩

theorem demoRows_ok : ∀ r ∈ demoRows, RowOK demoAr r := by
  intro r hr
  simp only [demoRows, List.mem_singleton] at hr
  subst hr
  exact ⟨Ob.singleStmt_of_check demoEntry demoEntry_shape demoEntry_check, by decide +kernel⟩

example : rowGeneric demoCm (1, 1, demoEntry) = true := by decide +kernel

theorem demo_faithful (θ0 : Nat → ℝ) : Faithful demoRows demoAr demoCm (fun _ => θ0) demoT := by
  intro i t hi c tag d hh he
  have hi' : i = 1 ∧ t = demoT.u3 := by
    match i, hi with
    | 0, hi => simp [demoT] at hi; subst hi; simp at hh
    | 1, hi => simp [demoT] at hi; exact ⟨rfl, by simp [demoT, hi]⟩
    | 2, hi => simp [demoT] at hi; subst hi; simp at hh
    | 3, hi => simp [demoT] at hi; subst hi; simp at hh
    | 4, hi => simp [demoT] at hi; subst hi; simp at hh
    | 5, hi => simp [demoT] at hi; subst hi; simp at hh
    | n + 6, hi => simp at hi
  obtain ⟨rfl, rfl⟩ := hi'
  simp only [demoT, beq_iff_eq] at hh he
  subst hh
  simp only [Option.some.injEq] at he
  subst he
  refine ⟨demoEntry, θ0, by simp [demoRows], ?_, ?_, ?_⟩
  · rfl
  · exact T10_hg_generic demoCm (fun _ => θ0) (1, 1, demoEntry) (by decide +kernel) tag
  · intro x hx
    simp only [List.mem_singleton] at hx
    subst hx
    exact ⟨rfl, by decide⟩

/-- `T10_circuit_phase_placed` is not vacuous: `Z` on qubit 4, a measurement, `Z` on qubit 2 unroll
    under U3 | CZ natives to `U3(4) M U3(2)`, and the theorem applies. -/
example (θ0 : Nat → ℝ) :
    let ρ : Nat → Nat → ℝ := fun _ => θ0
    let gs : List UGate := [⟨1, [4], 0, false⟩, ⟨3, [0, 4], 0, false⟩, ⟨1, [2], 3, false⟩]
    let out : List UGate := [⟨5, [4], 7, false⟩, ⟨3, [0, 4], 0, false⟩, ⟨5, [2], 7, false⟩]
    unroll demoT 96 3 gs = some out ∧
      PhaseEq unitPhases (out.map (semCls demoCm ρ)) (gs.map (semCls demoCm ρ)) := by
  intro ρ gs out
  have h : unroll demoT 96 3 gs = some out := by decide
  refine ⟨h, T10_circuit_phase_placed demoRows demoAr demoCm demoRows_ok demoT ρ
    (demo_faithful θ0) 96 3 gs out (fun g hg => ?_) h⟩
  simp only [gs, List.mem_cons, List.not_mem_nil, or_false] at hg
  rcases hg with rfl | rfl | rfl
  · exact Or.inr ⟨rfl, by simp, by decide⟩
  · exact Or.inl (by decide)
  · exact Or.inr ⟨rfl, by simp, by decide⟩

/-- `TablesOKOn` / `KClosed` are satisfiable beyond the trivial `K`. -/
example (θ0 : Nat → ℝ) :
    TablesOKOn unitPhases (semCls demoCm fun _ => θ0) demoT (WellPlaced demoAr) ∧
      KClosed demoT (WellPlaced demoAr) :=
  ⟨T10_tablesOKOn_of_rows demoRows demoAr demoCm _ demoT demoRows_ok (demo_faithful θ0),
   T10_kclosed_of_faithful demoRows demoAr demoCm _ demoT demoRows_ok (demo_faithful θ0)⟩

/-- a gate with a repeated qubit is not well-placed: the relativisation excludes exactly the
    gates for which `TablesOK` could not be established. -/
example : ¬ WellPlaced demoAr ⟨1, [0, 0], 0, false⟩ := fun h => by
  have := h.2.1
  simp at this

end QV.Props.C10
