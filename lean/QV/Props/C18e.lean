/-
  C18e — the scalar algebra of the measures of `qibo.quantum_info`
  (`metrics.py`, `entanglement.py`, `entropies.py`): what each function does with the number(s)
  it gets from the linear-algebra part.

    * `average_gate_fidelity` / `process_fidelity` / `gate_error`:
        F_avg = (d·F_pro + 1)/(d + 1) and its inverse, bounds, strict monotonicity;
    * `infidelity`, `bures_distance` = √(2(1 − √F)), `bures_angle` = arccos √F:
        squares, end points, strict antitonicity in F on [0, 1], D_B² = 2(1 − cos D_A);
    * `meyer_wallach_entanglement` = 2(1 − (1/n) Σ_k purity_k) ∈ [0, 1] for purities in [1/2, 1];
    * `entanglement_of_formation`: x = (1 + √(max(1 − C², 0)))/2 ∈ [1/2, 1], EoF = h_b(x),
        EoF(0) = 0, EoF(1) = log_b 2 (= 1 in base 2; also for C slightly above 1: the clamp),
        0 ≤ EoF ≤ log_b 2, strictly increasing in C on [0, 1];
    * `negativity` = (‖ρ^{T_B}‖₁ − 1)/2 = minus the sum of the negative eigenvalues ≥ 0;
    * `shannon_entropy` ∈ [0, log_b n] (n = number of entries), `classical_relative_entropy` ≥ 0
        (Gibbs), with the conventions of the code (`0·log 0 = 0` = Mathlib's `Real.logb b 0 = 0`).

  Every statement is evaluated on the values returned by the real functions on each check run
  (`search_scalar_algebra` in tools/props/C18.py).
-/
import Mathlib.Analysis.SpecialFunctions.BinaryEntropy
import Mathlib.Analysis.SpecialFunctions.Log.NegMulLog
import Mathlib.Analysis.SpecialFunctions.Log.Base
import Mathlib.Analysis.SpecialFunctions.Trigonometric.Inverse
import Mathlib.Analysis.SpecialFunctions.Sqrt
import Mathlib.Analysis.SpecialFunctions.Pow.Real
import Mathlib.Analysis.MeanInequalitiesPow
import Mathlib.Analysis.Convex.SpecificFunctions.Pow
import Mathlib.Analysis.Convex.Jensen
import Mathlib.Algebra.Order.BigOperators.Group.Finset
import Mathlib.Algebra.BigOperators.Field
import Mathlib.Tactic.Linarith
import Mathlib.Tactic.Positivity
import Mathlib.Tactic.FieldSimp
import Mathlib.Tactic.Ring
import Mathlib.Tactic.NormNum
set_option linter.unusedSectionVars false
set_option linter.unusedSimpArgs false
namespace QV.Props.C18e
open Real Finset

/-! ### process fidelity ↔ average gate fidelity -/

section fid
variable {K : Type} [Field K]

/-- `average_gate_fidelity = (d·F_pro + 1)/(d + 1)` inverts to `F_pro = ((d+1)·F_avg − 1)/d`
(any field, `d ≠ 0`, `d + 1 ≠ 0`). -/
theorem T18_avg_fidelity_inverse (d F : K) (hd : d ≠ 0) (hd1 : d + 1 ≠ 0) :
    ((d + 1) * ((d * F + 1) / (d + 1)) - 1) / d = F := by
  field_simp
  ring

/-- … and the other way round. -/
theorem T18_avg_fidelity_inverse' (d A : K) (hd : d ≠ 0) (hd1 : d + 1 ≠ 0) :
    (d * (((d + 1) * A - 1) / d) + 1) / (d + 1) = A := by
  field_simp
  ring

/-- `gate_error = 1 − F_avg = d·(1 − F_pro)/(d + 1)`: the gate error is the process infidelity
scaled by `d/(d+1)`. -/
theorem T18_gate_error_relation (d F : K) (hd1 : d + 1 ≠ 0) :
    1 - (d * F + 1) / (d + 1) = d * (1 - F) / (d + 1) := by
  field_simp
  ring

end fid

/-- for `d ≥ 1` and `F_pro ∈ [0, 1]`: `1/(d+1) ≤ F_avg ≤ 1`. -/
theorem T18_avg_fidelity_bounds (d F : ℝ) (hd : 1 ≤ d) (h0 : 0 ≤ F) (h1 : F ≤ 1) :
    1 / (d + 1) ≤ (d * F + 1) / (d + 1) ∧ (d * F + 1) / (d + 1) ≤ 1 := by
  have hpos : 0 < d + 1 := by linarith
  constructor
  · apply div_le_div_of_nonneg_right _ hpos.le
    nlinarith
  · rw [div_le_one hpos]
    nlinarith

/-- `F_avg` is strictly increasing in `F_pro` (`d > 0`), hence `F_avg = 1 ↔ F_pro = 1`. -/
theorem T18_avg_fidelity_strictMono (d : ℝ) (hd : 0 < d) :
    StrictMono fun F : ℝ => (d * F + 1) / (d + 1) := by
  intro F G h
  have hpos : 0 < d + 1 := by linarith
  simp only
  apply div_lt_div_of_pos_right _ hpos
  nlinarith

theorem T18_avg_fidelity_eq_one_iff (d F : ℝ) (hd : 0 < d) :
    (d * F + 1) / (d + 1) = 1 ↔ F = 1 := by
  have hpos : (d + 1) ≠ 0 := by linarith
  rw [div_eq_one_iff_eq hpos]
  constructor
  · intro h
    have : d * (F - 1) = 0 := by linarith
    rcases mul_eq_zero.mp this with h' | h'
    · exact absurd h' hd.ne'
    · linarith
  · rintro rfl; ring

example : (1 : ℝ) ≤ 2 ∧ (0 : ℝ) ≤ 1 / 2 ∧ (1 / 2 : ℝ) ≤ 1 := by norm_num

/-! ### infidelity, Bures distance, Bures angle as functions of the fidelity -/

theorem sqrt_le_one_of_le {x : ℝ} (h : x ≤ 1) : √x ≤ 1 := by
  simpa using Real.sqrt_le_sqrt h

/-- `bures_distance² = 2(1 − √F)` for `F ≤ 1` (the radicand is non-negative). -/
theorem T18_bures_distance_sq (F : ℝ) (h1 : F ≤ 1) : √(2 * (1 - √F)) ^ 2 = 2 * (1 - √F) := by
  apply sq_sqrt
  have : √F ≤ 1 := sqrt_le_one_of_le h1
  linarith

/-- end points: identical states (F = 1) are at distance 0 and angle 0; orthogonal states
(F = 0) at distance √2 and angle π/2. -/
theorem T18_bures_endpoints :
    √(2 * (1 - √(1 : ℝ))) = 0 ∧ √(2 * (1 - √(0 : ℝ))) = √2
      ∧ arccos √(1 : ℝ) = 0 ∧ arccos √(0 : ℝ) = π / 2 := by
  simp

/-- `bures_distance` is strictly decreasing in the fidelity on `[0, 1]`. -/
theorem T18_bures_distance_strictAnti :
    StrictAntiOn (fun F : ℝ => √(2 * (1 - √F))) (Set.Icc 0 1) := by
  intro F hF G hG h
  simp only
  have hs : √F < √G := sqrt_lt_sqrt hF.1 h
  have hG1 : √G ≤ 1 := sqrt_le_one_of_le hG.2
  apply sqrt_lt_sqrt
  · linarith
  · linarith

/-- `bures_angle = arccos √F` is strictly decreasing in the fidelity on `[0, 1]`, with values in
`[0, π/2]`. -/
theorem T18_bures_angle_strictAnti :
    StrictAntiOn (fun F : ℝ => arccos √F) (Set.Icc 0 1) := by
  intro F hF G hG h
  simp only
  have hs : √F < √G := sqrt_lt_sqrt hF.1 h
  have hF1 : √F ≤ 1 := sqrt_le_one_of_le hF.2
  have hG1 : √G ≤ 1 := sqrt_le_one_of_le hG.2
  exact strictAntiOn_arccos ⟨by linarith [sqrt_nonneg F], hF1⟩ ⟨by linarith [sqrt_nonneg G], hG1⟩ hs

theorem T18_bures_angle_range (F : ℝ) : 0 ≤ arccos √F ∧ arccos √F ≤ π / 2 :=
  ⟨arccos_nonneg _, arccos_le_pi_div_two.2 (sqrt_nonneg F)⟩

/-- the two Bures quantities determine each other: `D_B² = 2(1 − cos D_A)` on `F ∈ [0, 1]`. -/
theorem T18_bures_distance_angle (F : ℝ) (h1 : F ≤ 1) :
    √(2 * (1 - √F)) ^ 2 = 2 * (1 - cos (arccos √F)) := by
  have hF1 : √F ≤ 1 := sqrt_le_one_of_le h1
  rw [T18_bures_distance_sq F h1, cos_arccos (by linarith [sqrt_nonneg F]) hF1]

/-- `infidelity = 1 − F` lies in `[0, 1]` and is strictly decreasing in `F`. -/
theorem T18_infidelity (F G : ℝ) (h0 : 0 ≤ F) (h1 : F ≤ 1) :
    0 ≤ 1 - F ∧ 1 - F ≤ 1 ∧ (F < G → 1 - G < 1 - F) :=
  ⟨by linarith, by linarith, fun h => by linarith⟩

example : (1 / 4 : ℝ) ∈ Set.Icc (0 : ℝ) 1 ∧ (1 / 4 : ℝ) ≤ 1 := by
  constructor
  · constructor <;> norm_num
  · norm_num

/-! ### Meyer–Wallach entanglement -/

/-- `Q = 2(1 − (1/n) Σ_k purity_k)` lies in `[0, 1]` as soon as every single-qubit purity lies
in `[1/2, 1]` (true for every one-qubit density matrix) and `n ≥ 1`. -/
theorem T18_meyer_wallach_range (n : ℕ) (hn : 0 < n) (P : Fin n → ℝ)
    (hP : ∀ k, 1 / 2 ≤ P k ∧ P k ≤ 1) :
    0 ≤ 2 * (1 - (∑ k, P k) / n) ∧ 2 * (1 - (∑ k, P k) / n) ≤ 1 := by
  have hn' : (0 : ℝ) < n := by exact_mod_cast hn
  have hup : ∑ k, P k ≤ n := by
    calc ∑ k, P k ≤ ∑ _k : Fin n, (1 : ℝ) := Finset.sum_le_sum fun k _ => (hP k).2
      _ = n := by simp
  have hlo : (n : ℝ) / 2 ≤ ∑ k, P k := by
    calc (n : ℝ) / 2 = ∑ _k : Fin n, (1 / 2 : ℝ) := by simp; ring
      _ ≤ ∑ k, P k := Finset.sum_le_sum fun k _ => (hP k).1
  have h1 : (∑ k, P k) / n ≤ 1 := by rw [div_le_one hn']; exact hup
  have h2 : 1 / 2 ≤ (∑ k, P k) / n := by
    rw [le_div_iff₀ hn']; linarith
  constructor <;> linarith

/-- `Q = 0` exactly when every reduced state is pure (product state). -/
theorem T18_meyer_wallach_zero_iff (n : ℕ) (hn : 0 < n) (P : Fin n → ℝ) (hP : ∀ k, P k ≤ 1) :
    2 * (1 - (∑ k, P k) / n) = 0 ↔ ∀ k, P k = 1 := by
  have hn' : (0 : ℝ) < n := by exact_mod_cast hn
  constructor
  · intro h
    have hsum : ∑ k, P k = n := by
      have : (∑ k, P k) / n = 1 := by linarith
      rwa [div_eq_one_iff_eq hn'.ne'] at this
    have h0 : ∑ k, (1 - P k) = 0 := by
      rw [Finset.sum_sub_distrib, hsum]; simp
    have := (Finset.sum_eq_zero_iff_of_nonneg fun k _ => by linarith [hP k]).mp h0
    intro k
    linarith [this k (Finset.mem_univ k)]
  · intro h
    have : ∑ k, P k = n := by simp [h]
    rw [this, div_self hn'.ne']; ring

example : (0 : ℕ) < 2 ∧ ∀ k : Fin 2, (1 / 2 : ℝ) ≤ (fun _ => 3 / 4) k ∧ (fun _ => (3 / 4 : ℝ)) k ≤ 1 := by
  constructor
  · norm_num
  · intro k; norm_num

/-! ### entanglement of formation -/

/-- the argument of the binary entropy: `x = (1 + √(max(1 − C², 0)))/2`. -/
noncomputable def eofArg (C : ℝ) : ℝ := (1 + √(max (1 - C ^ 2) 0)) / 2

/-- `x ∈ [1/2, 1]` for every `C ≥ 0` … in fact for every real `C`. -/
theorem T18_eof_arg_range (C : ℝ) : 1 / 2 ≤ eofArg C ∧ eofArg C ≤ 1 := by
  unfold eofArg
  have h0 : 0 ≤ √(max (1 - C ^ 2) 0) := sqrt_nonneg _
  have h1 : √(max (1 - C ^ 2) 0) ≤ 1 := by
    apply sqrt_le_one_of_le
    apply max_le
    · nlinarith [sq_nonneg C]
    · norm_num
  constructor <;> linarith

/-- end points: `x(0) = 1`, `x(C) = 1/2` for every `C ≥ 1` (the clamp of the repaired code: a
concurrence pushed slightly above 1 by rounding gives the same value as `C = 1`). -/
theorem T18_eof_arg_endpoints : eofArg 0 = 1 ∧ ∀ C : ℝ, 1 ≤ C → eofArg C = 1 / 2 := by
  constructor
  · unfold eofArg; norm_num
  · intro C hC
    unfold eofArg
    have : max (1 - C ^ 2) 0 = 0 := by
      apply max_eq_right
      nlinarith
    rw [this]; simp

/-- `entanglement_of_formation = H_b([1 − x, x]) = binEntropy(x)/log b`. -/
noncomputable def eof (b C : ℝ) : ℝ :=
  -((1 - eofArg C) * logb b (1 - eofArg C) + eofArg C * logb b (eofArg C))

theorem T18_eof_eq_binEntropy (b C : ℝ) : eof b C = binEntropy (eofArg C) / log b := by
  unfold eof logb
  rw [binEntropy_eq_negMulLog_add_negMulLog_one_sub]
  simp only [negMulLog]
  ring

/-- `EoF(0) = 0` (product states) and `EoF(C) = log_b 2` for `C ≥ 1` (maximally entangled):
`1` in base 2 — not `nan`. -/
theorem T18_eof_endpoints (b : ℝ) : eof b 0 = 0 ∧ ∀ C : ℝ, 1 ≤ C → eof b C = logb b 2 := by
  constructor
  · rw [T18_eof_eq_binEntropy, T18_eof_arg_endpoints.1]; simp
  · intro C hC
    rw [T18_eof_eq_binEntropy, T18_eof_arg_endpoints.2 C hC]
    have : (1 / 2 : ℝ) = 2⁻¹ := by norm_num
    rw [this, binEntropy_two_inv, log_div_log]

theorem T18_eof_base_two_max (C : ℝ) (hC : 1 ≤ C) : eof 2 C = 1 := by
  rw [(T18_eof_endpoints 2).2 C hC]
  exact logb_self_eq_one (by norm_num)

/-- `0 ≤ EoF ≤ log_b 2` for every base `b > 1`. -/
theorem T18_eof_range (b C : ℝ) (hb : 1 < b) : 0 ≤ eof b C ∧ eof b C ≤ logb b 2 := by
  have hlb : 0 < log b := log_pos hb
  rw [T18_eof_eq_binEntropy]
  obtain ⟨hx0, hx1⟩ := T18_eof_arg_range C
  constructor
  · exact div_nonneg (binEntropy_nonneg (by linarith) hx1) hlb.le
  · rw [← log_div_log]
    exact div_le_div_of_nonneg_right binEntropy_le_log_two hlb.le

/-- `EoF` is strictly increasing in the concurrence on `[0, 1]` (base `b > 1`). -/
theorem T18_eof_strictMono (b : ℝ) (hb : 1 < b) : StrictMonoOn (eof b) (Set.Icc 0 1) := by
  intro C hC D hD h
  have hlb : 0 < log b := log_pos hb
  rw [T18_eof_eq_binEntropy, T18_eof_eq_binEntropy]
  apply div_lt_div_of_pos_right _ hlb
  have hxC := T18_eof_arg_range C
  have hxD := T18_eof_arg_range D
  have hlt : eofArg D < eofArg C := by
    unfold eofArg
    have hC2 : C ^ 2 < D ^ 2 := by nlinarith [hC.1, hD.1]
    have hD1 : D ^ 2 ≤ 1 := by nlinarith [hD.1, hD.2]
    have : √(max (1 - D ^ 2) 0) < √(max (1 - C ^ 2) 0) := by
      apply sqrt_lt_sqrt (le_max_right _ _)
      rw [max_eq_left (by linarith), max_eq_left (by linarith)]
      linarith
    linarith
  have hC' : eofArg C ∈ Set.Icc (2⁻¹ : ℝ) 1 := ⟨by linarith [hxC.1], hxC.2⟩
  have hD' : eofArg D ∈ Set.Icc (2⁻¹ : ℝ) 1 := ⟨by linarith [hxD.1], hxD.2⟩
  exact binEntropy_strictAntiOn hD' hC' hlt

example : (1 : ℝ) < 2 ∧ (1 / 2 : ℝ) ∈ Set.Icc (0 : ℝ) 1 := by
  refine ⟨by norm_num, ?_, ?_⟩ <;> norm_num

/-! ### negativity -/

/-- with `λ` the eigenvalues of the (Hermitian, unit-trace) partial transpose:
`(Σ|λ_i| − 1)/2 = Σ_i max(−λ_i, 0)` — the negativity is minus the sum of the negative
eigenvalues, hence `≥ 0`, and `= 0` iff no eigenvalue is negative (PPT). -/
theorem T18_negativity {ι : Type} [Fintype ι] (ev : ι → ℝ) (htr : ∑ i, ev i = 1) :
    ((∑ i, |ev i|) - 1) / 2 = ∑ i, max (-ev i) 0
      ∧ 0 ≤ ((∑ i, |ev i|) - 1) / 2
      ∧ (((∑ i, |ev i|) - 1) / 2 = 0 ↔ ∀ i, 0 ≤ ev i) := by
  have key : ∀ x : ℝ, |x| - x = 2 * max (-x) 0 := by
    intro x
    rcases le_total 0 x with h | h
    · rw [abs_of_nonneg h, max_eq_right (by linarith)]; ring
    · rw [abs_of_nonpos h, max_eq_left (by linarith)]; ring
  have hsum : ((∑ i, |ev i|) - 1) / 2 = ∑ i, max (-ev i) 0 := by
    rw [← htr, ← Finset.sum_sub_distrib]
    simp_rw [key]
    rw [← Finset.mul_sum]; ring
  refine ⟨hsum, ?_, ?_⟩
  · rw [hsum]; exact Finset.sum_nonneg fun i _ => le_max_right _ _
  · rw [hsum, Finset.sum_eq_zero_iff_of_nonneg fun i _ => le_max_right _ _]
    constructor
    · intro h i
      have := h i (Finset.mem_univ i)
      have h2 : -ev i ≤ max (-ev i) 0 := le_max_left _ _
      linarith
    · intro h i _
      exact max_eq_right (by linarith [h i])

/-- the general inequality behind it: trace norm ≥ |trace|. -/
theorem T18_trace_norm_ge_abs_trace {ι : Type} [Fintype ι] (ev : ι → ℝ) :
    |∑ i, ev i| ≤ ∑ i, |ev i| := Finset.abs_sum_le_sum_abs _ _

example : ∑ i : Fin 2, (![3 / 2, -1 / 2] : Fin 2 → ℝ) i = 1 := by
  simp [Fin.sum_univ_two]; norm_num

/-! ### Shannon entropy and classical relative entropy -/

section entropy
variable {ι : Type} [Fintype ι]

/-- `shannon_entropy(p, base=b) = −Σ p_i log_b p_i` with `0·log 0 = 0`. -/
noncomputable def shannon (b : ℝ) (p : ι → ℝ) : ℝ := -∑ i, p i * logb b (p i)

/-- `classical_relative_entropy(p, q, base=b) = Σ p_i log_b p_i − Σ p_i log_b q_i`. -/
noncomputable def relEntropy (b : ℝ) (p q : ι → ℝ) : ℝ :=
  (∑ i, p i * logb b (p i)) - ∑ i, p i * logb b (q i)

/-- `H_b(p) ≥ 0` for entries in `[0, 1]`, base `b > 1`. -/
theorem T18_shannon_nonneg (b : ℝ) (hb : 1 < b) (p : ι → ℝ) (h : ∀ i, 0 ≤ p i ∧ p i ≤ 1) :
    0 ≤ shannon b p := by
  unfold shannon
  rw [neg_nonneg]
  apply Finset.sum_nonpos
  intro i _
  exact mul_nonpos_of_nonneg_of_nonpos (h i).1 (logb_nonpos hb (h i).1 (h i).2)

/-- **Gibbs' inequality**: the classical relative entropy is non-negative for probability
vectors `p`, `q` (`q_i = 0 ⇒ p_i = 0`, otherwise the code returns `+inf`), base `b > 1`. -/
theorem T18_relative_entropy_nonneg (b : ℝ) (hb : 1 < b) (p q : ι → ℝ) (hp : ∀ i, 0 ≤ p i)
    (hq : ∀ i, 0 ≤ q i) (hac : ∀ i, q i = 0 → p i = 0) (sp : ∑ i, p i = 1) (sq : ∑ i, q i = 1) :
    0 ≤ relEntropy b p q := by
  have hlb : 0 < log b := log_pos hb
  have hterm : ∀ i, p i - q i ≤ p i * log (p i) - p i * log (q i) := by
    intro i
    rcases (hp i).eq_or_lt with h0 | hpos
    · rw [← h0]; simp; exact hq i
    · have hqpos : 0 < q i := by
        rcases (hq i).eq_or_lt with h | h
        · exact absurd (hac i h.symm) hpos.ne'
        · exact h
      have := log_le_sub_one_of_pos (div_pos hqpos hpos)
      rw [log_div hqpos.ne' hpos.ne'] at this
      have h2 : p i * (log (q i) - log (p i)) ≤ p i * (q i / p i - 1) :=
        mul_le_mul_of_nonneg_left this hpos.le
      have h3 : p i * (q i / p i - 1) = q i - p i := by field_simp
      linarith
  have hnat : 0 ≤ (∑ i, p i * log (p i)) - ∑ i, p i * log (q i) := by
    rw [← Finset.sum_sub_distrib]
    calc (0 : ℝ) = ∑ i, (p i - q i) := by rw [Finset.sum_sub_distrib, sp, sq]; ring
      _ ≤ ∑ i, (p i * log (p i) - p i * log (q i)) := Finset.sum_le_sum fun i _ => hterm i
  unfold relEntropy logb
  have : (∑ i, p i * (log (p i) / log b)) - ∑ i, p i * (log (q i) / log b)
      = ((∑ i, p i * log (p i)) - ∑ i, p i * log (q i)) / log b := by
    rw [sub_div, Finset.sum_div, Finset.sum_div]
    congr 1 <;> exact Finset.sum_congr rfl fun i _ => by ring
  rw [this]
  exact div_nonneg hnat hlb.le

/-- **`H_b(p) ≤ log_b n`** for a probability vector with `n` entries (Gibbs against the uniform
distribution), base `b > 1`. -/
theorem T18_shannon_le_log_card (b : ℝ) (hb : 1 < b) (p : ι → ℝ) (hp : ∀ i, 0 ≤ p i)
    (sp : ∑ i, p i = 1) : shannon b p ≤ logb b (Fintype.card ι) := by
  have hne : Nonempty ι := by
    by_contra h
    rw [not_nonempty_iff] at h
    simp at sp
  have hcard : (0 : ℝ) < Fintype.card ι := by exact_mod_cast Fintype.card_pos
  have hg := T18_relative_entropy_nonneg b hb p (fun _ => (Fintype.card ι : ℝ)⁻¹) hp
    (fun _ => (inv_pos.mpr hcard).le) (fun i h => absurd h (inv_pos.mpr hcard).ne')
    sp (by simp [hcard.ne'])
  unfold relEntropy at hg
  unfold shannon
  have : ∑ i, p i * logb b ((Fintype.card ι : ℝ)⁻¹) = -logb b (Fintype.card ι) := by
    rw [← Finset.sum_mul, sp, one_mul, logb_inv]
  rw [this] at hg
  linarith

/-- the bounds are attained: the uniform distribution has entropy `log_b n` … -/
theorem T18_shannon_uniform (b : ℝ) [Nonempty ι] :
    shannon b (fun _ : ι => (Fintype.card ι : ℝ)⁻¹) = logb b (Fintype.card ι) := by
  have hcard : (0 : ℝ) < Fintype.card ι := by exact_mod_cast Fintype.card_pos
  unfold shannon
  rw [Finset.sum_const, Finset.card_univ, nsmul_eq_mul, logb_inv]
  field_simp

/-- … and a point mass has entropy `0`. -/
theorem T18_shannon_point [DecidableEq ι] (b : ℝ) (j : ι) :
    shannon b (fun i => if i = j then (1 : ℝ) else 0) = 0 := by
  unfold shannon
  simp [logb_one]

/-- the relative entropy of a distribution with itself is `0`. -/
theorem T18_relative_entropy_self (b : ℝ) (p : ι → ℝ) : relEntropy b p p = 0 := by
  unfold relEntropy; ring

end entropy

/-! ### Rényi, Tsallis and min-entropy: non-negativity -/

section renyi
variable {ι : Type} [Fintype ι]

/-- `Σ p_i^α` is `≥ 1` for `0 < α ≤ 1` and `≤ 1` for `α ≥ 1` (entries in `[0,1]`, sum 1). -/
theorem sum_rpow_cmp (α : ℝ) (p : ι → ℝ) (hp : ∀ i, 0 ≤ p i ∧ p i ≤ 1) (sp : ∑ i, p i = 1) :
    (α ≤ 1 → 1 ≤ ∑ i, p i ^ α) ∧ (1 ≤ α → ∑ i, p i ^ α ≤ 1) := by
  constructor
  · intro h
    rw [← sp]
    exact Finset.sum_le_sum fun i _ => self_le_rpow_of_le_one (hp i).1 (hp i).2 h
  · intro h
    rw [← sp]
    exact Finset.sum_le_sum fun i _ => rpow_le_self_of_le_one (hp i).1 (hp i).2 h

/-- `classical_renyi_entropy(p, α, b) = (1/(1−α))·log_b Σ p_i^α ≥ 0` for `α ≠ 1`, `b > 1`. -/
theorem T18_renyi_nonneg (b α : ℝ) (hb : 1 < b) (hα : α ≠ 1) (p : ι → ℝ)
    (hp : ∀ i, 0 ≤ p i ∧ p i ≤ 1) (sp : ∑ i, p i = 1) :
    0 ≤ 1 / (1 - α) * logb b (∑ i, p i ^ α) := by
  obtain ⟨hle, hge⟩ := sum_rpow_cmp α p hp sp
  rcases lt_or_gt_of_ne hα with h | h
  · have h1 : 0 < 1 / (1 - α) := by apply div_pos one_pos; linarith
    exact mul_nonneg h1.le (logb_nonneg hb (hle h.le))
  · have h1 : 1 / (1 - α) ≤ 0 := by
      apply div_nonpos_of_nonneg_of_nonpos zero_le_one; linarith
    have h0 : 0 ≤ ∑ i, p i ^ α := Finset.sum_nonneg fun i _ => rpow_nonneg (hp i).1 α
    exact mul_nonneg_of_nonpos_of_nonpos h1 (logb_nonpos hb h0 (hge h.le))

/-- `classical_tsallis_entropy(p, α) = (1/(α−1))·(1 − Σ p_i^α) ≥ 0` for `α ≠ 1`. -/
theorem T18_tsallis_nonneg (α : ℝ) (hα : α ≠ 1) (p : ι → ℝ)
    (hp : ∀ i, 0 ≤ p i ∧ p i ≤ 1) (sp : ∑ i, p i = 1) :
    0 ≤ 1 / (α - 1) * (1 - ∑ i, p i ^ α) := by
  obtain ⟨hle, hge⟩ := sum_rpow_cmp α p hp sp
  rcases lt_or_gt_of_ne hα with h | h
  · have h1 : 1 / (α - 1) ≤ 0 := by
      apply div_nonpos_of_nonneg_of_nonpos zero_le_one; linarith
    exact mul_nonneg_of_nonpos_of_nonpos h1 (by linarith [hle h.le])
  · have h1 : 0 < 1 / (α - 1) := by apply div_pos one_pos; linarith
    exact mul_nonneg h1.le (by linarith [hge h.le])

/-- min-entropy (`α = ∞`): `−log_b max p ∈ [0, log_b n]`. -/
theorem T18_min_entropy_range (b : ℝ) (hb : 1 < b) (p : ι → ℝ) (hp : ∀ i, 0 ≤ p i)
    (sp : ∑ i, p i = 1) (j : ι) (hmax : ∀ i, p i ≤ p j) :
    0 ≤ -logb b (p j) ∧ -logb b (p j) ≤ logb b (Fintype.card ι) := by
  have hne : Nonempty ι := ⟨j⟩
  have hcard : (0 : ℝ) < Fintype.card ι := by exact_mod_cast Fintype.card_pos
  have hle1 : p j ≤ 1 := by
    rw [← sp]; exact Finset.single_le_sum (fun i _ => hp i) (Finset.mem_univ j)
  have hge : 1 ≤ Fintype.card ι * p j := by
    calc (1 : ℝ) = ∑ i, p i := sp.symm
      _ ≤ ∑ _i : ι, p j := Finset.sum_le_sum fun i _ => hmax i
      _ = Fintype.card ι * p j := by simp
  have hpos : 0 < p j := by
    by_contra h
    have : p j = 0 := le_antisymm (not_lt.mp h) (hp j)
    rw [this, mul_zero] at hge; linarith
  constructor
  · rw [neg_nonneg]; exact logb_nonpos hb hpos.le hle1
  · rw [neg_le, ← logb_inv]
    apply (logb_le_logb hb (inv_pos.mpr hcard) hpos).mpr
    rw [inv_le_iff_one_le_mul₀ hcard]
    linarith

/-- power-mean bounds: `Σ p_i^α ≤ n^(1−α)` for `0 ≤ α ≤ 1`, `n^(1−α) ≤ Σ p_i^α` for `α ≥ 1`. -/
theorem sum_rpow_card_cmp [Nonempty ι] (α : ℝ) (p : ι → ℝ) (hp : ∀ i, 0 ≤ p i) (sp : ∑ i, p i = 1) :
    (0 ≤ α → α ≤ 1 → ∑ i, p i ^ α ≤ (Fintype.card ι : ℝ) ^ (1 - α))
      ∧ (1 ≤ α → (Fintype.card ι : ℝ) ^ (1 - α) ≤ ∑ i, p i ^ α) := by
  have hN : (0 : ℝ) < Fintype.card ι := by exact_mod_cast Fintype.card_pos
  set N : ℝ := (Fintype.card ι : ℝ) with hNdef
  have hw : ∑ _i : ι, (1 / N) = 1 := by
    simp [hNdef]
  have hmean : ∑ i, (1 / N) * p i = 1 / N := by rw [← Finset.mul_sum, sp, mul_one]
  have hpow : N ^ (1 - α) = N * (1 / N) ^ α := by
    rw [rpow_sub hN, rpow_one, one_div, inv_rpow hN.le]; field_simp
  constructor
  · intro h0 h1
    have hJ := (concaveOn_rpow h0 h1).le_map_sum (t := Finset.univ) (w := fun _ : ι => 1 / N)
      (p := p) (fun _ _ => by positivity) hw (fun i _ => hp i)
    simp only [smul_eq_mul] at hJ
    rw [hmean, ← Finset.mul_sum] at hJ
    rw [hpow]
    have := mul_le_mul_of_nonneg_left hJ hN.le
    rwa [← mul_assoc, mul_one_div_cancel hN.ne', one_mul] at this
  · intro h1
    have hJ := rpow_arith_mean_le_arith_mean_rpow Finset.univ (fun _ : ι => 1 / N) p
      (fun _ _ => by positivity) hw (fun i _ => hp i) h1
    rw [hmean, ← Finset.mul_sum] at hJ
    rw [hpow]
    have := mul_le_mul_of_nonneg_left hJ hN.le
    rwa [← mul_assoc, mul_one_div_cancel hN.ne', one_mul] at this

/-- **`H_α(p) ≤ log_b n`** for every `α ≥ 0`, `α ≠ 1` (and `b > 1`): with the Shannon case
`T18_shannon_le_log_card` the whole Rényi family is bounded by the Hartley entropy of the full
support. -/
theorem T18_renyi_le_log_card (b α : ℝ) (hb : 1 < b) (hα0 : 0 ≤ α) (hα : α ≠ 1) (p : ι → ℝ)
    (hp : ∀ i, 0 ≤ p i ∧ p i ≤ 1) (sp : ∑ i, p i = 1) :
    1 / (1 - α) * logb b (∑ i, p i ^ α) ≤ logb b (Fintype.card ι) := by
  have hne : Nonempty ι := by
    by_contra h
    rw [not_nonempty_iff] at h
    simp at sp
  have hN : (0 : ℝ) < Fintype.card ι := by exact_mod_cast Fintype.card_pos
  obtain ⟨hle, hge⟩ := sum_rpow_cmp α p hp sp
  obtain ⟨hB, hA⟩ := sum_rpow_card_cmp α p (fun i => (hp i).1) sp
  have hlog : logb b ((Fintype.card ι : ℝ) ^ (1 - α)) = (1 - α) * logb b (Fintype.card ι) :=
    logb_rpow_eq_mul_logb_of_pos hN
  rcases lt_or_gt_of_ne hα with h | h
  · have h1 : 0 < 1 - α := by linarith
    have hpos : 0 < ∑ i, p i ^ α := lt_of_lt_of_le one_pos (hle h.le)
    have := (logb_le_logb hb hpos (rpow_pos_of_pos hN _)).mpr (hB hα0 h.le)
    rw [hlog] at this
    rw [one_div, inv_mul_le_iff₀ h1]
    exact this
  · have h1 : 0 < α - 1 := by linarith
    have hpos : 0 < ∑ i, p i ^ α := lt_of_lt_of_le (rpow_pos_of_pos hN _) (hA h.le)
    have := (logb_le_logb hb (rpow_pos_of_pos hN _) hpos).mpr (hA h.le)
    rw [hlog] at this
    have e : 1 / (1 - α) * logb b (∑ i, p i ^ α) = -(logb b (∑ i, p i ^ α)) / (α - 1) := by
      have : (1 - α) ≠ 0 := by linarith
      field_simp
      ring
    rw [e, div_le_iff₀ h1]
    nlinarith

end renyi

/-! ### concurrence -/

/-- `concurrence = √(2(1 − purity_reduced))`: for reduced purities in `[1/2, 1]` (two-level
partner) it lies in `[0, 1]` — the hypothesis of the entanglement-of-formation statements — is
`0` exactly for a pure reduced state, and strictly decreasing in the purity. -/
theorem T18_concurrence_range (P : ℝ) (h0 : 1 / 2 ≤ P) (h1 : P ≤ 1) :
    0 ≤ √(2 * (1 - P)) ∧ √(2 * (1 - P)) ≤ 1 ∧ (√(2 * (1 - P)) = 0 ↔ P = 1) := by
  refine ⟨sqrt_nonneg _, sqrt_le_one_of_le (by linarith), ?_⟩
  rw [sqrt_eq_zero (by linarith)]
  constructor <;> intro h <;> linarith

theorem T18_concurrence_strictAnti :
    StrictAntiOn (fun P : ℝ => √(2 * (1 - P))) (Set.Iic 1) := by
  intro P hP Q hQ h
  simp only
  apply sqrt_lt_sqrt
  · have : Q ≤ 1 := hQ
    linarith
  · linarith

example : (1 / 2 : ℝ) ≤ 3 / 4 ∧ (3 / 4 : ℝ) ≤ 1 := by norm_num

/-- non-vacuity: two different distributions on three outcomes, one with a zero entry. -/
example :
    let p : Fin 3 → ℝ := ![1 / 2, 1 / 2, 0]
    let q : Fin 3 → ℝ := ![1 / 4, 1 / 4, 1 / 2]
    (∀ i, 0 ≤ p i) ∧ (∀ i, 0 ≤ q i) ∧ (∀ i, q i = 0 → p i = 0) ∧ ∑ i, p i = 1 ∧ ∑ i, q i = 1 := by
  intro p q
  refine ⟨?_, ?_, ?_, ?_, ?_⟩
  · intro i; fin_cases i <;> simp [p]
  · intro i; fin_cases i <;> simp [q]
  · intro i; fin_cases i <;> simp [p, q]
  · simp [p, Fin.sum_univ_three]; norm_num
  · simp [q, Fin.sum_univ_three]; norm_num

/-- non-vacuity of the Rényi / Tsallis / min-entropy statements: the same `p` has entries in
`[0, 1]`, its maximum sits at index 0, and `α = 1/2`, `α = 2` are admissible orders. -/
example :
    let p : Fin 3 → ℝ := ![1 / 2, 1 / 2, 0]
    (∀ i, 0 ≤ p i ∧ p i ≤ 1) ∧ (∀ i, p i ≤ p 0) ∧ (1 / 2 : ℝ) ≠ 1 ∧ (2 : ℝ) ≠ 1 ∧ (0 : ℝ) ≤ 1 / 2 := by
  intro p
  refine ⟨?_, ?_, by norm_num, by norm_num, by norm_num⟩
  · intro i; fin_cases i <;> simp [p] <;> norm_num
  · intro i; fin_cases i <;> simp [p]

end QV.Props.C18e
