/-
  C20 (part b) — completeness of the Ehrlich walk `_ehrlich_algorithm`.

  The general claim (every weight-k string of length n appears exactly once, for all n, k)
  is kept visible as `EhrlichComplete`; it is NOT proved.  What is established here is a
  kernel-evaluated TEST of the executable model for all `0 < k < n ≤ 9` (the model is compared
  verbatim with the real `_ehrlich_algorithm` for the same range on every check run), combined
  with the unbounded run theorem `T20_ehrlich_run`.
-/
import QV.Proofs.Encodings
namespace QV.Props.C20
open QV QV.Enc

/-- full statement (not proved): for every `0 < k < n` the walk from `1^k 0^(n-k)` is regular,
has `C(n,k)` pairwise different entries. Together with `T20_ehrlich_run` (all entries have
weight `k`, length `n`) this says every weight-`k` string occurs exactly once. -/
def EhrlichComplete : Prop := ∀ n k, 0 < k → k < n → ehrlichOK n k = true

/-- TEST (kernel evaluation, bounded): `EhrlichComplete` for all `0 < k < n ≤ 9`. -/
theorem T20_ehrlich_complete_le9_partial : ehrlichOKUpTo 9 = true := by decide +kernel

/-- consequence for the tested range: the strings are pairwise different, there are `C(n,k)`
of them, each has weight `k` and length `n`, consecutive ones differ by moving one 1. -/
theorem T20_ehrlich_gray_le9_partial (n k : Nat) (hk : 0 < k) (hkn : k < n) (hn : n ≤ 9) :
    (ehrlichStrings (defaultInit n k)).Nodup ∧
    (ehrlichStrings (defaultInit n k)).length = choose n k ∧
    ChainFrom OneMove (defaultInit n k) ((ehrlich (defaultInit n k)).map (·.bits)) ∧
    ∀ s ∈ ehrlichStrings (defaultInit n k), weight s = k ∧ s.length = n := by
  have h := T20_ehrlich_complete_le9_partial
  unfold ehrlichOKUpTo at h
  rw [List.all_eq_true] at h
  have h1 := h n (List.mem_range.mpr (by omega))
  rw [List.all_eq_true] at h1
  have h2 := h1 k (List.mem_range.mpr hkn)
  have hk0 : (k == 0) = false := by
    cases k with
    | zero => omega
    | succ k => rfl
  rw [hk0, Bool.false_or] at h2
  unfold ehrlichOK at h2
  simp only [Bool.and_eq_true, decide_eq_true_eq] at h2
  obtain ⟨⟨hreg, hnd⟩, hlen⟩ := h2
  have hrun := ehrlichLoop_chain _ _ _ hreg
  refine ⟨hnd, hlen, hrun.1, ?_⟩
  intro s hs
  unfold ehrlichStrings at hs
  have hw := weight_defaultInit n k
  have hl := length_defaultInit (n := n) (k := k) (by omega)
  rcases List.mem_cons.mp hs with rfl | hs
  · exact ⟨hw, hl⟩
  · obtain ⟨st, hst, rfl⟩ := List.mem_map.mp hs
    obtain ⟨a, b⟩ := hrun.2 st hst
    exact ⟨a.trans hw, b.trans hl⟩

end QV.Props.C20
