/-
  C20 (part b) — completeness of the Ehrlich walk `_ehrlich_algorithm`.

  The general claim (every weight-k string of length n appears exactly once, for all n, k) is
  `EhrlichComplete`; it is PROVED below (`EhrlichComplete_proved`, `T20_ehrlich_complete`,
  `T20_ehrlich_all_strings`) from the recursive structure of the walk
  (`T20_ehrlich_subwalk`, proofs in QV/Proofs/Ehrlich.lean).  The earlier kernel-evaluated TEST
  of the executable model for all `0 < k < n ≤ 9` is kept (the model is compared verbatim with
  the real `_ehrlich_algorithm` on every check run).
-/
import Mathlib.Data.Nat.Choose.Basic
import QV.Proofs.Ehrlich
namespace QV.Props.C20
open QV QV.Enc

/-- full statement: for every `0 < k < n` the walk from `1^k 0^(n-k)` is regular and has
`C(n,k)` pairwise different entries. Together with `T20_ehrlich_run` (all entries have
weight `k`, length `n`) this says every weight-`k` string occurs exactly once.
Proved: `EhrlichComplete_proved`. -/
def EhrlichComplete : Prop := ∀ n k, 0 < k → k < n → ehrlichOK n k = true

/-- TEST (kernel evaluation, bounded): `EhrlichComplete` for all `0 < k < n ≤ 9`. -/
theorem T20_ehrlich_complete_le9_partial : ehrlichOKUpTo 9 = true := by decide +kernel

/-- consequence for the tested range: the strings are pairwise different, there are `C(n,k)`
of them, each has weight `k` and length `n`, consecutive ones differ by moving one 1. -/
theorem T20_ehrlich_gray_le9_partial (n k : Nat) (hk : 0 < k) (hkn : k < n) (hn : n ≤ 9) :
    (ehrlichStrings (defaultInit n k)).Nodup ∧
    (ehrlichStrings (defaultInit n k)).length = choose n k ∧
    ChainFrom OneMove (defaultInit n k) ((ehrlich (defaultInit n k)).map (·.bits)) ∧
    ∀ s ∈ ehrlichStrings (defaultInit n k), weight s = k ∧ s.length = n := by
  have h := T20_ehrlich_complete_le9_partial
  unfold ehrlichOKUpTo at h
  rw [List.all_eq_true] at h
  have h1 := h n (List.mem_range.mpr (by omega))
  rw [List.all_eq_true] at h1
  have h2 := h1 k (List.mem_range.mpr hkn)
  have hk0 : (k == 0) = false := by
    cases k with
    | zero => omega
    | succ k => rfl
  rw [hk0, Bool.false_or] at h2
  unfold ehrlichOK at h2
  simp only [Bool.and_eq_true, decide_eq_true_eq] at h2
  obtain ⟨⟨hreg, hnd⟩, hlen⟩ := h2
  have hrun := ehrlichLoop_chain _ _ _ hreg
  refine ⟨hnd, hlen, hrun.1, ?_⟩
  intro s hs
  unfold ehrlichStrings at hs
  have hw := weight_defaultInit n k
  have hl := length_defaultInit (n := n) (k := k) (by omega)
  rcases List.mem_cons.mp hs with rfl | hs
  · exact ⟨hw, hl⟩
  · obtain ⟨st, hst, rfl⟩ := List.mem_map.mp hs
    obtain ⟨a, b⟩ := hrun.2 st hst
    exact ⟨a.trans hw, b.trans hl⟩

/-! ### completeness for every `n` and `k` -/

/-- **recursive structure of the walk (the invariant of the marker array).**  `Fresh i bs ms`:
the markers at positions `≥ i` are exactly the positions from which `bs` is not constant.
`SE σ ρ` lists the suffix shapes that occur with the shape the sub-walk ends on:
`1^w 0^z ↦ 0 1^w 0^(z-1)` (w odd) or `0^z 1^w` (w even); `0 1^w 0^z ↦ 1^w 0^(z+1)` (w even or
z = 0); `0^z 1^w ↦ 1^w 0^z` (w odd or z ≤ 1).  For every prefix `pre` that stays fixed and every
marker list that is fresh above it, the next `C(|σ|, weight σ) - 1` steps (i) are all in a
designed situation, (ii) produce `pre ++ τ` for pairwise different `τ`, (iii) covering, together
with `σ`, every string of the length and weight of `σ`, (iv) end on `pre ++ ρ`, and (v) use up
exactly the markers at the positions of the suffix, leaving the lower ones untouched. -/
theorem T20_ehrlich_subwalk (pre σ ρ : List Bool) (ms : List Nat) (hshape : SE σ ρ)
    (hfresh : Fresh pre.length (pre ++ σ) ms) :
    ∃ T : List (List Bool),
      (ehrlichLoop (choose σ.length (weight σ) - 1) (pre ++ σ) ms).map (·.bits) = T.map (pre ++ ·) ∧
      regularRun (choose σ.length (weight σ) - 1) (pre ++ σ) ms = true ∧
      (σ :: T).Nodup ∧
      (∀ τ : List Bool, τ.length = σ.length → weight τ = weight σ → τ ∈ σ :: T) ∧
      (ehrState (choose σ.length (weight σ) - 1) (pre ++ σ) ms).1 = pre ++ ρ ∧
      ∀ j, j ∈ (ehrState (choose σ.length (weight σ) - 1) (pre ++ σ) ms).2 ↔ (j ∈ ms ∧ j < pre.length) :=
  gen_main _ σ ρ rfl hshape pre ms hfresh

/-- non-vacuity: the initial state of `_ehrlich_algorithm` satisfies the hypotheses (empty
prefix, markers `_get_markers(initial_string, last_run=False)`, shape `1^k 0^(n-k)`). -/
example (n k : Nat) : SE (defaultInit n k) (endA k (n - k)) ∧
    Fresh ([] : List Bool).length ([] ++ defaultInit n k) (getMarkers (defaultInit n k) false) :=
  ⟨SE.A k (n - k), fresh_initial _⟩

/-- `EhrlichComplete` holds: for every `n` and `0 < k < n` (indeed every `k ≤ n`). -/
theorem EhrlichComplete_proved : EhrlichComplete :=
  fun n k _ hkn => ehrlichOK_all n k (by omega)

/-- registered name of `EhrlichComplete_proved` (audited with `#print axioms` on every run). -/
theorem T20_ehrlich_complete_statement : EhrlichComplete := EhrlichComplete_proved

/-- **Completeness of the Ehrlich walk, every `n`, every `k ≤ n`** (the statement of
`T20_ehrlich_gray_le9_partial` without the bound): the strings returned by
`_ehrlich_algorithm(1^k 0^(n-k))` are pairwise different, there are `C(n,k)` of them, each has
weight `k` and length `n`, consecutive ones differ by moving exactly one 1. -/
theorem T20_ehrlich_complete (n k : Nat) (hkn : k ≤ n) :
    (ehrlichStrings (defaultInit n k)).Nodup ∧
    (ehrlichStrings (defaultInit n k)).length = choose n k ∧
    ChainFrom OneMove (defaultInit n k) ((ehrlich (defaultInit n k)).map (·.bits)) ∧
    ∀ s ∈ ehrlichStrings (defaultInit n k), weight s = k ∧ s.length = n := by
  obtain ⟨hreg, hnd, hlen, _, _, _⟩ := ehrlich_walk n k hkn
  have hw := weight_defaultInit n k
  have hl := length_defaultInit (n := n) (k := k) hkn
  have hrun := ehrlichLoop_chain (choose n k - 1) _ _ hreg
  have he : ehrlich (defaultInit n k)
      = ehrlichLoop (choose n k - 1) (defaultInit n k) (getMarkers (defaultInit n k) false) := by
    unfold ehrlich; rw [hl, hw]
  refine ⟨hnd, hlen, by rw [he]; exact hrun.1, ?_⟩
  intro s hs
  unfold ehrlichStrings at hs
  rcases List.mem_cons.mp hs with rfl | hs
  · exact ⟨hw, hl⟩
  · obtain ⟨st, hst, rfl⟩ := List.mem_map.mp hs
    rw [he] at hst
    obtain ⟨a, b⟩ := hrun.2 st hst
    exact ⟨a.trans hw, b.trans hl⟩

/-- **every string of length `n` and weight `k` is visited exactly once.** -/
theorem T20_ehrlich_all_strings (n k : Nat) (hkn : k ≤ n) (τ : List Bool)
    (hlen : τ.length = n) (hw : weight τ = k) :
    (ehrlichStrings (defaultInit n k)).count τ = 1 := by
  obtain ⟨_, hnd, _, hall, _, _⟩ := ehrlich_walk n k hkn
  exact List.count_eq_one_of_mem hnd (hall τ hlen hw)

/-- where the walk ends, and that it has then used up every marker (python's `markers` set is
empty exactly after `C(n,k) - 1` steps): the last string is `0 1^k 0^(n-k-1)` for odd `k`,
`0^(n-k) 1^k` for even `k` (`k` and `n - k` positive). -/
theorem T20_ehrlich_last (n k : Nat) (hkn : k ≤ n) :
    (ehrState (choose n k - 1) (defaultInit n k) (getMarkers (defaultInit n k) false))
      = (endA k (n - k), []) := by
  obtain ⟨_, _, _, _, h1, h2⟩ := ehrlich_walk n k hkn
  exact Prod.ext h1 h2

/-- **completeness from every admissible initial string** (`SE σ ρ`: `1^w 0^z`; `0 1^w 0^z` with
`w` even or `z = 0`; `0^z 1^w` with `w` odd or `z ≤ 1`), e.g. the strings `0^(n-w) 1^w`, `w` odd,
that `_binary_encoder_hyperspherical` passes on: all steps regular, strings pairwise different,
`C(n,w)` of them, every string of that length and weight visited, the walk ends on `ρ` with an
empty marker set. -/
theorem T20_ehrlich_complete_shapes (σ ρ : List Bool) (hse : SE σ ρ) :
    regularRun (choose σ.length (weight σ) - 1) σ (getMarkers σ false) = true ∧
    (ehrlichStrings σ).Nodup ∧
    (ehrlichStrings σ).length = choose σ.length (weight σ) ∧
    (∀ τ : List Bool, τ.length = σ.length → weight τ = weight σ → τ ∈ ehrlichStrings σ) ∧
    ehrState (choose σ.length (weight σ) - 1) σ (getMarkers σ false) = (ρ, []) :=
  ehrlich_walk_shape σ ρ hse

/-- non-vacuity: `00111` (positions 0,1 empty) is admissible and its walk ends on `11100`. -/
example : SE [false, false, true, true, true] [true, true, true, false, false] :=
  SE.C 2 3 (Or.inl rfl)

/-- the executable table of admissible initial strings (`seValid`, `seStart`, `seEnd`; compared
with the real `_ehrlich_algorithm` on every run) is the relation `SE` of the theorems. -/
theorem T20_ehrlich_shapes_table (kind w z : Nat) (h : seValid kind w z = true) :
    SE (seStart kind w z) (seEnd kind w z) := by
  match kind, h with
  | 0, _ => exact SE.A w z
  | 1, h =>
    simp only [seValid, Bool.or_eq_true, beq_iff_eq] at h
    exact SE.B w z h
  | k + 2, h =>
    simp only [seValid, Bool.or_eq_true, beq_iff_eq, decide_eq_true_eq] at h
    exact SE.C z w h

/-- the last string of the walk from an admissible initial string (`ehrLast`, the string
`_intermediate_gate` reads off `bitstrings[-1]`) is the tabulated one. -/
theorem T20_ehrlich_last_shapes (kind w z : Nat) (h : seValid kind w z = true) :
    ehrLast (seStart kind w z) = seEnd kind w z := by
  have := (T20_ehrlich_complete_shapes _ _ (T20_ehrlich_shapes_table kind w z h)).2.2.2.2
  unfold ehrLast
  rw [this]

example : seValid 2 3 2 = true := by decide

/-- **initial strings of the Hamming-weight blocks of `_binary_encoder_hyperspherical`, every
`n`**: the chain `initial_string ↦ _intermediate_gate(last string of the walk)` of the python
loop (`hsInits`: the model runs the walks) produces `1 0^(n-1)`, then `1^w 0^(n-w)` for even `w`
and `0^(n-w) 1^w` for odd `w ≥ 3` (`hsInitClosed`). -/
theorem T20_hs_inits (n : Nat) (hn : 1 ≤ n) :
    hsInits n = (List.range (n - 1)).map (fun i => hsInitClosed n (1 + i)) :=
  hsInits_closed n hn

/-- … and from each of them the walk is complete: pairwise different strings, `C(n,w)` of them,
every string of its length and weight visited. -/
theorem T20_hs_walks_complete (n w : Nat) :
    (ehrlichStrings (hsInitClosed n w)).Nodup ∧
    (ehrlichStrings (hsInitClosed n w)).length
      = choose (hsInitClosed n w).length (weight (hsInitClosed n w)) ∧
    ∀ τ : List Bool, τ.length = (hsInitClosed n w).length → weight τ = weight (hsInitClosed n w) →
      τ ∈ ehrlichStrings (hsInitClosed n w) := by
  obtain ⟨ρ, hρ⟩ := hsInitClosed_valid n w
  obtain ⟨_, h1, h2, h3, _⟩ := T20_ehrlich_complete_shapes _ ρ hρ
  exact ⟨h1, h2, h3⟩

example : (hsInits 5).map showBits = ["00001", "00011", "11100", "01111"] := by decide

/-- the model's binomial coefficient (python: `int(binom(n, k))`) is the binomial coefficient. -/
theorem T20_choose_eq (n k : Nat) : choose n k = Nat.choose n k := by
  induction n generalizing k with
  | zero => cases k <;> rfl
  | succ n ih =>
    cases k with
    | zero => simp [choose]
    | succ k => simp only [choose]; rw [ih, ih, Nat.choose_succ_succ]

example : endA 3 3 = [false, true, true, true, false, false] := by decide
example : endA 2 3 = [false, false, false, true, true] := by decide

end QV.Props.C20
