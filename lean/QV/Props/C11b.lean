/-
  C11 (deepening) — (1) the unroller contract `unrollOk` of `T11_accept` / `T11_compose` is
  no longer a per-run validation: it is DERIVED from C10's dispatch model
  (QV/Model/Unroller.lean) and a locality property of the translation tables
  (`TablesLocal`: every gate a table call returns acts on a subset of the input gate's
  qubits), proved preserved through re-translation and the iSWAP recursion and decided on
  the real tables' shapes on every run (`localCheck`, driver command LOCAL);
  hence unrolling preserves the connectivity for ALL circuits.
  (2) `Passes.__call__` as a FOLD over an arbitrary pass list (any order, repeated
  passes): size, wire-name permutation, own wires, connectivity, native gates, reported
  layout and the meaning of the circuit, by induction over the list; the fixed four-pass
  shape of `T11_compose` is an instance.  (3) pass OBJECTS: the connectivity a pass works
  with is the calling pipeline's, whatever the objects were used for before.
-/
import QV.Proofs.PipelineFold

set_option linter.unusedSectionVars false
set_option linter.unusedVariables false
set_option linter.unusedSimpArgs false

namespace QV.Props.C11
open QV QV.Pipe QV.Router QV.Props.C05 QV.Unroll

/-! ### locality of the tables and of the dispatch -/

/-- the locality of the tables is decided on their data (run on the real tables' shapes by
    the driver, like `closedCheck`). -/
theorem T11_tables_local_of_check (D : TablesData) (h : localCheck D = true) :
    TablesLocal D.toTables :=
  localCheck_sound D h

/-- the shape property behind it: template qubit indices pairwise distinct and no `M`
    among the templates make every call of every table local. -/
theorem T11_tables_local_of_rows (T : Tables)
    (h : ∀ t ∈ [T.gpi2, T.u3, T.cz, T.iswap, T.opt, T.cnot], t.RowsLocal) : TablesLocal T :=
  tablesLocal_of_rows h

/-- locality survives the whole dispatch of `translate_gate` — one-qubit tables, the
    two-qubit choice, the recursive call of the iSWAP-only path, the re-translation of the
    one-qubit gates of a two-qubit decomposition — for every recursion depth: every gate
    emitted for `g` acts inside `g`'s qubits and is no measurement, unless `g` is a
    pass-through gate returned as it is. -/
theorem T11_translate_local (T : Tables) (nat : Natives) (hL : TablesLocal T) (fuel : Nat)
    (lo : Bool) (g : UGate) (out : List UGate) (h : translateAux T nat fuel lo g = some out) :
    (∀ y ∈ out, y.qubits.Subperm g.qubits ∧ y.cls ≠ cM) ∨
    (lo = false ∧ passThrough g.cls = true ∧ out = [g]) :=
  translateAux_local hL fuel lo g out h

/-- `Unroller.__call__`, every queue: each gate of the result comes from a gate of the
    input whose qubits contain its own; measurements are passed on untouched and never
    produced. -/
theorem T11_unroll_local (T : Tables) (nat : Natives) (hL : TablesLocal T) (fuel : Nat)
    (gs out : List UGate) (h : unroll T nat fuel gs = some out) :
    (∀ y ∈ out, ∃ g ∈ gs, y.qubits.Subperm g.qubits ∧ (y.cls = cM ∨ g.cls = cM → y = g)) ∧
    out.filter (fun y => y.cls == cM) = gs.filter (fun y => y.cls == cM) :=
  ⟨unroll_local hL fuel h, unroll_filter_meas hL fuel h⟩

/-- **the hypothesis `unrollOk` of `T11_accept` is a theorem**: with closed and local
    tables, for every queue of measurements and gates on at most two qubits whose
    pass-through gates are native, whatever `unroll` returns is native, keeps every
    two-qubit gate on the qubit pair of a two-qubit gate of the input (no new pair) and
    keeps the measurements. -/
theorem T11_unrollOk_derived (T : Tables) (nat : Natives) (fuel : Nat) (inp out : List PGate)
    (hC : Closed T nat) (hL : TablesLocal T)
    (hin : ∀ g ∈ inp, g.meas = true ∨ (g.qs.length ≤ 2 ∧
        (passThrough g.cls = true → isNative nat g.cls = true)))
    (hu : unroll T nat fuel (inp.map PGate.toU) = some (out.map PGate.toU)) :
    unrollOk nat inp out = true :=
  unrollOk_of_dispatch T nat fuel inp out hC hL hin hu

/-- **unrolling preserves the connectivity, for all circuits**, all devices, wire names,
    native sets and recursion depths (only locality of the tables is needed). -/
theorem T11_unroll_keeps_connectivity (T : Tables) (nat : Natives) (fuel : Nat) (d : Device)
    (n : Nat) (w : List Name) (inp out : List PGate) (hL : TablesLocal T)
    (hu : unroll T nat fuel (inp.map PGate.toU) = some (out.map PGate.toU))
    (hc : assertConnectivity d ⟨n, w, inp⟩ = true) : assertConnectivity d ⟨n, w, out⟩ = true := by
  simp only [assertConnectivity, List.all_eq_true] at hc ⊢
  exact unroll_keeps_connectivity T nat fuel d w inp out hL hu hc

/-- **Acceptance with the unroller inside the model**: `T11_accept` with its hypothesis
    `unrollOk` replaced by the run of C10's dispatch model on closed, local tables. -/
theorem T11_accept_dispatch (d : Device) (T : Tables) (nat : Natives) (fuel : Nat)
    (w : List Name) (N : Nat) (q2 q3 q4 : List PGate) (l2p : List Nat)
    (hd : d.nodes.Nodup) (hE : ∀ e ∈ d.edges, e.1 ∈ d.nodes ∧ e.2 ∈ d.nodes)
    (hN : w.length = N) (hw : permOf d w = true)
    (hr : routeOk d ⟨N, w, q2⟩ q3 l2p = true)
    (hC : Closed T nat) (hL : TablesLocal T)
    (hI : ∀ g ∈ q3, passThrough g.cls = true → g.meas = true ∨ isNative nat g.cls = true)
    (hu : unroll T nat fuel (q3.map PGate.toU) = some (q4.map PGate.toU)) :
    isSatisfied d nat ⟨N, w, q4⟩ = true := by
  refine T11_accept d nat w N q2 q3 q4 l2p hd hE hN hw hr ?_
  refine unrollOk_of_dispatch T nat fuel q3 q4 hC hL ?_ hu
  intro g hg
  have hr' := hr
  simp only [routeOk, Bool.and_eq_true, List.all_eq_true, Bool.or_eq_true, decide_eq_true_eq] at hr'
  rcases hr'.1.1.2 g hg with h | h
  · exact Or.inl h
  · by_cases hm : g.meas = true
    · exact Or.inl hm
    · refine Or.inr ⟨h, fun hp => ?_⟩
      rcases hI g hg hp with h' | h'
      · exact absurd h' hm
      · exact h'

/-- **the unroller pass inside the model**: computed by C10's dispatch on table DATA whose
    closure and locality are decided (`closedCheck`, `localCheck`: what the driver evaluates
    on the real tables' shapes), its answer is always a valid answer of the fold — the
    unroller is no oracle of `T11_fold_invariants` any more. -/
theorem T11_dispatch_pass_valid (d : Device) (D : TablesData) (nat : Natives) (fuel : Nat)
    (s : PState) (q : List PGate)
    (hC : closedCheck D nat = true) (hL : localCheck D = true)
    (hin : unrollInputOk nat s.circ.queue = true)
    (hu : unrollDispatch D.toTables nat fuel s.circ.queue = some q) :
    validPass d nat s (.unroller (some q)) = true :=
  unrollOk_of_dispatch D.toTables nat fuel s.circ.queue q (closedCheck_sound D nat hC)
    (localCheck_sound D hL) (unrollInputOk_iff hin) (unrollDispatch_some hu)

/-- padding keeps every measurement entry with all its constructor arguments (the tag of an
    entry encodes register name, collapse flag, bases and readout-error maps), on the same
    wire indices and in the same order. -/
theorem T11_padding_keeps_measurements (d : Device) (c c' : Circ) (h : pad d c = some c') :
    c'.queue.filter (·.meas) = c.queue.filter (·.meas) ∧
    ∀ g ∈ c.queue, g.meas = true → g ∈ c'.queue := by
  have hq := (T11_padding d c c' h).1
  exact ⟨by rw [hq], fun g hg _ => by rw [hq]; exact hg⟩

/-- … and so does every pass list without a router (routers re-key the entries to the
    physical qubits: C09) whose unroller answers are validated: the reporting and the
    collapsing entries of the output are those of the input. -/
theorem T11_fold_keeps_measurements (d : Device) (nat : Natives) :
    ∀ (ps : List Pass) (s s' : PState), (ps.all fun p => !isRouter p) = true →
      validRun d nat s ps = true → runPasses d s ps = some s' →
      s'.circ.queue.filter (·.meas) = s.circ.queue.filter (·.meas)
  | [], s, s', _, _, h => by
      simp only [runPasses, Option.some.injEq] at h
      subst h; rfl
  | p :: ps, s, s', hall, hv, h => by
      simp only [runPasses] at h
      cases h1 : runPass d s p with
      | none => simp [h1] at h
      | some s1 =>
        simp only [h1, Option.bind_some] at h
        simp only [validRun, h1, Bool.and_eq_true] at hv
        simp only [List.all_cons, Bool.and_eq_true, Bool.not_eq_true'] at hall
        rw [T11_fold_keeps_measurements d nat ps s1 s' hall.2 hv.2 h]
        cases p with
        | pre =>
          obtain ⟨c', hp, rfl⟩ := pre_step h1
          exact (T11_padding_keeps_measurements d s.circ c' hp).1
        | placer ans => obtain ⟨_, w, rfl, _, rfl⟩ := placer_step h1; rfl
        | star => obtain ⟨w, _, rfl⟩ := star_step h1; rfl
        | router ans => simp [isRouter] at hall
        | unroller ans =>
          obtain ⟨q, rfl, rfl⟩ := unroller_step h1
          have hu : unrollOk nat s.circ.queue q = true := hv.1
          simp only [unrollOk, Bool.and_eq_true, beq_iff_eq] at hu
          exact hu.2

/-! ### `Passes.__call__` as a fold over an arbitrary pass list -/

/-- **Invariants of the fold.**  Any list of passes (any order, any repetition), every
    answer validated in the state it was given: a circuit that fits the device still fits
    after the whole list; if the list contains anything but unrollers the output is placed
    (wire names a permutation of the device nodes, one per qubit, size of the device,
    accepted by `assert_placement`); if the last router is followed by no placer the output
    passes `assert_connectivity`; if the last unroller is followed by no router it passes
    `assert_decomposition`; with all three `is_satisfied` holds. -/
theorem T11_fold_invariants (d : Device) (nat : Natives) (ps : List Pass) (s s' : PState)
    (hd : d.nodes.Nodup) (hE : ∀ e ∈ d.edges, e.1 ∈ d.nodes ∧ e.2 ∈ d.nodes)
    (hf : Fits d s.circ) (hv : validRun d nat s ps = true) (h : runPasses d s ps = some s') :
    Fits d s'.circ ∧
    (placedAfter false ps = true → s'.circ.wires.Perm d.nodes ∧ s'.circ.wires.length = s'.circ.nqubits ∧
        s'.circ.nqubits = d.nodes.length ∧ assertPlacement d s'.circ = true) ∧
    (connAfter false ps = true → assertConnectivity d s'.circ = true) ∧
    (decAfter false ps = true → assertDecomposition nat s'.circ = true) ∧
    (connAfter false ps = true → decAfter false ps = true → isSatisfied d nat s'.circ = true) := by
  have hi : Inv d nat false false false s :=
    ⟨hf, (fun hb => by cases hb), (fun hb => by cases hb), (fun hb => by cases hb)⟩
  have := fold_inv hd hE ps s s' false false false hi hv h
  refine ⟨this.fits, fun hb => ?_, fun hb => (this.conn hb).2, fun hb => this.dec hb, fun hb hb' => ?_⟩
  · have hp := this.placed hb
    exact ⟨hp.1, hp.2, hp.nqubits, hp.assert⟩
  · simp only [isSatisfied, Bool.and_eq_true]
    exact ⟨⟨(this.conn hb).1.assert, (this.conn hb).2⟩, this.dec hb'⟩

/-- size through any pass list (no validation needed): unchanged without `Preprocessing`,
    otherwise unchanged or the size of the device. -/
theorem T11_fold_nqubits (d : Device) (ps : List Pass) (s s' : PState)
    (h : runPasses d s ps = some s') :
    ((ps.all fun p => !isPre p) = true → s'.circ.nqubits = s.circ.nqubits) ∧
    (s'.circ.nqubits = s.circ.nqubits ∨ s'.circ.nqubits = d.nodes.length) :=
  fold_nqubits ps s s' h

/-- without a placer in the list — whatever else it contains, in whatever order — the
    circuit's own wires stay in position: the input's wire names are a prefix of the
    output's. -/
theorem T11_fold_own_wires (d : Device) (ps : List Pass) (s s' : PState)
    (h : runPasses d s ps = some s') (hp : (ps.all fun p => !isPlacer p) = true) :
    s.circ.wires <+: s'.circ.wires :=
  fold_wires_prefix ps s s' h hp

/-- the reported final layout is the last router's, and `None` once a placer ran after it. -/
theorem T11_fold_layout (d : Device) (ps : List Pass) (s s' : PState)
    (h : runPasses d s ps = some s') : s'.layout = layoutAfter s.layout ps :=
  fold_layout ps s s' h

section Sem
variable {α : Type} [CommSemiring α]

/-- the semantic contract of one pass's answer in the state it is given: C09's conclusion
    for a router, C10's for an unroller; nothing for padding and placers (they do not touch
    the queue). -/
def stepSem (P : Submonoid α) (sem : PGate → MGate α) (s : PState) : Pass → Prop
  | .router (some (q, l)) => ∀ ψ : Lab → α, runCircuit (q.map sem) ψ
      = fun y => runCircuit (s.circ.queue.map sem) ψ (pull (look l) y)
  | .unroller (some q) => Unroll.PhaseEq P (q.map sem) (s.circ.queue.map sem)
  | _ => True

/-- the contracts hold along the run of the list. -/
def SemRun (P : Submonoid α) (sem : PGate → MGate α) (d : Device) : PState → List Pass → Prop
  | _, [] => True
  | s, p :: ps => stepSem P sem s p ∧ ∀ s', runPass d s p = some s' → SemRun P sem d s' ps

/-- the relabelling accumulated by ALL routers of the list (first router outermost). -/
def ghost : List Pass → Lab → Lab
  | [] => id
  | .router (some (_, l)) :: ps => fun x => pull (look l) (ghost ps x)
  | _ :: ps => ghost ps

theorem ghost_append (a b : List Pass) (x : Lab) : ghost (a ++ b) x = ghost a (ghost b x) := by
  induction a with
  | nil => rfl
  | cons p a ih =>
    cases p with
    | router ans =>
      cases ans with
      | none => simpa [ghost] using ih
      | some ql => obtain ⟨q, l⟩ := ql; simp [ghost, ih]
    | _ => simpa [ghost] using ih

theorem ghost_no_router (ps : List Pass) (h : (ps.all fun p => !isRouter p) = true) :
    ghost ps = id := by
  induction ps with
  | nil => rfl
  | cons p ps ih =>
    simp only [List.all_cons, Bool.and_eq_true, Bool.not_eq_true'] at h
    cases p with
    | router ans => simp [isRouter] at h
    | _ => simpa [ghost] using ih h.2

/-- **Meaning of the folded pipeline.**  Any pass list: the output queue equals the INPUT
    queue up to one phase, read through the relabellings of all its routers composed
    (`ghost`). -/
theorem T11_fold_semantics (P : Submonoid α) (sem : PGate → MGate α) (d : Device) :
    ∀ (ps : List Pass) (s s' : PState), runPasses d s ps = some s' → SemRun P sem d s ps →
      ∃ c ∈ P, ∀ (ψ : Lab → α) (x : Lab),
        runCircuit (s'.circ.queue.map sem) ψ x = c * runCircuit (s.circ.queue.map sem) ψ (ghost ps x)
  | [], s, s', h, _ => by
      simp only [runPasses, Option.some.injEq] at h
      subst h
      exact ⟨1, P.one_mem, fun ψ x => by simp [ghost]⟩
  | p :: ps, s, s', h, hs => by
      simp only [runPasses] at h
      cases h1 : runPass d s p with
      | none => simp [h1] at h
      | some s1 =>
        simp only [h1, Option.bind_some] at h
        obtain ⟨hstep, hrest⟩ := hs
        obtain ⟨c, hc, e⟩ := T11_fold_semantics P sem d ps s1 s' h (hrest s1 h1)
        cases p with
        | pre =>
          obtain ⟨c', hp, rfl⟩ := pre_step h1
          have hq : c'.queue = s.circ.queue := (T11_padding d s.circ c' hp).1
          refine ⟨c, hc, fun ψ x => ?_⟩
          rw [e ψ x]
          show c * runCircuit (c'.queue.map sem) ψ _ = _
          rw [hq]; rfl
        | placer ans =>
          obtain ⟨_, w, rfl, _, rfl⟩ := placer_step h1
          exact ⟨c, hc, fun ψ x => by rw [e ψ x]; rfl⟩
        | star =>
          obtain ⟨w, _, rfl⟩ := star_step h1
          exact ⟨c, hc, fun ψ x => by rw [e ψ x]; rfl⟩
        | router ans =>
          obtain ⟨_, q, l, rfl, rfl⟩ := router_step h1
          refine ⟨c, hc, fun ψ x => ?_⟩
          rw [e ψ x]
          have hR : ∀ ψ : Lab → α, runCircuit (q.map sem) ψ
              = fun y => runCircuit (s.circ.queue.map sem) ψ (pull (look l) y) := hstep
          show c * runCircuit (q.map sem) ψ (ghost ps x) = _
          rw [hR ψ]
          rfl
        | unroller ans =>
          obtain ⟨q, rfl, rfl⟩ := unroller_step h1
          obtain ⟨c', hc', e'⟩ : Unroll.PhaseEq P (q.map sem) (s.circ.queue.map sem) := hstep
          refine ⟨c * c', P.mul_mem hc hc', fun ψ x => ?_⟩
          rw [e ψ x]
          show c * runCircuit (q.map sem) ψ (ghost ps x) = _
          rw [e' ψ, mul_assoc]
          rfl

/-- **one router anywhere in the list** (any passes before it, no placer after it): the
    reported layout is that router's and the output equals the input queue up to a phase
    read through it — `T11_compose` for every such list instead of the four-pass shape. -/
theorem T11_compose_single_router (P : Submonoid α) (sem : PGate → MGate α) (d : Device)
    (before after : List Pass) (q : List PGate) (l : List Nat) (s s' : PState)
    (hb : (before.all fun p => !isRouter p) = true)
    (ha : (after.all fun p => !isRouter p && !isPlacer p) = true)
    (h : runPasses d s (before ++ .router (some (q, l)) :: after) = some s')
    (hs : SemRun P sem d s (before ++ .router (some (q, l)) :: after)) :
    s'.layout = some l ∧
    ∃ c ∈ P, ∀ (ψ : Lab → α) (x : Lab),
      runCircuit (s'.circ.queue.map sem) ψ x
        = c * runCircuit (s.circ.queue.map sem) ψ (pull (look l) x) := by
  have har : (after.all fun p => !isRouter p) = true := by
    simp only [List.all_eq_true, Bool.and_eq_true] at ha ⊢
    exact fun p hp => (ha p hp).1
  constructor
  · rw [T11_fold_layout d _ s s' h]
    have key : ∀ (ps : List Pass) (l0 : Option (List Nat)),
        (ps.all fun p => !isRouter p && !isPlacer p) = true → layoutAfter l0 ps = l0 := by
      intro ps
      induction ps with
      | nil => intro _ _; rfl
      | cons p ps ih =>
        intro l0 hall
        simp only [List.all_cons, Bool.and_eq_true, Bool.not_eq_true'] at hall
        cases p with
        | router ans => simp [isRouter] at hall
        | placer ans => simp [isPlacer] at hall
        | star => simp [isPlacer] at hall
        | pre => simpa [layoutAfter] using ih l0 hall.2
        | unroller ans => simpa [layoutAfter] using ih l0 hall.2
    have app : ∀ (a b : List Pass) (l0 : Option (List Nat)),
        layoutAfter l0 (a ++ b) = layoutAfter (layoutAfter l0 a) b := by
      intro a
      induction a with
      | nil => intro _ _; rfl
      | cons p a ih =>
        intro b l0
        rw [List.cons_append, layoutAfter_cons, ih, ← layoutAfter_cons]
    rw [app]
    simp only [layoutAfter]
    exact key after _ ha
  · obtain ⟨c, hc, e⟩ := T11_fold_semantics P sem d _ s s' h hs
    refine ⟨c, hc, fun ψ x => ?_⟩
    rw [e ψ x, ghost_append]
    simp only [ghost, ghost_no_router before hb, ghost_no_router after har, id]

end Sem

/-! ### pass objects and the hand-over of the connectivity -/

/-- **the hand-over is history free**: `Passes.__call__` assigns its own connectivity to
    every pass object before calling it, so whatever the objects' `connectivity` attributes
    held before (other pipelines, other devices, `on_qubits` restrictions, constructor
    arguments), the run is the run of the stateless fold on the pipeline's device. -/
theorem T11_handover_history_free (d : Device) (ips : List (Nat × Pass)) (st : Store) (s : PState)
    (hi : ∀ ip ∈ ips, ip.1 < st.length) :
    (runPassesObj d st s ips).map (·.1) = runPasses d s (ips.map (·.2)) :=
  runPassesObj_eq ips st s hi

/-! ### non-vacuity -/

open QV.Props.C10 in
/-- the demo tables of C10 (U3 table `H, U3 ↦ U3`, CZ table `CNOT ↦ H CZ H`) are local. -/
example : localCheck QV.Props.C10.demo = true := by decide
example : TablesLocal QV.Props.C10.demo.toTables := T11_tables_local_of_check _ (by decide)
/-- a table whose template names the same index twice, or contains an `M`, is refused. -/
example : localCheck { QV.Props.C10.demo with cz := ⟨[8], [(8, 0, [⟨6, [0, 0], 0, false⟩])]⟩ } = false := by decide
example : localCheck { QV.Props.C10.demo with u3 := ⟨[20], [(20, 0, [⟨3, [0], 0, false⟩])]⟩ } = false := by decide

/-- hypotheses of `T11_unrollOk_derived` / `T11_unroll_keeps_connectivity` /
    `T11_accept_dispatch`: CNOT(0,1), M(1,0) under U3|CZ unrolls in the dispatch model. -/
example : unroll QV.Props.C10.demo.toTables 96 3 (demoCirc.queue.map PGate.toU)
    = some (([⟨5, 1, [1]⟩, ⟨6, 0, [0, 1]⟩, ⟨5, 1, [1]⟩, ⟨3, 0, [1, 0]⟩] : List PGate).map PGate.toU) := by decide
example : ∀ g ∈ demoCirc.queue, g.meas = true ∨ (g.qs.length ≤ 2 ∧
    (passThrough g.cls = true → isNative 96 g.cls = true)) := by decide
example : unrollOk 96 demoCirc.queue [⟨5, 1, [1]⟩, ⟨6, 0, [0, 1]⟩, ⟨5, 1, [1]⟩, ⟨3, 0, [1, 0]⟩] = true :=
  T11_unrollOk_derived QV.Props.C10.demo.toTables 96 3 _ _ (C10.T10_closed_of_check _ 96 (by decide))
    (T11_tables_local_of_check _ (by decide)) (by decide) (by decide)
example : assertConnectivity lineDev ⟨3, [10, 11, 12], demoCirc.queue⟩ = true := by decide
/-- `T11_dispatch_pass_valid`: the dispatch pass on the demo tables. -/
example : unrollDispatch QV.Props.C10.demo.toTables 96 3 demoCirc.queue
    = some [⟨5, 1, [1]⟩, ⟨6, 0, [0, 1]⟩, ⟨5, 1, [1]⟩, ⟨3, 0, [1, 0]⟩] := by decide
example : unrollInputOk 96 demoCirc.queue = true := by decide
example : ∀ g ∈ demoCirc.queue, passThrough g.cls = true → g.meas = true ∨ isNative 96 g.cls = true := by decide

/-- a pass list that is NOT the four-pass shape: unroll, pad, place, route, pad again,
    unroll again — runs, every answer valid, all three flags set. -/
def natQ : List PGate := [⟨4, 1, [1]⟩, ⟨6, 0, [0, 1]⟩, ⟨4, 1, [1]⟩, ⟨3, 0, [1, 0]⟩]

def oddList : List Pass :=
  [.unroller (some natQ), .pre, .placer (some [10, 11, 12]),
   .router (some (natQ, [0, 1, 2])), .pre, .unroller (some natQ)]

example : (runPasses lineDev ⟨demoCirc, none⟩ oddList).map (fun s => (s.circ.wires, s.circ.nqubits, s.layout))
    = some ([10, 11, 12], 3, some [0, 1, 2]) := by decide
example : validRun lineDev 94 ⟨demoCirc, none⟩ oddList = true := by decide
example : (placedAfter false oddList, connAfter false oddList, decAfter false oddList) = (true, true, true) := by decide
example : lineDev.nodes.Nodup ∧ ∀ e ∈ lineDev.edges, e.1 ∈ lineDev.nodes ∧ e.2 ∈ lineDev.nodes := by decide
/-- a placer after the router resets the connectivity flag and the layout. -/
example : connAfter false [.router (some ([], [0])), .placer (some [10])] = false := by decide
example : layoutAfter none [.router (some ([], [0, 1])), .unroller (some []), .pre] = some [0, 1] := by decide
/-- no placer: the own wires [12, 10] stay a prefix. -/
example : (runPasses lineDev ⟨demoCirc, none⟩ [.pre, .unroller (some demoCirc.queue)]).map (·.circ.wires)
    = some [12, 10, 11] := by decide
/-- `SemRun` is satisfiable: identity routing and identity unrolling of any queue. -/
example (sem : PGate → MGate Int) :
    SemRun (⊤ : Submonoid Int) sem lineDev ⟨⟨3, [10, 11, 12], demoCirc.queue⟩, none⟩
      [.router (some (demoCirc.queue, [])), .unroller (some demoCirc.queue)] := by
  refine ⟨?_, fun s' h => ⟨?_, fun _ _ => trivial⟩⟩
  · intro ψ
    funext y
    have : pull (look []) y = y := by funext r; simp [pull, look]
    rw [this]
  · obtain ⟨_, q, l, hq, rfl⟩ := router_step h
    cases hq
    exact Unroll.PhaseEq.refl _ _
/-- pass objects that held another device: the pipeline's device is used (3 wires, not 5) … -/
example : (runPassesObj lineDev [some ⟨[1, 2, 3, 4, 5], []⟩, none] ⟨demoCirc, none⟩ [(0, .pre), (1, .placer (some [10, 11, 12]))]).map
    (fun r => r.1.circ.wires) = some [10, 11, 12] := by decide
/-- … whereas "a pass that has a connectivity keeps it" pads to the stale device. -/
example : (runPassObjKeep lineDev [some ⟨[10, 12, 1, 2, 3], []⟩] ⟨demoCirc, none⟩ 0 .pre).map
    (fun r => r.1.circ.nqubits) = some 5 := by decide

end QV.Props.C11
