/-
  C04 (part b) — the k-qubit depolarizing channel.

  `T04_depolarizing_fast_eq_kraus_full` (kept as a visible `def` in part a) is proved: on every
  duplicate-free ordered target tuple of any length `k`, at any positions of any register, for every
  (not necessarily Hermitian) `ρ` over any commutative ring with `I² = −1`, `conj I = −I`, the
  partial-trace fast path `(1 − lam)·ρ + lam·(Tr_qs ρ ⊗ 1/2^k)` of
  `depolarizing_error_density_matrix` equals `apply_channel_density_matrix` on the channel object
  that `DepolarizingChannel.__init__` builds (the `4^k − 1` non-identity Pauli strings in
  `itertools.product("IXYZ", repeat=k)` order, coefficient `lam / 4^k` each,
  `coefficient_sum = (4^k − 1)·lam / 4^k`).

  Route (QV/Proofs/Depol.lean): the Pauli-twirl identity `Σ_P P[i,a]·conj P[j,b] = 2^k δ_ij δ_ab`
  by induction on `k` over the Kronecker structure of the strings (`T04_pauli_twirl_step` is the
  induction step, the one-qubit case is 16 ring identities), lifted to density matrices on labels
  (`T04_pauli_twirl`), plus the bookkeeping of the identity string and of `coefficient_sum`.

  Tie: `depolFast` and `depolChan` are compared exactly with the real
  `NumpyBackend.depolarizing_error_density_matrix` / `apply_channel_density_matrix` on
  Gaussian-integer `ρ` for `k ≤ 3`, all ordered tuples, `n ≤ 4` (suite `C04_corr_depol_k` of
  tools/props/C04.py), and the real fast path is compared with the real generic path.
-/
import Mathlib.Data.Complex.Basic
import QV.Proofs.Depol
import QV.Props.C04
namespace QV.Props.C04
open QV Finset

variable {α : Type} [CommRing α]

/-- matrix-level Pauli twirl: `Σ_{P ∈ {I,X,Y,Z}^k} P[i,a] · conj P[j,b] = 2^k δ_ij δ_ab`. -/
theorem T04_pauli_twirl_matrix (conj : α →+* α) (I : α) (hI : I * I = -1) (hcI : conj I = -I)
    (k : Nat) {i a j b : Nat} (hi : i < 2 ^ k) (ha : a < 2 ^ k) (hj : j < 2 ^ k) (hb : b < 2 ^ k) :
    twirlSum conj I k i a j b = if i = j ∧ a = b then (2 : α) ^ k else 0 :=
  twirlSum_eq conj I hI hcI k i a j b hi ha hj hb

/-- the induction step: the twirl sum over `k+1` qubits factorises into the one-qubit twirl on the
most significant target and the twirl over the remaining `k`. -/
theorem T04_pauli_twirl_step (conj : α →+* α) (I : α) (k i a j b : Nat) :
    twirlSum conj I (k + 1) i a j b
      = tw1 conj I (i / 2 ^ k % 2) (a / 2 ^ k % 2) (j / 2 ^ k % 2) (b / 2 ^ k % 2)
        * twirlSum conj I k (i % 2 ^ k) (a % 2 ^ k) (j % 2 ^ k) (b % 2 ^ k) :=
  twirlSum_succ conj I k i a j b

/-- **Pauli twirl**: `Σ_P P ρ P† = 2^k · (Tr_qs ρ ⊗ 1_qs)`, entry by entry, on any duplicate-free
ordered target tuple (the sum runs over the model's Pauli-string gates, all `4^k` of them). -/
theorem T04_pauli_twirl (conj : α →+* α) (I : α) (hI : I * I = -1) (hcI : conj I = -I)
    (qs : List Nat) (hn : qs.Nodup) (ρ : DM α) (x y : Lab) :
    ((pauliCodes qs.length).map
        (fun c => applyGateDM conj { mat := pauliStringMat I c, targets := qs } ρ x y)).sum
      = 2 ^ qs.length * (if qs.all (fun q => x q == y q) then ptraceSet qs ρ x y else 0) :=
  pauli_twirl conj I hI hcI qs hn ρ x y

/-- `G ρ G†` of an uncontrolled gate on any ordered duplicate-free tuple as a double sum over
local indices (the bridge between the label model and matrix identities). -/
theorem T04_gate_dm_sum_form (conj : α → α) (m : Nat → Nat → α) (ts : List Nat) (hn : ts.Nodup)
    (ρ : DM α) (x y : Lab) :
    applyGateDM conj { mat := m, targets := ts } ρ x y
      = ∑ a ∈ range (2 ^ ts.length), ∑ b ∈ range (2 ^ ts.length),
          m (Lab.idx ts x) a * conj (m (Lab.idx ts y) b)
            * ρ (Lab.wIdx x ts a) (Lab.wIdx y ts b) :=
  applyGateDM_eq_sum conj m ts hn ρ x y

/-- **the full statement is proved**: k-qubit depolarizing fast path = Kraus map of the
constructor's `4^k − 1` Pauli strings, any ordered target tuple in any register. -/
theorem T04_depolarizing_fast_eq_kraus_full_proved : T04_depolarizing_fast_eq_kraus_full := by
  intro α _ conj I u hI hcI qs hn ρ
  exact depolFast_eq_kraus conj I u hI hcI qs hn ρ

/-- the same, as a directly usable equation. -/
theorem T04_depolarizing_fast_eq_kraus (conj : α →+* α) (I u : α) (hI : I * I = -1)
    (hcI : conj I = -I) (qs : List Nat) (hn : qs.Nodup) (ρ : DM α) :
    depolFast (1 - 4 ^ qs.length * u) (2 ^ qs.length * u) qs ρ
      = applyChannelDM conj (depolChan I u qs) ρ :=
  depolFast_eq_kraus conj I u hI hcI qs hn ρ

/-- the k-qubit fast path preserves the trace over every register containing the targets
(`c0 = 1 − lam`, `w = lam / 2^k`: `c0 + 2^k w = 1`). -/
theorem T04_depolarizing_trace_preserved (c0 w : α) (ts : List Nat) (hn : ts.Nodup)
    (h1 : c0 + 2 ^ ts.length * w = 1) (qs : List Nat) (hsub : ∀ t, t ∈ ts → t ∈ qs) (ρ : DM α)
    (x : Lab) : trN qs (depolFast c0 w ts ρ) x = trN qs ρ x :=
  trN_congr_of_targets ts qs hn hsub _ _ (trN_depolFast c0 w ts hn h1 ρ) x

/-- hence the constructor's Kraus map preserves the trace as well. -/
theorem T04_depolarizing_kraus_trace_preserved (conj : α →+* α) (I u : α) (hI : I * I = -1)
    (hcI : conj I = -I) (ts : List Nat) (hn : ts.Nodup) (qs : List Nat)
    (hsub : ∀ t, t ∈ ts → t ∈ qs) (ρ : DM α) (x : Lab) :
    trN qs (applyChannelDM conj (depolChan I u ts) ρ) x = trN qs ρ x := by
  rw [← depolFast_eq_kraus conj I u hI hcI ts hn ρ]
  have h4 : (4 : α) ^ ts.length = 2 ^ ts.length * 2 ^ ts.length := by rw [← mul_pow]; norm_num
  exact T04_depolarizing_trace_preserved _ _ ts hn (by linear_combination (-u) * h4) qs hsub ρ x

/-! ### non-vacuity -/

/-- over ℂ with complex conjugation, a non-ascending 3-qubit tuple inside a larger register. -/
example (u : ℂ) (ρ : DM ℂ) :
    depolFast (1 - 4 ^ 3 * u) (2 ^ 3 * u) [4, 0, 2] ρ
      = applyChannelDM (starRingEnd ℂ) (depolChan Complex.I u [4, 0, 2]) ρ :=
  T04_depolarizing_fast_eq_kraus (starRingEnd ℂ) Complex.I u Complex.I_mul_I Complex.conj_I
    [4, 0, 2] (by decide) ρ

/-- the hypotheses of the trace statement are satisfiable (`lam = 1/2`, `k = 2`). -/
example (ρ : DM ℚ) (x : Lab) :
    trN [0, 1, 2, 3] (depolFast (1 / 2) (1 / 8) [3, 1] ρ) x = trN [0, 1, 2, 3] ρ x :=
  T04_depolarizing_trace_preserved (1 / 2) (1 / 8) [3, 1] (by decide) (by norm_num) _
    (by decide) ρ x

/-- the index bounds of the matrix identity are satisfiable. -/
example : (2 : Nat) < 2 ^ 2 ∧ (3 : Nat) < 2 ^ 2 := by decide

/-- the model evaluates: the two-qubit constructor builds 15 operators. -/
example : (depolChan (0 : ℤ) 1 [1, 0]).gates.length = 15 := by decide

end QV.Props.C04
