/-
  C15 (continued) — the four statements that C15b/C15c keep as `def … : Prop`, proved:
  the term matrix (Kronecker product over the sorted target qubits), the complete
  term-list route, the dense class's sample index under every qubit-map permutation, and
  the dense model builders (TFIM ring, one-body X/Y/Z) for every number of qubits.
  Helper lemmas: QV/Proofs/HamilKron.lean, HamilTerms.lean, HamilSamples.lean,
  HamilModels.lean.
-/
import QV.Proofs.HamilKron
import QV.Proofs.HamilTerms
import QV.Proofs.HamilSamples
import QV.Proofs.HamilModels
import QV.Props.C15
import QV.Props.C15b
import QV.Props.C15c
import Mathlib.Tactic.Ring
namespace QV.Props.C15
open QV

/-! ### (1) the term matrix -/
section termMatrix
variable {α : Type} [CommSemiring α]

/-- **`SymbolicTerm.matrix` denotes the term** (`T15_term_matrix_full`, proved): the gate
whose matrix is coefficient · kron over the *sorted* target qubits of the per-qubit
ordered products acts as coefficient · product of the factors in the written order —
for every term: any number of factors, any qubits, any 2×2 matrices, several
non-commuting factors on one qubit (they keep their order), factors on different
qubits interleaved in any way (they commute). -/
theorem T15_term_matrix_full_proved : @T15_term_matrix_full α _ :=
  fun t ψ => STerm.applyGate_gate t ψ

/-- the gate route of a whole term list: Σ gate(term) ψ + constant · ψ is `apply_gates`. -/
theorem T15_term_gates_sum (h : TermHam α) (ψ : Lab → α) (x : Lab) :
    (h.terms.map (fun t => applyGate t.gate ψ x)).sum + h.constant * ψ x = h.applyGates ψ x := by
  rw [T15_apply_gates_sum]
  congr 2
  apply List.map_congr_left
  intro t _
  rw [STerm.applyGate_gate]

omit [CommSemiring α] in
/-- the target qubits of a term are duplicate-free and are exactly the qubits of its
factors (`tuple(sorted(matrix_map.keys()))`). -/
theorem T15_term_targets (t : STerm α) :
    t.targets.Nodup ∧ t.targets.Pairwise (· < ·) ∧ ∀ r, r ∈ t.targets ↔ ∃ s ∈ t.factors, s.q = r :=
  ⟨t.targets_nodup, (foldl_insertSorted t.factors [] List.Pairwise.nil).1, t.mem_targets⟩

/-- **factors on different qubits commute, same-qubit factors keep their order**: a word
is the product over its target qubits of the sub-words on each qubit. -/
theorem T15_word_regroup (t : STerm α) (ψ : Lab → α) :
    wordApply t.factors ψ
      = t.targets.foldr (fun q φ => wordApply (t.factors.filter (fun s => s.q == q)) φ) ψ :=
  wordApply_regroup t.targets t.targets_nodup t.factors
    (fun s hs => (t.mem_targets s.q).mpr ⟨s, hs, rfl⟩) ψ

/-- **Kronecker chain = product of one-qubit gates** on any duplicate-free qubit list. -/
theorem T15_kron_chain (m : Nat → Nat → Nat → α) (ts : List Nat) (hn : ts.Nodup) (ψ : Lab → α)
    (x : Lab) :
    sumOver ts (fun y => kronEntry m ts x y * ψ y) x = chainApply m ts ψ x :=
  kron_chain m ts hn ψ x

/-- non-vacuity: a duplicate-free list. -/
example : ([2, 0, 1] : List Nat).Nodup := by decide

end termMatrix

/-! ### (2) the complete term-list route -/
section termList
variable {α : Type} [CommSemiring α]

/-- **Term route = operator** (`T15_terms_denote_full`, proved): the model of
`SymbolicHamiltonian.terms` — expansion into ordered monomials, sympy's grouping of equal
adjacent symbols into powers, `SymbolicTerm.__init__` (numbers folded into the coefficient,
powers of I/X/Y/Z reduced mod 2, other symbols repeated), factor-free terms collected in
`constant` — followed by `apply_gates` is the operator of the form, for every form. -/
theorem T15_terms_denote_full_proved : @T15_terms_denote_full α _ :=
  fun same f ψ hsame hinv => TermHam.ofForm_applyGates same hsame hinv f ψ

/-- the term route agrees with the dense route on every well-formed form. -/
theorem T15_terms_equal_dense (same : PSym α → PSym α → Bool)
    (hsame : ∀ a b, same a b = true → a = b) (hinv : ∀ s : PSym α, s.pauli = true → s.Invol)
    (n : Nat) (f : PForm α) (h : wf n f) (ψ : Lab → α) :
    (TermHam.ofForm same f).applyGates ψ = mulVec n (dense n f) ψ := by
  rw [TermHam.ofForm_applyGates same hsame hinv, T15_dense_denotes n f h]

/-- the density-matrix route (`apply_gates(density_matrix=True)`) column by column. -/
theorem T15_terms_denote_dm (same : PSym α → PSym α → Bool)
    (hsame : ∀ a b, same a b = true → a = b) (hinv : ∀ s : PSym α, s.pauli = true → s.Invol)
    (f : PForm α) (ρ : DM α) (x y : Lab) :
    (TermHam.ofForm same f).applyGatesDM ρ x y = f.denote (fun r => ρ r y) x := by
  rw [← TermHam.ofForm_applyGates same hsame hinv f (fun r => ρ r y)]
  unfold TermHam.applyGatesDM TermHam.applyGates
  congr 2
  funext a t
  rw [T15_term_apply_dm]

/-- `SymbolicTerm.__init__` on one raw factor list. -/
theorem T15_term_of_raw (hinv : ∀ s : PSym α, s.pauli = true → s.Invol)
    (c : α) (fs : List (RawFactor α)) (ψ : Lab → α) (x : Lab) :
    (STerm.ofRaw c fs).denote ψ x = c * rawsApply fs ψ x := STerm.ofRaw_denote hinv c fs ψ x

/-- grouping equal adjacent symbols into powers keeps the operator. -/
theorem T15_group_powers (same : PSym α → PSym α → Bool)
    (hsame : ∀ a b, same a b = true → a = b) (w : List (PSym α)) (ψ : Lab → α) :
    rawsApply (groupPowers same w) ψ = wordApply w ψ := groupPowers_apply same hsame w ψ

/-- non-vacuity: comparing names identifies equal symbols when names are unique. -/
example : ∃ same : PSym Int → PSym Int → Bool, ∀ a b, same a b = true → a = b :=
  ⟨fun _ _ => false, fun _ _ h => by cases h⟩

end termList

/-! ### (3) samples: the dense class -/
section samples
variable {α : Type} [CommRing α]

/-- **The dense class's index** (`T15_samples_dense_index_full`, proved). -/
theorem T15_samples_dense_index_full_proved : T15_samples_dense_index_full :=
  fun n qm key hp _ => denseIndex_eq_toIndex n qm key hp

/-- non-vacuity: the reversed map on two qubits; and the index depends on the map. -/
example : ([1, 0] : List Nat).Perm (List.range 2) := by decide
example : denseIndex [1, 0] [true, false] = 1 ∧ denseIndex [0, 1] [true, false] = 2 := by decide

/-- dense `expectation_from_samples` (scaled by the shots) = Σ count · diagonal entry at the
array index of the key's label under the map. -/
theorem T15_samples_dense (n : Nat) (diag : Nat → α) (qm : List Nat)
    (hp : qm.Perm (List.range n)) (freq : List (List Bool × α)) :
    samplesDenseScaled diag qm freq
      = (freq.map (fun kc => diag (Lab.toIndex n (keyLabel qm kc.1)) * kc.2)).sum := by
  unfold samplesDenseScaled
  rw [foldl_add_eq_sum' (fun kc : List Bool × α => diag (denseIndex qm kc.1) * kc.2) freq 0, zero_add]
  congr 1
  apply List.map_congr_left
  intro kc _
  rw [denseIndex_eq_toIndex n qm kc.1 hp]

/-- a term list of Z strings on the register. -/
def ZHam (n : Nat) (h : TermHam α) : Prop :=
  ∀ t ∈ h.terms, ∃ qs : List Nat, t.factors = qs.map (fun q => (symZ q : PSym α)) ∧ ∀ q ∈ qs, q < n

theorem zval_congr (fs : List (PSym α)) {x y : Lab} (h : ∀ s ∈ fs, x s.q = y s.q) :
    zval x fs = zval y fs := by
  unfold zval
  congr 1
  apply List.map_congr_left
  intro s hs
  rw [h s hs]

/-- a Z-string Hamiltonian acts diagonally with eigenvalue `eigZ`. -/
theorem T15_zham_diagonal (n : Nat) (h : TermHam α) (hz : ZHam n h) (ψ : Lab → α) (x : Lab) :
    h.applyGates ψ x = eigZ h x * ψ x := by
  rw [T15_apply_gates_sum]
  unfold eigZ
  rw [add_mul, ← List.sum_map_mul_right]
  congr 2
  apply List.map_congr_left
  intro t ht
  obtain ⟨qs, hqs, _⟩ := hz t ht
  show t.coef * wordApply t.factors ψ x = _
  rw [hqs, T15_zstring_diagonal]
  ring

/-- **Dense and symbolic `expectation_from_samples` agree.**  Let `D` be any matrix that
acts as the Z-string Hamiltonian `h` (e.g. `dense n f` of a form whose term list is `h`,
by `T15_dense_denotes` / `T15_terms_denote_full_proved`).  Then for every qubit map that is
a permutation of the register and every frequency table, the dense class's value, computed
from the diagonal `D[i, i]` through `denseIndex`, equals the symbolic class's value, computed
term by term from the signs. -/
theorem T15_samples_dense_symbolic_agree (n : Nat) (h : TermHam α) (hz : ZHam n h) (D : DM α)
    (hD : ∀ ψ, mulVec n D ψ = h.applyGates ψ) (qm : List Nat) (hp : qm.Perm (List.range n))
    (freq : List (List Bool × α)) :
    samplesDenseScaled (fun i => D (Lab.ofIndex n i) (Lab.ofIndex n i)) qm freq
      = samplesSymbolicScaled h qm freq := by
  rw [T15_samples_dense n _ qm hp, T15_samples_symbolic]
  congr 1
  apply List.map_congr_left
  intro kc _
  congr 1
  generalize keyLabel qm kc.1 = y
  have hdiag : ∀ x : Lab, D x x = eigZ h x := by
    intro x
    rw [← mulVec_basisState n D x, hD, T15_zham_diagonal n h hz, basisState_self, mul_one]
  rw [hdiag]
  unfold eigZ
  congr 2
  apply List.map_congr_left
  intro t ht
  obtain ⟨qs, hqs, hlt⟩ := hz t ht
  congr 1
  apply zval_congr
  intro s hs
  rw [hqs] at hs
  obtain ⟨q, hq, rfl⟩ := List.mem_map.mp hs
  exact Lab.ofIndex_toIndex_of_lt n y (hlt q hq)

/-- non-vacuity: Z₀·Z₁·Z₀ + 2 Z₁ on two qubits is a Z-string term list. -/
example : ZHam (α := Int) 2 ⟨[⟨1, [symZ 0, symZ 1, symZ 0]⟩, ⟨2, [symZ 1]⟩], 3⟩ := by
  intro t ht
  simp only [List.mem_cons, List.not_mem_nil, or_false] at ht
  rcases ht with rfl | rfl
  · exact ⟨[0, 1, 0], rfl, by decide⟩
  · exact ⟨[1], rfl, by decide⟩

end samples

/-! ### (4) model builders -/
section models

theorem wf_foldl_add {α : Type} {ι : Type} (n : Nat) (F : ι → PForm α) (l : List ι) (a : PForm α)
    (ha : wf n a) (hF : ∀ i ∈ l, wf n (F i)) :
    wf n (l.foldl (fun acc i => PForm.add acc (F i)) a) := by
  induction l generalizing a with
  | nil => exact ha
  | cons i l ih =>
    rw [List.foldl_cons]
    exact ih _ ⟨ha, hF i (List.mem_cons_self ..)⟩ (fun j hj => hF j (List.mem_cons_of_mem _ hj))

variable {R : Type} [CommRing R]

theorem wf_tfimForm (n : Nat) (h : R) (hn : 2 ≤ n) : wf n (tfimForm n h) := by
  refine ⟨?_, ⟨?_, ?_⟩, ?_⟩
  · apply wf_foldl_add n _ _ (.const 0) (by simp [wf])
    intro i hi
    have := List.mem_range.mp hi
    exact ⟨⟨by show i < n; omega, by show i + 1 < n; omega⟩, by show i < n; omega⟩
  · show n - 1 < n; omega
  · show 0 < n; omega
  · show n - 1 < n; omega

theorem wf_oneBodyForm (n : Nat) (m : Nat → Nat → R) : wf n (oneBodyForm n m) := by
  apply wf_foldl_add n _ _ (.const 0) (by simp [wf])
  intro i hi
  exact List.mem_range.mp hi

/-- **`_build_spin_model`** for every `n`, matrix and condition: the sum over `i` of the
product of the one-qubit gates of `m` on the qubits `j` with `condition(i, j)`. -/
theorem T15_build_spin (n : Nat) (m : Nat → Nat → R) (cond : Nat → Nat → Bool) (ψ : Lab → R)
    (x : Lab) :
    mulVec n (buildSpin n m cond) ψ x
      = ((List.range n).map (fun i =>
          chainApply (fun _ => m) ((List.range n).filter (cond i)) ψ x)).sum :=
  mulVec_buildSpin n m cond ψ x

/-- **One-body models X / Y / Z** (`_OneBodyPauli`, any 2×2 matrix): the dense builder is
the operator of the symbolic form `Σ_i (−1)·σ_i`, for every number of qubits. -/
theorem T15_models_onebody (n : Nat) (m : Nat → Nat → R) (ψ : Lab → R) :
    mulVec n (oneBodyDense n m) ψ = (oneBodyForm n m).denote ψ := by
  funext x
  unfold oneBodyDense oneBodyForm
  rw [mulVec_mSmul, mulVec_buildSpin, denote_foldl_add, ← List.sum_map_mul_left]
  simp only [PForm.denote, zero_mul, zero_add]
  congr 1
  apply List.map_congr_left
  intro i hi
  rw [chainApply_perm _ (filter_site (List.mem_range.mp hi))]
  rfl

/-- the dense one-body builder equals the dense matrix of the symbolic form (as operators). -/
theorem T15_models_onebody_dense (n : Nat) (m : Nat → Nat → R) (ψ : Lab → R) :
    mulVec n (oneBodyDense n m) ψ = mulVec n (dense n (oneBodyForm n m)) ψ := by
  rw [T15_models_onebody, T15_dense_denotes n _ (wf_oneBodyForm n m)]

/-- **TFIM, every n ≥ 2 and every field h**: the dense builder (ring sum of Kronecker
chains, periodic last pair) is the operator of the symbolic form
`−Σ_{i<n−1}(Z_i Z_{i+1} + h X_i) − (Z_{n−1} Z_0 + h X_{n−1})`. -/
theorem T15_models_tfim (n : Nat) (h : R) (hn : 2 ≤ n) (ψ : Lab → R) :
    mulVec n (tfimDense n h) ψ = (tfimForm n h).denote ψ := by
  obtain ⟨m, rfl⟩ : ∃ m, n = m + 1 := ⟨n - 1, by omega⟩
  have hm : 1 ≤ m := by omega
  funext x
  unfold tfimDense tfimForm
  rw [mulVec_mAdd, mulVec_mSmul, mulVec_mSmul, mulVec_buildSpin, mulVec_buildSpin]
  simp only [PForm.denote, Nat.add_sub_cancel]
  rw [denote_foldl_add]
  -- the ring sum of the dense builder
  have hZ : ((List.range (m + 1)).map (fun i =>
        chainApply (fun _ => (pauliZ : Nat → Nat → R))
          ((List.range (m + 1)).filter (ringCond (m + 1) i)) ψ x)).sum
      = applyGate (symZ m : PSym R).gate (applyGate (symZ 0 : PSym R).gate ψ) x
        + ((List.range m).map (fun i =>
            applyGate (symZ i : PSym R).gate (applyGate (symZ (i + 1) : PSym R).gate ψ) x)).sum := by
    rw [sum_range_succ_shift]
    congr 1
    · rw [chainApply_perm _ (filter_ring_zero hm)]; rfl
    · congr 1
      apply List.map_congr_left
      intro i hi
      have hi' : i + 1 < m + 1 := by have := List.mem_range.mp hi; omega
      rw [chainApply_perm _ (filter_ring_succ hi')]; rfl
  have hX : ((List.range (m + 1)).map (fun i =>
        chainApply (fun _ => (pauliX : Nat → Nat → R))
          ((List.range (m + 1)).filter (siteCond (m + 1) i)) ψ x)).sum
      = ((List.range m).map (fun i => applyGate (symX i : PSym R).gate ψ x)).sum
        + applyGate (symX m : PSym R).gate ψ x := by
    have e : ∀ i ∈ List.range (m + 1),
        chainApply (fun _ => (pauliX : Nat → Nat → R))
          ((List.range (m + 1)).filter (siteCond (m + 1) i)) ψ x
        = applyGate (symX i : PSym R).gate ψ x := by
      intro i hi
      rw [chainApply_perm _ (filter_site (List.mem_range.mp hi))]; rfl
    rw [List.map_congr_left e, List.range_succ, List.map_append, List.sum_append]
    simp
  rw [hZ, hX]
  simp only [tfimTerm, PForm.denote]
  rw [List.sum_map_add, List.sum_map_mul_left]
  ring

/-- **`T15_models_tfim_full`, proved**: dense TFIM builder = dense matrix of the symbolic
TFIM form, as operators, for all n ≥ 2 and all h. -/
theorem T15_models_tfim_full_proved : @T15_models_tfim_full R _ :=
  fun n h ψ hn => by
    rw [T15_models_tfim n h hn, T15_dense_denotes n _ (wf_tfimForm n h hn)]

/-- non-vacuity: the TFIM form on two qubits is well formed. -/
example : wf 2 (tfimForm 2 (3 : Int)) := wf_tfimForm 2 3 (by decide)

/-! #### Heisenberg (and with it XXX, XXZ) -/

theorem mulVec_heisDense_foldl (n : Nat) (cs : List (HComp R)) (M : DM R) (ψ : Lab → R) (x : Lab) :
    mulVec n (cs.foldl (fun M c =>
        mAdd (mAdd M (mSmul (-c.J) (buildSpin n c.mat (ringCond n)))) (mSmul c.h (oneBodyDense n c.mat))) M) ψ x
      = mulVec n M ψ x + (cs.map (fun c =>
          (-c.J) * mulVec n (buildSpin n c.mat (ringCond n)) ψ x
            + c.h * mulVec n (oneBodyDense n c.mat) ψ x)).sum := by
  induction cs generalizing M with
  | nil => simp
  | cons c cs ih =>
    rw [List.foldl_cons, ih, mulVec_mAdd, mulVec_mAdd, mulVec_mSmul, mulVec_mSmul]
    simp only [List.map_cons, List.sum_cons]
    ring

theorem heisTerm_denote (cs : List (HComp R)) (a b : Nat) (ψ : Lab → R) (x : Lab) :
    (heisTerm cs a b).denote ψ x
      = (cs.map (fun c => c.J * applyGate (g1 c.mat a) (applyGate (g1 c.mat b) ψ) x)).sum := by
  unfold heisTerm
  rw [denote_foldl_add]
  simp only [PForm.denote, zero_mul, zero_add]
  rfl

theorem heisField_denote (n : Nat) (cs : List (HComp R)) (hk : ∀ c ∈ cs, c.keep = false → c.h = 0)
    (ψ : Lab → R) (x : Lab) :
    (heisField n cs).denote ψ x
      = (cs.map (fun c => c.h * ((List.range n).map (fun q => applyGate (g1 c.mat q) ψ x)).sum)).sum := by
  unfold heisField
  rw [denote_foldl_foldl_add]
  simp only [PForm.denote, zero_mul, zero_add]
  have e : ∀ q ∈ List.range n,
      ((cs.filter (·.keep)).map (fun c => c.h * applyGate (PSym.gate { mat := c.mat, q := q }) ψ x)).sum
        = (cs.map (fun c => c.h * applyGate (g1 c.mat q) ψ x)).sum := by
    intro q _
    rw [sum_filter_of_zero (fun c : HComp R => c.keep)
      (fun c => c.h * applyGate (PSym.gate { mat := c.mat, q := q }) ψ x) cs
      (fun c hc hkeep => by rw [hk c hc hkeep, zero_mul])]
    rfl
  rw [List.map_congr_left e, list_sum_comm]
  congr 1
  apply List.map_congr_left
  intro c _
  rw [List.sum_map_mul_left]

/-- **Heisenberg model, every n ≥ 2, all couplings and fields, any 2×2 matrices** (hence
XXX and XXZ, which call it): the dense builder — for each of X, Y, Z the ring sum of
Kronecker chains with the periodic last pair times `-J`, plus `h` times the one-body
matrix — is the operator of the symbolic form
`−Σ_{i<n−1} Σ_σ J_σ σ_i σ_{i+1} − Σ_σ J_σ σ_{n−1} σ_0 − Σ_q Σ_{σ: h_σ ≠ 0} h_σ σ_q`. -/
theorem T15_models_heisenberg (n : Nat) (cs : List (HComp R)) (hn : 2 ≤ n)
    (hk : ∀ c ∈ cs, c.keep = false → c.h = 0) (ψ : Lab → R) :
    mulVec n (heisDense n cs) ψ = (heisForm n cs).denote ψ := by
  obtain ⟨m, rfl⟩ : ∃ m, n = m + 1 := ⟨n - 1, by omega⟩
  have hm : 1 ≤ m := by omega
  funext x
  unfold heisDense heisForm
  rw [mulVec_heisDense_foldl, mulVec_mZero, zero_add]
  simp only [PForm.denote, Nat.add_sub_cancel]
  rw [denote_foldl_add, heisField_denote _ _ hk, heisTerm_denote]
  simp only [PForm.denote, zero_mul, zero_add, heisTerm_denote]
  rw [list_sum_comm (fun (i : Nat) (c : HComp R) =>
      c.J * applyGate (g1 c.mat i) (applyGate (g1 c.mat (i + 1)) ψ) x)]
  rw [← List.sum_map_mul_left, ← List.sum_map_mul_left, ← List.sum_map_mul_left,
    ← List.sum_map_add, ← List.sum_map_add]
  congr 1
  apply List.map_congr_left
  intro c _
  unfold oneBodyDense
  rw [mulVec_buildSpin, ring_sum c.mat hm, mulVec_mSmul, mulVec_buildSpin, site_sum,
    List.sum_map_mul_left]
  ring

theorem wf_heisForm (n : Nat) (cs : List (HComp R)) (hn : 2 ≤ n) : wf n (heisForm n cs) := by
  have hterm : ∀ a b, a < n → b < n → wf n (heisTerm cs a b) := by
    intro a b ha hb
    apply wf_foldl_add n _ _ (.const 0) (by simp [wf])
    intro c _
    exact ⟨ha, hb⟩
  refine ⟨⟨?_, ?_⟩, ?_⟩
  · apply wf_foldl_add n _ _ (.const 0) (by simp [wf])
    intro i hi
    have := List.mem_range.mp hi
    exact hterm i (i + 1) (by omega) (by omega)
  · exact hterm (n - 1) 0 (by omega) (by omega)
  · show wf n (heisField n cs)
    unfold heisField
    have key : ∀ (l : List Nat) (a : PForm R), wf n a → (∀ q ∈ l, q < n) →
        wf n (l.foldl (fun acc q => (cs.filter (·.keep)).foldl
          (fun acc c => PForm.add acc (.smul c.h (.sym { mat := c.mat, q := q }))) acc) a) := by
      intro l
      induction l with
      | nil => intro a ha _; exact ha
      | cons q l ih =>
        intro a ha hl
        rw [List.foldl_cons]
        apply ih _ _ (fun q' hq' => hl q' (List.mem_cons_of_mem _ hq'))
        apply wf_foldl_add n _ _ a ha
        intro c _
        exact hl q (List.mem_cons_self ..)
    exact key _ _ (by simp [wf]) (fun q hq => List.mem_range.mp hq)

/-- the dense Heisenberg builder equals the dense matrix of the symbolic form (as operators). -/
theorem T15_models_heisenberg_dense (n : Nat) (cs : List (HComp R)) (hn : 2 ≤ n)
    (hk : ∀ c ∈ cs, c.keep = false → c.h = 0) (ψ : Lab → R) :
    mulVec n (heisDense n cs) ψ = mulVec n (dense n (heisForm n cs)) ψ := by
  rw [T15_models_heisenberg n cs hn hk, T15_dense_denotes n _ (wf_heisForm n cs hn)]

/-- non-vacuity: XXZ-like components (no field: the field terms are dropped). -/
example : ∀ c ∈ ([⟨-1, 0, false, pauliX⟩, ⟨-2, 0, false, pauliZ⟩] : List (HComp Int)),
    c.keep = false → c.h = 0 := by
  intro c hc _
  simp only [List.mem_cons, List.not_mem_nil, or_false] at hc
  rcases hc with rfl | rfl <;> rfl

end models

end QV.Props.C15
