/-
  C15 (continued) — term route, expansion, Pauli powers, Pauli algebra, eigenvalue cache.
-/
import QV.Proofs.Hamil
import QV.Props.C15
import QV.Core.GI
import Mathlib.Algebra.Order.Ring.Defs
import Mathlib.Tactic.IntervalCases
namespace QV.Props.C15
open QV Finset

variable {α : Type} [CommSemiring α]

/-- **The expanded form denotes the form**: the sum over the ordered monomials
(coefficient · product of the word's symbols in the written order) is the operator of the
form — for all sums, products, powers, scalar multiples, any number of factors per qubit. -/
theorem T15_expand_sound (f : PForm α) (ψ : Lab → α) :
    monosDenote (expand f) ψ = f.denote ψ := monosDenote_expand f ψ

/-- **Symbolic route = dense route** for every well-formed form: summing the ordered
monomials on a state gives what the dense matrix gives. -/
theorem T15_symbolic_equals_dense (n : Nat) (f : PForm α) (h : wf n f) (ψ : Lab → α) :
    monosDenote (expand f) ψ = mulVec n (dense n f) ψ := by
  rw [T15_dense_denotes n f h, monosDenote_expand]

/-- a term built from a monomial denotes the monomial. -/
theorem T15_term_of_monomial (m : Mono α) (ψ : Lab → α) :
    (STerm.mk m.1 m.2).denote ψ = monoDenote m ψ := rfl

theorem foldl_add_eq_sum {β : Type} (g : β → α) (l : List β) (acc : α) :
    l.foldl (fun a t => a + g t) acc = acc + (l.map g).sum := by
  induction l generalizing acc with
  | nil => simp
  | cons t l ih => simp only [List.foldl_cons, ih, List.map_cons, List.sum_cons, add_assoc]

/-- **`apply_gates`** is the sum of the terms' operators plus constant · state. -/
theorem T15_apply_gates_sum (h : TermHam α) (ψ : Lab → α) (x : Lab) :
    h.applyGates ψ x = (h.terms.map (fun t => t.denote ψ x)).sum + h.constant * ψ x := by
  unfold TermHam.applyGates
  have e := foldl_add_eq_sum (fun t : STerm α => t.apply ψ x) h.terms 0
  rw [e, zero_add]
  congr 2
  apply List.map_congr_left
  intro t _
  exact congrFun (T15_term_apply_aux t ψ) x
where
  T15_term_apply_aux (t : STerm α) (ψ : Lab → α) : t.apply ψ = t.denote ψ := by
    funext x
    simp only [STerm.apply, STerm.denote, List.foldl_reverse]

/-- **Term route = operator (partial)**: `apply_gates` over the term list read off the
expansion, one term per ordered monomial, is the operator of the form.  (Partial: the
real list additionally reduces powers of I, X, Y, Z mod 2 — justified by
`T15_pauli_power` — and keeps factor-free monomials in `constant`; the complete
statement is `T15_terms_denote_full`, proved in C15d.lean as
`T15_terms_denote_full_proved`.) -/
theorem T15_terms_denote_partial (f : PForm α) (ψ : Lab → α) (x : Lab) :
    (TermHam.mk ((expand f).map (fun m => STerm.mk m.1 m.2)) 0).applyGates ψ x = f.denote ψ x := by
  rw [T15_apply_gates_sum, ← monosDenote_expand f ψ]
  simp only [zero_mul, add_zero, List.map_map]
  rfl

/-- full statement (proved: `T15_terms_denote_full_proved`, C15d.lean): the model of `SymbolicHamiltonian.terms` built through
`groupPowers` / `STerm.ofRaw` / `TermHam.ofRaw` acts as the operator of the form, provided
the symbols flagged `pauli` are involutive and `same` identifies equal symbols only. -/
def T15_terms_denote_full : Prop :=
  ∀ (same : PSym α → PSym α → Bool) (f : PForm α) (ψ : Lab → α),
    (∀ a b, same a b = true → a = b) →
    (∀ s : PSym α, s.pauli = true → s.Invol) →
    (TermHam.ofForm same f).applyGates ψ = f.denote ψ

/-- full statement (proved: `T15_term_matrix_full_proved`, C15d.lean; the correspondence also
compares the real `term.matrix` with `STerm.matrix` on every case): the gate built
from `SymbolicTerm.matrix` (coefficient · kron over the sorted target qubits of the
per-qubit products) acts as the term's operator — factors on different qubits commute,
factors on one qubit keep their order. -/
def T15_term_matrix_full : Prop :=
  ∀ (t : STerm α) (ψ : Lab → α), applyGate t.gate ψ = t.denote ψ

/-- full statement (proved: `T15_models_tfim_full_proved`, C15d.lean; also exercised by the
correspondence for n ≤ 5): the dense TFIM builder and the dense matrix of the
symbolic TFIM form agree for every n ≥ 2 and every field h. -/
def T15_models_tfim_full {R : Type} [CommRing R] : Prop :=
  ∀ (n : Nat) (h : R) (ψ : Lab → R), 2 ≤ n →
    mulVec n (tfimDense n h) ψ = mulVec n (dense n (tfimForm n h)) ψ

/-- **Powers of an involutive symbol reduce mod 2** (`SymbolicTerm.__init__`: an even
power of I, X, Y, Z vanishes, an odd power is the symbol). -/
theorem T15_pauli_power (s : PSym α) (h : s.Invol) (k : Nat) (ψ : Lab → α) :
    iter (applyGate s.gate) k ψ = if k % 2 = 0 then ψ else applyGate s.gate ψ :=
  iter_invol s h k ψ

/-- non-vacuity: X and Z symbols are involutive over any commutative ring. -/
example {R : Type} [CommRing R] (q : Nat) : (symX q : PSym R).Invol := by
  intro i j hi hj
  interval_cases i <;> interval_cases j <;> simp [symX, pauliX]

example {R : Type} [CommRing R] (q : Nat) : (symZ q : PSym R).Invol := by
  intro i j hi hj
  interval_cases i <;> interval_cases j <;> simp [symZ, pauliZ]

/-! ### one-qubit Pauli algebra over the Gaussian integers -/

def gX : M2 GI := ⟨0, 1, 1, 0⟩
def gY : M2 GI := ⟨0, ⟨0, -1⟩, ⟨0, 1⟩, 0⟩
def gZ : M2 GI := ⟨1, 0, 0, ⟨-1, 0⟩⟩
def gI : M2 GI := ⟨1, 0, 0, 1⟩
def gSc (c : GI) (m : M2 GI) : M2 GI := ⟨c * m.a, c * m.b, c * m.c, c * m.d⟩
def m2eq (x y : M2 GI) : Bool := x.a == y.a && x.b == y.b && x.c == y.c && x.d == y.d

/-- XY = iZ, YZ = iX, ZX = iY, the reversed products carry −i, squares are the identity:
the facts that make the order of same-qubit factors matter (DESIGN §4 F21). -/
theorem T15_pauli_algebra :
    m2eq (M2.mul gX gY) (gSc ⟨0, 1⟩ gZ) && m2eq (M2.mul gY gZ) (gSc ⟨0, 1⟩ gX)
      && m2eq (M2.mul gZ gX) (gSc ⟨0, 1⟩ gY) && m2eq (M2.mul gY gX) (gSc ⟨0, -1⟩ gZ)
      && m2eq (M2.mul gZ gY) (gSc ⟨0, -1⟩ gX) && m2eq (M2.mul gX gZ) (gSc ⟨0, -1⟩ gY)
      && m2eq (M2.mul gX gX) gI && m2eq (M2.mul gY gY) gI && m2eq (M2.mul gZ gZ) gI = true := by
  decide

/-! ### eigenvalue cache of scalar multiples (`Hamiltonian.__mul__`) -/

variable {R : Type} [CommRing R] [LinearOrder R] [IsStrictOrderedRing R]

/-- for a ≥ 0 the cached ascending eigenvalues scaled by `a` are ascending. -/
theorem T15_eig_cache_nonneg (a : R) (ha : 0 ≤ a) (l : List R) (h : l.Pairwise (· ≤ ·)) :
    (l.map (a * ·)).Pairwise (· ≤ ·) :=
  List.Pairwise.map _ (fun _ _ hxy => mul_le_mul_of_nonneg_left hxy ha) h

/-- for a ≤ 0 the *flipped* list scaled by `a` is ascending (what `__mul__` stores). -/
theorem T15_eig_cache_neg (a : R) (ha : a ≤ 0) (l : List R) (h : l.Pairwise (· ≤ ·)) :
    (l.reverse.map (a * ·)).Pairwise (· ≤ ·) := by
  apply List.Pairwise.map _ _ (List.pairwise_reverse.mpr h)
  intro x y hxy
  exact mul_le_mul_of_nonpos_left hxy ha

/-- non-vacuity / boundary: without the flip the order is wrong for a < 0. -/
example : ¬ (([1, 2] : List Int).map ((-1) * ·)).Pairwise (· ≤ ·) := by decide

end QV.Props.C15
