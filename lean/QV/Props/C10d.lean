/-
  C10d — the ZYZ synthesis of one-qubit unitaries (`u3_decomposition`,
  qibo `transpiler/unitary_decompositions.py`; used by `u3_dec` / `gpi2_dec` for `gates.Unitary`
  and by the one-qubit factors of the two-qubit KAK path) is correct for EVERY 2×2 unitary.

  The angle formulas are transliterated over ℝ/ℂ in QV/Proofs/ZYZ.lean (`u3Angles`; `numpy.angle` =
  `Complex.arg`, `numpy.arctan2 y x` = `arg (x + y i)`, `numpy.sqrt` = principal square root) and
  compared numerically with the real `u3_decomposition` on every run (tools/props/C10.py,
  `zyz_suite`: Haar unitaries and the boundary matrices — anti-diagonal with det ≠ 1 (X, Y),
  diagonal, Hadamard, scalar multiples).

    * `T10_zyz_su2`            : SU(2)-shaped input `[[a, -b̄], [b, ā]]`, `|a|² + |b|² = 1`: the angles
                                 give back the matrix EXACTLY; no genericity assumption — the
                                 boundary cases `a = 0`, `b = 0` are included
    * `T10_zyz_antidiagonal`, `T10_zyz_diagonal` : the two boundary families, spelled out
    * `T10_u3_decomposition`   : every unitary `u`: `U3(θ, φ, λ) = c • u` with `|c| = 1`
                                 (`c = 1 / sqrt (det u)`)
    * `T10_u3_decomposition_gate` : … hence in the simulator model the gate `U3(θ, φ, λ)` on any
                                 qubit acts as `Unitary(u)` on that qubit up to that scalar, on every
                                 state of every register (`PhaseEq` over the unit circle)
-/
import QV.Proofs.ZYZ
import QV.Model.ZYZ
import QV.Proofs.SymSound
import QV.Proofs.Bridge
import QV.Proofs.Unroller
set_option linter.unusedSectionVars false
namespace QV.Props.C10
open QV QV.Unroll QV.ZYZ Complex
open scoped ComplexConjugate

/-- SU(2) form, boundary cases included. -/
theorem T10_zyz_su2 (a b : ℂ) (h : ‖a‖ ^ 2 + ‖b‖ ^ 2 = 1) :
    u3Mat (anglesOf a b).1 (anglesOf a b).2.1 (anglesOf a b).2.2 = !![a, -conj b; b, conj a] :=
  u3Mat_su2 a b h

/-- boundary `a = 0` (anti-diagonal matrices: X, Y up to their determinant's root):
    `θ = π`-type case, `angle(su2[1,1]) = angle(0) = 0` is used by the code and is harmless. -/
theorem T10_zyz_antidiagonal (b : ℂ) (h : ‖b‖ = 1) :
    u3Mat (anglesOf 0 b).1 (anglesOf 0 b).2.1 (anglesOf 0 b).2.2 = !![0, -conj b; b, 0] := by
  have := u3Mat_su2 0 b (by simp [h])
  simpa using this

/-- boundary `b = 0` (diagonal matrices). -/
theorem T10_zyz_diagonal (a : ℂ) (h : ‖a‖ = 1) :
    u3Mat (anglesOf a 0).1 (anglesOf a 0).2.1 (anglesOf a 0).2.2 = !![a, 0; 0, conj a] := by
  have := u3Mat_su2 a 0 (by simp [h])
  simpa using this

/-- **ZYZ theorem**: for every 2×2 unitary, `U3` with the angles computed by the transliterated
    `u3_decomposition` equals the unitary up to a unit-modulus scalar. -/
theorem T10_u3_decomposition (u : Matrix (Fin 2) (Fin 2) ℂ)
    (hu : u ∈ Matrix.unitaryGroup (Fin 2) ℂ) :
    ∃ c : ℂ, ‖c‖ = 1 ∧ u3Mat (u3Angles u).1 (u3Angles u).2.1 (u3Angles u).2.2 = c • u := by
  obtain ⟨hs, h⟩ := u3_decomposition_correct u hu
  exact ⟨(npSqrt u.det)⁻¹, by rw [norm_inv, hs, inv_one], h⟩

/-! ### in the simulator model -/

/-- a 2×2 matrix as the local matrix of a one-qubit gate. -/
def localOf (A : Matrix (Fin 2) (Fin 2) ℂ) : Nat → Nat → ℂ := fun i j =>
  if h : i < 2 ∧ j < 2 then A ⟨i, h.1⟩ ⟨j, h.2⟩ else 0

/-- one-qubit gate with local matrix `A` on qubit `q`. -/
def gate1 (A : Matrix (Fin 2) (Fin 2) ℂ) (q : Nat) : MGate ℂ := { mat := localOf A, targets := [q] }

theorem localOf_smul (c : ℂ) (A : Matrix (Fin 2) (Fin 2) ℂ) (i j : Nat) :
    localOf (c • A) i j = c * localOf A i j := by
  unfold localOf
  split <;> simp

theorem applyGate_gate1_smul (c : ℂ) (A : Matrix (Fin 2) (Fin 2) ℂ) (q : Nat) (ψ : Lab → ℂ)
    (x : Lab) : applyGate (gate1 (c • A) q) ψ x = c * applyGate (gate1 A q) ψ x := by
  rw [applyGate_eq_sum _ (by simp [gate1]), applyGate_eq_sum _ (by simp [gate1])]
  simp only [gate1, Lab.allOne, List.all_nil, if_true, localOf_smul, Finset.mul_sum, mul_assoc]

/-- the gate `U3(u3_decomposition(u))` acts as the gate `Unitary(u)` up to a unit-modulus scalar,
    on every qubit, every state, every register. -/
theorem T10_u3_decomposition_gate (u : Matrix (Fin 2) (Fin 2) ℂ)
    (hu : u ∈ Matrix.unitaryGroup (Fin 2) ℂ) (q : Nat) :
    PhaseEq unitPhases
      [gate1 (u3Mat (u3Angles u).1 (u3Angles u).2.1 (u3Angles u).2.2) q] [gate1 u q] := by
  obtain ⟨c, hc, e⟩ := T10_u3_decomposition u hu
  refine ⟨c, hc, fun ψ x => ?_⟩
  rw [e]
  exact applyGate_gate1_smul c u q ψ x

/-! ### the Lean `u3Mat` is qibo's `U3` matrix -/

/-- the expression matrix `u3Ex` (QV/Model/ZYZ.lean) denotes `u3Mat`. -/
theorem T10_u3Ex_denote (θ : Nat → ℝ) (i j : Nat) :
    denoteEntry θ u3Ex i j = localOf (u3Mat (θ 0) (θ 1) (θ 2)) i j := by
  rcases i with _ | _ | i <;> rcases j with _ | _ | j <;>
    simp [denoteEntry, u3Ex, Ex.denote, localOf, u3Mat]

/-- a traced 2×2 matrix that passes the kernel check against `u3Ex` (the generated obligation
    `C10_u3_matrix`, on the matrix of the real `gates.U3`) is `u3Mat` for all parameter values. -/
theorem T10_u3Mat_is_traced (m : List (List Ex)) (hm : m.length = 2)
    (h : matEqCheck 3 m u3Ex = true) (θ : Nat → ℝ) (i j : Nat) (hi : i < 2) (hj : j < 2) :
    denoteEntry θ m i j = localOf (u3Mat (θ 0) (θ 1) (θ 2)) i j := by
  rw [matEqCheck_sound 3 m u3Ex h θ i j (hm ▸ hi) (hm ▸ hj)]
  exact T10_u3Ex_denote θ i j

/-! ### non-vacuity: Pauli X (anti-diagonal, det = -1, the principal root is `i`) -/

theorem pauliX_unitary : (!![0, 1; 1, 0] : Matrix (Fin 2) (Fin 2) ℂ) ∈ Matrix.unitaryGroup (Fin 2) ℂ := by
  rw [Matrix.mem_unitaryGroup_iff]
  ext i j
  fin_cases i <;> fin_cases j <;> simp [Matrix.mul_apply, Fin.sum_univ_two, Matrix.star_apply]

example : ∃ c : ℂ, ‖c‖ = 1 ∧
    u3Mat (u3Angles !![0, 1; 1, 0]).1 (u3Angles !![0, 1; 1, 0]).2.1 (u3Angles !![0, 1; 1, 0]).2.2
      = c • (!![0, 1; 1, 0] : Matrix (Fin 2) (Fin 2) ℂ) :=
  T10_u3_decomposition _ pauliX_unitary

example : (‖(1 : ℂ)‖ ^ 2 + ‖(0 : ℂ)‖ ^ 2 = 1) := by simp

end QV.Props.C10
