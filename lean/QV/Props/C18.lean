/-
  C18 — quantum-information measures match their definitions (index bookkeeping part).

  The theorems are about the executable model QV/Model/Linalg.lean of
  `partial_trace` (both branches), `partial_transpose`, the reshape of
  `schmidt_decomposition` and the purity-type contractions of metrics.py; the model is run
  against the real qibo functions on every check (DriverC18.lean, exact Gaussian-integer data).
  SPEC side: `ptrace` (QV/Model/Fusion.lean) — the sum over all assignments of the traced
  qubits, row and column label receiving the same assignment, no order, no register size.

  All statements hold for every register size `n`, every traced / transposed list in any
  order, every matrix over any commutative semiring.
-/
import QV.Proofs.Linalg

namespace QV.Props.C18

open QV QV.Linalg Finset

variable {α : Type} [CommSemiring α]

/-! ## partial trace -/

/-- **density-matrix branch = definition.**  Entry `(b, c)` of `partial_trace(ρ, T)` is
`Σ_a ρ[(a,b),(a,c)]`: the SPEC partial trace read at the labels that carry `b` resp. `c` on
the kept qubits in ascending order — for any duplicate-free `T` in any order. -/
theorem T18_partial_trace_dm (n : Nat) (T : List Nat) (hn : T.Nodup) (ρ : DM α) (b c : Nat) :
    partialTraceDM n T ρ b c = ptrace T ρ (keptLab n T b) (keptLab n T c) :=
  partialTraceDM_eq_ptrace n hn ρ b c

/-- the same as an explicit sum, the traced qubits enumerated in the order the caller listed
them (the model enumerates them sorted, as the Python does). -/
theorem T18_partial_trace_dm_sum (n : Nat) (T : List Nat) (hn : T.Nodup) (ρ : DM α) (b c : Nat) :
    partialTraceDM n T ρ b c
      = ∑ a ∈ range (2 ^ T.length), ρ (lab2 T (kept n T) a b) (lab2 T (kept n T) a c) := by
  rw [partialTraceDM_eq_ptrace n hn, ptrace_eq_sum hn]
  apply sum_congr rfl
  intro a _
  simp only [lab2, keptLab, Lab.withIdx_eq_wIdx]

/-- **state-vector branch = definition applied to |ψ⟩⟨ψ|.** -/
theorem T18_partial_trace_sv (conj : α → α) (n : Nat) (T : List Nat) (hn : T.Nodup)
    (ψ : Lab → α) (b c : Nat) :
    partialTraceSV conj n T ψ b c
      = ptrace T (fun x y => ψ x * conj (ψ y)) (keptLab n T b) (keptLab n T c) :=
  partialTraceSV_eq_ptrace conj n hn ψ b c

/-- **the two branches agree**: tracing a state vector = tracing its projector. -/
theorem T18_partial_trace_sv_eq_dm (conj : α → α) (n : Nat) (T : List Nat) (hn : T.Nodup)
    (ψ : Lab → α) :
    partialTraceSV conj n T ψ = partialTraceDM n T (fun x y => ψ x * conj (ψ y)) := by
  funext b c
  rw [partialTraceSV_eq_ptrace conj n hn, partialTraceDM_eq_ptrace n hn]

/-- **the order of the traced qubits is irrelevant** (both branches). -/
theorem T18_partial_trace_order (n : Nat) (T T' : List Nat) (hn : T.Nodup) (h : T.Perm T')
    (ρ : DM α) : partialTraceDM n T ρ = partialTraceDM n T' ρ := by
  funext b c
  have hk : kept n T = kept n T' := kept_congr (fun q => h.mem_iff)
  rw [partialTraceDM_eq_ptrace n hn, partialTraceDM_eq_ptrace n (h.nodup_iff.mp hn),
    ptrace_perm h]
  simp only [keptLab, hk]

theorem T18_partial_trace_order_sv (conj : α → α) (n : Nat) (T T' : List Nat) (hn : T.Nodup)
    (h : T.Perm T') (ψ : Lab → α) : partialTraceSV conj n T ψ = partialTraceSV conj n T' ψ := by
  rw [T18_partial_trace_sv_eq_dm conj n T hn, T18_partial_trace_sv_eq_dm conj n T' (h.nodup_iff.mp hn),
    T18_partial_trace_order n T T' hn h]

/-- **trace preservation**: the trace of the reduced matrix is the trace of the input. -/
theorem T18_partial_trace_trace (n : Nat) (T : List Nat) (hn : T.Nodup) (hT : ∀ q ∈ T, q < n)
    (ρ : DM α) :
    ∑ b ∈ range (2 ^ (n - T.length)), partialTraceDM n T ρ b b
      = sumOver (List.range n) (fun y => ρ y y) zeroLab := by
  rw [← kept_length hn hT]
  exact trace_partialTraceDM n hn hT ρ

/-- **product states**: a tensor factor that lives on the kept qubits comes out of the
partial trace, what remains is the (partial) trace of the other factor. -/
theorem T18_partial_trace_product (n : Nat) (T : List Nat) (hn : T.Nodup) (A B : DM α)
    (hB : ∀ q ∈ T, ∀ (x y : Lab) (b b' : Bool), B (x.set q b) (y.set q b') = B x y)
    (b c : Nat) :
    partialTraceDM n T (fun x y => A x y * B x y) b c
      = partialTraceDM n T A b c * B (keptLab n T b) (keptLab n T c) := by
  rw [partialTraceDM_eq_ptrace n hn, partialTraceDM_eq_ptrace n hn, ptrace_mul_right T A B hB]

/-- **composition over disjoint sets**: tracing `S ++ T` at once is tracing `T`, then `S`,
and the two steps commute. -/
theorem T18_partial_trace_compose (n : Nat) (S T : List Nat) (hn : (S ++ T).Nodup) (ρ : DM α)
    (b c : Nat) :
    partialTraceDM n (S ++ T) ρ b c
        = ptrace S (ptrace T ρ) (keptLab n (S ++ T) b) (keptLab n (S ++ T) c)
      ∧ ptrace S (ptrace T ρ) = ptrace T (ptrace S ρ) := by
  refine ⟨?_, ptrace_comm S T ρ⟩
  rw [partialTraceDM_eq_ptrace n hn, ptrace_append]

/-- linearity (mixtures of states are traced term by term). -/
theorem T18_partial_trace_linear (n : Nat) (T : List Nat) (hn : T.Nodup) (c₁ c₂ : α)
    (ρ σ : DM α) (b c : Nat) :
    partialTraceDM n T (fun x y => c₁ * ρ x y + c₂ * σ x y) b c
      = c₁ * partialTraceDM n T ρ b c + c₂ * partialTraceDM n T σ b c := by
  simp only [partialTraceDM_eq_ptrace n hn]
  rw [ptrace_add T (fun x y => c₁ * ρ x y) (fun x y => c₂ * σ x y), ptrace_smul, ptrace_smul]

/-- a Hermitian input gives a Hermitian reduced matrix. -/
theorem T18_partial_trace_hermitian (conj : α → α)
    (hadd : ∀ a b, conj (a + b) = conj a + conj b) (n : Nat) (T : List Nat) (hn : T.Nodup)
    (ρ : DM α) (hρ : ∀ x y, ρ y x = conj (ρ x y)) (b c : Nat) :
    partialTraceDM n T ρ c b = conj (partialTraceDM n T ρ b c) := by
  rw [partialTraceDM_eq_ptrace n hn, partialTraceDM_eq_ptrace n hn]
  exact ptrace_hermitian conj hadd T ρ hρ _ _

/-! ## partial transpose -/

/-- the axis list `new_shape` of `partial_transpose` is an involutive permutation of the `2n`
axes that exchanges axis `q` with axis `q + n` exactly for the qubits of the partition. -/
theorem T18_partial_transpose_axes (n : Nat) (P : List Nat) (hP : ∀ q ∈ P, q < n) (m : Nat) :
    axesPT n P (axesPT n P m) = m
      ∧ (m < 2 * n → axesPT n P m < 2 * n)
      ∧ (m < n → axesPT n P m = if m ∈ P then m + n else m) := by
  refine ⟨axesPT_invol n P hP m, axesPT_lt n P hP, ?_⟩
  intro hm
  rw [axesPT_eq n P hP]
  have : ¬ (n ≤ m) := by omega
  simp [hm, this]

/-- **partial transpose = definition**: `O^{T_P}[x, y] = O[x with the P-bits of y, y with the
P-bits of x]` — for any partition list (any order, repetitions allowed). -/
theorem T18_partial_transpose {β : Type} (n : Nat) (P : List Nat) (hP : ∀ q ∈ P, q < n)
    (ρ : DM β) (hρ : LocalDM n ρ) (x y : Lab) :
    partialTranspose n P ρ x y = ρ (x.setMany P y) (y.setMany P x) :=
  partialTranspose_eq n P hP ρ hρ x y

/-- **involution**. -/
theorem T18_partial_transpose_invol {β : Type} (n : Nat) (P : List Nat) (hP : ∀ q ∈ P, q < n)
    (ρ : DM β) (hρ : LocalDM n ρ) :
    partialTranspose n P (partialTranspose n P ρ) = ρ := by
  funext x y
  rw [partialTranspose_eq n P hP _ (partialTranspose_local n P hP ρ),
    partialTranspose_eq n P hP ρ hρ]
  congr 1 <;> funext q <;> simp only [Lab.setMany] <;> split <;> rfl

/-- **the diagonal, hence the trace, is unchanged**. -/
theorem T18_partial_transpose_diag {β : Type} (n : Nat) (P : List Nat) (hP : ∀ q ∈ P, q < n)
    (ρ : DM β) (hρ : LocalDM n ρ) (x : Lab) : partialTranspose n P ρ x x = ρ x x := by
  rw [partialTranspose_eq n P hP ρ hρ]
  congr 1 <;> funext q <;> simp only [Lab.setMany] <;> split <;> rfl

/-- transposing every qubit is the ordinary transpose. -/
theorem T18_partial_transpose_full {β : Type} (n : Nat) (P : List Nat) (hP : ∀ q ∈ P, q < n)
    (hall : ∀ q, q < n → q ∈ P) (ρ : DM β) (hρ : LocalDM n ρ) (x y : Lab) :
    partialTranspose n P ρ x y = ρ y x := by
  rw [partialTranspose_eq n P hP ρ hρ]
  apply hρ <;> intro q hq <;> simp [Lab.setMany, hall q hq]

/-- only membership in the partition matters (order and repetitions do not). -/
theorem T18_partial_transpose_order {β : Type} (n : Nat) (P P' : List Nat)
    (hP : ∀ q ∈ P, q < n) (h : ∀ q, q ∈ P ↔ q ∈ P') (ρ : DM β) (hρ : LocalDM n ρ) :
    partialTranspose n P ρ = partialTranspose n P' ρ := by
  funext x y
  rw [partialTranspose_eq n P hP ρ hρ,
    partialTranspose_eq n P' (fun q hq => hP q ((h q).mpr hq)) ρ hρ]
  have e : ∀ u v : Lab, u.setMany P v = u.setMany P' v := by
    intro u v
    funext q
    simp only [Lab.setMany, List.contains_iff_mem, h q]
  rw [e, e]

/-! ## Schmidt reshape -/

omit [CommSemiring α] in
/-- the reshape/transposes of `schmidt_decomposition` are a bijection between amplitudes and
matrix entries: entry `(idx P x, idx kept x)` is the amplitude of `x`, and the label of entry
`(a, b)` has indices `(a, b)` again — the partition in the order the caller listed it. -/
theorem T18_schmidt_reshape (n : Nat) (P : List Nat) (hn : P.Nodup) (ψ : Lab → α) :
    (∀ x : Lab, (∀ q, n ≤ q → x q = false) →
        schmidtMat n P ψ (Lab.idx P x) (Lab.idx (kept n P) x) = ψ x)
    ∧ (∀ a b, a < 2 ^ P.length → b < 2 ^ (kept n P).length →
        Lab.idx P (lab2 P (kept n P) a b) = a ∧ Lab.idx (kept n P) (lab2 P (kept n P) a b) = b) :=
  ⟨fun x hx => schmidtMat_idx n P ψ x hx,
   fun _ _ ha hb => idx_lab2 hn (kept_nodup n P) kept_disjoint ha hb⟩

/-- **`M M†` of the Schmidt matrix is the reduced state on the partition**: the squared
Schmidt coefficients are the spectrum of `partial_trace(ψ, complement)`. -/
theorem T18_schmidt_gram (conj : α → α) (n : Nat) (P : List Nat) (ψ : Lab → α) (a a' : Nat) :
    ∑ b ∈ range (2 ^ (kept n P).length), schmidtMat n P ψ a b * conj (schmidtMat n P ψ a' b)
      = ptrace (kept n P) (fun x y => ψ x * conj (ψ y))
          (Lab.withIdx zeroLab P a) (Lab.withIdx zeroLab P a') :=
  schmidt_gram conj n P ψ a a'

/-! ## purity and the pure-state shortcuts of `fidelity` -/

/-- `purity(|ψ⟩⟨ψ|) = ‖ψ‖⁴`: the two branches of `purity` agree on pure states. -/
theorem T18_purity_pure (conj : α → α) (d : Nat) (ψ : Nat → α) :
    purityDM d (fun i k => ψ i * conj (ψ k)) = normSq conj d ψ * normSq conj d ψ :=
  purityDM_outer conj d ψ

/-- the shortcut `tr(ρσ)` is symmetric in its arguments, equals `⟨ψ|σ|ψ⟩` when `ρ` is the
projector on `ψ`, and `⟨ψ|φ⟩⟨φ|ψ⟩` when both are projectors (the state-vector formula). -/
theorem T18_fidelity_shortcut (conj : α → α) (d : Nat) (ψ φ : Nat → α) (ρ σ : Nat → Nat → α) :
    traceProd d ρ σ = traceProd d σ ρ
    ∧ traceProd d (fun i k => ψ i * conj (ψ k)) σ
        = ∑ k ∈ range d, ∑ i ∈ range d, conj (ψ k) * σ k i * ψ i
    ∧ traceProd d (fun i k => ψ i * conj (ψ k)) (fun i k => φ i * conj (φ k))
        = overlap conj d ψ φ * overlap conj d φ ψ :=
  ⟨traceProd_comm d ρ σ, traceProd_outer_left conj d ψ σ, traceProd_outer_outer conj d ψ φ⟩

/-- ... and `⟨φ|ψ⟩ = conj ⟨ψ|φ⟩`, so the last product is `|⟨ψ|φ⟩|²`. -/
theorem T18_overlap_conj (conj : α → α) (hadd : ∀ a b, conj (a + b) = conj a + conj b)
    (hmul : ∀ a b, conj (a * b) = conj a * conj b) (h0 : conj 0 = 0)
    (hinv : ∀ a, conj (conj a) = a) (d : Nat) (ψ φ : Nat → α) :
    overlap conj d φ ψ = conj (overlap conj d ψ φ) :=
  overlap_conj conj hadd hmul h0 hinv d ψ φ

/-! ## non-vacuity: the hypotheses are satisfiable, the model computes -/

/-- an unsorted traced list is admissible. -/
example : ([2, 0] : List Nat).Nodup ∧ ∀ q ∈ ([2, 0] : List Nat), q < 3 := by decide

example : ([2, 0] : List Nat).Perm [0, 2] := by decide

/-- a concrete 2-qubit integer matrix `ρ[i,j] = 4 i + j + 1`, traced over qubit 1 and over
qubit 0: the model gives the textbook values. -/
def ρ0 : DM Int := fun x y => 4 * (Lab.toIndex 2 x : Int) + (Lab.toIndex 2 y : Int) + 1

example : partialTraceDM 2 [1] ρ0 0 0 = 7 ∧ partialTraceDM 2 [1] ρ0 0 1 = 11
    ∧ partialTraceDM 2 [1] ρ0 1 0 = 23 ∧ partialTraceDM 2 [1] ρ0 1 1 = 27 := by decide

example : partialTraceDM 2 [0] ρ0 0 1 = 14 ∧ partialTraceDM 2 [1, 0] ρ0 0 0 = 34 := by decide

/-- `ρ0` reads only the two qubits of its register. -/
example : LocalDM 2 ρ0 := by
  intro x x' y y' hx hy
  have e : ∀ u v : Lab, (∀ q, q < 2 → u q = v q) → Lab.toIndex 2 u = Lab.toIndex 2 v := by
    intro u v h
    simp [Lab.toIndex, Lab.idx, List.range, List.range.loop, h 0 (by omega), h 1 (by omega)]
  simp only [ρ0, e x x' hx, e y y' hy]

/-- partial transpose on qubit 1 of `ρ0` swaps entries (0,1) ↔ (1,0) inside each block. -/
example : partialTranspose 2 [1] ρ0 (Lab.ofIndex 2 0) (Lab.ofIndex 2 1) = 5
    ∧ partialTranspose 2 [1] ρ0 (Lab.ofIndex 2 1) (Lab.ofIndex 2 0) = 2 := by decide

/-- a factor living on the kept qubit 0 does not look at the traced qubit 1. -/
example : ∀ q ∈ ([1] : List Nat), ∀ (x y : Lab) (b b' : Bool),
    (fun u v : Lab => if u 0 = v 0 then (1 : Int) else 0) (x.set q b) (y.set q b')
      = (fun u v : Lab => if u 0 = v 0 then (1 : Int) else 0) x y := by
  intro q hq x y b b'
  have : q = 1 := by simpa using hq
  subst this
  simp [Lab.set]

/-- complex conjugation on Gaussian integers `(a, b) ↦ (a, -b)` satisfies the hypotheses asked
of `conj`; here for the trivial conjugation of `Int`. -/
example : (∀ a b : Int, id (a + b) = id a + id b) ∧ (∀ a b : Int, id (a * b) = id a * id b)
    ∧ id (0 : Int) = 0 ∧ ∀ a : Int, id (id a) = a := ⟨fun _ _ => rfl, fun _ _ => rfl, rfl, fun _ => rfl⟩

end QV.Props.C18
