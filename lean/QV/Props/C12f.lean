/-
  C12 (part f) — refusal: the acceptance test of `CliffordBackend.execute_circuit` and the run of
  an accepted circuit, as ONE function (`execute`, QV/Model/CliffordAccept.lean; compared with the
  real backend on every run: refusal / other exception / tableau and outcomes).

  * `T12_accept_iff_flags`, `T12_refused_iff` : the circuit is refused (RuntimeError) exactly
    when some entry other than `M` / `PauliNoiseChannel` has `clifford == False`; position,
    neighbours, measurements and the initial state do not matter.
  * `T12_refusal_monotone` : adding entries never turns a refused circuit into an accepted one.
  * `T12_accepted_run_is_fold` : an accepted circuit without collapsing measurement is executed
    as the fold `runGates` of the tableau operations of its entries, from `zero_state` or the
    given initial state — the function all other C12 theorems are about; non-collapsing `M`
    entries do not touch the state.
  * `T12_accepted_agrees_with_statevector` : so refusal clause and agreement clause are about the
    same function: accepted ⟹ the tableau describes the state-vector result (`TabState`).
  * `T12_accepted_collapse_is_measure`, `T12_accepted_collapse_born` : a collapsing `M` applies the
    measurement routine `measure` (C12c/d) to the sorted qubits and reports the bits in gate
    order; the returned bits have non-zero Born probability.
  * `T12_flag_without_operation` : a flagged gate for which the engine has no operation never
    yields a tableau (an exception, not a wrong state).
  * `T12_repeated_*` : `execute_circuit_repeated` — every shot is the single run from the SAME
    initial state; with an initial tableau prepared by a circuit the final samples have non-zero
    Born probability in the state of (preparation ++ circuit).
-/
import QV.Props.C12e
import QV.Proofs.CliffordAccept
namespace QV.Props.C12
open QV QV.Cliff

/-- accept ⇔ every gate's flag is true (`M` and `PauliNoiseChannel` entries are exempt). -/
theorem T12_accept_iff_flags (c : List QItem) :
    accepts c = true ↔ ∀ flag op, QItem.gate flag op ∈ c → flag = true := accepts_iff_flags c

/-- `execute` answers "refused" exactly when an unflagged gate occurs somewhere in the queue —
whatever the initial state, the register size and the random bits. -/
theorem T12_refused_iff (n : Nat) (init : Option Tableau) (c : List QItem) (coins : List Bool) :
    execute n init c coins = Res.refused ↔ ∃ op, QItem.gate false op ∈ c := by
  rw [← not_accepts_iff]
  unfold execute
  cases ha : accepts c with
  | false => simp
  | true =>
    simp only [if_true]
    cases execItems n c (init.getD (zeroState n)) coins [] with
    | none => simp
    | some p => simp

/-- refusal is monotone: a circuit with a refused part is refused. -/
theorem T12_refusal_monotone (n : Nat) (init : Option Tableau) (a b c : List QItem)
    (coins coins' : List Bool) (h : execute n init b coins = Res.refused) :
    execute n init (a ++ b ++ c) coins' = Res.refused := by
  rw [T12_refused_iff] at h ⊢
  obtain ⟨op, hm⟩ := h
  exact ⟨op, by simp [hm]⟩

/-- an accepted circuit whose entries are gates with an engine operation, non-collapsing
measurements and noise draws is executed as the fold of its tableau operations. -/
theorem T12_accepted_run_is_fold (n : Nat) (init : Option Tableau) (c : List QItem)
    (coins : List Bool) (hacc : accepts c = true) (hu : ∀ it ∈ c, it.unitary = true) :
    execute n init c coins = Res.done (runGates (opsOf c) (init.getD (zeroState n))) [] := by
  unfold execute
  rw [if_pos hacc, execItems_unitary n c hu]

/-- in particular a list of flagged Clifford gates: `execute` is `runGates` on the zero state. -/
theorem T12_accepted_gates (n : Nat) (gs : List Gate) (coins : List Bool) :
    execute n none (gs.map fun g => QItem.gate true (some g)) coins
      = Res.done (runGates gs (zeroState n)) [] := by
  have hops : ∀ l : List Gate, opsOf (l.map fun g => QItem.gate true (some g)) = l := by
    intro l; induction l with
    | nil => rfl
    | cons g l ih => simp [opsOf, ih]
  have := T12_accepted_run_is_fold n none (gs.map fun g => QItem.gate true (some g)) coins
    ((T12_accept_iff_flags _).2 (fun flag op hm => by
      simp only [List.mem_map] at hm
      obtain ⟨g, _, hg⟩ := hm
      cases hg; rfl))
    (fun it hm => by
      simp only [List.mem_map] at hm
      obtain ⟨g, _, rfl⟩ := hm
      rfl)
  rw [hops] at this
  exact this

/-- **refusal clause and agreement clause are about the same function**: whenever `execute`
accepts such a circuit (from the zero state, operations on valid qubits), the tableau it returns
describes the state vector of the state-vector simulator for the same operations. -/
theorem T12_accepted_agrees_with_statevector (n : Nat) (c : List QItem) (coins : List Bool)
    (hacc : accepts c = true) (hu : ∀ it ∈ c, it.unitary = true) (hok : ∀ g ∈ opsOf c, g.ok n) :
    ∃ T, execute n none c coins = Res.done T [] ∧ TabState n T (runSV n (opsOf c)) :=
  ⟨_, T12_accepted_run_is_fold n none c coins hacc hu, T12_tabstate_execution n (opsOf c) hok⟩

/-- a collapsing `M` after a unitary part: the tableau is the one the measurement routine
`measure` returns on the sorted target qubits, the bits are reported in gate order. -/
theorem T12_accepted_collapse_is_measure (n : Nat) (init : Option Tableau) (pre : List QItem)
    (qs : List Nat) (coins : List Bool) (hacc : accepts pre = true)
    (hu : ∀ it ∈ pre, it.unitary = true) :
    let T := runGates (opsOf pre) (init.getD (zeroState n))
    let r := measure n T (sortNat qs) (coins.take (sortNat qs).length)
    execute n init (pre ++ [QItem.meas qs true]) coins
      = Res.done r.1 [qs.map fun q => (r.2.getD (indexIn q (sortNat qs)) (false, false)).1] := by
  intro T r
  unfold execute
  have hacc' : accepts (pre ++ [QItem.meas qs true]) = true := by
    rw [accepts_append, hacc]; rfl
  rw [if_pos hacc', execItems_unitary_prefix n pre _ hu]
  rfl

/-- … and the bits it returns have non-zero Born probability in the state-vector result of the
unitary part (by `T12_measurement_sequence_born`). -/
theorem T12_accepted_collapse_born (n : Nat) (pre : List QItem) (qs : List Nat) (coins : List Bool)
    (hok : ∀ g ∈ opsOf pre, g.ok n) (hqs : ∀ q ∈ qs, q < n) :
    let T := runGates (opsOf pre) (zeroState n)
    let r := measure n T (sortNat qs) (coins.take (sortNat qs).length)
    ∃ x : Lab, (∀ qb ∈ (sortNat qs).zip (r.2.map Prod.fst), x qb.1 = qb.2) ∧
      runSV n (opsOf pre) x ≠ 0 :=
  T12_measurement_sequence_born n (opsOf pre) hok (sortNat qs)
    (fun q hq => hqs q ((mem_sortNat q qs).1 hq)) _

/-- a flagged gate the engine has no operation for (after a unitary part): no tableau is
returned — an exception other than the refusal, never a wrong state. -/
theorem T12_flag_without_operation (n : Nat) (init : Option Tableau) (pre rest : List QItem)
    (coins : List Bool) (hacc : accepts (pre ++ QItem.gate true none :: rest) = true)
    (hu : ∀ it ∈ pre, it.unitary = true) :
    execute n init (pre ++ QItem.gate true none :: rest) coins = Res.engineError := by
  unfold execute
  rw [if_pos hacc, execItems_no_operation n pre rest true hu]

/-! ### repeated execution (`execute_circuit_repeated`) -/

/-- every shot of the repeated execution is the single run of the circuit from the SAME initial
state (with the shot's own random bits). -/
theorem T12_repeated_shot_is_single_run (n : Nat) (init : Option Tableau) (c : List QItem)
    (finalQs : List Nat) (shots : List (List Bool × List Bool)) :
    (executeRepeated n init c finalQs shots).map Prod.fst
      = shots.map (fun s => execute n init c s.1) := by
  simp only [executeRepeated, List.map_map]
  refine List.map_congr_left (fun s _ => ?_)
  simp only [Function.comp, shotOf]
  cases execute n init c s.1 <;> rfl

/-- a shot is refused exactly when the single run is. -/
theorem T12_repeated_refused_iff (n : Nat) (init : Option Tableau) (c : List QItem)
    (finalQs : List Nat) (coins fcoins : List Bool) :
    (shotOf n init c finalQs coins fcoins).1 = Res.refused ↔ ∃ op, QItem.gate false op ∈ c := by
  rw [← T12_refused_iff n init c coins]
  unfold shotOf
  cases execute n init c coins <;> simp

/-- a shot of an accepted circuit without collapse: the fold of its operations from the initial
state, then the final sample is the measurement routine on that tableau. -/
theorem T12_repeated_unitary_shot (n : Nat) (init : Option Tableau) (c : List QItem)
    (finalQs : List Nat) (coins fcoins : List Bool) (hacc : accepts c = true)
    (hu : ∀ it ∈ c, it.unitary = true) :
    shotOf n init c finalQs coins fcoins
      = (Res.done (runGates (opsOf c) (init.getD (zeroState n))) [],
         (measure n (runGates (opsOf c) (init.getD (zeroState n))) finalQs fcoins).2.map Prod.fst) := by
  unfold shotOf
  rw [T12_accepted_run_is_fold n init c coins hacc hu]

/-- … and with an initial tableau prepared by a Clifford circuit `prep`, the final sample of
every shot has non-zero Born probability in the state vector of `prep` followed by the circuit —
not of the circuit from `|0…0⟩`. -/
theorem T12_repeated_shot_born (n : Nat) (prep : List Gate) (c : List QItem) (finalQs : List Nat)
    (coins fcoins : List Bool) (hacc : accepts c = true) (hu : ∀ it ∈ c, it.unitary = true)
    (hprep : ∀ g ∈ prep, g.ok n) (hok : ∀ g ∈ opsOf c, g.ok n) (hq : ∀ q ∈ finalQs, q < n) :
    ∃ x : Lab,
      (∀ qb ∈ finalQs.zip (shotOf n (some (runGates prep (zeroState n))) c finalQs coins fcoins).2,
        x qb.1 = qb.2) ∧ runSV n (prep ++ opsOf c) x ≠ 0 := by
  rw [T12_repeated_unitary_shot n _ c finalQs coins fcoins hacc hu]
  simp only [Option.getD_some]
  have e : runGates (opsOf c) (runGates prep (zeroState n)) = runGates (prep ++ opsOf c) (zeroState n) := by
    simp [runGates, List.foldl_append]
  rw [e]
  exact T12_measurement_sequence_born n (prep ++ opsOf c)
    (fun g hg => by
      rcases List.mem_append.1 hg with h | h
      · exact hprep g h
      · exact hok g h) finalQs hq fcoins

/-! ### non-vacuity / instances -/

/-- an accepted circuit with a reporting measurement and a noise draw (hypotheses of
`T12_accepted_run_is_fold`). -/
example :
    let c := [QItem.gate true (some (Gate.H 0)), .meas [0] false, .noise (some (Gate.X 1)),
      .gate true (some (Gate.CNOT 0 1))]
    accepts c = true ∧ (∀ it ∈ c, it.unitary = true) ∧
      (opsOf c).map Gate.qubits = [[0], [1], [0, 1]] := by decide

/-- a T gate (flag false) anywhere refuses, also behind a measurement. -/
example : accepts [QItem.gate true (some (Gate.H 0)), .meas [0] true, .gate false none] = false := by
  decide

/-- Bell pair, collapsing measurement of qubits (1, 0) with coin `1`: both reported bits are 1. -/
example :
    (match execute 2 none [QItem.gate true (some (Gate.H 0)), .gate true (some (Gate.CNOT 0 1)),
        .meas [1, 0] true] [true] with
      | Res.done _ outs => outs
      | _ => []) = [[true, true]] := by decide

/-- repeated execution from the initial state `|10⟩`: `M(0, collapse)` is determined (1), and
after `CNOT(0,1)` the final sample is `11` in every shot, whatever the coins. -/
example :
    let init := some (runGates [Gate.X 0] (zeroState 2))
    let c := [QItem.meas [0] true, .gate true (some (Gate.CNOT 0 1)), .meas [0, 1] false]
    (executeRepeated 2 init c [0, 1] [([false], [false, false]), ([true], [false, true])]).map Prod.snd
      = [[true, true], [true, true]] := by decide

/-- `sorted` really sorts (used for the collapsing measurement). -/
example : sortNat [3, 0, 2, 1] = [0, 1, 2, 3] ∧ indexIn 2 [0, 1, 2, 3] = 2 := by decide

end QV.Props.C12
