/-
  C14 (continued) — the parallel helpers of src/qibo/parallel.py as a scheduler-parameterised
  state machine (QV/Model/Parallel.lean; lemmas in QV/Proofs/Parallel.lean).

  What is PROVED here is about the model: jobs are straight-line programs of atomic instructions
  ([deep copy] ; one write per parameter ; reset of the measurement gates' shared results ; one
  step per gate, which reads its parameter at that moment ; `_final_state`), a schedule is an
  arbitrary list of job numbers (every interleaving of any number of workers is one).  Under the
  copy discipline the real helpers implement — `Disciplined`: no job writes parameters of an
  object another job reads — every job returns, under EVERY schedule, what it returns when run
  alone, i.e. the helper returns the sequential map; without the copy a concrete schedule gives a
  different answer (kernel-evaluated witness), so the discipline is the protection.

  What is TIED BY OBSERVATION (tools/props/C14.py, suite `parallel-model`): that the real helpers
  hand the workers the objects the model says (identity classes of circuit / gate / measurement
  result objects, the caller's object or a copy, parameters at execute time), and that the real
  helpers, run under harness-imposed schedules of the instrumented steps, produce per job the
  parameter reads and results this model computes for the observed schedule.  Preemption of
  CPython threads inside an instrumented step cannot be exhibited by a theorem.
-/
import QV.Proofs.Parallel
namespace QV.Props.C14
open QV.Par

variable {V S : Type}

/-- non-interference, every schedule: under the copy discipline what job `j` returns after a
schedule is what it returns after the projection of that schedule on its own turns. -/
theorem T14_par_projection (apply : Nat → Option V → S → S) (heap : List (Circ V))
    (jobs : List (Job V S)) (hd : Disciplined jobs) (job : Job V S) (j : Nat)
    (hj : jobs[j]? = some job) (sched : List Nat) :
    result jobs (run apply jobs (init heap jobs) sched) j =
      result jobs (run apply jobs (init heap jobs) (List.replicate (sched.count j) j)) j := by
  have m := run_proj apply jobs hd job j hj sched _ _ (match_refl job j (init heap jobs))
  rw [result_of_match jobs job j _ _ m, List.filter_beq]

/-- EVERY schedule (any interleaving, any number of workers, complete or not): a job has a
result exactly when it got as many turns as its program is long, and the result is
`execute(circuit with the job's own parameters, the job's input)` — the gate loop over the
parameters of the source object overwritten by the job's own `set_parameters`. -/
theorem T14_par_every_schedule (apply : Nat → Option V → S → S) (heap : List (Circ V))
    (jobs : List (Job V S)) (hd : Disciplined jobs) (job : Job V S) (j : Nat)
    (hj : jobs[j]? = some job) (ha : job.circ < heap.length) (sched : List Nat) :
    result jobs (run apply jobs (init heap jobs) sched) j =
      if (prog job).length ≤ sched.count j then some (seqResult apply heap job) else none := by
  split
  · next hc =>
    rw [result_complete apply heap jobs hd job j hj sched hc, result_alone apply heap jobs job j hj,
      execList_prog apply j job heap ha]
  · next hc =>
    exact result_incomplete apply heap jobs hd job j hj sched (Nat.lt_of_not_le hc)

/-- the list the helper returns, for every complete schedule: the sequential map. -/
theorem T14_par_results_sequential (apply : Nat → Option V → S → S) (heap : List (Circ V))
    (jobs : List (Job V S)) (hd : Disciplined jobs) (hh : ∀ job ∈ jobs, job.circ < heap.length)
    (sched : List Nat) (hc : Complete jobs sched) :
    results jobs (run apply jobs (init heap jobs) sched) =
      jobs.map fun job => some (seqResult apply heap job) := by
  apply List.ext_getElem?
  intro i
  simp only [results, List.getElem?_map]
  by_cases hi : i < jobs.length
  · have hj : jobs[i]? = some jobs[i] := List.getElem?_eq_getElem hi
    rw [List.getElem?_range hi, hj]
    simp only [Option.map_some]
    rw [T14_par_every_schedule apply heap jobs hd jobs[i] i hj (hh _ (List.getElem_mem hi)) sched,
      if_pos (hc i jobs[i] hj)]
  · have h1 : (List.range jobs.length)[i]? = none := List.getElem?_eq_none (by simpa using hi)
    have h2 : jobs[i]? = none := List.getElem?_eq_none (Nat.le_of_not_lt hi)
    rw [h1, h2]; rfl

/-- any number of workers gives what the plain loop `[operation(job) for job in jobs]` gives. -/
theorem T14_par_equals_sequential_loop (apply : Nat → Option V → S → S) (heap : List (Circ V))
    (jobs : List (Job V S)) (hd : Disciplined jobs) (hh : ∀ job ∈ jobs, job.circ < heap.length)
    (sched : List Nat) (hc : Complete jobs sched) :
    results jobs (run apply jobs (init heap jobs) sched) =
      results jobs (run apply jobs (init heap jobs) (seqSched jobs)) := by
  rw [T14_par_results_sequential apply heap jobs hd hh sched hc,
    T14_par_results_sequential apply heap jobs hd hh (seqSched jobs) (seqSched_complete jobs)]

/-- `parallel_execution(circuit, states, processes=k)`: the object is shared and nobody writes
its parameters, so for every complete schedule result `i` is the execution on `states[i]`. -/
theorem T14_par_execution (apply : Nat → Option V → S → S) (c : Circ V) (ngates : Nat)
    (states : List S) (sched : List Nat) (hc : Complete (parExecution (V := V) ngates states) sched) :
    results (parExecution ngates states)
        (run apply (parExecution ngates states) (init [c] (parExecution ngates states)) sched) =
      states.map fun s => some (gateLoop apply c.params ngates s) := by
  rw [T14_par_results_sequential apply [c] _ (parExecution_disciplined ngates states) ?_ sched hc]
  · simp [parExecution, seqResult, expected, applyWrites, paramsAt, List.map_map, Function.comp_def]
  · intro job hjob
    simp only [parExecution, List.mem_map] at hjob
    obtain ⟨s, _, rfl⟩ := hjob
    simp

/-- `parallel_circuits_execution(circuits, states, processes=k)`: the caller's objects, possibly
the same one several times; nobody writes parameters, so every complete schedule returns the
execution of circuit `i` on state `i`. -/
theorem T14_par_circuits (apply : Nat → Option V → S → S) (heap : List (Circ V))
    (addrs : List (Nat × Nat)) (states : List S) (dflt : S)
    (hh : ∀ a ∈ addrs, a.1 < heap.length) (sched : List Nat)
    (hc : Complete (parCircuits (V := V) addrs states dflt) sched) :
    results (parCircuits addrs states dflt)
        (run apply (parCircuits addrs states dflt) (init heap (parCircuits addrs states dflt)) sched) =
      (parCircuits (V := V) addrs states dflt).map fun job =>
        some (gateLoop apply (paramsAt heap job.circ) job.ngates job.input) := by
  rw [T14_par_results_sequential apply heap _ (parCircuits_disciplined addrs states dflt) ?_ sched hc]
  · apply List.map_congr_left
    intro job hjob
    simp only [parCircuits, List.mem_map] at hjob
    obtain ⟨s, _, rfl⟩ := hjob
    simp [seqResult, expected, applyWrites]
  · intro job hjob
    simp only [parCircuits, List.mem_map] at hjob
    obtain ⟨s, hs, rfl⟩ := hjob
    exact hh _ (List.of_mem_zip hs).1

/-- `parallel_parametrized_execution(circuit, parameters, initial_state, processes=k)`: with a
deep copy per job, every complete schedule returns, for parameter set `i`, the execution of the
caller's circuit with exactly these parameters written over its own. -/
theorem T14_par_parametrized (apply : Nat → Option V → S → S) (c : Circ V) (ngates : Nat)
    (slots : List Nat) (params : List (List V)) (input : S) (sched : List Nat)
    (hc : Complete (parParametrized ngates slots params input) sched) :
    results (parParametrized ngates slots params input)
        (run apply (parParametrized ngates slots params input)
          (init (paramHeap c params.length) (parParametrized ngates slots params input)) sched) =
      params.map fun p => some (gateLoop apply (applyWrites c.params (List.zip slots p)) ngates input) := by
  rw [T14_par_results_sequential apply _ _ (parParametrized_disciplined ngates slots params input) ?_ sched hc]
  · have hsnd : ((List.zip (List.range params.length) params).map Prod.snd) = params :=
      List.map_snd_zip (by simp)
    conv => rhs; rw [← hsnd]
    simp [parParametrized, List.map_map, Function.comp_def, seqResult, expected, paramHeap, paramsAt]
  · intro job hjob
    obtain ⟨i, hi⟩ := List.getElem?_of_mem hjob
    obtain ⟨p, hp, rfl⟩ := parParametrized_get ngates slots params input i job hi
    have : i < params.length := (List.getElem?_eq_some_iff.mp hp).1
    simp [paramHeap]; omega

/-- and the caller's circuit object is left as it was — parameters, shared measurement results,
`_final_state` — whatever the schedule, complete or not. -/
theorem T14_par_parametrized_original_untouched (apply : Nat → Option V → S → S) (c : Circ V)
    (ngates : Nat) (slots : List Nat) (params : List (List V)) (input : S) (sched : List Nat) :
    (run apply (parParametrized ngates slots params input)
        (init (paramHeap c params.length) (parParametrized ngates slots params input)) sched).heap[0]? =
      some c := by
  rw [heap_untouched apply _ 0 ?_ sched]
  · rfl
  · intro job hjob
    obtain ⟨i, hi⟩ := List.getElem?_of_mem hjob
    obtain ⟨p, _, rfl⟩ := parParametrized_get ngates slots params input i job hi
    simp

/-- non-vacuity: three parameter sets, an interleaved schedule of the 3 × 6 instructions. -/
example :
    results (parParametrized 2 [1] [[5], [7], [9]] [])
      (run logApply (parParametrized 2 [1] [[5], [7], [9]] [])
        (init (paramHeap { params := [4, 0] } 3) (parParametrized 2 [1] [[5], [7], [9]] []))
        [0, 1, 2, 2, 1, 0, 0, 1, 2, 2, 1, 0, 0, 1, 2, 2, 1, 0])
      = [some [4, 5], some [4, 7], some [4, 9]] := by decide

example : completeB (parParametrized 2 [1] [[5], [7], [9]] ([] : List Nat))
    [0, 1, 2, 2, 1, 0, 0, 1, 2, 2, 1, 0, 0, 1, 2, 2, 1, 0] = true := by decide

/-- THE COPY IS THE PROTECTION: the same helper handing every worker the caller's object (no
`circuit.copy(deep=True)`) is not disciplined, and a complete two-worker schedule — worker 1
sets its parameters between worker 0's `set_parameters` and worker 0's gate loop — returns
worker 1's parameters for job 0, while the plain loop returns the right list. -/
theorem T14_par_shared_set_differs :
    disciplinedB (parParametrizedShared 1 [0] [[5], [7]] ([] : List Nat)) = false ∧
    completeB (parParametrizedShared 1 [0] [[5], [7]] ([] : List Nat)) [0, 1, 0, 0, 0, 1, 1, 1] = true ∧
    results (parParametrizedShared 1 [0] [[5], [7]] [])
      (run logApply (parParametrizedShared 1 [0] [[5], [7]] [])
        (init [{ params := [0] }] (parParametrizedShared 1 [0] [[5], [7]] [])) [0, 1, 0, 0, 0, 1, 1, 1])
      = [some [7], some [7]] ∧
    results (parParametrizedShared 1 [0] [[5], [7]] [])
      (run logApply (parParametrizedShared 1 [0] [[5], [7]] [])
        (init [{ params := [0] }] (parParametrizedShared 1 [0] [[5], [7]] []))
        (seqSched (parParametrizedShared 1 [0] [[5], [7]] ([] : List Nat))))
      = [some [5], some [7]] := by decide

/-- a write in the MIDDLE of another worker's gate loop mixes two parameter sets in one result:
gates are atomic steps, not executions. -/
theorem T14_par_shared_set_mixes :
    results (parParametrizedShared 2 [0, 1] [[5, 5], [7, 7]] [])
      (run logApply (parParametrizedShared 2 [0, 1] [[5, 5], [7, 7]] [])
        (init [{ params := [0, 0] }] (parParametrizedShared 2 [0, 1] [[5, 5], [7, 7]] []))
        [0, 0, 0, 0, 1, 1, 0, 0, 1, 1, 1, 1])
      = [some [5, 7], some [7, 7]] := by decide

/-- `circuit._final_state` of a SHARED object is the result of whichever job finished last: it
depends on the schedule although the returned lists do not (so after `parallel_execution` the
property speaks about the returned results, not about `circuit.final_state`). -/
theorem T14_par_final_state_is_last_finisher :
    (results (parExecution (V := Nat) 1 [[1], [2]])
        (run logApply (parExecution 1 [[1], [2]]) (init [{ params := [3] }] (parExecution 1 [[1], [2]]))
          [0, 0, 0, 1, 1, 1])
      = results (parExecution (V := Nat) 1 [[1], [2]])
        (run logApply (parExecution 1 [[1], [2]]) (init [{ params := [3] }] (parExecution 1 [[1], [2]]))
          [1, 0, 1, 0, 1, 0])) ∧
    ((run logApply (parExecution 1 [[1], [2]]) (init [{ params := [3] }] (parExecution 1 [[1], [2]]))
          [0, 0, 0, 1, 1, 1]).heap.map (·.final) = [some 1]) ∧
    ((run logApply (parExecution 1 [[1], [2]]) (init [{ params := [3] }] (parExecution 1 [[1], [2]]))
          [1, 0, 1, 0, 1, 0]).heap.map (·.final) = [some 0]) := by decide

/-! ### seeds and the one global generator -/

/-- plain circuits through any helper with any number of workers: the executions draw nothing,
whatever the schedule — the generator is only consumed by the accessors, called afterwards by the
caller, so "same seed ⇒ same samples" is the statement `T14_seed_reproducible` about that
accessor history and does not depend on the number of workers. -/
theorem T14_par_tape_no_draws (progs : List (List Bool)) (h : ∀ p ∈ progs, ∀ b ∈ p, b = false)
    (sched : List Nat) :
    (tapeRun progs sched).cursor = 0 ∧ (tapeRun progs sched).got = progs.map fun _ => [] :=
  tapeRun_no_draws progs h sched (tapeInit progs)

example : ∀ p ∈ [[false, false], [false]], ∀ b ∈ p, b = false := by decide

/-- repeated executions (noise on state vectors, collapses) draw INSIDE the workers from the one
global generator: which answers a job is given depends on the schedule — with two workers the
same seed does not determine the samples of a job (the model is a deterministic function of
(schedule, generator), not of the generator alone); with one worker (`tapeSeq`) job `j` is given
the block that follows the blocks of the jobs before it. -/
theorem T14_par_tape_schedule_dependent :
    (tapeRun [[true, false, true], [true, true]] [0, 0, 0, 1, 1]).got = [[0, 1], [2, 3]] ∧
    (tapeRun [[true, false, true], [true, true]] [1, 0, 0, 1, 0]).got = [[1, 3], [0, 2]] ∧
    tapeSeq [[true, false, true], [true, true]] = [0, 0, 0, 1, 1] := by decide

end QV.Props.C14
